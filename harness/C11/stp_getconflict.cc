// C11: the conflict of the difference-logic solver.  Real: STPSolver<SafeInt>::getConflict, Converter<SafeInt>::negate,
// STPStore::createEdge/setNegation/getNegation/getEdge, STPMapper::mapEdge/getEdgeRef, STPGraphManager::isTrue.
// The edge pair of the atom is built exactly as STPSolver::declareAtom does (createEdge(y,x,c); createEdge(x,y,negate(c));
// setNegation; mapEdge), the inconsistent state exactly as assertLit leaves it (inv_asgn = the literal whose complementary edge
// already holds).  STPGraphManager::findExplanation is cut (records the edge it is asked to explain).
#include "stu_arith.h"
#include "tsolvers/stpsolver/IDLSolver.h"
#include "tsolvers/stpsolver/STPSolver_implementations.hpp"
using namespace opensmt;
using namespace stu;
using Solver = STPSolver<SafeInt>;

union RawLogic { ArithLogic l; RawLogic() {} ~RawLogic() {} };
union RawSolver { IDLSolver s; RawSolver() {} ~RawSolver() {} };
static RawLogic rawLogic; static RawSolver rawSolver;

static uint32_t explained_edge; static int explain_calls; static int n_path; static PtAsgn path_asgn[2];
extern "C" void stub_findExplanation(STPGraphManager<SafeInt> *, EdgeRef e, vec<PtAsgn> * out) {
    explained_edge = e.x; explain_calls++;
    for (int i = 0; i < 2; i++) if (i < n_path) out->push(path_asgn[i]);
}

// the atom denotes  vy - vx <= c  (edge y --c--> x)
template <bool POSITIVE> static void get_conflict() {
    init_logic(&rawLogic.l);
    PTRef A = mk(K_LEQ, SYM_LEQ, 0), B = mk(K_LEQ, SYM_LEQ, 0);
    int64_t c = nondet_i64();
    int64_t vx = nondet_i64(), vy = nondet_i64();
    VASSUME(vx >= -(1ll << 40) && vx <= (1ll << 40) && vy >= -(1ll << 40) && vy <= (1ll << 40));
    Solver & s = rawSolver.s;
    *(reinterpret_cast<ArithLogic **>(&s.store) - 1) = &rawLogic.l;
    VASSERT(&s.logic == &rawLogic.l, "harness: layout of STPSolver::logic as expected");
    new (&s.store) STPStore<SafeInt>();
    new (&s.mapper) STPMapper<SafeInt>(rawLogic.l, s.store);
    new (&s.graphMgr) STPGraphManager<SafeInt>(s.store, s.mapper);
    VertexRef x = s.store.createVertex(), y = s.store.createVertex();
    // as in declareAtom
    EdgeRef e = s.store.createEdge(y, x, SafeInt((ptrdiff_t)c));
    EdgeRef neg = s.store.createEdge(x, y, Converter<SafeInt>::negate(SafeInt((ptrdiff_t)c)));
    s.store.setNegation(e, neg);
    s.mapper.mapEdge(A, e);
    auto holds = [&](EdgeRef r) { auto const & ed = s.store.getEdge(r); int64_t f = ed.from == x ? vx : vy, t = ed.to == x ? vx : vy; return f - t <= ed.cost.value(); };
    VASSERT(holds(e) == (vy - vx <= c), "the edge of the atom denotes the atom");
    VASSERT(holds(e) != holds(neg), "the negation edge (cost from Converter::negate) is the exact integer complement of the edge");
    // state after assertLit detected the inconsistency: the literal (A, POSITIVE) was asserted while its complementary edge held
    PtAsgn lit(A, POSITIVE ? l_True : l_False);
    EdgeRef complement = POSITIVE ? neg : e;
    s.store.getEdge(complement).setTime = 1 + (nondet_u8() & 3);
    s.store.getEdge(POSITIVE ? e : neg).setTime = 0;
    bool inconsistent = nondet_bool();
    s.inv_asgn = inconsistent ? lit : PtAsgn_Undef;
    n_path = nondet_u8(); VASSUME(n_path >= 1 && n_path <= 2);
    for (int i = 0; i < 2; i++) path_asgn[i] = PtAsgn(nondet_bool() ? A : B, nondet_bool() ? l_True : l_False);
    explain_calls = 0;
    vec<PtAsgn> conflict;
    s.Solver::getConflict(conflict);
    if (!inconsistent) {
        VASSERT(conflict.size() == 0 && explain_calls == 0, "no conflict reported in a consistent state");
        VWITNESS("consistent");
        return;
    }
    VASSERT(explain_calls == 1 && conflict.size() == 1 + n_path, "conflict = violated literal + the explanation of one edge");
    VASSERT(conflict[0] == lit, "the violated literal is part of the conflict");
    VASSERT(explained_edge < 2, "explained edge exists"); VASSUME(explained_edge < 2);
    VASSERT(s.graphMgr.isTrue(EdgeRef{explained_edge}), "the explained edge is one that currently holds");
    bool lit_holds = (vy - vx <= c) == POSITIVE;
    VASSERT(holds(EdgeRef{explained_edge}) != lit_holds, "the explained edge is the complement of the violated literal (the NEGATION edge for a positive literal)");
    for (int i = 0; i < 2; i++) if (i < n_path) VASSERT(conflict[1 + i] == path_asgn[i], "explanation entries are the assignments findExplanation recorded for the path edges, unchanged");
    VWITNESS("conflict");
    if (c == INT64_MAX) { VWITNESS("cost-at-PTRDIFF_MAX"); }
    if (c == INT64_MIN) { VWITNESS("cost-at-PTRDIFF_MIN"); }
}
extern "C" void h_stp_conflict_pos() { get_conflict<true>(); }
extern "C" void h_stp_conflict_neg() { get_conflict<false>(); }

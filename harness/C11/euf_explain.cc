// C11: the explanation the EUF solver hands out really implies the equality it explains.
// Real: Explainer::storeExplanation, reRootOn, explain(ERef, ERef), explain(pair), explainAlongPath, explainEdge,
// enqueueArguments, NCA, findAndCompress, makeUnion, cleanup, DupChecker (constructor / isDup / storeDup / destructor),
// the Enode accessors, opensmt::vec push / pop / last / clear.
// The proof forest is BUILT by the real storeExplanation from the empty forest, the way Egraph::mergeLoop uses it: each merge
// is either an asserted literal that says "p = q" for two enodes of different classes, or a congruence merge (reason
// PtAsgn_Undef) of two applications of f whose arguments are pairwise equal at that moment in the harness's own union-find.
// Cut points: EnodeStore::operator[](ERef) answers from a table of typed enode slots; the DupChecker's Map<PTRef,int> is an
// array model behind has / operator[] / insert; vec<T>::capacity hands out static buffers; free is a no-op; the constructors
// of InternalException assert that they are not reached.
#include "verif.h"
#include "tsolvers/egraph/Explainer.h"
#include <new>
#include <cstddef>
using namespace opensmt;

#define NC 3            // constants a, b, c : enodes 0..2
#define NN 5            // + two applications of the binary symbol f : enodes 3, 4
#ifndef NM
#define NM 4            // merges
#endif
#define F1 3
#define F2 4

// ---------------------------------------------------------------- enode table (typed slots; the argument list follows the Enode)
struct Slot { Enode e; ERef more[4]; };
static_assert(offsetof(Slot, more) == sizeof(Enode), "the argument list starts right behind the Enode");
extern "C" { extern Slot euf_nodes[NN]; }         // defined in euf_rt.c (typed storage, no constructor)
static_assert(NN <= 8 && sizeof(Slot) <= 128, "native replay storage in euf_rt.c too small");
#define nodes euf_nodes
extern "C" Enode & stub_enode(EnodeStore *, ERef r) {
    VASSERT(r.x < NN, "enode reference within the table");
    return nodes[r.x < NN ? r.x : 0].e;
}
// Enode::operator[](i) (the argument list lives behind the object: a flexible array) is answered from the harness's argument table
static unsigned arg0[NN], arg1[NN];
extern "C" ERef stub_enode_arg(Enode const * e, size_t i) {
    unsigned id = e->cid;
    VASSERT(id < NN && i < 2 && i < e->argSize, "argument index within the enode's argument list");
    return ERef{i == 0 ? arg0[id < NN ? id : 0] : arg1[id < NN ? id : 0]};
}
static void init_node(unsigned i, uint32_t sym, unsigned nargs, unsigned a0, unsigned a1) {
    Enode & e = nodes[i].e;
    e.root = ERef{i}; e.cid = i; e.eq_next = ERef{i}; e.eq_size = 1; e.pterm = PTRef{10 + i}; e.forbid = ELRef_Undef; e.dist_classes = 0;
    e.exp_reason = PtAsgn(PTRef_Undef, l_Undef); e.exp_parent = ERef_Undef; e.exp_root = ERef{i}; e.exp_time_stamp = 0;
    e.symb = SymRef{sym}; e.argSize = nargs;
    nodes[i].more[0] = ERef{a0}; nodes[i].more[1] = ERef{a1};
    nodes[i].more[2] = ERef_Undef; nodes[i].more[3] = ERef_Undef;       // use-vector indices, not read here
}

// ---------------------------------------------------------------- Map<PTRef,int,PTRefHash> of the duplicate checker: one slot per reason atom
using DMap = Map<PTRef, int, PTRefHash>;
#define RBASE 100       // the reason atom of merge m is PTRef{RBASE + m}
static int dup_val[NM]; static bool dup_has[NM];
static unsigned dslot(PTRef k) { unsigned i = k.x - RBASE; VASSERT(i < NM, "the duplicate checker is only asked about reason atoms"); return i < NM ? i : 0; }
extern "C" bool stub_map_has(DMap const *, PTRef const & k) { return dup_has[dslot(k)]; }
extern "C" int & stub_map_index(DMap *, PTRef const & k) { unsigned i = dslot(k); VASSERT(dup_has[i], "Map::operator[] on a present key"); return dup_val[i]; }
extern "C" void stub_map_insert(DMap *, PTRef const & k, int const & d) { unsigned i = dslot(k); VASSERT(!dup_has[i], "Map::insert of a new key"); dup_has[i] = true; dup_val[i] = d; }

// ---------------------------------------------------------------- vec<T> growth: static typed buffers, no free
#define VCAP 24
static ERef eref_bufs[2][VCAP]; static int n_eref_bufs;
extern "C" { extern PtAsgn euf_asgn_bufs[2][VCAP]; }       // typed storage in euf_rt.c (no element constructors, no union wrapper)
static int n_asgn_bufs;
#define asgn_bufs euf_asgn_bufs
using EPair = opensmt::pair<ERef, ERef>;
extern "C" { extern EPair euf_pair_bufs[1][VCAP]; }
static int n_pair_bufs;
#define pair_bufs euf_pair_bufs
extern "C" void stub_cap_eref(vec<ERef> * v, int min_cap) {
    if (v->cap >= min_cap) return;
    VASSERT(min_cap <= VCAP, "bound: vec<ERef> within its buffer");
    if (v->data == nullptr) { VASSERT(n_eref_bufs < 2, "bound: two vec<ERef> (undo stack, cleanup list)"); v->data = n_eref_bufs == 0 ? eref_bufs[0] : eref_bufs[1]; n_eref_bufs++; }
    v->cap = VCAP;
}
extern "C" void stub_cap_asgn(vec<PtAsgn> * v, int min_cap) {
    if (v->cap >= min_cap) return;
    VASSERT(min_cap <= VCAP, "bound: vec<PtAsgn> within its buffer");
    if (v->data == nullptr) { VASSERT(n_asgn_bufs < 2, "bound: two vec<PtAsgn>"); v->data = n_asgn_bufs == 0 ? asgn_bufs[0] : asgn_bufs[1]; n_asgn_bufs++; }
    v->cap = VCAP;
}
extern "C" void stub_cap_pair(vec<EPair> * v, int min_cap) {
    if (v->cap >= min_cap) return;
    VASSERT(min_cap <= VCAP, "bound: pending queue within its buffer");
    if (v->data == nullptr) { VASSERT(n_pair_bufs < 1, "bound: one pending queue"); v->data = pair_bufs[0]; n_pair_bufs++; }
    v->cap = VCAP;
}
extern "C" void stub_free(void *) {}
extern "C" void stub_internal_exception(void *) { VASSERT(false, "no InternalException (explanation asked for terms of one class, duplicate checker free)"); VASSUME(false); }
extern "C" void stub_internal_exception_msg(void *, char const *) { VASSERT(false, "no InternalException (explanation asked for terms of one class, duplicate checker free)"); VASSUME(false); }

// ---------------------------------------------------------------- the explainer and the reference union-find
union RawExplainer { Explainer ex; RawExplainer() {} ~RawExplainer() {} };
static RawExplainer E;
static long dummy_store[4];

static unsigned cls[NN];                // harness union-find (quick-find): class representative of every enode
static unsigned eq_p[NM], eq_q[NM]; static bool asserted[NM]; static lbool eq_sgn[NM];
static unsigned n_merges;
static bool congruence_used;

static void join(unsigned * c, unsigned p, unsigned q) { unsigned from = c[q], into = c[p]; for (unsigned j = 0; j < NN; j++) if (c[j] == from) c[j] = into; }

static void build_forest() {
    new (&E.ex) Explainer(*reinterpret_cast<EnodeStore *>(&dummy_store));
    for (unsigned i = 0; i < NC; i++) { init_node(i, 1 + i, 0, UINT32_MAX, UINT32_MAX); arg0[i] = arg1[i] = i; }
    // f(x1, x2), f(y1, y2): arguments are constants; the second application may also have the first one as an argument
    arg0[F1] = nondet_u8(); arg1[F1] = nondet_u8(); arg0[F2] = nondet_u8(); arg1[F2] = nondet_u8();
    VASSUME(arg0[F1] < NC && arg1[F1] < NC && arg0[F2] <= F1 && arg1[F2] <= F1);
#ifdef QUICK_SHAPE
    VASSUME(arg0[F2] < NC && arg1[F2] < NC);
#endif
    VASSUME(arg0[F1] != arg0[F2] || arg1[F1] != arg1[F2]);      // hash-consing: two different enodes are different terms
    init_node(F1, 7, 2, arg0[F1], arg1[F1]); init_node(F2, 7, 2, arg0[F2], arg1[F2]);
    for (unsigned i = 0; i < NN; i++) cls[i] = i;
    n_merges = nondet_u8(); VASSUME(n_merges <= NM);
#ifdef QUICK_SHAPE
    VASSUME(n_merges == NM);    // QUICK_SHAPE: NM-1 asserted equalities between constants, then the congruence merge of the two applications
#endif
    congruence_used = false;
    for (unsigned m = 0; m < NM; m++) if (m < n_merges) {
        unsigned p = nondet_u8(), q = nondet_u8();
        VASSUME(p < NN && q < NN && cls[p] != cls[q]);          // mergeLoop skips pairs that are already in one class
#ifdef QUICK_SHAPE
        bool congruence = m == NM - 1;
        if (!congruence) VASSUME(p < NC && q < NC);
#else
        bool congruence = nondet_bool();
#endif
        PtAsgn reason(PTRef_Undef, l_Undef);
        if (congruence) {
            VASSUME((p == F1 && q == F2) || (p == F2 && q == F1));
            VASSUME(cls[arg0[F1]] == cls[arg0[F2]] && cls[arg1[F1]] == cls[arg1[F2]]);     // the signatures collided: arguments pairwise equal
            asserted[m] = false; congruence_used = true;
        } else {
            eq_sgn[m] = nondet_bool() ? l_True : l_False;
            reason = PtAsgn(PTRef{RBASE + m}, eq_sgn[m]);        // a literal that states p = q
            asserted[m] = true; eq_p[m] = p; eq_q[m] = q;
        }
        E.ex.storeExplanation(ERef{p}, ERef{q}, reason);
        // Egraph::merge: the classes are joined (quick-find roots and class sizes, which storeExplanation reads for balancing)
        unsigned rp = nodes[p].e.root.x, rq = nodes[q].e.root.x;
        if (nodes[rp].e.eq_size < nodes[rq].e.eq_size) { unsigned t = rp; rp = rq; rq = t; }
        for (unsigned j = 0; j < NN; j++) if (nodes[j].e.root.x == rq) nodes[j].e.root = ERef{rp};
        nodes[rp].e.eq_size += nodes[rq].e.eq_size;
        join(cls, p, q);
    }
}

extern "C" void h_euf_explain() {
    build_forest();
    unsigned x = nondet_u8(), y = nondet_u8();
    VASSUME(x < NN && y < NN && cls[x] == cls[y]);             // explanations are asked for two terms of one class
#ifdef QUICK_SHAPE
    VASSUME(x >= F1 && y >= F1 && x != y);                     // QUICK_SHAPE: the two applications
#endif
    vec<PtAsgn> expl = E.ex.explain(ERef{x}, ERef{y});
    // the closure of exactly the returned equalities, closed under congruence for the two applications of f
    unsigned c2[NN]; for (unsigned i = 0; i < NN; i++) c2[i] = i;
    unsigned n = (unsigned)expl.size();
    VASSERT(n <= NM, "at most one literal per asserted merge (duplicates are filtered)");
    for (unsigned k = 0; k < NM; k++) if (k < n) {
        unsigned m = expl[k].tr.x - RBASE;
        VASSERT(m < n_merges && asserted[m], "every explanation literal is the reason of an asserted merge");
        if (!(m < n_merges && asserted[m])) return;
        VASSERT(expl[k].sgn == eq_sgn[m], "every explanation literal has the polarity it was asserted with");
        join(c2, eq_p[m], eq_q[m]);
    }
    if (c2[arg0[F1]] == c2[arg0[F2]] && c2[arg1[F1]] == c2[arg1[F2]]) join(c2, F1, F2);
    VASSERT(c2[x] == c2[y], "the explanation implies x = y (union-find of the returned equalities, closed under congruence)");
    for (unsigned i = 0; i < NN; i++) VASSERT(nodes[i].e.exp_root.x == i, "cleanup restores the explanation classes (needed by the next explanation)");
    VWITNESS("explained");
    if (n == 0 && x != y) { VWITNESS("pure-congruence-no-literals"); }
    if (x >= F1 && y >= F1 && x != y && n == 2 && congruence_used) { VWITNESS("congruence-explained-by-two-equalities"); }
    if (x >= F1 && y >= F1 && x != y && n == 2 && arg0[F1] == arg1[F1] && arg0[F2] != arg1[F2]) { VWITNESS("f(a,a)-vs-f(b,c)"); }
    if (n == 3) { VWITNESS("three-literals"); }
}

// C11: the conflict of the difference-logic solver: real STPSolver<SafeInt>::declareAtom (edge + negation edge through
// Converter<SafeInt>::negate), real assertLit (conflict detection on the complementary edge), real getConflict (which edge
// is explained), real STPStore / STPMapper / STPGraphManager::isTrue/setTrue.  findExplanation / findConsequences stubbed.
#include "stu_arith.h"
#include "tsolvers/stpsolver/IDLSolver.h"
#include "tsolvers/stpsolver/STPSolver_implementations.hpp"
using namespace opensmt;
using namespace stu;
using Solver = STPSolver<SafeInt>;

union RawLogic { ArithLogic l; RawLogic() {} ~RawLogic() {} };
union RawSolver { IDLSolver s; RawSolver() {} ~RawSolver() {} };
static RawLogic rawLogic; static RawSolver rawSolver;

// ---- parseRef cut: atom k (term-table node) denotes  val(py) - val(px) <= c   (variable index 0 = the zero vertex / absent variable)
static PTRef varTerm[3];                  // varTerm[0] = PTRef_Undef (absent), [1] = x, [2] = y
static int64_t val[3];                    // one integer valuation; val[0] = 0
struct Parsed { uint32_t atom; int px, py; int64_t c; };
static Parsed parsed[2];
extern "C" Solver::ParsedPTRef stub_parseRef(Solver const *, PTRef ref) {
    int k = ref.x == parsed[0].atom ? 0 : 1;
    return Solver::ParsedPTRef{varTerm[parsed[k].px], varTerm[parsed[k].py], SafeInt((ptrdiff_t)parsed[k].c)};
}
static bool atom_holds(int k) { return val[parsed[k].py] - val[parsed[k].px] <= parsed[k].c; }
static int atom_index(PTRef t) { return t.x == parsed[0].atom ? 0 : t.x == parsed[1].atom ? 1 : -1; }

// ---- graph search cut
static uint32_t explained_edge; static int explain_calls; static int n_path; static PtAsgn path_asgn[2];
extern "C" void stub_findExplanation(STPGraphManager<SafeInt> *, EdgeRef e, vec<PtAsgn> * out) {
    explained_edge = e.x; explain_calls++;
    for (int i = 0; i < 2; i++) if (i < n_path) out->push(path_asgn[i]);
}
// consequences: an arbitrary subset of the not yet decided edges is marked as deduced (their soundness is not the subject here)
extern "C" std::vector<EdgeRef> stub_findConsequences(STPGraphManager<SafeInt> * g, EdgeRef) {
    std::vector<EdgeRef> none;
    uint8_t pick = nondet_u8();
    for (uint32_t i = 0; i < 4; i++) if (i < g->store.edgeNum() && ((pick >> i) & 1) && g->store.getEdge(EdgeRef{i}).setTime == 0) g->store.getEdge(EdgeRef{i}).setTime = g->timestamp;
    return none;
}
extern "C" bool stub_isInformed(TSolver const *, PTRef) { return false; }
extern "C" void stub_setInformed(TSolver *, PTRef) {}
extern "C" void stub_storeDeduction(TSolver *, PtAsgn_reason) {}
extern "C" bool stub_hasPolarity(TSolver const *, PTRef) { return nondet_bool(); }

static bool edge_holds(Solver & s, uint32_t e) {
    auto const & ed = s.store.getEdge(EdgeRef{e});
    // vertex -> variable index: zero vertex 0; others through the real mapper
    auto vidx = [&](VertexRef v) { PTRef t = s.mapper.getPTRef(v); return t == varTerm[1] ? 1 : t == varTerm[2] ? 2 : 0; };
    return val[vidx(ed.from)] - val[vidx(ed.to)] <= ed.cost.value();
}

// the variable pattern of the two atoms is concrete per entry (vector sizes inside the mapper depend on it); costs, polarities, order symbolic
template <int AX, int AY, int BX, int BY> static void stp_conflict() {
    init_logic(&rawLogic.l);
    varTerm[0] = PTRef_Undef; varTerm[1] = mkVar(0); varTerm[2] = mkVar(1);
    PTRef A = mk(K_LEQ, SYM_LEQ, 0), B = mk(K_LEQ, SYM_LEQ, 0);          // atoms: only their ids are read (parseRef is cut)
    parsed[0].atom = A.x; parsed[1].atom = B.x;
    for (int k = 0; k < 2; k++) {
        parsed[k].px = k == 0 ? AX : BX; parsed[k].py = k == 0 ? AY : BY; parsed[k].c = nondet_i64();
    }
    VASSUME(!(parsed[0].px == parsed[1].px && parsed[0].py == parsed[1].py && parsed[0].c == parsed[1].c));   // hash-consing: two atoms differ
    val[0] = 0;
    for (int i = 1; i < 3; i++) { val[i] = nondet_i64(); VASSUME(val[i] >= -(1ll << 40) && val[i] <= (1ll << 40)); }

    Solver & s = rawSolver.s;
    *(reinterpret_cast<ArithLogic **>(&s.store) - 1) = &rawLogic.l;
    VASSERT(&s.logic == &rawLogic.l, "harness: layout of STPSolver::logic as expected");
    new (&s.store) STPStore<SafeInt>();
    new (&s.mapper) STPMapper<SafeInt>(rawLogic.l, s.store);
    new (&s.graphMgr) STPGraphManager<SafeInt>(s.store, s.mapper);
    new (&s.backtrack_points) vec<size_t>();
    s.inv_bpoint = (size_t)-1; s.inv_asgn = PtAsgn_Undef; s.has_explanation = false;

    s.Solver::declareAtom(A);
    s.Solver::declareAtom(B);
    // every edge has a negation edge that is its exact integer complement
    for (uint32_t e = 0; e < 4; e++) if (e < s.store.edgeNum()) {
        uint32_t n = s.store.getNegation(EdgeRef{e}).x;
        VASSERT(n < s.store.edgeNum() && s.store.getNegation(EdgeRef{n}).x == e, "negation edges are paired");
        VASSUME(n < s.store.edgeNum());
        VASSERT(edge_holds(s, e) != edge_holds(s, n), "an edge and its negation edge are complementary under every integer valuation");
    }
    uint32_t eA = s.mapper.getEdgeRef(A).x, eB = s.mapper.getEdgeRef(B).x;
    VASSERT(eA < s.store.edgeNum() && eB < s.store.edgeNum(), "declared atoms are mapped to edges");
    VASSUME(eA < s.store.edgeNum() && eB < s.store.edgeNum());
    VASSERT(edge_holds(s, eA) == atom_holds(0) && edge_holds(s, eB) == atom_holds(1), "the edge of an atom denotes the atom");
    if (s.store.edgeNum() == 2) { VWITNESS("second-atom-is-the-negation-edge-of-the-first"); }

    // assert a literal over each atom (polarities symbolic); stop at the first conflict
    PtAsgn l1(nondet_bool() ? A : B, nondet_bool() ? l_True : l_False);
    PtAsgn l2(nondet_bool() ? A : B, nondet_bool() ? l_True : l_False);
    bool ok1 = s.Solver::assertLit(l1);
    VASSERT(ok1, "the first literal alone is consistent");
    bool ok2 = s.Solver::assertLit(l2);
    n_path = nondet_u8(); VASSUME(n_path >= 1 && n_path <= 2);
    for (int i = 0; i < 2; i++) path_asgn[i] = PtAsgn(nondet_bool() ? A : B, nondet_bool() ? l_True : l_False);
    explain_calls = 0;
    vec<PtAsgn> conflict;
    s.Solver::getConflict(conflict);
    if (ok2) {
        VWITNESS("no-conflict");
        VASSERT(conflict.size() == 0 && explain_calls == 0 && !s.has_explanation, "no conflict reported in a consistent state");
    } else {
        VWITNESS("conflict");
        VASSERT(s.has_explanation, "the solver that detected the conflict announces an explanation");
        VASSERT(explain_calls == 1 && conflict.size() == 1 + n_path, "conflict = violated literal + the explanation path of one edge");
        VASSERT(conflict[0] == l2, "the violated literal is part of the conflict");
        VASSERT(explained_edge < s.store.edgeNum(), "explained edge exists");
        VASSUME(explained_edge < s.store.edgeNum());
        VASSERT(s.store.getEdge(EdgeRef{explained_edge}).setTime != 0, "the explained edge is one that currently holds (assigned or deduced)");
        int k = atom_index(l2.tr);
        bool lit_holds = atom_holds(k) == (l2.sgn == l_True);
        VASSERT(edge_holds(s, explained_edge) != lit_holds, "the explained edge is the complement of the violated literal (negation edge for a positive literal)");
        for (int i = 0; i < 2; i++) if (i < n_path) VASSERT(conflict[1 + i] == path_asgn[i], "explanation entries are the assignments recorded for the path edges");
        if (l2.sgn == l_True) { VWITNESS("positive-literal-violated"); } else { VWITNESS("negative-literal-violated"); }
        if (s.mapper.getAssignment(EdgeRef{explained_edge}) == PtAsgn_Undef) { VWITNESS("explained-edge-was-deduced"); }
    }
}
extern "C" void h_stp_conflict_same() { stp_conflict<1, 2, 1, 2>(); }      // y - x <= c1,  y - x <= c2
extern "C" void h_stp_conflict_rev() { stp_conflict<1, 2, 2, 1>(); }       // y - x <= c1,  x - y <= c2   (c2 = -c1-1: B is A's negation edge)
extern "C" void h_stp_conflict_zero() { stp_conflict<0, 2, 2, 0>(); }      // y <= c1,  -y <= c2          (zero vertex)

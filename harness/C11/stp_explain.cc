// C11: the explanation of the difference-logic solver is a valid theory clause.
// Real: STPGraphManager<SafeInt>::findExplanation (label-correcting DFS + backtracking over the predecessor edges) with
// STPStore::getEdge/vertexNum, STPMapper::getAssignment, SafeInt <= / >, EdgeRef/VertexRef comparison, the libstdc++
// std::vector code of the two local vectors (visited, length: fill constructors, operator[], destructors), of store.edges,
// mapper.edgeRefToAsgn and graph.outgoing (operator[], begin/end, iterators), opensmt::vec<PtAsgn>::push.
// Models: std::stack<VertexRef> (a std::deque underneath) is a fixed-capacity array behind its constructor / push / top / pop /
// empty / destructor; the allocations of the two local vectors hand out static typed buffers; SafeInt::operator+ is the
// addition without the overflow exception (asserted unreachable: costs are tiny).
// The state (store edges, assignments, adjacency lists) is written into static typed buffers that the real vector objects
// point at - the graph is NOT built through setTrue/addEdge (their vector growth is what did not finish in stp_getconflict).
// Graph shape: every vertex v owns KOUT edge slots v*KOUT .. v*KOUT+KOUT-1 (its outgoing list, in this order), the first cnt[v] of them
// are asserted edges with symbolic end vertex, cost, setTime and literal; the store's last slot is the edge to explain.
#include "verif.h"
#include "tsolvers/stpsolver/SafeInt.h"
#include "tsolvers/stpsolver/STPGraphManager.h"
#include <new>
using namespace opensmt;
using GM = STPGraphManager<SafeInt>;

#ifndef NV
#define NV 4            // vertices 0..NV-1 (0 is the 'zero' vertex of the store, nothing special for the search)
#endif
#ifndef KOUT
#define KOUT 2             // at most KOUT outgoing asserted edges per vertex
#endif
#ifndef CMAX
#define CMAX 8          // costs in -CMAX..CMAX
#endif
#ifndef MAXPOPS
#define MAXPOPS 8       // runs in which the search takes at most MAXPOPS vertices from its stack
#endif
#define NE (NV * KOUT)     // edge slots of the vertices; slot NE is the edge to explain
#define SCAP 12         // capacity of the stack model

// ---------------------------------------------------------------- std::stack<VertexRef> as a fixed array
using Stack = std::stack<VertexRef>;
static VertexRef stk[SCAP]; static int sp; static int stack_live; static int pops;
static uint32_t target_vertex; static int target_pops;      // observation only: how often the target vertex was taken from the stack
extern "C" void stub_stack_ctor(Stack *) { VASSERT(stack_live == 0, "bound: one stack at a time"); stack_live = 1; sp = 0; pops = 0; }
extern "C" void stub_stack_dtor(Stack *) { stack_live = 0; }
extern "C" void stub_stack_push(Stack *, VertexRef const & v) {
#ifdef PROVE_BOUNDS
    VASSERT(sp < SCAP, "bound: stack depth within the model's capacity");
#else
    VASSUME(sp < SCAP);         // bound: runs whose stack stays within the model's capacity
#endif
    if (sp < SCAP) { stk[sp] = v; sp++; }
}
extern "C" VertexRef & stub_stack_top(Stack *) {
    VASSERT(sp > 0, "top() on a non-empty stack");
    pops++;
#ifndef PROVE_BOUNDS
    VASSUME(pops <= MAXPOPS);   // bound: runs with at most MAXPOPS pops (PROVE_BOUNDS: the unwinding assertion decides it instead)
#endif
    VertexRef & r = stk[sp > 0 ? sp - 1 : 0];
    if (r.x == target_vertex) target_pops++;
    return r;
}
extern "C" void stub_stack_pop(Stack *) { VASSERT(sp > 0, "pop() on a non-empty stack"); if (sp > 0) sp--; }
extern "C" bool stub_stack_empty(Stack const *) { return sp == 0; }

// ---------------------------------------------------------------- SafeInt addition without its overflow exception
// (costs are within -CMAX..CMAX here, |path length| <= a few dozen: the throw is unreachable, asserted instead of encoded)
extern "C" SafeInt stub_safeint_plus(SafeInt const * a, SafeInt b) {
    ptrdiff_t x = a->value(), y = b.value();
    VASSERT(x > -1000 && x < 1000 && y > -1000 && y < 1000, "bound: path lengths stay far away from the SafeInt overflow check");
    return SafeInt(x + y);
}

// ---------------------------------------------------------------- allocation of the two local vectors: static typed buffers
static EdgeRef visited_buf[NV]; static SafeInt length_buf[NV];
extern "C" EdgeRef * stub_alloc_edgeref(void *, size_t n, void const *) { VASSERT(n == NV, "visited has one slot per vertex"); return visited_buf; }
extern "C" SafeInt * stub_alloc_safeint(void *, size_t n, void const *) { VASSERT(n == NV, "length has one slot per vertex"); return length_buf; }
extern "C" void stub_dealloc(void *, void *, size_t) {}

// ---------------------------------------------------------------- the solver state
union RawStore { STPStore<SafeInt> s; RawStore() {} ~RawStore() {} };
union RawMapper { STPMapper<SafeInt> m; RawMapper() {} ~RawMapper() {} };
union RawMgr { GM g; RawMgr() {} ~RawMgr() {} };
union RawAdj { std::vector<EdgeRef> v[NV]; RawAdj() {} ~RawAdj() {} };
union RawAsgns { PtAsgn a[NE + 1]; RawAsgns() {} ~RawAsgns() {} };           // (no element constructors: no initialisation loop)
union RawResult { vec<PtAsgn> v; RawResult() {} ~RawResult() {} };              // no destructor runs: the buffer is static
union RawResBuf { PtAsgn buf[NV + 2]; RawResBuf() {} ~RawResBuf() {} };
static RawStore S; static RawMapper M; static RawMgr G; static RawAdj adj; static RawAsgns A; static RawResult R; static RawResBuf RB;
static Edge<SafeInt> edge_buf[NE + 1];
static EdgeRef out_buf[NV][KOUT];
static long dummy_logic;
#define asgn_buf A.a
#define T NE

// shadow copy for the checking side
static unsigned cnt[NV];
static unsigned e_from[NE + 1], e_to[NE + 1], e_time[NE + 1];
static int e_cost[NE + 1];
static bool e_present[NE + 1];

static void build_state(bool target_assigned) {
    new (&S.s) STPStore<SafeInt>();
    new (&M.m) STPMapper<SafeInt>(*reinterpret_cast<ArithLogic const *>(&dummy_logic), S.s);
    new (&G.g) GM(S.s, M.m);
    S.s.vertices = NV;
    for (unsigned v = 0; v < NV; v++) { cnt[v] = nondet_u8(); VASSUME(cnt[v] <= KOUT); }
    for (unsigned i = 0; i <= NE; i++) {
        if (i < NE) { e_from[i] = i / KOUT; e_present[i] = (i % KOUT) < cnt[i / KOUT]; }
        else { e_from[i] = nondet_u8(); VASSUME(e_from[i] < NV); e_present[i] = target_assigned; }
        e_to[i] = nondet_u8(); VASSUME(e_to[i] < NV && e_to[i] != e_from[i]);   // an atom x - y <= c relates two different vertices
        unsigned cu = nondet_u8(); VASSUME(cu <= 2 * CMAX);
        e_cost[i] = (int)cu - CMAX;
        e_time[i] = nondet_u8() & 7;
        // setTime != 0 exactly for the edges that hold; the target holds (asserted or deduced)
        VASSUME((e_time[i] != 0) == (e_present[i] || i == NE));
        edge_buf[i].from = VertexRef{e_from[i]}; edge_buf[i].to = VertexRef{e_to[i]}; edge_buf[i].neg = EdgeRef_Undef;
        edge_buf[i].cost = SafeInt((ptrdiff_t)e_cost[i]); edge_buf[i].setTime = e_time[i];
        // the literal of edge i is over the atom 10+i, either polarity; only explicitly asserted edges have one
        asgn_buf[i] = e_present[i] ? PtAsgn(PTRef{10 + i}, nondet_bool() ? l_True : l_False) : PtAsgn(PTRef_Undef, l_Undef);
    }
    auto & ev = S.s.edges; ev._M_impl._M_start = edge_buf; ev._M_impl._M_finish = ev._M_impl._M_end_of_storage = edge_buf + NE + 1;
    // getAssignment answers PtAsgn_Undef beyond the vector's size: the vector covers the target's slot or stops before it
    unsigned asz = (target_assigned || nondet_bool()) ? NE + 1 : NE;
    auto & av = M.m.edgeRefToAsgn; av._M_impl._M_start = asgn_buf; av._M_impl._M_finish = av._M_impl._M_end_of_storage = asgn_buf + asz;
    for (unsigned v = 0; v < NV; v++) {
        for (unsigned k = 0; k < KOUT; k++) out_buf[v][k] = EdgeRef{v * KOUT + k};
        auto & ov = adj.v[v]; ov._M_impl._M_start = out_buf[v]; ov._M_impl._M_finish = out_buf[v] + cnt[v]; ov._M_impl._M_end_of_storage = out_buf[v] + KOUT;
    }
    auto & og = G.g.graph.outgoing; og._M_impl._M_start = adj.v; og._M_impl._M_finish = og._M_impl._M_end_of_storage = adj.v + NV;
}

static vec<PtAsgn> & result_vector() { vec<PtAsgn> & v = R.v; v.data = RB.buf; v.cap = NV + 2; v.sz = 0; return v; }

// ---------------------------------------------------------------- deduced edge
extern "C" void h_stp_explain_deduced() {
    build_state(false);
    // what the deduction mechanism (findConsequences after setTrue, on a consistent graph) guarantees:
    // (1) the edges that held when the target was deduced have no negative cycle: a potential function exists for them
    unsigned pi[NV];
    for (unsigned v = 0; v < NV; v++) { pi[v] = nondet_u8(); VASSUME(pi[v] <= (NV - 1) * CMAX); }
    for (unsigned i = 0; i < NE; i++) if (e_present[i] && e_time[i] <= e_time[T])
        VASSUME(e_cost[i] + (int)pi[e_from[i]] - (int)pi[e_to[i]] >= 0);
    // (2) a path from -> to over edges that held at that time, of total cost <= the target's cost (<= NV-1 edges: without a
    //     negative cycle a shortest path is simple)
    unsigned k = nondet_u8(), p0 = nondet_u8(), p1 = nondet_u8(), p2 = nondet_u8();
    VASSUME(k >= 1 && k <= NV - 1 && k <= 3 && p0 < NE && p1 < NE && p2 < NE);
    VASSUME(e_present[p0] && e_from[p0] == e_from[T] && e_time[p0] <= e_time[T]);
    int total = e_cost[p0]; unsigned end = e_to[p0];
    if (k >= 2) { VASSUME(e_present[p1] && e_from[p1] == end && e_time[p1] <= e_time[T]); total += e_cost[p1]; end = e_to[p1]; }
    if (k >= 3) { VASSUME(e_present[p2] && e_from[p2] == end && e_time[p2] <= e_time[T]); total += e_cost[p2]; end = e_to[p2]; }
    VASSUME(end == e_to[T] && total <= e_cost[T]);

    target_vertex = e_to[T]; target_pops = 0;
    vec<PtAsgn> & v = result_vector();
    G.g.findExplanation(EdgeRef{T}, v);

    // the returned literals are the assignments of edges that form a path from -> to (listed from the target end backwards),
    // each edge held when the target was deduced, total cost <= the target's cost: then (not path) or target is valid in
    // difference logic
    unsigned n = (unsigned)v.size();
    VASSERT(n >= 1, "the explanation is not empty");
    VASSERT(n <= NV, "bound: explanation of at most NV literals");
    int sum = 0; unsigned at = e_to[T]; unsigned first_edge = 0;
    for (unsigned j = 0; j < NV; j++) if (j < n) {
        unsigned idx = v[j].tr.x - 10;
        VASSERT(idx < NE && e_present[idx < NE ? idx : 0], "every explanation literal belongs to an asserted edge");
        if (!(idx < NE && e_present[idx])) return;
        VASSERT(v[j] == asgn_buf[idx], "every explanation literal is the literal the edge was asserted with");
        VASSERT(e_time[idx] <= e_time[T], "every explanation edge held when the target was deduced (setTime <= target's)");
        VASSERT(e_to[idx] == at, "the explanation edges are consecutive (edge j ends where edge j-1 starts, edge 0 ends at the target's end)");
        sum += e_cost[idx]; at = e_from[idx]; first_edge = idx;
    }
    VASSERT(at == e_from[T], "the explanation path starts at the target's start vertex");
    VASSERT(sum <= e_cost[T], "the explanation path is at most as long as the target's cost (the clause is valid in difference logic)");
    VWITNESS("deduced-edge-explained");
    if (n == 2) { VWITNESS("explained-by-a-2-edge-path"); }
    // a too long direct edge from -> to that the search meets first (listed after the first edge of the returned path, so it is
    // on top of the stack): the target is popped with length > cost and the search must go on
    bool direct_long = false;
    for (unsigned i = 0; i < NE; i++) if (e_present[i] && e_from[i] == e_from[T] && e_to[i] == e_to[T] && e_time[i] <= e_time[T] && e_cost[i] > e_cost[T] && i > first_edge) direct_long = true;
    if (n == 2 && direct_long && target_pops >= 2) { VWITNESS("longer-path-reaches-the-target-first"); }
}

// ---------------------------------------------------------------- explicitly asserted edge: its own literal
extern "C" void h_stp_explain_asserted() {
    build_state(true);
    vec<PtAsgn> & v = result_vector();
    G.g.findExplanation(EdgeRef{T}, v);
    VASSERT(v.size() == 1 && v[0] == asgn_buf[T], "an asserted edge is explained by its own literal");
    VWITNESS("asserted-edge");
}

/* Storage of the enode table of euf_explain.cc.  The C++ harness only DECLARES it (extern), so no constructor runs and the IR
 * keeps the real class type; under CBMC it is defined with exactly that generated struct type (typed, zero-initialised,
 * field-sensitive), in the native replay build it is plain zeroed storage (size checked by static_assert in the harness). */
#ifdef __CPROVER__
#ifdef IR2C_NEEDG_euf_nodes
__typeof__(euf_nodes) euf_nodes;
#endif
#ifdef IR2C_NEEDG_euf_asgn_bufs
__typeof__(euf_asgn_bufs) euf_asgn_bufs;
#endif
#ifdef IR2C_NEEDG_euf_pair_bufs
__typeof__(euf_pair_bufs) euf_pair_bufs;
#endif
#else
__attribute__((aligned(64))) char euf_nodes[8 * 128];
__attribute__((aligned(64))) char euf_asgn_bufs[2 * 24 * 8];
__attribute__((aligned(64))) char euf_pair_bufs[24 * 8];
#endif

// C11: the clauses THandler hands to the SAT engine are the negation of the theory solver's explanation.
// Real: THandler::getConflict, THandler::getReason, THandler::ptrefToVar, TSolverHandler::getReasoningSolverFor,
//       TSolver::getReasonFor (assert negation / getConflict / pop protocol), TermMapper::getVar/getLit/getTerm/peekVar,
//       minisat vec, mkLit/var/sign.
// Symbolic: the explanation (N entries of (atom, polarity)), which of two scheduled solvers owns it, the injective
// atom <-> SAT variable mapping, the decision levels, one truth assignment sigma of the atoms.
#include "stu_arith.h"
#include "tsolvers/THandler.h"
#include "tsolvers/TSolver.h"
#include "tsolvers/TSolverHandler.h"
#include "cnfizers/TermMapper.h"
using namespace opensmt;
using namespace stu;

#ifndef NA
#define NA 4          // atoms = SAT variables
#endif
constexpr uint32_t SYM_NOT = 5, SYM_ATOM0 = 200;

template <class F> static int vslot(F pmf) {
    union { F f; struct { intptr_t ptr; intptr_t adj; } r; } u;
    u.f = pmf;
    return (int)((u.r.ptr - 1) / 8);
}

union RawLogic { ArithLogic l; RawLogic() {} ~RawLogic() {} };
union RawTH { THandler t; RawTH() {} ~RawTH() {} };
union RawTSH { TSolverHandler *dummy; unsigned char raw[sizeof(void *) * 8]; RawTSH() {} ~RawTSH() {} };
union RawSolver { unsigned char raw[sizeof(TSolver)]; void * align; RawSolver() {} ~RawSolver() {} };
union RawTMap { TermMapper m; RawTMap() {} ~RawTMap() {} };
static RawLogic rawLogic; static RawTH rawTH; static RawSolver rawS[2]; static RawTMap rawMap;
alignas(8) static unsigned char rawTSH[sizeof(TSolverHandler)];
static void * fake_vt[40];

// ---- the explanation owned by solver `owner`; the other solver would answer with a poisoned explanation
static int n_expl; static PtAsgn expl[4]; static int owner; static int bad_protocol;
static int bt_depth; static int asserted_cnt; static uint32_t asserted_tr; static int asserted_pos; static int valid_for[2];

static int solver_index(TSolver * s) { return s == reinterpret_cast<TSolver *>(rawS[0].raw) ? 0 : 1; }
extern "C" void stub_getConflict(TSolver * s, vec<PtAsgn> & out) {
    if (solver_index(s) != owner) { bad_protocol = 1; return; }
    for (int i = 0; i < 4; i++) if (i < n_expl) out.push(expl[i]);
}
extern "C" void stub_pushBt(TSolver * s) { if (solver_index(s) != owner) bad_protocol = 1; bt_depth++; }
extern "C" void stub_popBt(TSolver * s) { if (solver_index(s) != owner) bad_protocol = 1; bt_depth--; }
extern "C" bool stub_assertLit(TSolver * s, PtAsgn a) { if (solver_index(s) != owner) bad_protocol = 1; asserted_tr = a.tr.x; asserted_pos = (a.sgn == l_True); asserted_cnt++; return false; }
extern "C" bool stub_isValid(TSolver * s, PTRef) { return valid_for[solver_index(s)]; }
extern "C" vec<PtAsgn> stub_getReasonFor(TSolver * s, PtAsgn a) { return s->TSolver::getReasonFor(a); }   // the real base-class protocol
extern "C" TSolverHandler * stub_getSolverHandler(THandler *) { return reinterpret_cast<TSolverHandler *>(rawTSH); }
extern "C" SymRef stub_getSym_not(Logic const *) { return SymRef{SYM_NOT}; }

static PTRef atoms[NA]; static int perm[NA]; static int inv[NA]; static bool sigma[NA]; static int lvl[NA];
static vec<VarData> * vardata;

static int atom_of(PTRef t) { for (int i = 0; i < NA; i++) if (atoms[i] == t) return i; return -1; }

static void setup(int nexpl) {
    init_logic(&rawLogic.l);
    // atoms 0..NA-1 are term-table nodes 0..NA-1 (Pterm id = node index)
    for (int i = 0; i < NA; i++) atoms[i] = mk(K_OTHER, SYM_ATOM0 + i, 0);
    // injective atom -> variable map (a permutation of 0..NA-1), installed in a REAL TermMapper
    for (int i = 0; i < NA; i++) { perm[i] = nondet_u8(); VASSUME(perm[i] >= 0 && perm[i] < NA); }
    for (int i = 0; i < NA; i++) for (int j = 0; j < i; j++) VASSUME(perm[i] != perm[j]);
    TermMapper * tm = &rawMap.m;
    struct TMHead { int var_cnt; Logic * logic; };
    reinterpret_cast<TMHead *>(tm)->logic = &rawLogic.l;
    tm->var_cnt = NA;
    new (&tm->frozen) vec<bool>(); new (&tm->varToTerm) vec<PTRef>(); new (&tm->termToVar) vec<Var>();
    tm->varToTerm.growTo(NA, PTRef_Undef); tm->termToVar.growTo(NA, var_Undef);
    for (int i = 0; i < NA; i++) { tm->termToVar[i] = perm[i]; tm->varToTerm[perm[i]] = atoms[i]; inv[perm[i]] = i; }
    static vec<VarData> vd; vardata = &vd; vd.clear(); vd.growTo(NA);
    for (int v = 0; v < NA; v++) { lvl[v] = nondet_u8(); VASSUME(lvl[v] >= 0 && lvl[v] <= 5); vd[v].level = lvl[v]; vd[v].reason = CRef_Undef; }
    for (int i = 0; i < NA; i++) sigma[i] = nondet_bool();
    // THandler: only the two reference members are read
    struct THHead { Theory * theory; TermMapper * tmap; };
    reinterpret_cast<THHead *>(&rawTH.t)->theory = nullptr;
    reinterpret_cast<THHead *>(&rawTH.t)->tmap = tm;
    VASSERT(&rawTH.t.tmap == tm, "harness: layout of THandler::tmap as expected");
    // two scheduled solvers with a fake vtable
    fake_vt[vslot(&TSolver::getConflict)] = (void *)&stub_getConflict;
    fake_vt[vslot(&TSolver::pushBacktrackPoint)] = (void *)&stub_pushBt;
    fake_vt[vslot(&TSolver::popBacktrackPoint)] = (void *)&stub_popBt;
    fake_vt[vslot(&TSolver::assertLit)] = (void *)&stub_assertLit;
    fake_vt[vslot(&TSolver::isValid)] = (void *)&stub_isValid;
    fake_vt[vslot(&TSolver::getReasonFor)] = (void *)&stub_getReasonFor;
    auto * tsh = reinterpret_cast<TSolverHandler *>(rawTSH);
    new (&tsh->solverSchedule) vec<TSolver *>();
    for (int k = 0; k < 2; k++) {
        TSolver * s = reinterpret_cast<TSolver *>(rawS[k].raw);
        *reinterpret_cast<void ***>(s) = fake_vt;
        tsh->solverSchedule.push(s);
    }
    n_expl = nexpl; bad_protocol = 0; bt_depth = 0; asserted_cnt = 0;
    for (int i = 0; i < 4; i++) if (i < nexpl) {
        int a = nondet_u8(); VASSUME(a >= 0 && a < NA);
        expl[i] = PtAsgn(atoms[a], nondet_bool() ? l_True : l_False);
    }
}
static bool lit_value(Lit l) { int v = var(l); return sigma[inv[v]] ^ sign(l); }

template <int N> static void conflict() {
    setup(N);
    // which solver has the explanation: the FIRST scheduled solver that says so is asked
    bool h0 = nondet_bool(), h1 = nondet_bool(); VASSUME(h0 || h1);
    reinterpret_cast<TSolver *>(rawS[0].raw)->has_explanation = h0;
    reinterpret_cast<TSolver *>(rawS[1].raw)->has_explanation = h1;
    owner = h0 ? 0 : 1;
    // sigma makes every explanation entry hold
    for (int i = 0; i < N; i++) VASSUME(sigma[atom_of(expl[i].tr)] == (expl[i].sgn == l_True));
    vec<Lit> clause; int maxlvl = 77;
    rawTH.t.getConflict(clause, *vardata, maxlvl);
    VASSERT(!bad_protocol, "the explanation is taken from the first solver that has one");
    VASSERT(clause.size() == N, "one clause literal per explanation entry");
    int m = N == 0 ? 0 : -1;
    for (int i = 0; i < N; i++) {
        VASSERT(var(clause[i]) >= 0 && var(clause[i]) < NA, "clause literal over a mapped variable");
        VASSUME(var(clause[i]) >= 0 && var(clause[i]) < NA);
        VASSERT(!lit_value(clause[i]), "every conflict-clause literal is false under an assignment satisfying the explanation");
        // every negated entry occurs: the clause is not stronger than the negation of the explanation
        bool found = false;
        for (int j = 0; j < N; j++) if (clause[j] == mkLit(perm[atom_of(expl[i].tr)], expl[i].sgn == l_True)) found = true;
        VASSERT(found, "the negation of every explanation entry occurs in the conflict clause");
        int L = lvl[perm[atom_of(expl[i].tr)]]; if (L > m) m = L;
    }
    VASSERT(maxlvl == m, "max_decision_level is the maximum level of the clause literals (0 for the empty explanation)");
    VWITNESS("conflict");
    if (N >= 2 && maxlvl == lvl[var(clause[1])] && maxlvl > lvl[var(clause[0])]) { VWITNESS("max-level-from-second-literal"); }
    if (!h0) { VWITNESS("second-solver-owns-explanation"); }
}
extern "C" void h_conflict_0() { conflict<0>(); }
extern "C" void h_conflict_2() { conflict<2>(); }
extern "C" void h_conflict_3() { conflict<3>(); }
extern "C" void h_conflict_4() { conflict<4>(); }

template <int N> static void reason() {
    setup(N);
    // the propagated literal l over atom e; the solver's conflict for (not l) contains the negated literal (position symbolic)
    int ea = nondet_u8(); VASSUME(ea >= 0 && ea < NA);
    bool lsign = nondet_bool();
    Lit l = mkLit(perm[ea], lsign);
    int pos = nondet_u8(); VASSUME(pos >= 0 && pos < N);
    expl[pos] = PtAsgn(atoms[ea], lsign ? l_True : l_False);          // l negated: sign(l) (atom false) is contradicted by "atom true"
    int nrest = 0;
    for (int i = 0; i < N; i++) if (i != pos) {
        VASSUME(expl[i].tr != atoms[ea]);                            // the remaining entries talk about other atoms
        VASSUME(sigma[atom_of(expl[i].tr)] == (expl[i].sgn == l_True));   // sigma satisfies the premises R
        nrest++;
    }
    valid_for[0] = nondet_bool(); valid_for[1] = nondet_bool(); VASSUME(valid_for[0] || valid_for[1]);
    owner = valid_for[0] ? 0 : 1;
    vec<Lit> clause;
    rawTH.t.getReason(l, clause);
    VASSERT(!bad_protocol && bt_depth == 0, "reasoning solver = first valid solver; backtrack point pushed and popped");
    VASSERT(asserted_cnt == 1 && asserted_tr == atoms[ea].x && asserted_pos == (int)lsign, "the negation of the propagated literal is what was asserted to obtain the reason");
    VASSERT(clause.size() == N, "implied literal plus one literal per premise");
    VASSERT(clause[0] == l, "the implied literal is first");
    for (int i = 1; i < N; i++) {
        VASSERT(var(clause[i]) >= 0 && var(clause[i]) < NA, "reason literal over a mapped variable");
        VASSUME(var(clause[i]) >= 0 && var(clause[i]) < NA);
        VASSERT(!lit_value(clause[i]), "every other reason literal is false under an assignment satisfying the premises");
    }
    for (int i = 0; i < N; i++) if (i != pos) {
        bool found = false;
        for (int j = 1; j < N; j++) if (clause[j] == mkLit(perm[atom_of(expl[i].tr)], expl[i].sgn == l_True)) found = true;
        VASSERT(found, "the negation of every premise occurs in the reason clause");
    }
    VWITNESS("reason");
    if (pos == 0 && N > 1) { VWITNESS("implied-literal-first-in-explanation"); }
    if (pos == N - 1 && N > 1) { VWITNESS("implied-literal-last-in-explanation"); }
}
extern "C" void h_reason_1() { reason<1>(); }
extern "C" void h_reason_3() { reason<3>(); }
extern "C" void h_reason_4() { reason<4>(); }

// C08: one-step induction for the labelled propositional interpolation system of
// SingleInterpolationComputationContext (src/proof/InterpolationContext.cc).
//
// The class lives in the .cc file, so the real translation unit is #included here (recompiled from the
// working tree on every run). Terms are represented by their TRUTH VALUE under one symbolic assignment sigma
// plus their syntactic support (set of proof variables mentioned): Logic::mkAnd/mkOr/mkNot/getTerm_true/
// getTerm_false are cut and answer from a small term table. ipartitions_t is the real mpz_class on top of the
// GMP model (rt/gmp_model.c, bit operations), so getClass / getVarClass / the label bit vectors are the real code.
#include "verif.h"
#include "InterpolationContext.cc"
#include <new>
using namespace opensmt;
typedef SingleInterpolationComputationContext SICC;

#ifndef NV
#define NV 3             // proof variables 0..NV-1
#endif
#define NPART 3          // partitions 1..NPART (bit i of a mask = partition i; bit 0 unused as in PartitionManager)
#define MAXT 40

// ------------------------------------------------------------------ term table: value under sigma, support
static bool t_val[MAXT];
static uint8_t t_supp[MAXT];
static int nterms;
static bool t_overflow, t_badref;
enum { T_TRUE = 0, T_FALSE = 1, T_VAR0 = 2 };   // T_VAR0+v = atom of variable v; then NOPAQUE opaque terms; then created terms
#define NOPAQUE 2

static PTRef new_term(bool v, uint8_t s) {
    if (nterms >= MAXT) { t_overflow = true; return PTRef{T_TRUE}; }
    t_val[nterms] = v; t_supp[nterms] = s;
    return PTRef{(uint32_t)nterms++};
}
static bool tv(PTRef t) { if (t.x >= (uint32_t)nterms) { t_badref = true; return false; } return t_val[t.x]; }
static uint8_t ts(PTRef t) { if (t.x >= (uint32_t)nterms) { t_badref = true; return 0; } return t_supp[t.x]; }

extern "C" PTRef stub_true(Logic const *) { return PTRef{T_TRUE}; }
extern "C" PTRef stub_false(Logic const *) { return PTRef{T_FALSE}; }
extern "C" PTRef stub_mkAnd(Logic *, vec<PTRef> * args) {
    bool v = true; uint8_t s = 0;
    for (int i = 0; i < args->size(); i++) { v = v & tv((*args)[i]); s |= ts((*args)[i]); }
    return new_term(v, s);
}
extern "C" PTRef stub_mkOr(Logic *, vec<PTRef> * args) {
    bool v = false; uint8_t s = 0;
    for (int i = 0; i < args->size(); i++) { v = v | tv((*args)[i]); s |= ts((*args)[i]); }
    return new_term(v, s);
}
extern "C" PTRef stub_mkNot(Logic *, PTRef a) { return new_term(!tv(a), ts(a)); }

// ------------------------------------------------------------------ fixed-capacity buffers instead of symbolic-size (re)allocation
#define CAPMAX 4
extern "C" void stub_vec_capacity(vec<PTRef> * v, int min_cap) {
    if (v->cap >= min_cap) return;
    VASSERT(min_cap <= CAPMAX, "harness: vec<PTRef> never grows beyond the fixed capacity"); VASSUME(min_cap <= CAPMAX);
    PTRef * nd = static_cast<PTRef *>(malloc(CAPMAX * sizeof(PTRef)));
    for (int i = 0; i < CAPMAX; i++) if (i < v->sz) nd[i] = v->data[i];
    free(v->data);
    v->data = nd; v->cap = CAPMAX;
}
extern "C" void stub_realloc_insert(std::vector<Lit> * v, Lit * pos, Lit const * x) {
    Lit * b = v->_M_impl._M_start, * e = v->_M_impl._M_finish;
    VASSERT(pos == e, "harness: std::vector<Lit> grows by push_back only");
    Lit * nd = static_cast<Lit *>(::operator new(CAPMAX * sizeof(Lit)));
    int n = 0;
    for (int i = 0; i < CAPMAX; i++) if (b + i != e && n == i) { nd[i] = b[i]; n = i + 1; }
    VASSERT(b + n == e && n < CAPMAX, "harness: std::vector<Lit> never grows beyond the fixed capacity"); VASSUME(b + n == e && n < CAPMAX);
    nd[n] = *x;
    if (b) ::operator delete(b);
    v->_M_impl._M_start = nd; v->_M_impl._M_finish = nd + n + 1; v->_M_impl._M_end_of_storage = nd + CAPMAX;
}

// ------------------------------------------------------------------ environment oracles
static int cfg_alg, cfg_alt;
extern "C" ItpAlgorithm stub_boolAlg(SMTConfig const *) { return ItpAlgorithm{cfg_alg}; }
extern "C" int stub_altInter(SMTConfig const *) { return cfg_alt; }
extern "C" int stub_zero(SMTConfig const *) { return 0; }
// the text of an exception message is irrelevant here: numbers are not formatted (cuts symbolic-length string code)
extern "C" void stub_to_string(std::string * out, int) { new (out) std::string(); }

static unsigned char fake_tmap[8];
extern "C" TermMapper * stub_getTMap(THandler *) { return reinterpret_cast<TermMapper *>(fake_tmap); }
extern "C" PTRef stub_varToPTRef(TermMapper const *, Var v) { return PTRef{(uint32_t)(T_VAR0 + v)}; }

union MpzSlot { ipartitions_t z; MpzSlot() {} ~MpzSlot() {} };
static MpzSlot var_part[NV];          // partition mask of each variable's atom
static MpzSlot cla_part[1];           // partition mask of the (single) leaf clause under test
static bool bad_lookup;
extern "C" ipartitions_t * stub_getIPartitions(PartitionManager *, PTRef t) {
    if (t.x < T_VAR0 || t.x >= T_VAR0 + NV) { bad_lookup = true; return &var_part[0].z; }
    return &var_part[t.x - T_VAR0].z;
}
extern "C" ipartitions_t const * stub_getClauseClassMask(PartitionManager const *, CRef c) {
    if (c != CRef{7}) bad_lookup = true;
    return &cla_part[0].z;
}

// ------------------------------------------------------------------ the context in raw storage
union CtxSlot { SICC c; CtxSlot() {} ~CtxSlot() {} };
union PGSlot { ProofGraph g; PGSlot() {} ~PGSlot() {} };
union NodeSlot { ProofNode n; NodeSlot() {} ~NodeSlot() {} };
union MaskSlot { ipartitions_t z; MaskSlot() {} ~MaskSlot() {} };

static unsigned char fake_logic[8], fake_config[8], fake_pm[8];
extern "C" Logic * stub_getLogic(Theory *) { return reinterpret_cast<Logic *>(fake_logic); }
#define VT1 (void *)&stub_getLogic,
#define VT8 VT1 VT1 VT1 VT1 VT1 VT1 VT1 VT1

struct World {
    CtxSlot ctx; PGSlot pg; MaskSlot amask;
    uint8_t amask_bits;                 // A_mask as bits over partitions 1..NPART
    uint8_t vpart[NV];                  // partition masks of the variables
    int cls[NV];                        // class per variable: 1 A-local, 2 B-local, 3 shared
    uint8_t shared;                     // bit v set iff variable v is shared
    uint8_t allowed;                    // variables a partial interpolant may mention: the shared ones, without the assumed (frame) variable
    bool sigma[NV];
};

template <class T> static void set_ref(void * obj, size_t off, T * target) { *reinterpret_cast<void **>(reinterpret_cast<char *>(obj) + off) = (void *)target; }

static mpq_t keep_mpq_type;   // rt/gmp_model.c also models mpq functions and needs the struct type in the module
static void world_init(World & w, int nnodes, bool with_assumed, Lit assumed) {
    mpq_init(keep_mpq_type);
    nterms = 0; t_overflow = t_badref = bad_lookup = false;
    // sigma and the fixed part of the term table
    new_term(true, 0); new_term(false, 0);
    for (int v = 0; v < NV; v++) { w.sigma[v] = nondet_bool(); new_term(w.sigma[v], (uint8_t)(1u << v)); }
    // interpolation problem: A_mask is a non-empty proper subset of the partitions 1..NPART
    w.amask_bits = nondet_u8();
    VASSUME((w.amask_bits & ~((1u << (NPART + 1)) - 2)) == 0 && w.amask_bits != 0 && w.amask_bits != ((1u << (NPART + 1)) - 2));
    new (&w.amask.z) ipartitions_t((unsigned long)w.amask_bits);
    for (int v = 0; v < NV; v++) {
        w.vpart[v] = nondet_u8();
        VASSUME((w.vpart[v] & ~((1u << (NPART + 1)) - 2)) == 0 && w.vpart[v] != 0);   // every proof variable occurs in some partition
        new (&var_part[v].z) ipartitions_t((unsigned long)w.vpart[v]);
    }
    // the proof graph in raw storage: every variable 0..NV-1 is a proof variable (hand-linked std::set nodes, iterated by
    // the real std::set iterator code), no leaves registered (initTSolver only looks at theory leaves), no nodes
    // (nodeData is set up below), assumed literals as given
    new (&w.pg.g.assumedLiterals) std::vector<Lit>();
    if (with_assumed) w.pg.g.assumedLiterals.push_back(assumed);
    new (&w.pg.g.leaves_ids) std::set<clauseid_t>();
    new (&w.pg.g.graph) std::vector<ProofNode *>();
    {
        static std::_Rb_tree_node<Var> vn[NV];
        auto & hdr = w.pg.g.proof_variables._M_t._M_impl._M_header;
        hdr._M_color = std::_S_red; hdr._M_parent = &vn[0]; hdr._M_left = &vn[0]; hdr._M_right = &vn[NV - 1];
        w.pg.g.proof_variables._M_t._M_impl._M_node_count = NV;
        for (int v = 0; v < NV; v++) {
            vn[v]._M_color = std::_S_black; vn[v]._M_left = nullptr;
            vn[v]._M_right = v + 1 < NV ? &vn[v + 1] : nullptr;
            vn[v]._M_parent = v == 0 ? &hdr : static_cast<std::_Rb_tree_node_base *>(&vn[v - 1]);
            *vn[v]._M_valptr() = v;
        }
    }
    // the REAL constructor (THandler's constructor cut, Theory::getLogic through a fake vtable)
    static void * fake_vt[24] = {VT8 VT8 VT8};
    static void * fake_theory[2] = {(void *)fake_vt, nullptr};
    SICC * c = new (&w.ctx.c) SICC(*reinterpret_cast<SMTConfig *>(fake_config), *reinterpret_cast<Theory *>(fake_theory),
                                   *reinterpret_cast<TermMapper *>(fake_tmap), *reinterpret_cast<PartitionManager *>(fake_pm), w.pg.g, w.amask.z);
    VASSERT((void *)&c->logic == (void *)fake_logic && (void *)&c->proofGraph == (void *)&w.pg.g && (void *)&c->A_mask == (void *)&w.amask.z,
            "harness: reference members as passed to the constructor");
    // the variable-class cache against the bit-mask definition of A-local / B-local / shared
    int AB_bit_index = 0;
    w.shared = 0; w.allowed = 0;
    VASSERT(c->AB_vars_mapping.size() == NV, "constructor: one cache entry per proof variable");
    for (int v = 0; v < NV; v++) {
        bool inA = (w.vpart[v] & w.amask_bits) != 0, inB = (w.vpart[v] & ~w.amask_bits) != 0;
        bool isAssumed = with_assumed && var(assumed) == v;
        int m = c->AB_vars_mapping[v];
        if (isAssumed || (inA && inB)) {
            VASSERT(m == AB_bit_index, "constructor: shared (and assumed) variables get consecutive label-bit indices");
            AB_bit_index++; w.cls[v] = 3; w.shared |= (uint8_t)(1u << v); if (!isAssumed) w.allowed |= (uint8_t)(1u << v);
        } else {
            VASSERT(m == (inA ? -1 : -2), "constructor: A-local / B-local as defined by the partition masks");
            w.cls[v] = inA ? 1 : 2;
        }
        VASSUME(m == (w.cls[v] == 3 ? AB_bit_index - 1 : w.cls[v] == 1 ? -1 : -2));
    }
    // nodeData (sized 0 by the constructor for the empty graph): three default-constructed elements in static storage
    // (vector::resize divides by sizeof == 40: a 64-bit divider per call)
    static union NDSlot { SICC::InterpolationNodeData d[3]; NDSlot() {} ~NDSlot() {} } nd;
    for (int i = 0; i < 3; i++) new (&nd.d[i]) SICC::InterpolationNodeData();
    c->nodeData._M_impl._M_start = &nd.d[0]; c->nodeData._M_impl._M_finish = &nd.d[0] + nnodes; c->nodeData._M_impl._M_end_of_storage = &nd.d[0] + 3;
}

// ghost clause = two bit sets over the variables
struct GClause { uint8_t pos, neg; };
static GClause nondet_clause() { GClause c; c.pos = nondet_u8() & ((1u << NV) - 1); c.neg = nondet_u8() & ((1u << NV) - 1); return c; }

// colour of variable v in node id: class for local variables, label for shared ones; 0 = no label
static int colour(World & w, int id, int v) {
    if (w.cls[v] != 3) return w.cls[v];
    int i = w.ctx.c.AB_vars_mapping[v];
    int a = tstbit(w.ctx.c.nodeData[id].AB_vars_a_colored, i), b = tstbit(w.ctx.c.nodeData[id].AB_vars_b_colored, i);
    return (a ? 1 : 0) | (b ? 2 : 0);
}
// value under sigma of the clause restricted to the literals whose colour is in {c1, 3}; skip = literals treated as absent
static bool restricted_true(World & w, int id, GClause cl, int c1, GClause skip = GClause{0, 0}) {
    bool r = false;
    for (int v = 0; v < NV; v++) {
        int col = colour(w, id, v);
        if (col != c1 && col != 3) continue;
        if (((cl.pos & ~skip.pos) >> v) & 1) r = r | w.sigma[v];
        if (((cl.neg & ~skip.neg) >> v) & 1) r = r | !w.sigma[v];
    }
    return r;
}
static bool labelled(World & w, int id, GClause cl) {
    for (int v = 0; v < NV; v++) if (((cl.pos | cl.neg) >> v) & 1) if (colour(w, id, v) == 0) return false;
    return true;
}
// the invariant named by verifyPartialInterpolantA / B, pointwise in sigma
static bool invA(World & w, int id, GClause cl, bool Asig, PTRef I, GClause skip = GClause{0, 0}) { return !(Asig && !restricted_true(w, id, cl, 1, skip)) || tv(I); }
static bool invB(World & w, int id, GClause cl, bool Bsig, PTRef I, GClause skip = GClause{0, 0}) { return !(Bsig && !restricted_true(w, id, cl, 2, skip) && tv(I)); }

static void set_node(ProofNode & n, clauseid_t id, ProofNode * a1, ProofNode * a2, Var piv, clause_type t) {
    n.id = id; n.clause = nullptr; n.clause_ref = CRef_Undef; n.pivot = piv; n.ant1 = a1; n.ant2 = a2; n.type = t;
}
static void set_labels(World & w, int id, uint8_t a, uint8_t b) {
    mpz_set_ui(w.ctx.c.nodeData[id].AB_vars_a_colored.get_mpz_t(), a);
    mpz_set_ui(w.ctx.c.nodeData[id].AB_vars_b_colored.get_mpz_t(), b);
}
// an arbitrary partial interpolant: true, false, a variable atom, or an opaque term with arbitrary value over shared variables
static PTRef nondet_itp(World & w) {
    for (int k = 0; k < NOPAQUE; k++) { uint8_t s = nondet_u8(); VASSUME((s & ~w.allowed) == 0); new_term(nondet_bool(), s); }
    uint8_t i = nondet_u8(); VASSUME(i < T_VAR0 + NV + NOPAQUE);
    return PTRef{i};
}

// ================================================================== inner node: one resolution step
// ASSUMED: the proof has one assumed (frame) literal `al`; the code treats a literal whose negation is assumed as absent
// (getRestrictedNodeClause) and resolution steps on the assumed variable as "take the interpolant of the antecedent
// that has the negated assumed literal" (I_S branch). The invariant is then stated on clauses without ~al.
template <bool ASSUMED> static void inner_step() {
    static World w;
    cfg_alg = nondet_u8(); VASSUME(cfg_alg >= 0 && cfg_alg <= 5);    // the algorithm is not read by the inner step; kept symbolic
    cfg_alt = nondet_u8();                                            // proof_alternative_inter(): any value, 1 selects the alternative form
    Lit al = lit_Undef; GClause skip{0, 0};
    if (ASSUMED) {
        int av = nondet_u8(); VASSUME(av < NV); bool as = nondet_bool();
        al = mkLit(av, as);
        if (as) skip.pos = (uint8_t)(1u << av); else skip.neg = (uint8_t)(1u << av);    // ~al is ignored
    }
    world_init(w, 3, ASSUMED, al);
    static NodeSlot s1, s2, s3;
    ProofNode & n1 = s1.n, & n2 = s2.n, & n = s3.n;
    int p = nondet_u8(); VASSUME(p < NV);
    set_node(n1, 0, nullptr, nullptr, -1, clause_type::CLA_ORIG);
    set_node(n2, 1, nullptr, nullptr, -1, clause_type::CLA_ORIG);
    set_node(n, 2, &n1, &n2, p, clause_type::CLA_LEARNT);
    // antecedent clauses, labels, partial interpolants
    GClause c1 = nondet_clause(), c2 = nondet_clause();
    VASSUME((c1.pos >> p) & 1); VASSUME((c2.neg >> p) & 1);           // ant1 has the pivot positively, ant2 negatively
    VASSUME(!((c1.neg >> p) & 1) && !((c2.pos >> p) & 1));            // ... and not in the other polarity (the resolvent does not contain the pivot variable)
    uint8_t nab = 0; for (int v = 0; v < NV; v++) if (w.cls[v] == 3) nab++;
    uint8_t la1 = nondet_u8(), lb1 = nondet_u8(), la2 = nondet_u8(), lb2 = nondet_u8(), m = (uint8_t)((1u << nab) - 1);
    VASSUME(((la1 | lb1 | la2 | lb2) & ~m) == 0);
    set_labels(w, 0, la1, lb1); set_labels(w, 1, la2, lb2);
    VASSUME(labelled(w, 0, c1) && labelled(w, 1, c2));
    PTRef I1 = nondet_itp(w), I2 = nondet_itp(w);
    bool Asig = nondet_bool(), Bsig = nondet_bool();
    bool piv_assumed = ASSUMED && var(al) == p;
    // induction hypothesis for both antecedents; on a step over the assumed variable the antecedent that contains the
    // assumed literal itself (the assumption leaf, whose interpolant "will be ignored") is unconstrained
    bool hyp1 = !(piv_assumed && !sign(al)), hyp2 = !(piv_assumed && sign(al));
    if (hyp1) VASSUME((ts(I1) & ~w.allowed) == 0 && invA(w, 0, c1, Asig, I1, skip) && invB(w, 0, c1, Bsig, I1, skip));
    if (hyp2) VASSUME((ts(I2) & ~w.allowed) == 0 && invA(w, 1, c2, Asig, I2, skip) && invB(w, 1, c2, Bsig, I2, skip));
    w.ctx.c.setPartialInterpolant(n1, I1); w.ctx.c.setPartialInterpolant(n2, I2);

    PTRef I = PTRef_Undef; bool threw = false;
    try { I = w.ctx.c.compInterpLabelingInner(n); } catch (...) { threw = true; }

    VASSERT(!threw, "compInterpLabelingInner does not throw on a well-labelled step");
    VASSERT(!t_overflow && !t_badref && !bad_lookup, "harness: term table large enough, only known terms used");
    if (!threw) {
        GClause c; c.pos = (uint8_t)((c1.pos & ~(1u << p)) | c2.pos); c.neg = (uint8_t)(c1.neg | (c2.neg & ~(1u << p)));   // set-theoretic resolvent
        VASSERT(labelled(w, 2, c), "every shared variable of the resolvent carries a label");
        VASSERT(invA(w, 2, c, Asig, I, skip), "A(sigma) and not C|a,ab(sigma) implies I(sigma) for the resolvent");
        VASSERT(invB(w, 2, c, Bsig, I, skip), "B(sigma) and not C|b,ab(sigma) and I(sigma) is contradictory for the resolvent");
        VASSERT((ts(I) & ~w.allowed) == 0, "partial interpolant mentions only shared variables");
        int pc = colour(w, 0, p) | colour(w, 1, p);
        if (!piv_assumed) {
            if (pc == 1) VWITNESS("pivot-a");
            if (pc == 2) VWITNESS("pivot-b");
            if (pc == 3 && cfg_alt != 1) VWITNESS("pivot-ab-standard");
            if (pc == 3 && cfg_alt == 1 && I1.x == T_FALSE) VWITNESS("pivot-ab-alternative");
        } else {
            if (!sign(al)) VWITNESS("pivot-assumed-positive"); else VWITNESS("pivot-assumed-negative");
        }
    }
}
extern "C" void h_inner_step() { inner_step<false>(); }
extern "C" void h_inner_assumed() { inner_step<true>(); }

// ================================================================== leaves: labelling + partial interpolant of an original / split clause
typedef std::map<Var, icolor_t> PSMap;
typedef std::_Rb_tree_node<std::pair<Var const, icolor_t>> PSNode;
union PSSlot { PSMap m; PSSlot() {} ~PSSlot() {} };
// the proof-sensitive labelling function as a hand-linked search tree (right chain, keys 0..NV-1, arbitrary values):
// std::map::find is the real template code; insertion (out-of-line _Rb_tree_insert_and_rebalance) is not needed
static PSMap * make_psf() {
    static PSSlot ps; static PSNode nodes[NV];
    auto & hdr = ps.m._M_t._M_impl._M_header;
    hdr._M_color = std::_S_red; hdr._M_left = &nodes[0]; hdr._M_right = &nodes[NV - 1]; hdr._M_parent = &nodes[0];
    ps.m._M_t._M_impl._M_node_count = NV;
    for (int v = 0; v < NV; v++) {
        nodes[v]._M_color = std::_S_black; nodes[v]._M_left = nullptr;
        nodes[v]._M_right = v + 1 < NV ? &nodes[v + 1] : nullptr;
        nodes[v]._M_parent = v == 0 ? &hdr : static_cast<std::_Rb_tree_node_base *>(&nodes[v - 1]);
        new (nodes[v]._M_valptr()) std::pair<Var const, icolor_t>(v, static_cast<icolor_t>(nondet_u8()));
    }
    return &ps.m;
}

// N = number of literals (concrete per entry); kind 0 = original clause, 1 = split clause
template <int N, int KIND, bool ASSUMED> static void leaf_step() {
    static_assert(N <= NV, "clause longer than the number of variables");
    static World w;
    cfg_alg = nondet_u8(); VASSUME(cfg_alg >= 0 && cfg_alg <= 5);
    cfg_alt = nondet_u8();
    Lit al = lit_Undef; GClause skip{0, 0};
    if (ASSUMED) {
        int av = nondet_u8(); VASSUME(av < NV); bool as = nondet_bool();
        al = mkLit(av, as);
        if (as) skip.pos = (uint8_t)(1u << av); else skip.neg = (uint8_t)(1u << av);
    }
    world_init(w, 1, ASSUMED, al);
    if (ASSUMED) VASSUME(w.sigma[var(al)] == !sign(al));              // sigma satisfies the assumption
    // the leaf clause: N literals over distinct variables, sorted by variable
    static NodeSlot s; ProofNode & n = s.n;
    set_node(n, 0, nullptr, nullptr, -1, KIND == 0 ? clause_type::CLA_ORIG : clause_type::CLA_SPLIT);
    n.clause_ref = CRef{7};
    static std::vector<Lit> lits(N);
    n.clause = &lits;
    GClause cl{0, 0}; bool ctrue = false; bool has_al = false;
    uint8_t cm = nondet_u8();                                         // partitions in which the clause occurs
    VASSUME((cm & ~((1u << (NPART + 1)) - 2)) == 0 && cm != 0);
    int prev = -1;
    for (int k = 0; k < N; k++) {
        int v = nondet_u8(); VASSUME(v < NV && v > prev); prev = v;
        bool sg = nondet_bool();
        lits[k] = mkLit(v, sg);
        if (sg) cl.neg |= (uint8_t)(1u << v); else cl.pos |= (uint8_t)(1u << v);
        ctrue = ctrue | (w.sigma[v] != sg);
        if (ASSUMED && lits[k] == al) has_al = true;
        // an atom occurs in every partition its clause occurs in (PartitionManager propagates the clause's partitions
        // to its atoms); frame literals carry no partition
        if (KIND == 0 && !(ASSUMED && v == var(al))) VASSUME((w.vpart[v] & cm) == cm);
    }
    new (&cla_part[0].z) ipartitions_t((unsigned long)cm);
    // ghost semantics: P[i] = value of partition i under sigma; A = conjunction of the partitions in A_mask, B = of the others
    bool Asig = true, Bsig = true;
    for (int i = 1; i <= NPART; i++) {
        bool Pi = nondet_bool();
        if ((w.amask_bits >> i) & 1) Asig = Asig & Pi; else Bsig = Bsig & Pi;
        if (KIND == 0 && ((cm >> i) & 1)) VASSUME(!Pi || ctrue);      // the clause is a consequence of every partition it belongs to
    }
    if (KIND == 1) VASSUME(ctrue);                                   // a split clause is a valid theory lemma
    PSMap * psf = make_psf();

    PTRef I = PTRef_Undef; bool threw = false;
    try {
        w.ctx.c.labelLeaf(n, psf);
        I = KIND == 0 ? w.ctx.c.computePartialInterpolantForOriginalClause(n) : w.ctx.c.computePartialInterpolantForSplitClause(n);
    } catch (...) { threw = true; }

    VASSERT(!threw, "leaf labelling / leaf interpolant does not throw");
    VASSERT(!t_overflow && !t_badref && !bad_lookup, "harness: term table large enough, only known terms used");
    if (!threw) {
        VASSERT(labelled(w, 0, cl), "every shared variable of the leaf carries a label");
        VASSERT(invA(w, 0, cl, Asig, I, skip), "A(sigma) and not C|a,ab(sigma) implies I(sigma) for the leaf");
        VASSERT(invB(w, 0, cl, Bsig, I, skip), "B(sigma) and not C|b,ab(sigma) and I(sigma) is contradictory for the leaf");
        // a split clause over one A-local and one B-local atom yields the B-local atom: both atoms are bounds on the same
        // expression, which therefore occurs on both sides (comment in the source); accepted at the level of atoms here
        uint8_t ok = w.allowed;
        if (KIND == 1) { int c0 = w.cls[var(lits[0])], c1 = w.cls[var(lits[N - 1])]; if ((c0 & c1) == 0) ok |= (uint8_t)(cl.pos | cl.neg); }
        if (!has_al) VASSERT((ts(I) & ~ok) == 0, "leaf interpolant mentions only shared variables");
        bool inA = (cm & w.amask_bits) != 0;
        if (KIND == 0 && inA && I.x != T_FALSE) VWITNESS("A-leaf-with-b-coloured-literals");
        if (KIND == 0 && inA && I.x == T_FALSE) VWITNESS("A-leaf-false");
        if (KIND == 0 && !inA && I.x != T_TRUE) VWITNESS("B-leaf-with-a-coloured-literals");
        if (KIND == 0 && !inA && I.x == T_TRUE) VWITNESS("B-leaf-true");
        if (KIND == 1) VWITNESS("split-leaf");
        if (cfg_alg == 0) VWITNESS("mcmillan"); if (cfg_alg == 1) VWITNESS("pudlak"); if (cfg_alg == 2) VWITNESS("mcmillan-prime");
        if (cfg_alg == 3) VWITNESS("ps"); if (cfg_alg == 4) VWITNESS("psw"); if (cfg_alg == 5) VWITNESS("pss");
    }
}
// two clause lengths in one entry: one CBMC start-up instead of one per length
extern "C" void h_leaf_orig_12() { leaf_step<1, 0, false>(); leaf_step<2, 0, false>(); }
#if NV >= 3
extern "C" void h_leaf_orig_3() { leaf_step<3, 0, false>(); }
#endif
#if NV >= 4
extern "C" void h_leaf_orig_4() { leaf_step<4, 0, false>(); }
#endif
extern "C" void h_leaf_assumed_split() { leaf_step<2, 0, true>(); leaf_step<2, 1, false>(); }

// C08: FarkasInterpolator default algorithm (getFarkasInterpolant / weightedSum, real PolynomialT::merge and FastRational
// arithmetic) on N <= 3 literals over two numeric variables with small integer coefficients: the weighted sum of the
// A-literals is implied by A and, given that the weights are a Farkas certificate, contradicts B. Checked pointwise at
// a symbolic integer point (x1, x2).
#include "verif.h"
#include "tsolvers/lasolver/FarkasInterpolator.h"
#include "common/polynomials/Translations.h"
#include "logics/ArithLogic.h"
#include <new>
using namespace opensmt;

#define NX 2
// literal i:  sgn_i ? (0 <= p_i(x)) : not (0 <= p_i(x)),   p_i = a_i1*x1 + a_i2*x2 + c_i ; atom term = PTRef{10+i}; variable j = PTRef{1+j}
static int A_[3][NX], C_[3]; static bool SG[3]; static int COL[3]; static int W[3];
static bool bad_use;
static bool word_int(Real const & r, int & out) { auto nd = r.tryGetNumDen(); if (!nd || nd->second != 1) return false; out = nd->first; return true; }

// ---- FR-ADT: FastRational arithmetic by its exact specification on small integers (the implementation itself is C15's subject)
static bool fr_bad;
static int fr_int(FastRational const * a) {
    int v = 0; bool ok = a->state == State::WORD_VALID && word_int(*a, v) && v >= -200 && v <= 200;
    if (!ok) { fr_bad = true; return 0; }
    return v;
}
static void fr_set(FastRational * d, int v) { if (d->state != State::WORD_VALID) fr_bad = true; d->num = v; d->den = 1; }
extern "C" void stub_fr_multiplication(FastRational * dst, FastRational const * a, FastRational const * b) { fr_set(dst, fr_int(a) * fr_int(b)); }
extern "C" void stub_fr_additionAssign(FastRational * a, FastRational const * b) { fr_set(a, fr_int(a) + fr_int(b)); }
extern "C" void stub_fr_neg(FastRational * out, FastRational const * a) { out->state = State::WORD_VALID; out->num = -fr_int(a); out->den = 1; out->mpq = nullptr; }

extern "C" icolor_t stub_getColorFor(FarkasInterpolator const *, PTRef t) {
    if (t.x < 10 || t.x > 12) { bad_use = true; return icolor_t::I_A; }
    return static_cast<icolor_t>(COL[t.x - 10]);
}
extern "C" SRef stub_getUniqueArgSort(Logic const *, PTRef) { return SRef{1}; }
extern "C" void stub_ptrefToPoly(LAPoly * out, PTRef atom, ArithLogic *) {
    new (out) LAPoly();
    if (atom.x < 10 || atom.x > 12) { bad_use = true; return; }
    int i = atom.x - 10;
    for (int j = 0; j < NX; j++) if (A_[i][j] != 0) out->addTerm(PTRef{1u + (uint32_t)j}, Real(A_[i][j]));
    if (C_[i] != 0) out->addTerm(PTRef_Undef, Real(C_[i]));
}
// result recorder: polyToPTRef sees the final polynomial, mkGeq / mkGt / getTerm_true / getTerm_false / mkNot give the shape
static int q_a[NX], q_c; static bool q_ok; static int q_calls;
extern "C" PTRef stub_polyToPTRef(LAPoly * poly, ArithLogic *, SRef) {
    q_calls++; q_ok = true; q_c = 0; for (int j = 0; j < NX; j++) q_a[j] = 0;
    int seen = 0;
    for (auto const & term : *poly) {
        int v = 0; if (!word_int(term.coeff, v) || v == 0) q_ok = false;
        if (term.var == PTRef_Undef) { q_c = v; seen |= 4; }
        else if (term.var.x >= 1 && term.var.x <= NX) { if (seen & (1 << (term.var.x - 1))) q_ok = false; q_a[term.var.x - 1] = v; seen |= 1 << (term.var.x - 1); }
        else q_ok = false;
    }
    return PTRef{50};
}
enum { R_TRUE = 60, R_FALSE = 61, R_GEQ = 62, R_GT = 63, R_NOT = 100 };
extern "C" PTRef stub_zero(ArithLogic const *, SRef) { return PTRef{51}; }
extern "C" PTRef stub_mkGeq(ArithLogic *, PTRef s, PTRef z) { if (s.x != 50 || z.x != 51) bad_use = true; return PTRef{R_GEQ}; }
extern "C" PTRef stub_mkGt(ArithLogic *, PTRef s, PTRef z) { if (s.x != 50 || z.x != 51) bad_use = true; return PTRef{R_GT}; }
extern "C" PTRef stub_true(Logic const *) { return PTRef{R_TRUE}; }
extern "C" PTRef stub_false(Logic const *) { return PTRef{R_FALSE}; }
extern "C" PTRef stub_mkNot(Logic *, PTRef t) { return PTRef{R_NOT + t.x}; }

static bool eval_itp(PTRef r, int x1, int x2) {
    bool neg = false; uint32_t k = r.x;
    if (k >= R_NOT) { neg = true; k -= R_NOT; }
    int q = q_a[0] * x1 + q_a[1] * x2 + q_c;
    bool v = k == R_TRUE ? true : k == R_FALSE ? false : k == R_GEQ ? q >= 0 : q > 0;
    return neg ? !v : v;
}

union FSlot { FarkasInterpolator f; FSlot() {} ~FSlot() {} };
static unsigned char fake_logic[8];

static mpq_t keep_mpq_type;   // rt/gmp_model.c needs the GMP struct types in the module
template <int N, bool DUAL> static void farkas() {
    mpq_init(keep_mpq_type);
    bad_use = false; fr_bad = false; q_calls = 0; q_ok = true; q_c = 0; q_a[0] = q_a[1] = 0;
    bool anyA = false, anyB = false;
    for (int i = 0; i < N; i++) {
        for (int j = 0; j < NX; j++) { A_[i][j] = (int8_t)nondet_u8(); VASSUME(A_[i][j] >= -2 && A_[i][j] <= 2 && A_[i][j] != 0); }   // non-zero: concrete polynomial shapes (symbolic vector sizes explode)
        C_[i] = (int8_t)nondet_u8(); VASSUME(C_[i] >= -3 && C_[i] <= 3 && C_[i] != 0);
        SG[i] = nondet_bool();
        COL[i] = nondet_u8(); VASSUME(COL[i] >= 1 && COL[i] <= 3);            // a, b or ab
        W[i] = nondet_u8(); VASSUME(W[i] >= 1 && W[i] <= 3);                  // Farkas coefficients are positive
    }
    // Farkas certificate: the weighted sum of all literals (as  t_i >= 0  resp.  t_i > 0,  t_i = +-p_i) cancels every variable and
    // leaves a constant d with d < 0, or d == 0 and some literal strict
    int d = 0, s[NX] = {0, 0}; bool strict = false;
    for (int i = 0; i < N; i++) {
        int sg = SG[i] ? 1 : -1;
        for (int j = 0; j < NX; j++) s[j] += W[i] * sg * A_[i][j];
        d += W[i] * sg * C_[i];
        if (!SG[i]) strict = true;
    }
    VASSUME(s[0] == 0 && s[1] == 0 && (d < 0 || (d == 0 && strict)));
    // the interpolator object: real constructor
    vec<PtAsgn> expl; std::vector<Real> coeffs; coeffs.reserve(N);
    for (int i = 0; i < N; i++) { expl.push(PtAsgn{PTRef{10u + (uint32_t)i}, SG[i] ? l_True : l_False}); coeffs.emplace_back(W[i]); }
    static FSlot slot;
    FarkasInterpolator * f = new (&slot.f) FarkasInterpolator(*reinterpret_cast<ArithLogic *>(fake_logic), std::move(expl), std::move(coeffs), FarkasInterpolator::ItpColorMap());

    PTRef I = DUAL ? f->getDualFarkasInterpolant() : f->getFarkasInterpolant();

    VASSERT(!bad_use, "harness: stubs used with known arguments only");
    VASSERT(!fr_bad, "FR-ADT: every arithmetic operation is on small integers in word form");
    VASSERT(q_calls <= 1 && q_ok, "the interpolant is one inequality over the known variables with non-zero integer coefficients");
    // pointwise at a symbolic point
    int x1 = (int8_t)nondet_u8(), x2 = (int8_t)nondet_u8(); VASSUME(x1 >= -4 && x1 <= 4 && x2 >= -4 && x2 <= 4);
    bool Ahold = true, Bhold = true;
    for (int i = 0; i < N; i++) {
        int p = A_[i][0] * x1 + A_[i][1] * x2 + C_[i];
        bool lit = SG[i] ? (0 <= p) : !(0 <= p);
        // a literal labelled ab belongs to the side the algorithm puts it on: primal -> A, dual -> B (its sum is negated)
        bool inA = DUAL ? COL[i] == 1 : (COL[i] == 1 || COL[i] == 3);
        if (inA) { Ahold = Ahold && lit; anyA = true; } else { Bhold = Bhold && lit; anyB = true; }
    }
    bool Iv = eval_itp(I, x1, x2);
    VASSERT(!Ahold || Iv, "A(x) implies I(x)");
    VASSERT(!(Bhold && Iv), "B(x) and I(x) is contradictory");
    VWITNESS("farkas");
    if (anyA && anyB && q_calls == 1) VWITNESS("mixed");
    if (q_calls == 0) VWITNESS("constant-interpolant");
}
extern "C" void h_farkas_2() { farkas<2, false>(); }
extern "C" void h_farkas_3() { farkas<3, false>(); }
extern "C" void h_farkas_dual_2() { farkas<2, true>(); }
extern "C" void h_farkas_dual_3() { farkas<3, true>(); }

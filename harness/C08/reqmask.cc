// C08: request -> partition-mask mapping of Interpret::getInterpolants in incremental use. Same harness as
// harness/C09/masks.cc, but an assertion may repeat the term of an earlier, popped assertion.
#define DUP_TERMS 1
#include "../C09/masks.cc"

// C08: decomposed Farkas interpolants need every vector of the null-space basis to be non-negative (each conjunct of the
// interpolant is a NON-NEGATIVE combination of A's inequalities, hence implied by A). ensureNonNegativeVec is the step
// that establishes this; it lives in an anonymous namespace, so this harness includes the translation unit.
#include "verif.h"
#include "tsolvers/lasolver/FarkasInterpolator.cc"
using namespace opensmt;

static bool small_int(Real const & r, int & out) { auto nd = r.tryGetNumDen(); if (!nd || nd->second != 1) return false; out = nd->first; return true; }

template <int N> static void nonneg() {
    std::vector<Real> base, target;
    int b[N], t[N];
    for (int i = 0; i < N; i++) {
        b[i] = (int8_t)nondet_u8(); t[i] = (int8_t)nondet_u8();
        VASSUME(b[i] >= -3 && b[i] <= 3 && t[i] >= 1 && t[i] <= 3);          // vecToDecompose is strictly positive (Farkas coefficients)
        base.emplace_back(b[i]); target.emplace_back(t[i]);
    }
    Coordinates coords; coords.emplace_back(1);
    int negatives = 0; for (int i = 0; i < N; i++) if (b[i] < 0) negatives++;
    ensureNonNegativeVec(base, 0, coords, target);
    for (int i = 0; i < N; i++) VASSERT(!(base[i] < Real(0)), "every component of the basis vector is non-negative afterwards");
    // the correction only adds a non-negative multiple of the decomposed vector: base' - base = c * target with one c >= 0
    Real c = (base[0] - Real(b[0])) / Real(t[0]);
    VASSERT(!(c < Real(0)), "the correction is a non-negative multiple of the decomposed vector");
    for (int i = 0; i < N; i++) VASSERT(base[i] - Real(b[i]) == c * Real(t[i]), "the correction is the same multiple in every component");
    if (negatives >= 2) { VWITNESS("two-negative-components"); }
    VWITNESS("nonneg");
}
extern "C" void h_nonneg_2() { nonneg<2>(); }
extern "C" void h_nonneg_3() { nonneg<3>(); }

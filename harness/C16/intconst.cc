// C16: ArithLogic::mkConst(sort_INT, text): equal integers get the same, canonical symbol name with the exact value.
#include "verif.h"
#include <cstdlib>
#include <cstring>
#include "logics/ArithLogic.h"
using namespace opensmt;

#define MAXD 4
static char captured[MAXD + 3]; static int ncap; static bool cap_too_long;
struct EscapeAfterCapture {};
// replacement for Logic::mkVar: records the symbol name chosen for the constant, then leaves mkConst (the rest of it
// only stores the value under that symbol)
extern "C" PTRef stub_mkVar(Logic *, SRef, char const * name, bool) {
    int i = 0;
    for (; name[i] != '\0'; i++) { if (i >= MAXD + 2) { cap_too_long = true; break; } captured[i] = name[i]; }
    captured[i < MAXD + 3 ? i : MAXD + 2] = '\0';
    ncap++;
    throw EscapeAfterCapture{};
}
static char digit() { char c = (char)nondet_u8(); VASSUME(c == '0' || c == '1' || c == '9'); return c; }

union RawLogic { ArithLogic l; RawLogic() {} ~RawLogic() {} };

extern "C" void h_int_constant_name() {
    char s[MAXD + 2]; int p = 0;
    bool neg = nondet_bool(); if (neg) s[p++] = '-';
    int nd = nondet_u8(); VASSUME(nd >= 1 && nd <= MAXD);
    int32_t mag = 0;
    for (int i = 0; i < MAXD; i++) if (i < nd) { char c = digit(); s[p++] = c; mag = mag * 10 + (c - '0'); }
    s[p] = '\0';
    static RawLogic raw;                          // only sort_INT / sort_REAL are read before mkVar
    raw.l.sort_INT = SRef{7}; raw.l.sort_REAL = SRef{8};
    bool escaped = false;
    try { raw.l.mkConst(raw.l.sort_INT, s); } catch (EscapeAfterCapture const &) { escaped = true; }
    VASSERT(escaped && ncap == 1 && !cap_too_long, "the literal is turned into exactly one symbol name");
    // the name must be the canonical decimal text of the value: optional '-', no leading zero, "0" for zero
    int q = 0; bool cneg = (captured[0] == '-'); if (cneg) q = 1;
    int32_t cmag = 0; int cd = 0; bool digits_only = true;
    for (int i = q; i < MAXD + 2; i++) { if (captured[i] == '\0') break; if (captured[i] < '0' || captured[i] > '9') digits_only = false; cmag = cmag * 10 + (captured[i] - '0'); cd++; }
    VASSERT(digits_only && cd >= 1, "name is [-]digits");
    VASSERT(cmag == mag && (mag == 0 || cneg == neg), "name denotes exactly the literal's value (sign included)");
    VASSERT(cd == 1 || captured[q] != '0', "no leading zeros: equal numbers are the same constant");
    VASSERT(!(cneg && cmag == 0), "no negative zero");
    if (neg && nd >= 2 && s[1] == '0' && mag != 0) { VWITNESS("negative-with-leading-zero"); }
    if (mag == 0 && neg) { VWITNESS("negative-zero-input"); }
    VWITNESS("int-const");
}

// C16: numeric literals are read exactly: isIntString / isRealString / stringToRational / normalize (real code, header-inline)
#include "verif.h"
#include <cstdlib>
#include <cstring>
#include <gmp.h>
#include "common/StringConv.h"
using namespace opensmt;

#ifndef MAXLEN
#define MAXLEN 5
#endif
#ifndef NF
#define NF 5     // fraction digits of the structured decimal entry (two separate zero runs need >= 4)
#endif
static bool isdig(char c) { return c >= '0' && c <= '9'; }

// ---- GMP text interface of opensmt::normalize replaced by a recorder that parses, in ONE pass, the text handed to
// mpq_set_str:  N  or  N/D  (digits only). GMP's base rule is part of the oracle: base 10 reads decimal; base 0
// auto-detects and reads a component with a leading zero as octal/hex/binary.
static int ncap, cap_base; static bool cap_neg, cap_ok, cap_leading_zero, cap_has_den, cap_den_is_pow10;
static uint32_t cap_n, cap_d; static int cap_den_zeros, cap_len;
extern "C" int stub_mpq_set_str(mpq_ptr, const char * flo, int base) {
    ncap++; cap_base = base; cap_ok = true; cap_leading_zero = false; cap_has_den = false; cap_den_is_pow10 = true;
    cap_n = 0; cap_d = 0; cap_den_zeros = 0;
    int i = 0, start = 0;
    for (; flo[i] != '\0'; i++) {
        VASSERT(i < 2 * MAXLEN + 2 * NF + 4, "text handed to GMP longer than any possible conversion");
        char c = flo[i];
        if (c == '/') { if (cap_has_den || i == start) cap_ok = false; cap_has_den = true; start = i + 1; continue; }
        if (!isdig(c)) { cap_ok = false; continue; }
        if (i == start && c == '0' && isdig(flo[i + 1])) cap_leading_zero = true;
        if (!cap_has_den) cap_n = cap_n * 10 + (uint32_t)(c - '0');
        else {
            cap_d = cap_d * 10 + (uint32_t)(c - '0');
            if (i == start) { if (c != '1') cap_den_is_pow10 = false; } else { if (c != '0') cap_den_is_pow10 = false; cap_den_zeros++; }
        }
    }
    if (i == start) cap_ok = false;        // empty numerator or empty denominator
    cap_len = i;
    return 0;
}
extern "C" void stub_mpq_neg(mpq_ptr, mpq_srcptr) { cap_neg = !cap_neg; }
extern "C" void stub_mpq_unary(mpq_ptr) {}
extern "C" int stub_gmp_asprintf(char ** out, const char *, ...) { *out = nullptr; return 0; }
extern "C" int stub_asprintf(char ** out, const char *, ...) { *out = nullptr; return 0; }
// scratch buffer of stringToRational: fixed storage (a symbolic-size heap object is intractable), canary-checked
#define C4 0x5A, 0x5A, 0x5A, 0x5A,
static char scratch[24] = {C4 C4 C4 C4 C4 C4}; static unsigned long scratch_req; static int n_malloc;
extern "C" void * stub_malloc(unsigned long n) {
    VASSERT(n <= sizeof(scratch), "scratch buffer request within the harness bound");
    VASSERT(n_malloc == 0, "one scratch buffer per conversion");
    scratch_req = n; n_malloc++;
    return scratch;
}
extern "C" void stub_free(void *) {}
static void check_scratch() {
    if (n_malloc && scratch_req + 1 < sizeof(scratch)) { VASSERT(scratch[scratch_req] == 0x5A && scratch[scratch_req + 1] == 0x5A, "no write beyond the requested scratch buffer"); }
}
static bool read_as_decimal() { return cap_base == 10 || (cap_base == 0 && !cap_leading_zero); }

static char digit() { char c = (char)nondet_u8(); VASSUME(c == '0' || c == '1' || c == '9'); return c; }

// (A) every well-formed decimal  [-] d{0..2} [ . d{0..NF} ]  with at least one digit denotes its exact value
extern "C" void h_decimal_value() {
    char s[NF + 6]; int p = 0;
    bool neg = nondet_bool(); if (neg) s[p++] = '-';
    int ni = nondet_u8(), nf = nondet_u8(); bool dot = nondet_bool();
    VASSUME(ni >= 0 && ni <= 2 && nf >= 0 && nf <= NF && ni + nf >= 1 && (dot || nf == 0));
    uint32_t rn = 0;
    for (int i = 0; i < 2; i++) if (i < ni) { char c = digit(); s[p++] = c; rn = rn * 10 + (uint32_t)(c - '0'); }
    if (dot) s[p++] = '.';
    for (int i = 0; i < NF; i++) if (i < nf) { char c = digit(); s[p++] = c; rn = rn * 10 + (uint32_t)(c - '0'); }
    s[p] = '\0';
    char * rat = nullptr; bool threw = false;
    try { stringToRational(rat, s); } catch (strConvException const &) { threw = true; }
    VASSERT(!threw, "a well-formed decimal literal is accepted");
    if (threw) return;
    VASSERT(ncap == 1 && cap_ok, "converted once, to digits or digits/digits");
    VASSERT(read_as_decimal(), "GMP reads the converted text as decimal (base 10, or auto-detection without a leading zero)");
    VASSERT(!cap_has_den || cap_den_is_pow10, "decimal literal becomes numerator / power of ten");
    uint32_t l = cap_n, r = rn;           // cap_n / 10^zeros == rn / 10^nf  <=>  cap_n * 10^nf == rn * 10^zeros
    int kc = cap_has_den ? cap_den_zeros : 0;
    for (int i = 0; i < NF + 1; i++) { if (i < nf) l = l * 10; if (i < kc) r = r * 10; }
    VASSERT(kc <= NF && l == r, "converted text denotes the literal's exact magnitude");
    VASSERT(rn == 0 || cap_neg == neg, "sign is preserved");
    check_scratch();
    if (nf > 0 && s[p - 1] == '0') { VWITNESS("trailing-zero"); }
    if (ni == 2 && s[neg ? 1 : 0] == '0') { VWITNESS("leading-zero"); }
    VWITNESS("decimal");
}

// (B) fraction literals  [-] d{1..2} / d{1..2} : exact value, zero denominator rejected
extern "C" void h_fraction_value() {
    char s[8]; int p = 0;
    bool neg = nondet_bool(); if (neg) s[p++] = '-';
    int nn = nondet_u8(), nd = nondet_u8();
    VASSUME(nn >= 1 && nn <= 2 && nd >= 1 && nd <= 2);
    uint32_t rn = 0, rd = 0;
    for (int i = 0; i < 2; i++) if (i < nn) { char c = digit(); s[p++] = c; rn = rn * 10 + (uint32_t)(c - '0'); }
    s[p++] = '/';
    for (int i = 0; i < 2; i++) if (i < nd) { char c = digit(); s[p++] = c; rd = rd * 10 + (uint32_t)(c - '0'); }
    s[p] = '\0';
    char * rat = nullptr; bool threw = false;
    try { stringToRational(rat, s); } catch (strConvException const &) { threw = true; }
    if (rd == 0) { VASSERT(threw && ncap == 0, "a fraction with zero denominator is rejected before it reaches GMP"); VWITNESS("zero-denominator"); return; }
    VASSERT(!threw, "a well-formed fraction literal is accepted");
    if (threw) return;
    VASSERT(ncap == 1 && cap_ok && cap_has_den, "converted once, to digits/digits");
    VASSERT(read_as_decimal(), "GMP reads the converted text as decimal (base 10, or auto-detection without a leading zero)");
    VASSERT(cap_d != 0 && cap_n * rd == rn * cap_d, "converted text denotes the literal's exact magnitude");
    VASSERT(rn == 0 || cap_neg == neg, "sign is preserved");
    if (s[neg ? 1 : 0] == '0' && nn == 2) { VWITNESS("fraction-leading-zero"); }
    VWITNESS("fraction");
}

static int symbolic_string(char * s) {
    int len = nondet_u8();
    VASSUME(len >= 0 && len <= MAXLEN);
    for (int i = 0; i < MAXLEN; i++) {
        char c = (char)nondet_u8();
        // alphabet: digits 0 1 9, '-', '.', '/', a non-literal byte 'a' (other digits behave like 1/9, other bytes like 'a')
        VASSUME(c == '0' || c == '1' || c == '9' || c == '-' || c == '.' || c == '/' || c == 'a');
        s[i] = c;
    }
    s[len] = '\0';
    return len;
}

// (C) arbitrary text: whatever stringToRational accepts is a numeric literal; everything else raises strConvException
extern "C" void h_string_to_rational_any() {
    char s[MAXLEN + 1];
    int len = symbolic_string(s);
    VASSUME(len >= 1);
    char * rat = nullptr; bool threw = false;
    try { stringToRational(rat, s); } catch (strConvException const &) { threw = true; }
    int p = (s[0] == '-') ? 1 : 0;
    int slash = -1, dot = -1, ndig = 0, ndig_after_slash = 0; bool other = false;
    for (int i = p; i < MAXLEN; i++) if (i < len) {
        if (s[i] == '/') { if (slash < 0) slash = i; else other = true; }
        else if (s[i] == '.') { if (dot < 0) dot = i; else other = true; }
        else if (isdig(s[i])) { ndig++; if (slash >= 0) ndig_after_slash++; }
        else other = true;
    }
    if (!threw) {
        VWITNESS("accepted");
        VASSERT(ncap == 1 && cap_ok, "an accepted literal is converted exactly once, to digits or digits/digits");
        VASSERT(!other && !(slash >= 0 && dot >= 0) && ndig >= 1, "accepted text consists of a sign, digits and one '.' or one '/'");
        VASSERT(slash < 0 || (ndig_after_slash >= 1 && ndig > ndig_after_slash), "an accepted fraction has digits on both sides");
        VASSERT(read_as_decimal(), "GMP reads the converted text as decimal");
        VASSERT(!cap_has_den || cap_d != 0, "denominator handed to GMP is not zero");
        check_scratch();
    } else {
        VWITNESS("rejected");
        VASSERT(ncap == 0, "a rejected literal is not converted");
    }
}

extern "C" void h_is_int_string() {
    char s[MAXLEN + 1];
    int len = symbolic_string(s);
    bool r = isIntString(s);
    int p = (len > 0 && s[0] == '-') ? 1 : 0;
    bool ref = len > p;         // SMT-LIB numeral with optional API minus sign: [-] D+
    for (int i = p; i < MAXLEN; i++) if (i < len && !isdig(s[i])) ref = false;
    VASSERT(r == ref, "isIntString accepts exactly [-]digit+");
    if (r) { VWITNESS("int-accepted"); } else { VWITNESS("int-rejected"); }
}

extern "C" void h_is_real_string() {
    char s[MAXLEN + 1];
    int len = symbolic_string(s);
    bool r = isRealString(s);
    // reference: [-] (D+ | D* . D+) [ / (D+ | D* . D+) ]
    int p = (len > 0 && s[0] == '-') ? 1 : 0;
    int part = 0, nd_before = 0, nd_after = 0; bool dot = false, ok = len > p;
    for (int i = p; i < MAXLEN; i++) if (i < len && ok) {
        char c = s[i];
        if (isdig(c)) { if (dot) nd_after++; else nd_before++; }
        else if (c == '.') { if (dot) ok = false; dot = true; }
        else if (c == '/') {
            if (part == 1) ok = false;
            if (dot ? nd_after == 0 : nd_before == 0) ok = false;
            part = 1; dot = false; nd_before = nd_after = 0;
        } else ok = false;
    }
    if (ok && (dot ? nd_after == 0 : nd_before == 0)) ok = false;
    VASSERT(r == ok, "isRealString accepts exactly the decimal/fraction literal forms");
    if (r) { VWITNESS("real-accepted"); } else { VWITNESS("real-rejected"); }
}

// C16: numeric literals are read exactly: isIntString / isRealString / stringToRational (real code, header-inline)
#include "verif.h"
#include <cstdlib>
#include <cstring>
#include "common/StringConv.h"
using namespace opensmt;

#ifndef MAXLEN
#define MAXLEN 5
#endif
static char cap[2 * MAXLEN + 8];
static bool cap_neg;
static int ncap;
// GMP text interface of opensmt::normalize replaced by recorders: what is parsed, in which base, and whether it is negated
static int cap_base;
extern "C" int stub_mpq_set_str(mpq_ptr, const char * flo, int base) {
    int i = 0;
    for (; flo[i] != '\0'; i++) { VASSERT(i < (int)sizeof(cap) - 1, "text handed to GMP longer than any possible conversion"); cap[i] = flo[i]; }
    cap[i] = '\0';
    cap_base = base;
    ncap++;
    return 0;
}
extern "C" void stub_mpq_neg(mpq_ptr, mpq_srcptr) { cap_neg = !cap_neg; }
extern "C" void stub_mpq_unary(mpq_ptr) {}
extern "C" int stub_gmp_asprintf(char ** out, const char *, ...) { *out = nullptr; return 0; }
// the scratch buffer of stringToRational: fixed storage (a symbolic-size heap object is intractable), canary-checked
#define C4 0x5A, 0x5A, 0x5A, 0x5A,
static char scratch[16] = {C4 C4 C4 C4}; static unsigned long scratch_req; static int n_malloc;
extern "C" void * stub_malloc(unsigned long n) {
    VASSERT(n <= sizeof(scratch), "scratch buffer request within the harness bound");
    VASSERT(n_malloc == 0, "one scratch buffer per conversion");
    scratch_req = n; n_malloc++;
    return scratch;
}
extern "C" void stub_free(void *) {}
// replacement for the exception's asprintf
extern "C" int stub_asprintf(char ** out, const char *, ...) { *out = nullptr; return 0; }

static bool isdig(char c) { return c >= '0' && c <= '9'; }

// value of a digit string s[from..to) as integer (< 10^MAXLEN), false if empty or non-digit
static bool digits_value(const char * s, int from, int to, uint32_t & v, int & ndig) {
    v = 0; ndig = 0;
    for (int i = from; i < to; i++) { if (!isdig(s[i])) return false; v = v * 10 + (uint32_t)(s[i] - '0'); ndig++; }
    return true;
}
static uint32_t pow10(int k) { uint32_t r = 1; for (int i = 0; i < k; i++) r *= 10; return r; }
// how GMP's mpq_set_str(.., base 0) reads one component: decimal only if it has no leading zero (else octal/hex/binary)
static bool gmp_base0_decimal(const char * s, int from, int to) { return to - from == 1 || s[from] != '0'; }

static int symbolic_string(char * s) {
    int len = nondet_u8();
    VASSUME(len >= 0 && len <= MAXLEN);
    for (int i = 0; i < MAXLEN; i++) {
        char c = (char)nondet_u8();
        // alphabet: digits 0 1 8 9, '-', '.', '/', a non-literal byte 'a' (other digits behave like 1/8/9, other bytes like 'a')
        VASSUME(c == '0' || c == '1' || c == '8' || c == '9' || c == '-' || c == '.' || c == '/' || c == 'a');
        s[i] = c;
    }
    s[len] = '\0';
    return len;
}

extern "C" void h_string_to_rational() {
    char s[MAXLEN + 1];
    int len = symbolic_string(s);
    VASSUME(len >= 1);
    char * rat = nullptr;
    bool threw = false;
    try { stringToRational(rat, s); } catch (strConvException const &) { threw = true; }
    // reference reading of the input: [-] D* [. D*]   or   [-] D+ / D+
    int p = (s[0] == '-') ? 1 : 0;
    int slash = -1, dot = -1; bool other = false;
    for (int i = p; i < len; i++) {
        if (s[i] == '/') { if (slash < 0) slash = i; else other = true; }
        else if (s[i] == '.') { if (dot < 0) dot = i; else other = true; }
        else if (!isdig(s[i])) other = true;
    }
    if (!threw) {
        VWITNESS("accepted");
        VASSERT(ncap == 1, "an accepted literal is converted exactly once");
        VASSERT(!other, "accepted literal contains only sign, digits, one '.' or one '/'");
        VASSERT(!(slash >= 0 && dot >= 0), "accepted literal does not mix '.' and '/'");
        // parse the captured "N/D" or "N"
        int clen = 0; while (cap[clen] != '\0') clen++;
        int cs = -1; for (int i = 0; i < clen; i++) if (cap[i] == '/') { VASSERT(cs < 0, "one slash in normalized text"); cs = i; }
        uint32_t cn = 0, cd = 1; int k1, k2;
        bool okn = digits_value(cap, 0, cs < 0 ? clen : cs, cn, k1);
        bool okd = cs < 0 ? true : digits_value(cap, cs + 1, clen, cd, k2);
        VASSERT(okn && okd && k1 >= 1 && (cs < 0 || k2 >= 1), "text handed to GMP is digits[/digits]");
        VASSERT(cap_base == 10 || (cap_base == 0 && gmp_base0_decimal(cap, 0, cs < 0 ? clen : cs) && (cs < 0 || gmp_base0_decimal(cap, cs + 1, clen))),
                "GMP reads the text as decimal (base 10, or auto-detection without a leading zero)");
        if (n_malloc && scratch_req + 1 < sizeof(scratch)) { VASSERT(scratch[scratch_req] == 0x5A && scratch[scratch_req + 1] == 0x5A, "no write beyond the requested scratch buffer"); }
        VASSERT(cd != 0, "denominator handed to GMP is not zero");
        // reference value
        uint32_t rn = 0, rd = 1; bool rneg = (s[0] == '-');
        if (slash >= 0) {
            int a, b; bool o1 = digits_value(s, p, slash, rn, a); bool o2 = digits_value(s, slash + 1, len, rd, b);
            VASSERT(o1 && o2 && a >= 1 && b >= 1, "accepted fraction has digits on both sides");
        } else {
            int a = 0, b = 0; uint32_t ip = 0, fp = 0;
            bool o1 = digits_value(s, p, dot < 0 ? len : dot, ip, a);
            bool o2 = dot < 0 ? true : digits_value(s, dot + 1, len, fp, b);
            VASSERT(o1 && o2 && a + b >= 1, "accepted decimal has at least one digit");
            rd = pow10(b); rn = ip * rd + fp;
        }
        if (slash >= 0) {
            // fraction: numbers have at most MAXLEN-2 digits, products fit 32 bits
            VASSERT(rd == 0 || cn * rd == rn * cd, "converted text denotes the literal's exact magnitude");
        } else {
            // decimal: both denominators are powers of ten; compare after scaling by repeated *10 (no multiplier circuit)
            int kc = 0, kr = 0; uint32_t t = cd; bool pow = true;
            for (int i = 0; i < MAXLEN + 1 && t > 1; i++) { if (t % 10 != 0) pow = false; t /= 10; kc++; }
            t = rd; for (int i = 0; i < MAXLEN + 1 && t > 1; i++) { t /= 10; kr++; }
            VASSERT(pow && t <= 1, "decimal literal is converted to numerator / power of ten");
            uint32_t l = cn, r = rn;
            for (int i = 0; i < MAXLEN + 1; i++) { if (i < kr) l = l * 10; if (i < kc) r = r * 10; }
            VASSERT(l == r, "converted text denotes the literal's exact magnitude");
        }
        VASSERT(cn == 0 || cap_neg == rneg, "sign is preserved");
    } else {
        VWITNESS("rejected");
        VASSERT(ncap == 0, "a rejected literal is not converted");
    }
}

extern "C" void h_is_int_string() {
    char s[MAXLEN + 1];
    int len = symbolic_string(s);
    bool r = isIntString(s);
    int p = (len > 0 && s[0] == '-') ? 1 : 0;
    bool ref = len > p;         // SMT-LIB numeral with optional API minus sign: [-] D+
    for (int i = p; i < len; i++) if (!isdig(s[i])) ref = false;
    VASSERT(r == ref, "isIntString accepts exactly [-]digit+");
    if (r) { VWITNESS("int-accepted"); } else { VWITNESS("int-rejected"); }
}

extern "C" void h_is_real_string() {
    char s[MAXLEN + 1];
    int len = symbolic_string(s);
    bool r = isRealString(s);
    // reference: [-] (D+ | D* . D+ | D+ . D+) [ / same ]   -- what the solver documents as its literal forms
    int p = (len > 0 && s[0] == '-') ? 1 : 0;
    int part = 0, nd_before = 0, nd_after = 0; bool dot = false, ok = len > p;
    for (int i = p; i < len && ok; i++) {
        char c = s[i];
        if (isdig(c)) { if (dot) nd_after++; else nd_before++; }
        else if (c == '.') { if (dot) ok = false; dot = true; }
        else if (c == '/') {
            if (part == 1) ok = false;
            if (dot ? nd_after == 0 : nd_before == 0) ok = false;
            part = 1; dot = false; nd_before = nd_after = 0;
        } else ok = false;
    }
    if (ok && (dot ? nd_after == 0 : nd_before == 0)) ok = false;
    VASSERT(r == ok, "isRealString accepts exactly the decimal/fraction literal forms");
    if (r) { VWITNESS("real-accepted"); } else { VWITNESS("real-rejected"); }
}

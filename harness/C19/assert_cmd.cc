// C19: a rejected (assert ...) leaves the interpreter's assertion bookkeeping unchanged.
// Real: Interpret::interp (the t_assert case).  Frontier: Interpret::parseTerm (term or PTRef_Undef), MainSolver::insertFormula
// (records the formula or throws ApiException, as it does for a non-Boolean / unknown term), notify_formatted / notify_success.
// Abstract state: the `assertions` list of the interpreter (whose positions get-interpolants uses as partition indices) and the
// list of formulas the solver accepted.
#include "verif.h"
#include "api/Interpret.h"
#include "api/MainSolver.h"
#include "common/ApiException.h"
using namespace opensmt;

union RawI { Interpret i; RawI() {} ~RawI() {} };
static RawI rawI;
static int errors, successes;
static int inserted_n; static uint32_t inserted[4];
static uint32_t parse_result; static bool throw_on_insert;

extern "C" void stub_notify(Interpret const *, bool error, const char *, ...) { if (error) errors++; }
extern "C" void stub_success(Interpret const *) { successes++; }
extern "C" PTRef stub_parseTerm(Interpret *, ASTNode const *, LetRecords *) { return PTRef{parse_result}; }
static uint32_t cur_level;
extern "C" std::size_t stub_getAssertionLevel(MainSolver const *) { return cur_level; }
// name rollback entry points of the proposed repair (harness/C19/proposed_name_rollback.diff); names are the subject of named_assert.cc
extern "C" std::size_t stub_getTermNamesCount(MainSolver const *) { return 0; }
extern "C" void stub_forgetTermNamesSince(MainSolver *, std::size_t) {}
extern "C" void stub_insertFormula(MainSolver *, PTRef t) {
    if (throw_on_insert) throw ApiException("Top-level assertion sort must be Bool");
    if (inserted_n < 4) inserted[inserted_n] = t.x;
    inserted_n++;
}

extern "C" void h_assert() {
    Interpret & I = rawI.i;
    // initialised interpreter: logic and main_solver are non-null (never dereferenced: every use is cut)
    static unsigned char fakeLogic[8], fakeSolver[8];
    *reinterpret_cast<void **>(&I.logic) = fakeLogic;
    *reinterpret_cast<void **>(&I.main_solver) = fakeSolver;
    new (&I.assertions) vec<PTRef>();
    new (&I.assertionLevels) vec<std::size_t>();
    cur_level = nondet_u8() & 3;
    // history: k accepted assertions, known to both sides in the same order
    int k = nondet_u8(); VASSUME(k >= 0 && k <= 2);
    uint32_t old[2];
    I.assertions.capacity(4); I.assertionLevels.capacity(4);
    for (int i = 0; i < 2; i++) if (i < k) { old[i] = nondet_u32(); I.assertions.push(PTRef{old[i]}); I.assertionLevels.push(0); inserted[i] = old[i]; }
    inserted_n = k; errors = 0; successes = 0;
    parse_result = nondet_u32();                    // PTRef_Undef = the term did not parse
    throw_on_insert = nondet_bool();
#ifdef KF_C19_ASSERT_ROLLBACK
    VASSUME(!throw_on_insert);                      // known finding: insertFormula rejecting the term (e.g. non-Boolean sort)
#endif
    auto * term = new ASTNode(TERM_T, (char *)nullptr);
    auto * kids = new std::vector<ASTNode *>(); kids->push_back(term);
    auto * cmd = new ASTNode(CMD_T, tokens::smt2token{tokens::t_assert});
    cmd->children = kids;

    I.interp(*cmd);

    VASSERT(errors + successes == 1, "exactly one response: success or one error");
    bool same = I.assertions.size() == k;
    for (int i = 0; i < 2; i++) if (i < k && i < I.assertions.size()) same = same && I.assertions[i].x == old[i];
    if (errors) {
        VASSERT(same, "a rejected assert leaves the interpreter's assertion list (interpolation partition indices) unchanged");
        VASSERT(inserted_n == k, "a rejected assert adds nothing to the solver");
        if (parse_result == PTRef_Undef.x) { VWITNESS("rejected-by-the-parser"); }
#ifndef KF_C19_ASSERT_ROLLBACK
        else { VWITNESS("rejected-by-the-solver"); }
#endif
    } else {
        VASSERT(I.assertions.size() == k + 1 && I.assertions[k].x == parse_result, "an accepted assert is appended to the assertion list");
        VASSERT(inserted_n == k + 1 && inserted[k] == parse_result, "an accepted assert is handed to the solver");
        VWITNESS("accepted");
    }
    // the invariant get-interpolants relies on: position i of `assertions` is the i-th formula the solver accepted
    VASSERT(I.assertions.size() == inserted_n, "assertion list and accepted formulas stay aligned");
    VASSERT(I.assertionLevels.size() == I.assertions.size(), "every recorded assertion has a recorded assertion level");
    if (!errors) VASSERT(I.assertionLevels[k] == cur_level, "an accepted assert is recorded with the solver's current assertion level");
}

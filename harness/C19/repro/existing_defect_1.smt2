; EXISTING DEFECT 1 (unmodified code, HEAD b489960): a rejected define-fun leaks term names.
; Interpret::defineFun parses the body with parseTerm, which registers (! t :named n) names at once
; (MainSolver::tryAddTermNameFor); when the define-fun is then rejected (sort mismatch here, also
; duplicate name / "define-fun failed") nothing rolls the name back (only t_assert uses
; getTermNamesCount/forgetTermNamesSince).  The script without the rejected command accepts the
; assertion named n and prints "sat" and ((n true)); with it the assertion is rejected:
;   observed:  (error "define-fun term ... do not match: Bool and Int")
;              (error "name n already exists") (error "assertion returns an unknown sort")
;              sat   (error "Unknown symbol `n '") ()
;   expected after the first error: sat  ((n true))   [q must be true]
(set-option :produce-models true)
(set-logic QF_LIA)
(declare-fun p () Bool)
(declare-fun q () Bool)
(define-fun f () Int (! p :named n))
(assert (! q :named n))
(check-sat)
(get-value (n))
(get-value (q))

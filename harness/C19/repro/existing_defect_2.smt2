; EXISTING DEFECT 2 (unmodified code, HEAD b489960): an assert rejected through an exception that is
; not an ApiException leaks term names.  parseTerm registers n for p, then (* x y) throws
; LANonLinearException (a std::runtime_error, not an ApiException), which is not caught in parseTerm nor by
; the inner try of t_assert but only by the outer handler of Interpret::interp, which reports the error
; without calling forgetTermNamesSince.  The script without the rejected assert accepts (! q :named n).
;   observed:  (error "Term (* x y) is non-linear") (error "name n already exists")
;              (error "assertion returns an unknown sort") sat (error "Unknown symbol `n '") () ((q true)) [q true only by chance: q is unconstrained]
;   expected after the first error: sat ((n true)) ((q true))
(set-option :produce-models true)
(set-logic QF_LIA)
(declare-fun p () Bool)
(declare-fun q () Bool)
(declare-fun x () Int)
(declare-fun y () Int)
(assert (and (! p :named n) (= 0 (* x y))))
(assert (! q :named n))
(check-sat)
(get-value (n))
(get-value (q))

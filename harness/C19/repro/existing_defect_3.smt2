; EXISTING DEFECT 3 (unmodified code, HEAD b489960): get-value registers :named names and keeps them
; even when the command reports an error.  Interpret::getValue parses its terms with parseTerm; the
; first term registers m, the second is rejected ("name m already exists"), the name m stays.  A later
; (assert (! (not p) :named m)), which the script without the get-value accepts (answer unsat with
; the assertion p), is rejected and the final check-sat answers sat instead of unsat.
;   observed:  sat (error "name m already exists") (((!p :named m) true))
;              (error "name m already exists") (error "assertion returns an unknown sort") sat
;   expected last answer: unsat
(set-option :produce-models true)
(set-logic QF_UF)
(declare-fun p () Bool)
(declare-fun q () Bool)
(assert p)
(check-sat)
(get-value ((! p :named m) (! q :named m)))
(assert (! (not p) :named m))
(check-sat)

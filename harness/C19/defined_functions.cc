// C19 / C21: Interpret::storeDefinedFun + Interpret::DefinedFunctions (insert / pushScope / popScope / has), real code.
// A define-fun is registered in the scope where it was accepted; a REJECTED duplicate define-fun registers nothing, so a later
// pop must not remove (or keep) anything on its account.
#include "verif.h"
#include "api/Interpret.h"
using namespace opensmt;

#ifndef NOPS
#define NOPS 4
#endif
#define NN 2

// ---- std::string special members / comparison for one-character SSO strings
static void sso_take(std::string * d, std::string const * s) {
    size_t n = s->_M_string_length; char c = s->_M_local_buf[0];
    VASSERT(n <= 1, "bound: one-character strings in the SSO buffer");
    d->_M_dataplus._M_p = d->_M_local_buf; d->_M_local_buf[0] = c; d->_M_local_buf[1] = 0; d->_M_string_length = n;
}
extern "C" void stub_str_copy_ctor(std::string * self, std::string const & o) { sso_take(self, &o); }
extern "C" void stub_str_dtor(std::string *) {}
extern "C" char * stub_ct_copy(char * d, const char * s, size_t n) { VASSERT(n <= 3, "bound: short strings"); for (size_t i = 0; i < 3; i++) if (i < n) d[i] = s[i]; return d; }
extern "C" size_t stub_ct_length(const char * s) { for (size_t i = 0; i < 3; i++) if (s[i] == 0) return i; VASSERT(false, "bound: short C strings"); return 0; }
extern "C" char * stub_str_create(std::string *, size_t &, size_t) { VASSERT(false, "bound: no heap-allocated string"); return nullptr; }

static bool global_mode;
extern "C" bool stub_decl_global(SMTConfig const *) { return global_mode; }
// TemplateFunction objects are opaque here: construction, move assignment and destruction are no-ops
extern "C" void stub_tf_ctor(TemplateFunction *, std::string const &, vec<PTRef> const &, SRef, PTRef) {}
extern "C" TemplateFunction & stub_tf_move_assign(TemplateFunction * self, TemplateFunction &) { return *self; }
extern "C" void stub_tf_dtor(TemplateFunction *) {}

// ---- array model of std::unordered_map<std::string, TemplateFunction>: one slot per name ('a', 'b')
using FMap = std::unordered_map<std::string, TemplateFunction>;
using FNode = std::remove_pointer_t<decltype(std::declval<FMap::iterator>()._M_cur)>;
static FNode fnodes[NN]; static bool fpresent[NN]; static bool foreign_key;
static int fidx(std::string const & k) { char c = k.data()[0]; if (c == 'a') return 0; if (c == 'b') return 1; foreign_key = true; return 0; }
extern "C" FMap::const_iterator stub_f_find(FMap const *, std::string const & k) { int i = fidx(k); return FMap::const_iterator(fpresent[i] ? &fnodes[i] : nullptr); }
extern "C" FMap::const_iterator stub_f_end(FMap const *) { return FMap::const_iterator(nullptr); }
extern "C" TemplateFunction & stub_f_index(FMap *, std::string const & k) { int i = fidx(k); fpresent[i] = true; return fnodes[i]._M_valptr()->second; }
// a refactoring may replace has()+operator[] by try_emplace: same table model (element kept if the key is present)
extern "C" std::pair<FMap::iterator, bool> stub_f_try_emplace(FMap *, std::string const & k, TemplateFunction &) {
    int i = fidx(k);
    if (fpresent[i]) return {FMap::iterator(&fnodes[i]), false};
    fpresent[i] = true;
    return {FMap::iterator(&fnodes[i]), true};
}
extern "C" size_t stub_f_erase(FMap *, std::string const & k) { int i = fidx(k); if (!fpresent[i]) return 0; fpresent[i] = false; return 1; }

// ---- fixed-capacity models of the vector mutators (layout of the vector objects is libstdc++'s; accessors stay real)
union RawStr { char raw; std::string s; constexpr RawStr() : raw(0) {} ~RawStr() {} };
static RawStr str_buf[4]; static unsigned uns_buf[4];
using StrVec = std::vector<std::string>; using UnsVec = std::vector<unsigned>;
extern "C" void stub_strvec_push_back(StrVec * v, std::string const & x) {
    if (v->_M_impl._M_start == nullptr) { v->_M_impl._M_start = v->_M_impl._M_finish = &str_buf[0].s; v->_M_impl._M_end_of_storage = &str_buf[0].s + 4; }
    VASSERT(v->_M_impl._M_finish != v->_M_impl._M_end_of_storage, "bound: at most 4 scoped definitions");
    sso_take(v->_M_impl._M_finish, &x); ++v->_M_impl._M_finish;
}
extern "C" void stub_unsvec_push_back(UnsVec * v, unsigned const & x) {
    if (v->_M_impl._M_start == nullptr) { v->_M_impl._M_start = v->_M_impl._M_finish = &uns_buf[0]; v->_M_impl._M_end_of_storage = &uns_buf[0] + 4; }
    VASSERT(v->_M_impl._M_finish != v->_M_impl._M_end_of_storage, "bound: at most 4 open scopes");
    *v->_M_impl._M_finish = x; ++v->_M_impl._M_finish;
}

union RawInterpret { Interpret obj; RawInterpret() {} ~RawInterpret() {} };
static RawInterpret raw;        // zero storage: empty vectors; the map is only reached through the model

extern "C" void h_define_fun_scopes() {
    global_mode = nondet_bool();
    Interpret & I = raw.obj;
    std::string const names[NN] = { std::string("a"), std::string("b") };
    unsigned char fake_args[16] = {0};
    vec<PTRef> const & args = *reinterpret_cast<vec<PTRef> const *>(fake_args);
    // reference: per name, defined or not and at which level
    bool def[NN] = { false, false }; int lvl[NN] = { 0, 0 }; int depth = 0;
    bool rejected = false, popped_def = false, survived_rejected_dup = false; bool dup_at_level[NN] = { false, false };
    unsigned nops = nondet_u8(); VASSUME(nops <= NOPS);
    for (unsigned step = 0; step < NOPS; step++) if (step < nops) {
        unsigned op = nondet_u8(), i = nondet_u8() & 1;
        VASSUME(op < 3);
        if (op == 0) {
            bool r = I.storeDefinedFun(names[i], args, SRef_Undef, PTRef_Undef);
            VASSERT(r == !def[i], "define-fun is accepted exactly for a name that is not currently defined");
            if (r) { def[i] = true; lvl[i] = depth; dup_at_level[i] = false; }
            else { rejected = true; if (depth > lvl[i]) dup_at_level[i] = true; }
        } else if (op == 1) {
            VASSUME(depth < 3);
            I.defined_functions.pushScope(); depth++;
        } else {
            VASSUME(depth > 0);
            I.defined_functions.popScope();
            for (int k = 0; k < NN; k++) if (def[k]) {
                if (!global_mode && lvl[k] == depth) { def[k] = false; popped_def = true; }
                else if (dup_at_level[k]) survived_rejected_dup = true;
            }
            depth--;
        }
    }
    VASSERT(!foreign_key, "the map is only asked about the two names");
    for (int k = 0; k < NN; k++)
        VASSERT(I.defined_functions.has(names[k]) == def[k], "a function is defined exactly from its accepted define-fun until the scope of that define-fun is popped (never, with global declarations); rejected duplicates change nothing");
    VWITNESS("history-done");
    if (rejected) { VWITNESS("duplicate-define-fun-rejected"); }
    if (popped_def) { VWITNESS("definition-popped"); }
    if (survived_rejected_dup && def[0]) { VWITNESS("outer-definition-survives-pop-after-rejected-duplicate"); }
}

// ---- C21: the REAL Interpret::pop(n): a (pop n) removes the define-funs of ALL n popped levels (one DefinedFunctions scope per solver level),
// a pop beyond the stack is refused and changes nothing. MainSolver::pop / getAssertionLevel are a level counter.
static int ms_level, ms_pops;
extern "C" bool stub_ms_pop(MainSolver *) { if (ms_level == 0) return false; ms_level--; ms_pops++; return true; }
extern "C" std::size_t stub_ms_level(MainSolver const *) { return (std::size_t)ms_level; }
extern "C" int stub_incremental(SMTConfig const *) { return 1; }
extern "C" void h_pop_levels() {
    global_mode = nondet_bool();
    Interpret & I = raw.obj;
    static unsigned char fake_solver[8];
    *reinterpret_cast<void **>(&I.main_solver) = (void *)fake_solver;
    std::string const names[NN] = { std::string("a"), std::string("b") };
    unsigned char fake_args[16] = {0};
    vec<PTRef> const & args = *reinterpret_cast<vec<PTRef> const *>(fake_args);
    int D = nondet_u8(); VASSUME(D >= 1 && D <= 3);
    int lvl[NN]; for (int k = 0; k < NN; k++) { lvl[k] = nondet_u8(); VASSUME(lvl[k] >= 0 && lvl[k] <= D); }
    // build the stack as the interpreter does: define at a level, then (push 1) = one solver level + one definition scope
    for (int l = 0; l <= 3; l++) if (l <= D) {
        for (int k = 0; k < NN; k++) if (lvl[k] == l) { bool r = I.storeDefinedFun(names[k], args, SRef_Undef, PTRef_Undef); VASSERT(r, "first definition of a name is accepted"); }
        if (l < D) I.defined_functions.pushScope();
    }
    ms_level = D; ms_pops = 0;
    int n = nondet_u8(); VASSUME(n >= 0 && n <= 4);
    I.pop(n);
    if (n <= D) {
        VASSERT(ms_level == D - n && ms_pops == n, "(pop n) pops exactly n solver levels");
        for (int k = 0; k < NN; k++)
            VASSERT(I.defined_functions.has(names[k]) == (global_mode || lvl[k] <= D - n), "after (pop n) exactly the definitions of the n popped levels are gone (none, with global declarations)");
        if (n >= 2 && lvl[0] == D - 1 && !global_mode) { VWITNESS("definition-of-a-middle-level-popped-by-pop-2"); }
    } else {
        VASSERT(ms_level == D && ms_pops == 0, "a pop beyond the stack is refused before anything is popped");
        for (int k = 0; k < NN; k++) VASSERT(I.defined_functions.has(names[k]), "a refused pop leaves every definition in place");
        VWITNESS("pop-beyond-the-stack-refused");
    }
    VWITNESS("pop-done");
}

// C19: a rejected (define-fun f (args) S t) leaves the definition store unchanged.
// Real: Interpret::defineFun(ASTNode const&).  Frontier (stubs, nondeterministic answers): Interpret::sortFromASTNode (sort or
// SRef_Undef), Interpret::sortSymbolFromASTNode, Logic::mkVar, TemplateFunction::nextFreeArgumentName, LetRecords::addBinding,
// Interpret::parseTerm (term or PTRef_Undef), Logic::getSortRef(PTRef) (arbitrary sort), Logic::sortToString,
// Interpret::storeDefinedFun (stores and answers true, or answers false without storing: the name is already defined),
// notify_formatted / notify_success (count).
// Abstract state: number of times the definition store (defined_functions, through storeDefinedFun) was modified.
#include "verif.h"
#include "api/Interpret.h"
#include <new>
using namespace opensmt;

static int errors, successes, stored, store_calls;
static bool parse_failed, parse_called;
static int n_bindings, n_mkvar;

extern "C" void stub_notify(Interpret const *, bool error, const char *, ...) {
    if (error) {
        VASSERT(stored == 0, "an error is reported for a define-fun whose definition was already stored");
        errors++;
    }
}
extern "C" void stub_success(Interpret const *) { successes++; }
extern "C" SRef stub_sortFromASTNode(Interpret const *, ASTNode const *) {
    return SRef{nondet_u32()};
}
extern "C" void stub_sortSymbolFromASTNode(SortSymbol * out, ASTNode const *) { new (out) SortSymbol(std::string(), 0); }
extern "C" PTRef stub_mkVar(Logic *, SRef, char const *, bool) { n_mkvar++; PTRef r{nondet_u32()}; VASSUME(r != PTRef_Undef); return r; }
extern "C" void stub_nextFreeArgumentName(std::string * out) { new (out) std::string(); }
extern "C" void stub_addBinding(LetRecords *, std::string const *, PTRef) { n_bindings++; }
extern "C" PTRef stub_parseTerm(Interpret *, ASTNode const *, LetRecords *) {
    parse_called = true;
    PTRef r{nondet_u32()};
    if (r == PTRef_Undef) parse_failed = true;
    return r;
}
extern "C" SRef stub_getSortRef(Logic const *, PTRef) { return SRef{nondet_u32()}; }
extern "C" void stub_sortToString(std::string * out, Logic const *, SRef) { new (out) std::string(); }
extern "C" bool stub_storeDefinedFun(Interpret *, std::string const *, vec<PTRef> const * args, SRef, PTRef) {
    store_calls++;
    VASSERT(errors == 0, "nothing is stored after an error was notified");
    if (nondet_bool()) return false;       // name already defined: the real storeDefinedFun answers false and does not touch the store
    stored++;
    return true;
}

// AST in static typed storage: (define-fun f ((x S)){0..1} R t)
union NodeBox { ASTNode n; NodeBox() {} ~NodeBox() {} };
union VecBox { std::vector<ASTNode *> v; VecBox() {} ~VecBox() {} };
static NodeBox nb_root, nb_name, nb_args, nb_ret, nb_term, nb_arg[2], nb_argsort[2];
static VecBox vb_root, vb_args, vb_arg[2];
static ASTNode * arr_root[4]; static ASTNode * arr_args[2]; static ASTNode * arr_arg[2][1];
static char name_f[2] = {'f', 0}; static char name_x[2][2] = {{'x', 0}, {'y', 0}};
static void set_vec(std::vector<ASTNode *> & v, ASTNode ** a, int n) { v._M_impl._M_start = a; v._M_impl._M_finish = a + n; v._M_impl._M_end_of_storage = a + n; }

union InterpBox { Interpret i; InterpBox() {} ~InterpBox() {} };
static InterpBox ibox; static uint64_t fake_logic[2];

template<int NARGS> static void run() {
    Interpret * I = &ibox.i;
    *reinterpret_cast<void **>(&I->logic) = fake_logic;
    new (&nb_name.n) ASTNode(SYM_T, name_f);
    new (&nb_args.n) ASTNode(SVL_T, (char *)nullptr);
    new (&nb_ret.n) ASTNode(SYM_T, (char *)nullptr);
    new (&nb_term.n) ASTNode(TERM_T, (char *)nullptr);
    for (int k = 0; k < NARGS; k++) {
        new (&nb_argsort[k].n) ASTNode(SYM_T, (char *)nullptr);
        new (&nb_arg[k].n) ASTNode(SV_T, name_x[k]);
        arr_arg[k][0] = &nb_argsort[k].n; set_vec(vb_arg[k].v, arr_arg[k], 1); nb_arg[k].n.children = &vb_arg[k].v;
        arr_args[k] = &nb_arg[k].n;
    }
    set_vec(vb_args.v, arr_args, NARGS); nb_args.n.children = &vb_args.v;
    new (&nb_root.n) ASTNode(CMD_T, tokens::smt2token{tokens::t_definefun});
    arr_root[0] = &nb_name.n; arr_root[1] = &nb_args.n; arr_root[2] = &nb_ret.n; arr_root[3] = &nb_term.n;
    set_vec(vb_root.v, arr_root, 4); nb_root.n.children = &vb_root.v;

    errors = successes = stored = store_calls = n_bindings = n_mkvar = 0;
    parse_failed = parse_called = false;

    bool ok = I->defineFun(nb_root.n);

    bool rejected = errors > 0 || !ok;
    if (rejected) {
        VASSERT(stored == 0, "a rejected define-fun (error reported or false returned) leaves the definition store unchanged");
        if (parse_failed) { VWITNESS("parse-failure-rejected"); }
        else if (parse_called && store_calls == 0) { VWITNESS("sort-mismatch-rejected"); }
        else if (!parse_called) { VWITNESS("unknown-sort-rejected"); }
        else { VWITNESS("already-defined-rejected"); }
    } else {
        if (stored == 1) { VWITNESS("stored-returns-true"); }
    }
}
extern "C" void h_definefun_0args() { run<0>(); }
extern "C" void h_definefun_1arg() { run<1>(); }

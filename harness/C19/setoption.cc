// C19: SMTConfig::setOption -- a rejected set-option (return false) leaves the option table unchanged:
// no optionTable.remove, no insertOption during the call, and the value previously stored under `name`
// is still retrievable (same SMTOption object, same contents).
// The option table (Map<const char*,SMTOption*>::has/remove/operator[]) and SMTConfig::insertOption are
// replaced by a 3-key model (keys: name, o_stats_out, o_produce_stats) that counts the mutating calls.
#include "verif.h"
#include "options/SMTConfig.h"
using namespace opensmt;

typedef Map<const char*,SMTOption*,StringHash,Equal<const char*> > OptMap;

static const char * g_name;
static bool       t_present[3];
static SMTOption *t_val[3];
static int g_rm, g_ins, g_has;
static SMTOption * g_null_opt;

static int kidx(const char * k) {
    if (k == g_name) return 0;
    if (strcmp(k, g_name) == 0) return 0;
    if (k == SMTConfig::o_stats_out) return 1;
    if (k == SMTConfig::o_produce_stats) return 2;
    return -1;
}
extern "C" bool stub_has(OptMap const *, const char * const * k) { g_has++; int i = kidx(*k); return i >= 0 && t_present[i]; }
extern "C" void stub_remove(OptMap *, const char * const * k) { g_rm++; int i = kidx(*k); if (i >= 0) { t_present[i] = false; t_val[i] = nullptr; } }
extern "C" SMTOption ** stub_index(OptMap *, const char * const * k) { int i = kidx(*k); if (i >= 0 && t_present[i]) return &t_val[i]; return &g_null_opt; }
extern "C" void stub_insertOption(SMTConfig *, const char * k, SMTOption * o) { g_ins++; int i = kidx(k); if (i >= 0) { t_present[i] = true; t_val[i] = o; } }
static char g_dupbuf[8];
extern "C" char * stub_strdup(const char * s) { for (int i = 0; i < 4; i++) { g_dupbuf[i] = s[i]; if (!s[i]) break; } g_dupbuf[4] = 0; return g_dupbuf; }
extern "C" bool stub_isopen(void *) { return nondet_bool(); }

alignas(16) static unsigned char cfg_store[sizeof(SMTConfig)];
alignas(8)  static unsigned char val_store[sizeof(SMTOption)], old_store[3][sizeof(SMTOption)];
static char g_str[4];
static char s_old0[] = "old", s_out[] = "/f";

// payload string alternatives: short symbolic string (<= 3 chars) or one of the accepted keywords
static char * g_alts[5];
static char * pick_str() {
    unsigned c = nondet_u8();
    if (c < 5) return g_alts[c];
    g_str[0] = (char)nondet_u8(); g_str[1] = (char)nondet_u8(); g_str[2] = (char)nondet_u8(); g_str[3] = 0;
    return g_str;
}

static bool run(const char * name) {
    SMTConfig & cfg = *reinterpret_cast<SMTConfig *>(cfg_store);
    cfg.usedForInitialization = nondet_bool();
    g_alts[0] = const_cast<char*>(spts_lookahead); g_alts[1] = const_cast<char*>(spts_scatter); g_alts[2] = const_cast<char*>(spts_none);
    g_alts[3] = const_cast<char*>(spts_time); g_alts[4] = const_cast<char*>(spts_search_counter);
    g_name = name; g_rm = g_ins = g_has = 0; g_null_opt = nullptr;
    // pre-state of the table: each of the three keys present or not; stored values are well-typed for their key
    for (int i = 0; i < 3; i++) {
        t_present[i] = nondet_bool();
        SMTOption * o = reinterpret_cast<SMTOption *>(old_store[i]);
        o->value.type = O_NUM; o->value.strval = nullptr; o->value.numval = 1 + (nondet_u8() & 1);
        t_val[i] = t_present[i] ? o : nullptr;
    }
    reinterpret_cast<SMTOption *>(old_store[1])->value.type = O_STR;  reinterpret_cast<SMTOption *>(old_store[1])->value.strval = s_out;
    reinterpret_cast<SMTOption *>(old_store[2])->value.type = O_BOOL; reinterpret_cast<SMTOption *>(old_store[2])->value.numval = nondet_u8() & 1;
    if (name == SMTConfig::o_stats_out || name == SMTConfig::o_sat_split_type || name == SMTConfig::o_sat_split_units) {
        reinterpret_cast<SMTOption *>(old_store[0])->value.type = O_STR; reinterpret_cast<SMTOption *>(old_store[0])->value.strval = s_old0;
    }
    // in a real history :produce-stats == 1 implies :stats-out present (setOption inserts the default)
    if (name == SMTConfig::o_produce_stats) {      // slot 0 is :produce-stats itself in this entry
        reinterpret_cast<SMTOption *>(old_store[0])->value.type = O_BOOL; reinterpret_cast<SMTOption *>(old_store[0])->value.numval = nondet_u8() & 1;
        VASSUME(!(t_present[0] && reinterpret_cast<SMTOption *>(old_store[0])->value.numval == 1) || t_present[1]);
    }
    VASSUME(!(t_present[2] && reinterpret_cast<SMTOption *>(old_store[2])->value.numval == 1) || t_present[1]);

    // the new value: symbolic type tag (no nested list), symbolic payload
    SMTOption & v = *reinterpret_cast<SMTOption *>(val_store);
    unsigned ty = nondet_u8(); VASSUME(ty <= O_BOOL && ty != O_LIST);
    v.value.type = (ConfType)ty; v.value.strval = nullptr;
    if (ty == O_STR || ty == O_SYM || ty == O_ATTR) v.value.strval = pick_str();
    else if (ty == O_DEC) v.value.decval = 0.5;
    else v.value.numval = nondet_i32();

    bool pre_p = t_present[0]; SMTOption * pre_v = t_val[0];
    ConfType pre_t = O_EMPTY; int pre_n = 0; char * pre_s = nullptr;
    if (pre_p) { pre_t = pre_v->value.type; pre_n = pre_v->value.numval; pre_s = pre_v->value.strval; }
    bool pre1 = t_present[1], pre2 = t_present[2]; SMTOption * pv1 = t_val[1], * pv2 = t_val[2];

    const char * msg = nullptr;
    bool ok = cfg.setOption(name, v, msg);

    if (!ok) {
        VASSERT(g_rm == 0, "rejected set-option: optionTable.remove was not called");
        VASSERT(g_ins == 0, "rejected set-option: insertOption was not called");
        VASSERT(t_present[0] == pre_p && t_val[0] == pre_v, "rejected set-option: the value previously stored under the name is still retrievable");
        if (pre_p) VASSERT(pre_v->value.type == pre_t && pre_v->value.numval == pre_n && (pre_t != O_STR || pre_v->value.strval == pre_s), "rejected set-option: the previously stored value is unmodified");
        VASSERT(t_present[1] == pre1 && t_val[1] == pv1 && t_present[2] == pre2 && t_val[2] == pv2, "rejected set-option: the other option table entries are unchanged");
        VASSERT(msg != nullptr && msg[0] != 'o', "rejected set-option reports an error message");
    } else {
        VASSERT(t_present[0] && t_val[0] != nullptr && t_val[0] != pre_v, "accepted set-option: a fresh value is stored under the name");
        VASSERT(t_val[0]->value.type == v.value.type, "accepted set-option: the stored value has the given type");
        VASSERT(g_ins >= 1, "accepted set-option: insertOption was called");
    }
    return ok;
}
#define ENTRY(fn, nm) extern "C" void fn() { if (run(nm)) { VWITNESS("accepted"); } else { VWITNESS("rejected"); } }

ENTRY(h_setopt_random_seed,   SMTConfig::o_random_seed)
ENTRY(h_setopt_split_type,    SMTConfig::o_sat_split_type)
ENTRY(h_setopt_split_units,   SMTConfig::o_sat_split_units)
ENTRY(h_setopt_preinit,       SMTConfig::o_produce_inter)
ENTRY(h_setopt_stats_out,     SMTConfig::o_stats_out)
ENTRY(h_setopt_produce_stats, SMTConfig::o_produce_stats)
// an ordinary option has no rejection path: only the accepted path is witnessed
extern "C" void h_setopt_verbosity() { if (run(SMTConfig::o_verbosity)) { VWITNESS("accepted"); } }

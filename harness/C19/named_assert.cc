// C19: (assert (! x :named n)) that is rejected must not leave the name n registered.
// Real: Interpret::interp (t_assert case) and Interpret::parseTerm (BANG_T and QID_T cases) over a hand-built AST.
// Frontier: letNameResolve/resolveTerm (the inner symbol resolves to a term or not), MainSolver::tryAddTermNameFor (registers the
// name unless it exists), MainSolver::insertFormula (accepts or throws ApiException), the proposed rollback entry points
// MainSolver::getTermNamesCount / forgetTermNamesSince (stubbed when the tree has them), notify_*.
#include "verif.h"
#include "api/Interpret.h"
#include "api/MainSolver.h"
#include "common/ApiException.h"
using namespace opensmt;

union RawI { Interpret i; RawI() {} ~RawI() {} };
static RawI rawI;
static int errors, successes, inserted_n, names_n;
static uint32_t inner_result; static bool throw_on_insert, name_exists;

extern "C" void stub_notify(Interpret const *, bool error, const char *, ...) { if (error) errors++; }
extern "C" void stub_success(Interpret const *) { successes++; }
extern "C" PTRef stub_letNameResolve(Interpret const *, const char *, LetRecords const *) { return PTRef{inner_result}; }
extern "C" PTRef stub_resolveTerm(Interpret *, const char *, vec<PTRef> *, SRef, SymbolMatcher) { return PTRef_Undef; }
extern "C" bool stub_tryAddTermNameFor(MainSolver *, PTRef, std::string const *) { if (name_exists) return false; names_n++; return true; }
extern "C" std::size_t stub_getTermNamesCount(MainSolver const *) { return (std::size_t)names_n; }
extern "C" void stub_forgetTermNamesSince(MainSolver *, std::size_t n) { if ((std::size_t)names_n > n) names_n = (int)n; }
extern "C" std::size_t stub_getAssertionLevel(MainSolver const *) { return 0; }
extern "C" void stub_insertFormula(MainSolver *, PTRef) {
    if (throw_on_insert) throw ApiException("Top-level assertion sort must be Bool");
    inserted_n++;
}
static ASTNode * node(ASTType t, const char * v) { return new ASTNode(t, const_cast<char *>(v)); }
static void child(ASTNode * p, ASTNode * c) { if (!p->children) { p->children = new std::vector<ASTNode *>(); p->children->reserve(2); } p->children->push_back(c); }   // reserve: no buffer relocation (byte-wise pointer copies defeat constant propagation)

extern "C" void h_named_assert() {
    Interpret & I = rawI.i;
    static unsigned char fakeLogic[8], fakeSolver[8];
    *reinterpret_cast<void **>(&I.logic) = fakeLogic;
    *reinterpret_cast<void **>(&I.main_solver) = fakeSolver;
    new (&I.assertions) vec<PTRef>();
    new (&I.assertionLevels) vec<std::size_t>();
    I.assertions.capacity(4); I.assertionLevels.capacity(4);
    names_n = nondet_u8() & 1; inserted_n = 0; errors = 0; successes = 0;
    int names_before = names_n;
    inner_result = nondet_u32();                    // PTRef_Undef: the named term does not resolve
    throw_on_insert = nondet_bool();                // the solver rejects the term (e.g. it is not Boolean)
    name_exists = nondet_bool();                    // the name is already taken
#ifdef KF_C19_NAME_ROLLBACK
    VASSUME(!(throw_on_insert && !name_exists && inner_result != PTRef_Undef.x));   // known finding: name registered, then the solver rejects the term
#endif
    // (assert (! x :named n))
    ASTNode * cmd = new ASTNode(CMD_T, tokens::smt2token{tokens::t_assert});
    ASTNode * bang = node(BANG_T, nullptr);
    ASTNode * named = node(QID_T, nullptr); child(named, node(SYM_T, "x"));
    ASTNode * attrs = node(GATTRL_T, nullptr);
    ASTNode * attr = node(GATTR_T, ":named"); child(attr, node(SYM_T, "n"));
    child(attrs, attr); child(bang, named); child(bang, attrs); child(cmd, bang);

    I.interp(*cmd);

    VASSERT(errors >= 1 || successes == 1, "the command is answered");
    if (errors) {
        VASSERT(successes == 0, "an error response is not followed by success");
        VASSERT(I.assertions.size() == 0 && inserted_n == 0, "a rejected assert adds no assertion");
        VASSERT(names_n == names_before, "a rejected assert leaves no term name behind");
        if (inner_result == PTRef_Undef.x) { VWITNESS("inner-term-unknown"); }
        else if (name_exists) { VWITNESS("name-already-exists"); }
#ifndef KF_C19_NAME_ROLLBACK
        else { VWITNESS("rejected-by-the-solver-after-naming"); }
#endif
    } else {
        VASSERT(I.assertions.size() == 1 && inserted_n == 1 && names_n == names_before + 1, "an accepted named assert registers one assertion and one name");
        VWITNESS("accepted");
    }
}

// C04 (also C02/C01): the per-frame CNF cache. A Tseitin definition cached while cnfizing frame f may be reused only for
// the same frame or if it was cached for the base frame (whose clauses are never disabled); never for another frame.
#include "verif.h"
#include "cnfizers/Cnfizer.h"
using namespace opensmt;
using Cache = Cnfizer::Cache;
using Entry = Cache::CacheEntry;
using Set = std::unordered_set<Entry, Cache::EntryHash>;

// model of the hash set: an array of at most 4 entries behind find / insert / end
static Entry store[4]; static int nstore; static bool overflow;
static std::__detail::_Hash_node<Entry, true> dummy_nodes[4];
extern "C" Set::iterator stub_find(Set *, Entry const & k) {
    for (int i = 0; i < 4; i++) if (i < nstore && store[i].first == k.first && store[i].second == k.second) return Set::iterator(&dummy_nodes[i]);
    return Set::iterator(nullptr);
}
extern "C" Set::iterator stub_end(Set *) { return Set::iterator(nullptr); }
extern "C" std::pair<Set::iterator, bool> stub_insert(Set *, Entry && k) {
    for (int i = 0; i < 4; i++) if (i < nstore && store[i].first == k.first && store[i].second == k.second) return {Set::iterator(&dummy_nodes[i]), false};
    if (nstore >= 4) { overflow = true; return {Set::iterator(nullptr), false}; }
    store[nstore] = k; nstore++;
    return {Set::iterator(&dummy_nodes[nstore - 1]), true};
}
union RawCache { Cache c; RawCache() {} ~RawCache() {} };

extern "C" void h_cache() {
    static RawCache raw;
    raw.c.baseFrame = 0;
    int n = nondet_u8(); VASSUME(n >= 0 && n <= 3);
    PTRef it[3]; uint32_t fr[3];
    for (int i = 0; i < 3; i++) if (i < n) {
        it[i] = PTRef{(uint32_t)(nondet_u8() & 3)}; fr[i] = nondet_u8() & 3;        // terms 0..3, frame ids 0..3
        if (!raw.c.contains(it[i], fr[i])) raw.c.insert(it[i], fr[i]);              // how Cnfizer uses the cache
    }
    PTRef q{(uint32_t)(nondet_u8() & 3)}; uint32_t qf = nondet_u8() & 3;
    bool r = raw.c.contains(q, qf);
    bool same = false, base = false, other = false;
    for (int i = 0; i < 3; i++) if (i < n && it[i] == q) { if (fr[i] == qf) same = true; else if (fr[i] == 0) base = true; else other = true; }
    VASSERT(!overflow, "cache model capacity");
    VASSERT(r == (same || base), "a cached definition is visible exactly in its own frame, or everywhere if cached for the base frame");
    if (other && !r) { VWITNESS("entry-of-another-frame-not-visible"); }
    if (base && qf != 0) { VWITNESS("base-frame-entry-visible"); }
    VWITNESS("cache");
}

/* Storage for the undo-stack buffer of decision_vars.cc (see harness/include/satstate_rt.c for the idea). */
#ifdef __CPROVER__
#ifdef IR2C_NEEDG_dv_undo_buf
__typeof__(dv_undo_buf) dv_undo_buf;
#endif
#else
__attribute__((aligned(64))) char dv_undo_buf[256];
#endif

// C04: nothing SWITCHED OFF in an earlier check-sat leaks into a later one.
// CoreSMTSolver::declareVarsToTheories() (start of every solve) makes every variable that occurs in no stored clause, not on the trail
// and not in UF a NON-decision variable.  The only place that switches such a variable on again when a later assertion uses it is
// CoreSMTSolver::addVar_ (called by SimpSMTSolver::addOriginalSMTClause for every literal of every new clause).  If it did not, the
// search would run out of decision variables and answer sat on an unsat stack.
//   (1) the REAL addVar_/addVar/newVar/setDecisionVar/insertVarOrder + minisat's Heap on a symbolic solver state:
//       after addVar_(v): v < nVars  -> v is a decision variable and sits in the order heap;  v >= nVars -> all variables up to v exist,
//       are decision variables and sit in the heap;  no other flag / heap membership changes, the heap stays a well-formed heap.
//   (2) the REAL declareVarsToTheories(): exactly the variables that are neither on the trail nor in a clause nor in UF are switched
//       off, all others keep their flag; and a variable announced again through addVar_ afterwards is a decision variable again.
#include "satstate.h"
using namespace opensmt;
using namespace ss;

#ifndef DV_NV
#define DV_NV 4          // existing variables (<=)
#endif
#ifndef DV_CAP
#define DV_CAP 6         // capacity of every per-variable vec: addVar_(v) for v < DV_CAP
#endif
#ifndef DV_NC
#define DV_NC 2          // stored clauses (<=)
#endif
static_assert(DV_NC <= SS_NC && DV_NV <= DV_CAP, "bounds");

// ---- storage (typed static buffers; growth is outside the model: vec::capacity asserts that the capacity suffices) --------------
static lbool dv_assigns[DV_CAP];
static VarData dv_vardata[DV_CAP];
static double dv_activity[DV_CAP];
static char dv_seen[DV_CAP], dv_decision[DV_CAP];
static bool dv_polarity[DV_CAP], dv_varseen[DV_CAP];
static Lit dv_trail[DV_CAP];
static int dv_heap[DV_CAP], dv_indices[DV_CAP];
static CRef dv_clauses[DV_NC];
extern "C" { extern CoreSMTSolver::undo_stack_el dv_undo_buf[DV_CAP]; }
static_assert(sizeof(CoreSMTSolver::undo_stack_el) * DV_CAP <= 256, "native replay storage in decision_vars_rt.c too small");
alignas(16) static unsigned char logic_mem[16], tmap_mem[16];

// ---- ghost copy of the entry state -----------------------------------------------------------------------------------------------
static int g0_n;                       // nVars
static bool g0_dec[DV_CAP];            // decision[]
static int g0_hpos[DV_CAP];            // position in the order heap, -1 = not in the heap
static int g0_hs;                      // heap size
static int g0_nt, g0_tr[DV_NV];        // trail
static int g0_nc;                      // number of clauses (sizes/literals in ss::g_csz / g_clit)
static bool g_theory[DV_CAP], g_uf[DV_CAP];   // answers of logic.isTheoryTerm / logic.appearsInUF for the term of variable v
static int g_declared[DV_CAP];         // declareAtom calls for the term of variable v
static int g_cleared, g_winit, g_bad_stub;
static uint32_t g_map_answer;          // answer of TermMapper::varToPTRef

// ---- stubs -------------------------------------------------------------------------------------------------------------------------
template <class F> static int vslot(F pmf) {
    union { F f; struct { intptr_t ptr; intptr_t adj; } r; } u;
    u.f = pmf;
    return (int)((u.r.ptr - 1) / 8);
}
// newVar is virtual: the fake vtable dispatches to the real CoreSMTSolver::newVar
extern "C" Var dv_newVar(CoreSMTSolver * s, bool d) { return s->CoreSMTSolver::newVar(d); }
// watches.init(lit): the watch lists (std::vector<vec<Watcher>>::resize) are not the subject; counted
extern "C" void dv_watch_init(void *, Lit const & l) { if (l.x < 0 || l.x >= 2 * DV_CAP) g_bad_stub = 1; g_winit++; }
// drand is only called with rnd_init_act on (never: SMTConfig::sat_rnd_init_act() is 0); asserted unreachable
extern "C" double dv_drand(double &) { VASSERT(false, "drand is not reached (rnd_init_act is off)"); return 0; }
// Clause::operator[](int): the same address as &data[i].lit, computed on the clause region's word array instead of through the
// zero-length flexible array member (which the back end can only treat as an unbounded array) - an encoding aid (as in C25)
extern "C" Lit * dv_clauseIndex(Clause * c, int i) { return reinterpret_cast<Lit *>(reinterpret_cast<uint32_t *>(c) + 1 + i); }
static_assert(sizeof(Clause) == 4 && sizeof(Lit) == 4, "clause layout: one header word, then the literals");
extern "C" void dv_th_clear(THandler *) { g_cleared++; }
extern "C" Logic * dv_getLogic(THandler *) { return reinterpret_cast<Logic *>(logic_mem); }
extern "C" TermMapper * dv_getTMap(THandler *) { return reinterpret_cast<TermMapper *>(tmap_mem); }
extern "C" PTRef dv_varToPTRef(TermMapper const *, Var) { return PTRef{g_map_answer}; }
// the term of variable v is PTRef{100+v}
extern "C" PTRef dv_varToTerm(THandler const *, Var v) { if (v < 0 || v >= g0_n) g_bad_stub = 1; return PTRef{(uint32_t)(100 + v)}; }
static inline int term_var(PTRef t) { int v = (int)t.x - 100; if (v < 0 || v >= DV_CAP) { g_bad_stub = 1; v = 0; } return v; }
extern "C" bool dv_isTheoryTerm(Logic const *, PTRef t) { return g_theory[term_var(t)]; }
extern "C" bool dv_appearsInUF(Logic const *, PTRef t) { return g_uf[term_var(t)]; }
extern "C" void dv_declareAtom(THandler *, PTRef t) { g_declared[term_var(t)]++; }

// ---- pre-state ---------------------------------------------------------------------------------------------------------------------
static const double act_tbl[4] = {0.0, 1.0, 2.5, 7.0};

static void build_vars() {
    void ** raw = reinterpret_cast<void **>(S);
    fake_vtable[vslot(&CoreSMTSolver::newVar)] = (void *)&dv_newVar;
    raw[0] = (void *)fake_vtable; raw[1] = (void *)CFG; raw[2] = (void *)thandler_mem;
    g0_n = nondet_u8(); VASSUME(g0_n >= 0 && g0_n <= DV_NV);
    prealloc(S->assigns, dv_assigns, DV_CAP, g0_n);
    prealloc(S->vardata, dv_vardata, DV_CAP, g0_n);
    prealloc(S->activity, dv_activity, DV_CAP, g0_n);
    prealloc(S->seen, dv_seen, DV_CAP, g0_n);
    prealloc(S->decision, dv_decision, DV_CAP, g0_n);
    prealloc(S->savedPolarity, dv_polarity, DV_CAP, g0_n);
    prealloc(S->var_seen, dv_varseen, DV_CAP, g0_n);
    prealloc(S->trail, dv_trail, DV_CAP, 0);
    prealloc(S->undo_stack, dv_undo_buf, DV_CAP, 0);
    S->rnd_init_act = false;               // SMTConfig::sat_rnd_init_act() is hard-wired to 0
    S->dec_vars = nondet_u8();             // (addVar_ does not maintain the counter; it is not read by the search)
    for (int v = 0; v < DV_CAP; v++) {
        g0_dec[v] = nondet_bool();
        S->decision.data[v] = (char)g0_dec[v];
        S->activity.data[v] = act_tbl[nondet_u8() & 3];
        S->assigns.data[v] = lbool((uint8_t)(nondet_u8() % 3));
        S->var_seen.data[v] = nondet_bool();          // stale marks of the previous check-sat
        g0_hpos[v] = -1;
    }
    // order heap over `activity`: an arbitrary subset of the existing variables (a switched-off variable may still sit in it:
    // setDecisionVar(v,false) does not remove it; pickBranchLit skips it), indices sized <= nVars, heap property holds
    *reinterpret_cast<const void **>(&S->order_heap.lt) = (const void *)&S->activity;   // VarOrderLt = { const vec<double>& activity }
    static_assert(sizeof(S->order_heap.lt) == sizeof(void *), "VarOrderLt is one reference");
    g0_hs = nondet_u8(); VASSUME(g0_hs >= 0 && g0_hs <= g0_n);
    int isz = nondet_u8(); VASSUME(isz >= 0 && isz <= g0_n);
    for (int i = 0; i < DV_NV; i++) {
        int h = nondet_u8(); VASSUME(h >= 0 && h < DV_NV);
        if (i < g0_hs) { VASSUME(h < isz && g0_hpos[h] == -1); g0_hpos[h] = i; }
        dv_heap[i] = h;
        if (i >= 1 && i < g0_hs) VASSUME(!(S->activity.data[h] > S->activity.data[dv_heap[(i - 1) >> 1]]));
    }
    prealloc(S->order_heap.heap, dv_heap, DV_CAP, g0_hs);
    prealloc(S->order_heap.indices, dv_indices, DV_CAP, isz);
    for (int v = 0; v < DV_CAP; v++) dv_indices[v] = g0_hpos[v];
    g_cleared = 0; g_winit = 0; g_bad_stub = 0;
    for (int v = 0; v < DV_CAP; v++) g_declared[v] = 0;
}

static inline bool in_heap(int v) { return v < S->order_heap.indices.sz && S->order_heap.indices.data[v] >= 0; }

static bool heap_wellformed() {
    int hs = S->order_heap.heap.sz, is = S->order_heap.indices.sz;
    if (hs < 0 || hs > DV_CAP || is < 0 || is > DV_CAP) return false;
    bool ok = true;
    for (int i = 0; i < DV_CAP; i++) if (i < hs) {
        int h = dv_heap[i];
        if (h < 0 || h >= is || h >= S->vardata.sz) { ok = false; continue; }
        if (dv_indices[h] != i) ok = false;
        if (i >= 1) { int p = dv_heap[(i - 1) >> 1]; if (p < 0 || p >= DV_CAP) ok = false; else if (S->activity.data[h] > S->activity.data[p]) ok = false; }
    }
    for (int v = 0; v < DV_CAP; v++) if (v < is) { int i = dv_indices[v]; if (!(i == -1 || (i >= 0 && i < hs && dv_heap[i] == v))) ok = false; }
    return ok;
}

// obligations of addVar_(v) relative to the state (n, dec[], inheap[]) right before the call
static void check_announced(int v, int n, const bool * dec, const bool * inh, int winit_before) {
    int n1 = S->vardata.sz;
    VASSERT(!g_bad_stub, "stubs are called with arguments in range");
    if (v < n) {
        VASSERT(n1 == n, "announcing an existing variable creates no variable");
    } else {
        VASSERT(n1 == v + 1, "announcing a new variable creates exactly the variables up to it");
        VASSERT(S->assigns.sz == n1 && S->activity.sz == n1 && S->seen.sz == n1 && S->decision.sz == n1 && S->savedPolarity.sz == n1 && S->var_seen.sz == n1,
                "all per-variable tables grow with the variables");
        VASSERT(g_winit - winit_before == 2 * (n1 - n), "both watch lists of every new variable are initialised");
    }
    if (n1 < 0 || n1 > DV_CAP || S->decision.sz != n1) return;
    VASSERT(S->decision.data[v] != 0, "an announced variable is a decision variable (switched on again if an earlier check-sat switched it off)");
    VASSERT(heap_wellformed(), "the decision order stays a well-formed heap over the existing variables");
    VASSERT(in_heap(v), "an announced variable is (re)inserted into the decision order");
    bool fresh_ok = true, others_same = true;
    for (int u = 0; u < DV_CAP; u++) {
        if (u >= n && u < n1) { if (!(S->decision.data[u] != 0 && in_heap(u) && S->assigns.data[u] == l_Undef && !S->var_seen.data[u] && S->seen.data[u] == 0)) fresh_ok = false; }
        else if (u < n && u != v) { if ((S->decision.data[u] != 0) != dec[u] || in_heap(u) != inh[u]) others_same = false; }
    }
    VASSERT(fresh_ok, "every newly created variable is an unassigned decision variable in the decision order");
    VASSERT(others_same, "no other variable's decision flag or heap membership changes");
}

static void snapshot(int & n, bool * dec, bool * inh) {
    n = S->vardata.sz;
    for (int u = 0; u < DV_CAP; u++) { dec[u] = u < n && S->decision.data[u] != 0; inh[u] = u < n && in_heap(u); }
}

// (1) addVar_(v) / addVar(v)
template <bool mapped> static void run_addvar() {
    build_vars();
    int v = nondet_u8(); VASSUME(v >= 0 && v < DV_CAP);
    int n; bool dec[DV_CAP], inh[DV_CAP];
    snapshot(n, dec, inh);
    if (mapped) {
        g_map_answer = nondet_bool() ? PTRef_Undef.x : (uint32_t)(100 + v);
        S->addVar(v);
        if (g_map_answer == PTRef_Undef.x) {
            bool same = S->vardata.sz == n && S->order_heap.heap.sz == g0_hs;
            for (int u = 0; u < DV_CAP; u++) if (u < n && ((S->decision.data[u] != 0) != dec[u] || in_heap(u) != inh[u])) same = false;
            VASSERT(same, "a variable bound to no term is ignored");
            VWITNESS("unbound-variable-ignored");
            return;
        }
    } else {
        S->addVar_(v);
    }
    check_announced(v, n, dec, inh, 0);
    if (v < n && !dec[v]) { VWITNESS("existing-non-decision-variable-reannounced"); }
    if (v < n && !dec[v] && !inh[v]) { VWITNESS("switched-off-variable-back-in-the-heap"); }
    if (v < n && dec[v] && !inh[v]) { VWITNESS("decision-variable-reinserted"); }
    if (v < n && inh[v]) { VWITNESS("variable-already-in-the-heap"); }
    if (v == n) { VWITNESS("new-variable-created"); }
    if (v >= n + 2) { VWITNESS("several-new-variables-created"); }
    VWITNESS("addvar-returns");
}
extern "C" void h_addvar() { run_addvar<false>(); }
extern "C" void h_addvar_mapped() { run_addvar<true>(); }

// (2) declareVarsToTheories(), then addVar_(w)
static void build_clauses() {
    g0_nt = nondet_u8(); VASSUME(g0_nt >= 0 && g0_nt <= g0_n);
    for (int i = 0; i < DV_NV; i++) { int l = nondet_u8(); VASSUME(l >= 0 && l < 2 * DV_NV); if (i < g0_nt) VASSUME(l < 2 * g0_n); g0_tr[i] = l; dv_trail[i] = toLit(l); }
    S->trail.sz = g0_nt;
    g0_nc = nondet_u8(); VASSUME(g0_nc >= 0 && g0_nc <= DV_NC); if (g0_n == 0) VASSUME(g0_nc == 0);
    S->ca.memory = ca_mem; S->ca.sz = DV_NC * STRIDE; S->ca.cap = CA_CAP; S->ca.wasted_ = 0; S->ca.extra_clause_field = false;
    for (int k = 0; k < DV_NC; k++) {
        g_csz[k] = nondet_u8(); VASSUME(g_csz[k] >= 1 && g_csz[k] <= SS_ML);
        Clause & c = *reinterpret_cast<Clause *>(&ca_mem[k * STRIDE]);
        c.header.mark = 0; c.header.learnt = 0; c.header.has_extra = 0; c.header.reloced = 0; c.header.glue = 0; c.header.size = (unsigned)g_csz[k];
        for (int j = 0; j < SS_ML; j++) {
            int l = nondet_u8(); VASSUME(l >= 0 && l < 2 * DV_NV); if (k < g0_nc && j < g_csz[k]) VASSUME(l < 2 * g0_n);
            g_clit[k][j] = l; *dv_clauseIndex(&c, j) = toLit(l);
        }
        dv_clauses[k] = cref_of(k);
    }
    prealloc(S->clauses, dv_clauses, DV_NC, g0_nc);
    for (int v = 0; v < DV_CAP; v++) { g_theory[v] = nondet_bool(); g_uf[v] = nondet_bool(); }
    S->top_level_lits = -1;
}

extern "C" void h_declare() {
    build_vars();
    build_clauses();
    int n; bool dec[DV_CAP], inh[DV_CAP];
    snapshot(n, dec, inh);

    S->declareVarsToTheories();

    VASSERT(!g_bad_stub, "stubs are called with arguments in range");
    VASSERT(g_cleared == 1, "the theory solvers are emptied once");
    VASSERT(S->vardata.sz == n && S->decision.sz == n && S->var_seen.sz == n, "no variable is created or removed");
    VASSERT(S->top_level_lits == g0_nt, "top_level_lits = trail size");
    if (S->decision.sz != n) return;
    bool used[DV_CAP];
    for (int v = 0; v < DV_CAP; v++) used[v] = false;
    for (int i = 0; i < DV_NV; i++) if (i < g0_nt) used[lvar(g0_tr[i])] = true;
    for (int k = 0; k < DV_NC; k++) if (k < g0_nc) for (int j = 0; j < SS_ML; j++) if (j < g_csz[k]) used[lvar(g_clit[k][j])] = true;
    bool kept = true, off = true, declared = true, heap_same = true;
    int n_off = 0;
    for (int v = 0; v < DV_CAP; v++) if (v < n) {
        bool d = S->decision.data[v] != 0;
        if (used[v]) {
            if (d != dec[v]) kept = false;
            if (g_declared[v] != (g_theory[v] ? 1 : 0)) declared = false;
        } else if (g_uf[v]) {
            if (d != dec[v]) kept = false;
            if (g_declared[v] != 1) declared = false;
        } else {
            if (d) off = false;
            if (g_declared[v] != 0) declared = false;
            if (dec[v]) n_off++;
        }
        if (in_heap(v) != inh[v]) heap_same = false;
    }
    VASSERT(kept, "every variable that occurs in a stored clause, on the trail or in UF keeps its decision flag");
    VASSERT(off, "every variable that occurs in no clause, not on the trail and not in UF is switched off");
    VASSERT(declared, "exactly the theory atoms in use (and the unused atoms that appear in UF) are declared to the theory, once each");
    VASSERT(heap_same && heap_wellformed(), "declareVarsToTheories leaves the decision order alone");
    if (n_off > 0) { VWITNESS("variable-in-no-clause-switched-off"); }
    if (n_off == 0 && n > 0) { VWITNESS("nothing-switched-off"); }

    // composition: the next assertion announces a variable (addOriginalSMTClause -> addVar_ for every literal of the new clause)
    int w = nondet_u8(); VASSUME(w >= 0 && w < DV_CAP);
    int n2; bool dec2[DV_CAP], inh2[DV_CAP];
    snapshot(n2, dec2, inh2);
    int wi = g_winit;
    S->addVar_(w);
    check_announced(w, n2, dec2, inh2, wi);
    if (w < n && dec[w] && !dec2[w]) { VWITNESS("switched-off-by-declare-then-announced-again"); }
    if (w < n && dec2[w]) { VWITNESS("kept-variable-announced-again"); }
    if (w >= n) { VWITNESS("new-variable-after-declare"); }
    VWITNESS("declare-returns");
}

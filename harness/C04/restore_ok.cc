// C04: popping back to a satisfiable stack must forget the unsat verdict completely: CoreSMTSolver::restoreOK makes the
// solver usable again AND forgets which frame the last conflict belonged to (a stale conflict frame would mark the wrong
// frames as unsat at the next level-0 conflict, which does not write it).
#include "verif.h"
#include "smtsolvers/CoreSMTSolver.h"
using namespace opensmt;
union RawSolver { CoreSMTSolver s; RawSolver() {} ~RawSolver() {} };
extern "C" void h_restore_ok() {
    static RawSolver raw;
    raw.s.ok = nondet_bool();
    raw.s.conflict_frame = (int)(nondet_u8() & 7);
    int stale = raw.s.conflict_frame;
    raw.s.restoreOK();
    VASSERT(raw.s.isOK(), "restoreOK makes the solver consistent again");
    VASSERT(raw.s.getConflictFrame() == 0, "restoreOK forgets the frame of the previous conflict");
    if (stale != 0) { VWITNESS("stale-conflict-frame"); }
    VWITNESS("restore-ok");
}

// C04: the real MainSolver::push / pop / insertFormula / check / solve / simplifyFormulas / rememberUnsatFrame and
// MainSolver::Preprocessor::push/pop/prepareForProcessingFrame as a state machine over symbolic command histories,
// against an ORACLE environment: every frame carries a ghost bit "the assertion stack up to this frame is
// unsatisfiable" (monotone upwards); the SAT solver / theory preprocessing / cnfization are stubs that may report
// a contradiction only consistently with the ghost bits.
#include "verif.h"
#include "api/MainSolver.h"
#include "common/ApiException.h"
#include <new>
#include <cstdlib>
#include <stdexcept>
using namespace opensmt;

#ifndef NCMD
#define NCMD 4
#endif
#ifndef DEPTH
#define DEPTH 2          // at most DEPTH pushed frames above the base frame
#endif
#define NF 2             // at most NF formulas per frame
#define MAXF (DEPTH + 1)

template <class F> static int vslot(F pmf) {
    union { F f; struct { intptr_t ptr; intptr_t adj; } r; } u;
    u.f = pmf;
    return (int)((u.r.ptr - 1) / 8);
}

// ------------------------------------------------------------------ ghost state (the harness' own model of the stack)
static int g_depth;                    // live frames = g_depth + 1
static bool g_unsat[MAXF];             // ghost: stack up to frame i is unsat (monotone in i)
static uint32_t g_id[MAXF];            // ghost: id of live frame i
static int g_nform[MAXF];              // ghost: number of formulas asserted in live frame i
static int g_seen[MAXF];
static int g_given[MAXF];              // ghost: number of formulas of frame i handed to the SAT solver (giveToSolver) in its last simplification               // ghost: number of formulas of frame i handed to preprocessing in its last simplification
static uint32_t g_next_id;             // ghost: ids handed out so far
static int g_scopes;                   // termNames scopes
static int g_restore_calls, g_solve_calls, g_bad;
static bool g_track;                   // configuration: partitions tracked (proofs/cores/interpolants/assignments)
static bool g_subst_ok = true, g_enabled_ok = true, g_complete_ok = true, g_cf_set;
static MainSolver * M;
static SimpSMTSolver * SS;

static int cur_frame() { return (int)M->firstNotSimplifiedFrame - 1; }   // frame being simplified

// ------------------------------------------------------------------ stubs
// minisat vec<PTRef>::push with a fixed capacity (no symbolic-size realloc); the container itself is trusted here
extern "C" void stub_vecPTRefPush(vec<PTRef> * v, PTRef const * e) {
    if (v->data == nullptr) { v->data = (PTRef *)malloc(8 * sizeof(PTRef)); v->cap = 8; v->sz = 0; }
    if (v->sz >= 8) { g_bad = 1; return; }
    v->data[v->sz++] = *e;
}
extern "C" PTRef stub_newFrameTerm(MainSolver *, uint32_t id) { return PTRef{1000u + id}; }
extern "C" void stub_pushScope(TermNames *) { g_scopes++; }
extern "C" void stub_popScope(TermNames *) { g_scopes--; }
extern "C" void stub_restoreOK(CoreSMTSolver * s) { g_restore_calls++; s->ok = true; s->conflict_frame = 0; }
extern "C" SRef stub_getSortRef(Logic const *, PTRef t) { return SRef{t.x >= 50 && t.x < 100 ? 7u : 3u}; }   // terms 50..99 are non-Boolean
// the message text of the rejection is not modelled: the exception is raised while the message would be built
extern "C" void stub_sortToString(std::string *, Logic const *, SRef) { throw ApiException("Top-level assertion sort must be Bool"); }
extern "C" SRef stub_getSort_bool(Logic const *) { return SRef{3u}; }
extern "C" PTRef stub_true(Logic const *) { return PTRef{1}; }
extern "C" PTRef stub_false(Logic const *) { return PTRef{2}; }
extern "C" bool stub_isFalse(Logic const *, PTRef t) { return t.x == 2; }
extern "C" bool stub_isBoolOp(Logic const *, PTRef) { return nondet_bool(); }
extern "C" PTRef stub_iteRewrite(void *, PTRef t) { return t; }
extern "C" unsigned stub_nofPartitions(PartitionManager const *) { return 0; }
extern "C" bool stub_trackPartitions(MainSolver const *) { return g_track; }
static int g_invalidate_calls;          // PartitionManager::invalidatePartitions (the mask contents are not modelled)
extern "C" void stub_invalidatePartitions(PartitionManager *, ipartitions_t const &) { g_invalidate_calls++; }
extern "C" int stub_getPartitionIndex(PartitionManager const *, PTRef) { return 0; }
extern "C" PTRef stub_rewriteMaxArity(MainSolver *, PTRef t) { return t; }
extern "C" bool stub_cfgFalse(SMTConfig const *) { return false; }
extern "C" bool stub_produceModels(SMTConfig const *) { return nondet_bool(); }
extern "C" Lit stub_getOrCreateLit(TermMapper *, PTRef t) { Lit l; l.x = (int)(t.x * 2); return l; }

extern "C" PTRef stub_mkAnd(Logic *, vec<PTRef> const * args) {
    int i = cur_frame();
    if (i < 0 || i > g_depth) { g_bad = 1; return PTRef{1}; }
    g_seen[i] = args->size();
    return PTRef{100u + (uint32_t)i};
}
// theory preprocessing: may find the frame contradictory only if the stack up to it is unsat
extern "C" PTRef stub_preprocess(Theory *, PTRef t, PreprocessingContext const * ctx) {
    int i = (int)ctx->frameCount;
    if (i != cur_frame() || i > g_depth) { g_bad = 1; return t; }
    if (g_unsat[i] && nondet_bool()) return PTRef{2};
    return t;
}
extern "C" PTRef stub_preprocessAfter(Theory * th, PTRef t, PreprocessingContext const * ctx) {
    int i = (int)ctx->frameCount;
    if (ctx->perPartition && i >= 0 && i <= g_depth) g_seen[i]++;
    return stub_preprocess(th, t, ctx);
}
extern "C" void stub_afterPreprocessing(Theory *, PTRef const *, uint32_t) {}
// substitutions visible while frame i is simplified stem from frames <= i only
extern "C" PTRef stub_applyLearntSubstitutions(MainSolver * m, PTRef t) {
    int i = cur_frame();
    if ((int)m->preprocessor.substitutions.perFrameSubst.size() != i + 1) g_subst_ok = false;
    return t;
}
extern "C" PTRef stub_substitutionPass(MainSolver * m, PTRef t, PreprocessingContext const * ctx) {
    int i = cur_frame();
    if ((int)ctx->frameCount != i || m->preprocessor.substitutions.perFrameSubst.size() != (std::size_t)i + 1) g_subst_ok = false;
    if (g_unsat[i] && nondet_bool()) return PTRef{2};
    return t;
}
// cnfization + clause insertion: reports a level-0 conflict only if the stack up to the frame is unsat
extern "C" sstat stub_giveToSolver(MainSolver * m, PTRef, uint32_t push_id) {
    int i = cur_frame();
    if (i < 0 || i > g_depth || g_id[i] != push_id) { g_bad = 1; return s_Undef; }
    if (g_track) g_given[i]++; else g_given[i] = g_seen[i];     // per formula when partitions are tracked, else the whole conjunction
    if (g_unsat[i] && nondet_bool()) { SS->ok = false; SS->conflict_frame = 0; return s_False; }
    return s_Undef;
}
extern "C" void stub_addVar(CoreSMTSolver *, Var) {}
extern "C" void stub_clearSearch(CoreSMTSolver *) {}
extern "C" void stub_computeModel(THandler *) {}
// the SAT/SMT search as an oracle (virtual MainSolver::solve_): unsat only if the whole live stack is unsat; then the
// conflict frame is some frame whose prefix is unsat. May also give up (stop request) or overflow.
extern "C" sstat stub_solve_(MainSolver * m, vec<uint32_t> const * enabled) {
    g_solve_calls++;
    if (enabled->size() != g_depth + 1) g_enabled_ok = false;
    else for (int i = 0; i <= g_depth; i++) if ((*enabled)[i] != g_id[i]) g_enabled_ok = false;
    for (int i = 0; i <= g_depth; i++) if (g_seen[i] != g_nform[i] || g_given[i] != g_nform[i]) g_complete_ok = false;
    uint8_t k = nondet_u8() & 3;
    if (k == 3) throw std::overflow_error("x");
    if (k == 1) {
        VASSUME(g_unsat[g_depth]);
        int cf = nondet_u8() & 3; VASSUME(cf <= g_depth && g_unsat[cf]);
        SS->ok = false; SS->conflict_frame = cf; g_cf_set = true;
        return sstat(l_False);
    }
    if (k == 0) { VASSUME(!g_unsat[g_depth]); return sstat(l_True); }
    return sstat(l_Undef);
}

// ------------------------------------------------------------------ fixture
static void * ms_vt[16];
static void * th_vt[16];
union RawMS { MainSolver m; RawMS() {} ~RawMS() {} };
union RawSS { SimpSMTSolver s; RawSS() {} ~RawSS() {} };
static RawMS rawms;
static RawSS rawss;
static void * fake_theory[2];
alignas(8) static unsigned char fake_config[8], fake_tmap[8], fake_thandler[8];
union RawLogic { Logic l; RawLogic() {} ~RawLogic() {} };
static RawLogic rawlogic;
#define fake_logic (&rawlogic.l)

static void * after(void * p, std::size_t sz) { return (void *)((char *)p + sz); }   // both predecessors are 8-aligned classes

static void build() {
    MainSolver * m = &rawms.m; M = m; SS = &rawss.s;
    ms_vt[vslot(&MainSolver::solve_)] = (void *)&stub_solve_;
    *reinterpret_cast<void ***>(m) = ms_vt;
    th_vt[vslot(&Theory::preprocessBeforeSubstitutions)] = (void *)&stub_preprocess;
    th_vt[vslot(&Theory::preprocessAfterSubstitutions)] = (void *)&stub_preprocessAfter;
    th_vt[vslot(&Theory::afterPreprocessing)] = (void *)&stub_afterPreprocessing;
    fake_theory[0] = (void *)th_vt;
    *reinterpret_cast<void **>(&m->theory) = (void *)fake_theory;
    *reinterpret_cast<void **>(&m->term_mapper) = (void *)fake_tmap;
    *reinterpret_cast<void **>(&m->thandler) = (void *)fake_thandler;
    *reinterpret_cast<void **>(&m->smt_solver) = (void *)SS;
    // reference members: logic follows termNames, config follows pmanager (checked)
    *reinterpret_cast<void **>(after(&m->termNames, sizeof(TermNames))) = (void *)fake_logic;
    *reinterpret_cast<void **>(after(&m->pmanager, sizeof(PartitionManager))) = (void *)fake_config;
    VASSERT((void *)&m->logic == (void *)fake_logic && (void *)&m->config == (void *)fake_config, "harness: reference members located");
    new (&rawlogic.l.propFormulasAppearingInUF) vec<PTRef>();
    new (&m->frames) MainSolver::AssertionStack();
    m->frames.frames.reserve(MAXF);
    new (&m->frameTerms) vec<PTRef>();
    new (&m->preprocessor) MainSolver::Preprocessor();
    m->preprocessor.substitutions.perFrameSubst.reserve(MAXF);
    m->preprocessor.preprocessedFormulas.elements.reserve(16);
    m->preprocessor.preprocessedFormulas.limits.reserve(MAXF);
    m->status = s_Undef; m->check_called = 0; m->firstNotSimplifiedFrame = 0; m->insertedFormulasCount = 0;
    SS->ok = true; SS->conflict_frame = 0;
    *reinterpret_cast<void **>(&SS->resolutionProof) = nullptr;
    // what MainSolver::initialize() does, minus the SAT solver set-up
    m->frames.push();
    m->frameTerms.push(PTRef{1});
    m->preprocessor.initialize();
    g_depth = 0; g_unsat[0] = false; g_id[0] = 0; g_nform[0] = 0; g_seen[0] = 0; g_given[0] = 0; g_next_id = 1; g_scopes = 0;
    g_restore_calls = g_solve_calls = g_bad = 0; g_subst_ok = g_enabled_ok = g_complete_ok = true; g_cf_set = false;
    g_track = nondet_bool();
}

struct Snap { std::size_t fc, fnsf, sfc, ifc, nsub, nlim, nterms; int scopes, restores, nform_top; bool ok; unsigned ins; };
static Snap snap() {
    MainSolver * m = M;
    return Snap{m->frames.frameCount(), m->firstNotSimplifiedFrame, m->preprocessor.solverFrameCount, m->preprocessor.internalFrameCount,
                m->preprocessor.substitutions.perFrameSubst.size(), m->preprocessor.preprocessedFormulas.limits.size(), (std::size_t)m->frameTerms.size(),
                g_scopes, g_restore_calls, m->frames.last().size(), SS->ok, m->insertedFormulasCount};
}
static bool same(Snap const & a, Snap const & b) {
    return a.fc == b.fc && a.fnsf == b.fnsf && a.sfc == b.sfc && a.ifc == b.ifc && a.nsub == b.nsub && a.nlim == b.nlim && a.nterms == b.nterms &&
           a.scopes == b.scopes && a.restores == b.restores && a.nform_top == b.nform_top && a.ok == b.ok && a.ins == b.ins;
}

// representation invariant of the frame bookkeeping: asserted after commands, assumed for the arbitrary pre-state of h_step
#define CL(c, msg) do { if (assume_mode) VASSUME(c); else VASSERT(c, msg); } while (0)
static void invariant(bool assume_mode) {
    MainSolver * m = M;
    std::size_t fc = m->frames.frameCount();
    CL(!g_bad, "environment used consistently (frame indices/ids handed to the stubs are live)");
    CL(fc == (std::size_t)g_depth + 1, "frame count follows push/pop");
    CL(m->firstNotSimplifiedFrame <= fc, "firstNotSimplifiedFrame <= frame count");
    CL(m->preprocessor.solverFrameCount == fc, "preprocessor frame count equals solver frame count");
    CL(m->preprocessor.internalFrameCount >= 1 && m->preprocessor.internalFrameCount <= fc, "no preprocessor scope refers to a popped level");
    CL(m->preprocessor.substitutions.perFrameSubst.size() == m->preprocessor.internalFrameCount, "one substitution scope per internal frame");
    CL(m->preprocessor.preprocessedFormulas.limits.size() + 1 == m->preprocessor.internalFrameCount, "one preprocessed-formula scope per internal frame");
    CL(m->preprocessor.internalFrameCount <= m->firstNotSimplifiedFrame + 1, "substitution scopes exist only for frames that were simplified");
    CL(g_scopes == g_depth, "term-name scopes follow push/pop");
    CL((std::size_t)m->frameTerms.size() == (std::size_t)g_next_id && m->frames.frameId == g_next_id, "one activation term per frame id ever created");
    CL(g_id[0] == 0, "base frame has id 0");
    for (int i = 0; i <= DEPTH; i++) if (i <= g_depth) {
        CL(m->frames[i].getId() == g_id[i] && g_id[i] < g_next_id, "live frames carry the ids given at push");
        CL(m->frameTerms[m->frames[i].getId()].x == (i == 0 ? 1u : 1000u + g_id[i]), "frameTerms[id] is the activation term of frame id");
        CL(m->frames[i].size() == g_nform[i], "frame holds exactly the formulas asserted at its level");
        CL(!m->frames[i].unsat || g_unsat[i], "a frame is flagged unsat only if the stack up to it is unsat");
        CL((std::size_t)i >= m->firstNotSimplifiedFrame || m->frames[i].unsat || (g_seen[i] == g_nform[i] && g_given[i] == g_nform[i]), "every simplified frame that is not flagged unsat was handed to the SAT solver with all its assertions");
        if (i > 0) CL(g_id[i] > g_id[i - 1], "frame ids increase along the stack");
        if (i > 0) CL(!m->frames[i - 1].unsat || m->frames[i].unsat, "unsat flags are monotone along the stack");
        if (i > 0) CL(!g_unsat[i - 1] || g_unsat[i], "ghost: unsatisfiability is monotone along the stack");
    }
    CL(SS->ok || m->frames.last().unsat, "the SAT solver is marked inconsistent only while the top frame is flagged unsat");
}

template <bool late> static void command(uint8_t cmd) {
    MainSolver * m = M;
    if (cmd == 0) {                                  // ---- push
        VASSUME(g_depth < DEPTH && g_next_id < 7);
        bool top_flag = m->frames.last().unsat;
        m->push();
        g_depth++; g_unsat[g_depth] = g_unsat[g_depth - 1]; g_id[g_depth] = g_next_id++; g_nform[g_depth] = 0; g_seen[g_depth] = 0; g_given[g_depth] = 0;
        VASSERT(m->frames.last().unsat == top_flag, "push inherits the unsat flag");
        VWITNESS("push");
    } else if (cmd == 1) {                           // ---- pop
        Snap b = snap();
        int rc = g_restore_calls, ic = g_invalidate_calls;
        bool r = m->pop();
        if (g_depth == 0) {
            VASSERT(!r, "pop on the base frame is refused");
            VASSERT(same(b, snap()), "refused pop leaves the state unchanged");
            VWITNESS("pop-refused");
        } else {
            VASSERT(r, "pop above the base frame succeeds");
            VASSERT(g_invalidate_calls == ic + (g_track ? 1 : 0), "when partitions are tracked, every pop invalidates the partitions of the popped level (whether or not it was simplified)");
            g_depth--;
            VASSERT((g_restore_calls == rc + 1) == !m->frames.last().unsat && g_restore_calls <= rc + 1, "restoreOK is called iff the new top frame is not flagged unsat");
            if constexpr (late) {
                if (g_restore_calls == rc + 1 && !b.ok) { VWITNESS("pop-restores-ok"); }
                if (g_restore_calls == rc) { VWITNESS("pop-into-unsat-frame"); }
            }
        }
    } else if (cmd == 2) {                           // ---- assert
        bool boolean = nondet_bool();
        PTRef t{(boolean ? 10u : 50u) + (nondet_u8() & 3)};
        VASSUME(g_nform[g_depth] < NF);
        Snap b = snap();
        bool threw = false;
        try { m->insertFormula(t); } catch (ApiException const &) { threw = true; }
        if (!boolean) {
            VASSERT(threw, "a non-Boolean assertion is rejected");
            VASSERT(same(b, snap()), "a rejected assertion leaves the state unchanged");
            VWITNESS("assert-rejected");
        } else {
            VASSERT(!threw, "a Boolean assertion is accepted");
            g_nform[g_depth]++;
            if (nondet_bool()) g_unsat[g_depth] = true;         // the new assertion may make the stack unsat (never sat again)
            VASSERT(m->firstNotSimplifiedFrame <= (std::size_t)g_depth, "the frame that received an assertion will be simplified again");
            VASSERT(m->frames.last()[m->frames.last().size() - 1] == t, "the assertion is stored in the top frame");
            VWITNESS("assert-accepted");
        }
    } else {                                         // ---- check-sat
        for (int i = 0; i <= DEPTH; i++) if (i <= g_depth && (std::size_t)i >= m->firstNotSimplifiedFrame) { g_seen[i] = 0; g_given[i] = 0; }
        int sc = g_solve_calls;
        sstat r = m->MainSolver::check();
        VASSERT(g_subst_ok, "while frame i is simplified the substitution scopes are exactly those of frames 0..i");
        VASSERT(g_enabled_ok, "solve enables exactly the activation ids of the live frames, in order");
        VASSERT(g_complete_ok, "when the SAT solver is asked, every live frame has been handed over with all of its assertions");
        VASSERT(r == s_True || r == s_False || r == s_Undef || r == s_Error, "check returns a proper status");
        if (r == s_False) { VASSERT(g_unsat[g_depth], "check answers unsat only if the live stack is unsat"); VASSERT(m->frames.last().unsat, "an unsat answer is remembered in the top frame"); VWITNESS("check-unsat"); }
        if (r == s_True) { VASSERT(!g_unsat[g_depth] && g_solve_calls == sc + 1, "check answers sat only from the SAT solver on a satisfiable stack"); VWITNESS("check-sat"); }
        if (r == s_Error) { VWITNESS("check-overflow"); }
        if (r == s_Undef) { VASSERT(g_solve_calls == sc + 1, "unknown only from the search giving up (l_Undef is mapped to s_Undef)"); VWITNESS("check-unknown"); }
        if constexpr (late) { if (r == s_False && g_solve_calls == sc) { VWITNESS("check-unsat-without-search"); } }
    }
}

// (1) base case + bounded histories from the initial state
extern "C" void h_frames() {
    build();
    invariant(false);
    for (int step = 0; step < NCMD; step++) {
        command<false>(nondet_u8() & 3);
        invariant(false);
    }
    VWITNESS("end");
}

// (2) inductive step: ONE command from an ARBITRARY state that satisfies the invariant (covers histories of any length
// as long as at most DEPTH frames are pushed, at most NF assertions per frame and at most 6 frame ids are created)
extern "C" void h_step() {
    build();
    MainSolver * m = M;
    // grow the real containers to their maximal shape with real operations, then choose the live sizes symbolically
    for (int i = 1; i <= DEPTH; i++) { m->frames.push(); m->preprocessor.substitutions.push(); m->preprocessor.preprocessedFormulas.pushScope(); }
    for (int i = 0; i <= DEPTH; i++) {
        vec<PTRef> & f = m->frames.frames[i].formulas;
        f.data = (PTRef *)malloc(8 * sizeof(PTRef)); f.cap = 8;
        for (int k = 0; k < NF; k++) f.data[k] = PTRef{10u + (nondet_u8() & 3)};
    }
    { PTRef * ft = m->frameTerms.data; ft[1] = PTRef{1001u}; ft[2] = PTRef{1002u}; ft[3] = PTRef{1003u}; ft[4] = PTRef{1004u}; ft[5] = PTRef{1005u}; ft[6] = PTRef{1006u}; ft[7] = PTRef{1007u}; }
    int d = nondet_u8() & 3; VASSUME(d <= DEPTH);
    g_depth = d;
    m->frames.frames._M_impl._M_finish = m->frames.frames._M_impl._M_start + (d + 1);
    for (int i = 0; i <= DEPTH; i++) {
        g_id[i] = nondet_u8() & 7; m->frames.frames[i].id = g_id[i];
        g_nform[i] = nondet_u8() & 3; VASSUME(g_nform[i] <= NF); m->frames.frames[i].formulas.sz = g_nform[i];
        m->frames.frames[i].unsat = nondet_bool(); g_unsat[i] = nondet_bool();
        g_seen[i] = nondet_u8() & 3; g_given[i] = nondet_u8() & 3;
    }
    g_next_id = nondet_u8() & 7; m->frames.frameId = g_next_id; m->frameTerms.sz = (int)g_next_id;
    g_scopes = d;
    m->firstNotSimplifiedFrame = nondet_u8() & 3;
    m->preprocessor.solverFrameCount = (std::size_t)d + 1;
    int ifc = nondet_u8() & 3; VASSUME(ifc >= 1 && ifc <= d + 1);
    m->preprocessor.internalFrameCount = (std::size_t)ifc;
    m->preprocessor.substitutions.perFrameSubst._M_impl._M_finish = m->preprocessor.substitutions.perFrameSubst._M_impl._M_start + ifc;
    m->preprocessor.preprocessedFormulas.limits._M_impl._M_finish = m->preprocessor.preprocessedFormulas.limits._M_impl._M_start + (ifc - 1);
    // preprocessed formulas: <= 3 entries, scope limits nondecreasing and within the size
    int npre = nondet_u8() & 3;
    for (int k = 0; k < 3; k++) m->preprocessor.preprocessedFormulas.elements.push_back(PTRef{100u});
    m->preprocessor.preprocessedFormulas.elements._M_impl._M_finish = m->preprocessor.preprocessedFormulas.elements._M_impl._M_start + npre;
    for (int k = 0; k < DEPTH; k++) {
        unsigned l = nondet_u8() & 3; VASSUME((int)l <= npre && (k == 0 || l >= m->preprocessor.preprocessedFormulas.limits._M_impl._M_start[k - 1]));
        m->preprocessor.preprocessedFormulas.limits._M_impl._M_start[k] = l;
    }
    SS->ok = nondet_bool(); SS->conflict_frame = nondet_u8() & 3;
    m->status = sstat((int)(nondet_u8() & 3) - 1); m->insertedFormulasCount = nondet_u8(); m->check_called = nondet_u8();
    invariant(true);
    command<true>(nondet_u8() & 3);
    invariant(false);
    VWITNESS("step-end");
    if (g_depth == DEPTH) { VWITNESS("step-at-max-depth"); }
}

// (3) the assumption vector built by the real MainSolver::solve_: one literal per frame id ever created except the base,
// negated (= frame enabled) exactly for the enabled ids, positive (= frame's clauses switched off) for all others.
static int g_cap_n; static Lit g_cap[8]; static bool g_cap_simp, g_cap_off; static int g_inc; static int g_map_calls;
extern "C" lbool stub_simpSolve(SimpSMTSolver *, vec<Lit> const * a, bool do_simp, bool turn_off) {
    g_cap_n = a->size(); for (int i = 0; i < 8; i++) if (i < a->size()) g_cap[i] = (*a)[i];
    g_cap_simp = do_simp; g_cap_off = turn_off;
    uint8_t r = nondet_u8(); VASSUME(r <= 2); return lbool(r);
}
extern "C" void stub_vecLitPush(vec<Lit> * v, Lit const * e) {
    if (v->data == nullptr) { v->data = (Lit *)malloc(8 * sizeof(Lit)); v->cap = 8; v->sz = 0; }
    if (v->sz >= 8) { g_bad = 1; return; }
    v->data[v->sz++] = *e;
}
extern "C" int stub_isIncremental(SMTConfig const *) { return g_inc; }
extern "C" void stub_mapEnabled(SimpSMTSolver *, Var, uint32_t, uint32_t *) { g_map_calls++; }
static void * ss_vt[80];
extern "C" void h_assumptions() {
    build();
    MainSolver * m = M;
    ss_vt[vslot(&SimpSMTSolver::mapEnabledFrameIdToVar)] = (void *)&stub_mapEnabled;
    *reinterpret_cast<void ***>(SS) = ss_vt;
    { PTRef * ft = m->frameTerms.data; ft[1] = PTRef{1001u}; ft[2] = PTRef{1002u}; ft[3] = PTRef{1003u}; ft[4] = PTRef{1004u}; ft[5] = PTRef{1005u}; }
    int nids = 1 + (nondet_u8() & 7); VASSUME(nids <= 6);      // frame ids 0..nids-1 have been created (some popped since)
    m->frameTerms.sz = nids;
    bool en[6]; vec<uint32_t> enabled;
    enabled.data = (uint32_t *)malloc(6 * sizeof(uint32_t)); enabled.cap = 6; enabled.sz = 0;
    for (int id = 0; id < 6; id++) { en[id] = id < nids && (id == 0 || nondet_bool()); if (en[id]) enabled.data[enabled.sz++] = (uint32_t)id; }   // live frames: base + any subset, increasing
    g_inc = nondet_bool(); g_map_calls = 0; g_cap_n = -1;
    sstat r = m->MainSolver::solve_(enabled);
    VASSERT(!g_bad, "harness: capacities");
    VASSERT(g_cap_n == nids - 1, "one assumption per frame id ever created, the base frame dropped");
    for (int id = 1; id < 6; id++) if (id < nids) {
        Lit pos; pos.x = (int)((1000u + (uint32_t)id) * 2);
        VASSERT(g_cap[id - 1] == (en[id] ? ~pos : pos), "assumption for id: negated activation literal iff the frame is live, positive (clauses switched off) otherwise");
    }
    VASSERT(g_map_calls == enabled.size(), "every enabled frame is reported to the engine once");
    VASSERT(g_cap_simp == !g_inc && g_cap_off == (bool)g_inc, "elimination is requested iff the solver is not incremental");
    VASSERT(r == s_True || r == s_False || r == s_Undef, "status is the engine's lbool");
    if (nids >= 3 && !en[1] && en[2]) { VWITNESS("popped-frame-disabled"); }
    VWITNESS("assumptions-end");
}

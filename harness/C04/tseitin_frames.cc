// C04 (also C01/C02): Tseitin::cnfize(PTRef) with the per-frame CNF cache across a pop. The definition clauses of a
// connective are guarded by the frame that cnfized it; after that frame is popped, a later frame that reaches the same
// connective (possibly through a cached negation) must emit its definitions again.
#include "verif.h"
#include "cnfizers/Tseitin.h"
using namespace opensmt;
using Cache = Cnfizer::Cache;
using Entry = Cache::CacheEntry;
using Set = std::unordered_set<Entry, Cache::EntryHash>;

// ---- set model behind the cache's unordered_set: keys are (term < 8, frame < 4), so a direct table is exact
static bool present[8][4]; static bool overflow;
static std::__detail::_Hash_node<Entry, true> dummy_node;
extern "C" Set::iterator stub_find(Set *, Entry const & k) {
    if (k.first.x >= 8 || k.second >= 4) { overflow = true; return Set::iterator(nullptr); }
    return present[k.first.x][k.second] ? Set::iterator(&dummy_node) : Set::iterator(nullptr);
}
extern "C" Set::iterator stub_end(Set *) { return Set::iterator(nullptr); }
extern "C" std::pair<Set::iterator, bool> stub_insert(Set *, Entry && k) {
    if (k.first.x >= 8 || k.second >= 4) { overflow = true; return {Set::iterator(nullptr), false}; }
    bool was = present[k.first.x][k.second];
    present[k.first.x][k.second] = true;
    return {Set::iterator(&dummy_node), !was};
}

// ---- term DAG: nodes 0,1 atoms; nodes 2..4 symbolic kind over {not, and, or} with children among earlier nodes
enum K : uint8_t { ATOM = 0, NOT = 1, AND = 2, OR = 3 };
#define NN 5
static uint8_t kind[NN]; static uint8_t ch[NN][2];
static Pterm * pt[NN];
static int defined_in_frame[NN];          // bit f set: the definition clauses of node i were emitted while cnfizing frame f
static uint32_t cur_frame;
static int node(PTRef r) { VASSERT(r.x < NN, "term reference inside the table"); VASSUME(r.x < NN); return (int)r.x; }
extern "C" Pterm * stub_getPterm(Logic *, PTRef r) { return pt[node(r)]; }
extern "C" bool stub_isAnd(Logic const *, PTRef r) { return kind[node(r)] == AND; }
extern "C" bool stub_isOr(Logic const *, PTRef r) { return kind[node(r)] == OR; }
extern "C" bool stub_isNot(Logic const *, PTRef r) { return kind[node(r)] == NOT; }
extern "C" bool stub_isNever(Logic const *, PTRef) { return false; }
extern "C" bool stub_isBoolOp(Logic const *, PTRef r) { return kind[node(r)] != ATOM; }
extern "C" void stub_define(Tseitin *, PTRef r) { defined_in_frame[node(r)] |= (1 << cur_frame); }     // cnfizeAnd / cnfizeOr

union RawTseitin { Tseitin t; RawTseitin() {} ~RawTseitin() {} };
static RawTseitin raw;

static bool needs_def(int i) { return kind[i] == AND || kind[i] == OR; }
// every connective reachable from root must be defined in a frame that is still active: `frame` itself or the base frame 0
static void check_reachable(int root, uint32_t frame, const char *) {
    bool reach[NN]; for (int i = 0; i < NN; i++) reach[i] = (i == root);
    for (int i = NN - 1; i >= 0; i--) if (reach[i] && kind[i] != ATOM) { reach[ch[i][0]] = true; if (kind[i] != NOT) reach[ch[i][1]] = true; }
    for (int i = 0; i < NN; i++) if (reach[i] && needs_def(i))
        VASSERT((defined_in_frame[i] >> frame) & 1 || (defined_in_frame[i] & 1), "every connective reachable from the formula has its definition clauses in the current frame or in the base frame");
}

extern "C" void h_two_frames() {
    for (int i = 0; i < NN; i++) {
        int nargs = 0;
        if (i < 2) kind[i] = ATOM;
        else { uint8_t k = nondet_u8(); VASSUME(k >= NOT && k <= OR); kind[i] = k; ch[i][0] = nondet_u8(); ch[i][1] = nondet_u8(); VASSUME(ch[i][0] < i && ch[i][1] < i); nargs = (k == NOT) ? 1 : 2; }
        pt[i] = (Pterm *)(nargs == 0 ? malloc(sizeof(Pterm)) : nargs == 1 ? malloc(sizeof(Pterm) + 4) : malloc(sizeof(Pterm) + 8));
        pt[i]->header.size = nargs; pt[i]->header.type = 0; pt[i]->header.has_extra = 0; pt[i]->header.reloced = 0; pt[i]->header.noscoping = 0;
        if (nargs > 0) pt[i]->args[0] = PTRef{ch[i][0]};
        if (nargs > 1) pt[i]->args[1] = PTRef{ch[i][1]};
        defined_in_frame[i] = 0;
    }
    raw.t.alreadyCnfized.baseFrame = 0;
    // frame ids are unique and increasing: first formula in frame f1 (possibly the base frame 0), then that frame is
    // popped (unless it is the base frame) and a second formula is cnfized in a later frame f2
    uint32_t f1 = nondet_u8() & 1, f2 = 2;
    int r1 = nondet_u8(), r2 = nondet_u8(); VASSUME(r1 >= 2 && r1 < NN && r2 >= 2 && r2 < NN);
    cur_frame = f1; raw.t.currentFrameId = f1;
    raw.t.cnfize(PTRef{(uint32_t)r1});
    check_reachable(r1, f1, "first");
    cur_frame = f2; raw.t.currentFrameId = f2;
    raw.t.cnfize(PTRef{(uint32_t)r2});
    VASSERT(!overflow, "cache keys stay inside the model table");
    check_reachable(r2, f2, "second");
    if (f1 == 1) { VWITNESS("first-frame-popped"); } else { VWITNESS("first-formula-in-base-frame"); }
    VWITNESS("two-frames");
}
extern "C" void stub_cap_ptref(vec<PTRef> * v, int min_cap) {
    if (v->cap >= min_cap) return;
    VASSERT(min_cap <= 8, "work list within the harness capacity");
    if (v->data == nullptr) v->data = (PTRef *)malloc(8 * sizeof(PTRef));
    v->cap = 8;
}

/* output is not the subject of these harnesses: stderr printing is a no-op (only reachable with verbosity on) */
#ifdef IR2C_NEED_fprintf
uint32_t fprintf(struct S_struct__IO_FILE *f, uint8_t *fmt, ...) { (void)f; (void)fmt; return 0; }
#endif
#ifdef IR2C_NEED_fflush
uint32_t fflush(struct S_struct__IO_FILE *f) { (void)f; return 0; }
#endif
#ifdef IR2C_NEED_printf
uint32_t printf(uint8_t *fmt, ...) { (void)fmt; return 0; }
#endif

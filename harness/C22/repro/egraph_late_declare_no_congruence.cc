// EXISTING DEFECT 3 (unmodified code, Egraph, needs a late declareAtom): a term declared while its arguments are already
// merged is not checked for congruence with existing terms (Egraph::declareTerm skips insertSig when the signature is
// already present, but enqueues no merge). {a=b, not (g a b) = (g b a)} is then reported consistent by a complete check.
// Only reachable through the API (declare in the middle of a history); the opensmt front end answers this correctly.
// Build: g++ -std=c++20 -O1 -I/tmp/seed_C16/src -I/tmp/seed_C16/_build/src existing_defect_3.cc -o ed3 /tmp/seed_C16/_build/lib/libopensmt.so -lgmpxx -lgmp -Wl,-rpath,/tmp/seed_C16/_build/lib
#include <tsolvers/egraph/Egraph.h>
#include <iostream>
using namespace opensmt;
int main() {
    Logic logic{Logic_t::QF_UF}; SMTConfig c; Egraph egraph(c, logic);
    SRef U = logic.declareUninterpretedSort("U");
    PTRef a = logic.mkVar(U, "a"), b = logic.mkVar(U, "b");
    SymRef g = logic.declareFun("g", U, {U, U});
    PTRef e1 = logic.mkEq(a, b);
    PTRef e2 = logic.mkEq(logic.mkUninterpFun(g, {a, b}), logic.mkUninterpFun(g, {b, a}));
    egraph.declareAtom(e1);
    egraph.pushBacktrackPoint(); bool r1 = egraph.assertLit({e1, l_True});
    egraph.declareAtom(e2);                                         // declared after a=b has been asserted
    egraph.pushBacktrackPoint(); bool r2 = egraph.assertLit({e2, l_False});
    TRes res = (r1 && r2) ? egraph.check(true) : TRes::UNSAT;
    std::cout << "check {a=b, not g(a,b)=g(b,a)} = " << (res == TRes::SAT ? "SAT (WRONG)" : "UNSAT (correct)") << "\n";
    return res == TRes::SAT ? 1 : 0;
}

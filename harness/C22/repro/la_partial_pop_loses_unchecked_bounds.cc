// EXISTING DEFECT 1 (unmodified code, LA solver): literals asserted after the last check() are silently lost
// when a LATER literal is retracted before the next check().
// Simplex::assertBound only buffers the new bound (bufferOfActivatedBounds); Simplex::finalizeBacktracking(), called from
// LASolver::popBacktrackPoints for ANY pop, clears the WHOLE buffer, including bounds of literals that stay asserted.
// Their bounds remain on the bound stacks, but the non-basic values / candidate set are never updated, so the next
// check() can answer SAT for an unsatisfiable set (C22: "consistent only for a theory-satisfiable set").
// (Same root cause: after check()==UNSAT the model is restored, and a partial pop that keeps some of the unchecked literals
//  leaves a model violating their bounds.)  CoreSMTSolver never produces such a history (it always pops every literal
//  asserted since the last successful check), so this is only reachable through the TSolver/THandler API.
// History: assert A: x>=5 ; assert Z: z>=0 ; backtrack 1 (retract Z) ; assert D: x+y<=3 ; assert C: y>=0 ; check
// Expected UNSAT (5+0 > 3); unmodified solver prints SAT.
// Build: g++ -std=c++20 -O1 -I/tmp/seed_C16/src -I/tmp/seed_C16/_build/src existing_defect_1.cc -o ed1 /tmp/seed_C16/_build/lib/libopensmt.so -lgmpxx -lgmp -Wl,-rpath,/tmp/seed_C16/_build/lib
#include <tsolvers/lasolver/LASolver.h>
#include <iostream>
using namespace opensmt;
int main() {
    SMTConfig c; ArithLogic logic(Logic_t::QF_LRA); LASolver solver(c, logic);
    PTRef x = logic.mkRealVar("x"), y = logic.mkRealVar("y"), z = logic.mkRealVar("z");
    PTRef A = logic.mkGeq(x, logic.mkRealConst(5));
    PTRef Z = logic.mkGeq(z, logic.mkRealConst(0));
    PTRef D = logic.mkLeq(logic.mkPlus(x, y), logic.mkRealConst(3));
    PTRef C = logic.mkGeq(y, logic.mkRealConst(0));
    for (PTRef a : {A, Z, D, C}) solver.declareAtom(a);
    auto as = [&](PTRef a) { solver.pushBacktrackPoint(); return solver.assertLit({a, l_True}); };
    std::cout << "initial check: " << (solver.check(true) == TRes::SAT ? "SAT" : "UNSAT") << "\n";
    bool ok = as(A); ok &= as(Z);
    solver.popBacktrackPoints(1);        // retract Z only, no check in between
    ok &= as(D); ok &= as(C);
    TRes r = ok ? solver.check(true) : TRes::UNSAT;
    std::cout << "check {x>=5, x+y<=3, y>=0} = " << (r == TRes::SAT ? "SAT  (WRONG, set is unsatisfiable)" : "UNSAT (correct)") << "\n";
    return r == TRes::SAT ? 1 : 0;
}

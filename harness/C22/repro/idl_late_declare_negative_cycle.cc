// EXISTING DEFECT 4 (unmodified code, difference-logic solver, needs a late declareAtom): an atom declared after the
// literals that imply it were asserted is never marked as a consequence (consequences are only computed for edges that
// exist when a literal is asserted). Asserting its negation is then accepted although it closes a negative cycle:
// the set {x-y<=0, y-z<=0, not(x-z<=0)} is not reported inconsistent; instead STPGraphManager::dfsSearch relaxes around
// the negative cycle forever (non-termination, memory grows without bound).  Run under `timeout 10` and `ulimit -v`.
// Build: g++ -std=c++20 -O1 -I/tmp/seed_C16/src -I/tmp/seed_C16/_build/src existing_defect_4.cc -o ed4 /tmp/seed_C16/_build/lib/libopensmt.so -lgmpxx -lgmp -Wl,-rpath,/tmp/seed_C16/_build/lib
#include <tsolvers/stpsolver/IDLSolver.h>
#include <iostream>
using namespace opensmt;
int main() {
    SMTConfig config; ArithLogic logic{Logic_t::QF_IDL};
    PTRef x = logic.mkIntVar("x"), y = logic.mkIntVar("y"), z = logic.mkIntVar("z");
    PTRef A = logic.mkLeq(logic.mkMinus(x, y), logic.getTerm_IntZero());
    PTRef B = logic.mkLeq(logic.mkMinus(y, z), logic.getTerm_IntZero());
    PTRef D = logic.mkLeq(logic.mkMinus(x, z), logic.getTerm_IntZero());
    IDLSolver solver(config, logic);
    solver.declareAtom(A); solver.declareAtom(B);
    solver.pushBacktrackPoint(); bool rA = solver.assertLit({A, l_True});
    solver.pushBacktrackPoint(); bool rB = solver.assertLit({B, l_True});
    solver.declareAtom(D);                                  // declared late
    std::cout << "A:" << rA << " B:" << rB << "; asserting not D ..." << std::endl;
    solver.pushBacktrackPoint(); bool rD = solver.assertLit({D, l_False});
    TRes r = solver.check(true);
    std::cout << "not D:" << rD << " check: " << (r == TRes::SAT ? "SAT (WRONG)" : "UNSAT") << "\n";
    return (!rD || r == TRes::UNSAT) ? 0 : 1;
}

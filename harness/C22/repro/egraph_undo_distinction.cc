// existing_defect_1.cc -- found in the UNMODIFIED code (HEAD ce45400) while working on C01.
//
// WHAT: Egraph::undoDistinction (src/tsolvers/egraph/EgraphSolver.cc) clears the distinction bit on the ENODE OF EACH
//       ARGUMENT of the (distinct ...) term, whereas Egraph::assertDist had set the bit on the ROOT of the argument's
//       equivalence class (getEnode(root).addDistClass(index)).  If an argument was not the root of its class when the
//       distinct was asserted, backtracking over the distinct leaves a stale "member of distinction #i" bit on the
//       root.  Two classes carrying the stale bit are afterwards reported unmergeable: asserting a = b yields a theory
//       conflict whose explanation names the (distinct a b c) literal although that literal is no longer asserted.
//
// STATUS w.r.t. C01: this is a component-level (TSolver API) soundness defect.  I could NOT turn it into a wrong
//       check-sat answer through the front end: n-ary distinct terms reach the Egraph only when they are top-level
//       conjuncts of frame 0 in pure QF_UF (UFTheory::preprocessAfterSubstitutions; everything else is expanded to
//       pairwise disequalities), hence they are asserted at decision level 0 and are only undone by the end-of-query
//       cleanup.  So the stale bit is latent today, but any change that lets a distinct be asserted above level 0
//       (e.g. keeping top-level distincts of pushed frames) turns it into a wrong "unsat".
//
// BUILD/RUN (paths of my private clone; /tmp/seed_C16 works the same once built):
//   g++ -std=c++20 -O1 -I/tmp/seed_C01/src -I/tmp/seed_C01/_build/src existing_defect_1.cc -o existing_defect_1 \
//       /tmp/seed_C01/_build/lib/libopensmt.so -lgmpxx -lgmp -Wl,-rpath,/tmp/seed_C01/_build/lib && ./existing_defect_1
// OBSERVED OUTPUT (unmodified code):
//   a=a2: 1
//   b=b2: 1
//   distinct(a,b,c): 1
//   a=b after retracting distinct: 0 (expected 1)
//   conflict: (= a b) (distinct a b c)
//   (exit status 1)
// EXPECTED: the last assertLit returns true -- {a=a2, b=b2, a=b} is consistent.
//
#include <tsolvers/egraph/Egraph.h>
#include <logics/Logic.h>
#include <options/SMTConfig.h>
#include <iostream>
using namespace opensmt;
int main() {
    Logic logic{Logic_t::QF_UF};
    SMTConfig c;
    Egraph egraph(c, logic);
    SRef U = logic.declareUninterpretedSort("U");
    PTRef a = logic.mkVar(U, "a"), b = logic.mkVar(U, "b"), cc = logic.mkVar(U, "c");
    PTRef a2 = logic.mkVar(U, "a2"), b2 = logic.mkVar(U, "b2");
    SymRef k1 = logic.declareFun("k1", U, {U});
    SymRef k2 = logic.declareFun("k2", U, {U});
    SymRef k3 = logic.declareFun("k3", U, {U});
    // give a2, b2 more parents than a, b so that they become class roots
    PTRef e1 = logic.mkEq(logic.mkUninterpFun(k1,{a2}), logic.mkUninterpFun(k2,{a2}));
    PTRef e2 = logic.mkEq(logic.mkUninterpFun(k3,{a2}), logic.mkUninterpFun(k1,{b2}));
    PTRef e3 = logic.mkEq(logic.mkUninterpFun(k2,{b2}), logic.mkUninterpFun(k3,{b2}));
    PTRef eqA = logic.mkEq(a, a2);
    PTRef eqB = logic.mkEq(b, b2);
    PTRef D = logic.mkDistinct({a, b, cc});
    PTRef E = logic.mkEq(a, b);
    for (PTRef t : {e1,e2,e3,eqA,eqB,D,E}) egraph.declareAtom(t);
    bool r;
    egraph.pushBacktrackPoint();
    r = egraph.assertLit({eqA, l_True}); std::cout << "a=a2: " << r << "\n";
    r = egraph.assertLit({eqB, l_True}); std::cout << "b=b2: " << r << "\n";
    egraph.pushBacktrackPoint();
    r = egraph.assertLit({D, l_True}); std::cout << "distinct(a,b,c): " << r << "\n";
    egraph.popBacktrackPoint();   // retract the distinct
    egraph.pushBacktrackPoint();
    r = egraph.assertLit({E, l_True}); std::cout << "a=b after retracting distinct: " << r << " (expected 1)\n";
    if (!r) {
        vec<PtAsgn> expl; egraph.getConflict(expl);
        std::cout << "conflict:";
        for (auto p : expl) std::cout << " " << (p.sgn == l_True ? "" : "!") << logic.pp(p.tr);
        std::cout << "\n";
    }
    return r ? 0 : 1;
}

// C22: the bound stacks of the LRA model are restored exactly by backtracking.
// Real: LRAModel::pushBound / popBounds / pushBacktrackPoint / popBacktrackPoint / getBacktrackSize / hasLBound / hasUBound /
// readLBoundRef / readUBoundRef (src/tsolvers/lasolver/LRAModel.cc), minisat vec push / pop / shrink / last, the libstdc++
// std::vector<vec<LABoundRef>>::operator[].
// Model: the bound store is a table of NB real LABound objects (only type and variable are initialised) behind
// LABoundStore::operator[]; the per-variable stacks, bound_trace and bound_limits use static typed buffers (vec::capacity cut).
#include "verif.h"
#include "tsolvers/lasolver/LRAModel.h"
#include <new>
using namespace opensmt;

#define NVAR 3
#ifndef NB
#define NB 6
#endif
#ifndef NOPS
#define NOPS 6
#endif
#ifndef CAP
#define CAP 8
#endif

union RawModel { LRAModel m; RawModel() {} ~RawModel() {} };       // typed raw storage, never constructed
static RawModel rawModel;
union RawBounds { LABound b[NB]; RawBounds() {} ~RawBounds() {} };
static RawBounds bounds;
union RawStacks { vec<LABoundRef> v[NVAR]; RawStacks() {} ~RawStacks() {} };
static RawStacks lstacks, ustacks;
static LABoundRef l_buf[NVAR][CAP], u_buf[NVAR][CAP], trace_buf[CAP];
static int lim_buf[CAP];

static bool g_foreign, g_overflow;
static unsigned b_var[NB]; static bool b_upper[NB];
extern "C" LABound & stub_bound(LABoundStore *, LABoundRef r) { unsigned i = r.x; if (i >= NB) { g_foreign = true; i = 0; } return bounds.b[i]; }
extern "C" void stub_cap_bref(vec<LABoundRef> * v, int min_cap) { if (min_cap > v->cap) g_overflow = true; }
extern "C" void stub_cap_int(vec<int> * v, int min_cap) { if (min_cap > v->cap) g_overflow = true; }

template <class V, class T> static void point(V & v, T * buf, size_t n, size_t cap) {
    v._M_impl._M_start = buf; v._M_impl._M_finish = buf + n; v._M_impl._M_end_of_storage = buf + cap;
}
template <class T> static void vpoint(vec<T> & v, T * buf, int n) { v.data = buf; v.cap = CAP; v.sz = n; }

// reference: the pushed bounds with the level they were pushed at
static unsigned rec_b[CAP]; static int rec_level[CAP]; static unsigned n_rec;
static int lim_ref[CAP];         // trace size when level j+1 was opened
static int depth;

extern "C" void h_lra_bounds_history() {
    LRAModel & m = rawModel.m;
    for (unsigned i = 0; i < NB; i++) {
        b_var[i] = nondet_u8() & 3; VASSUME(b_var[i] < NVAR); b_upper[i] = nondet_bool();
        bounds.b[i].type = b_upper[i] ? bound_u.t : bound_l.t; bounds.b[i].var = LVRef{b_var[i]};
    }
    for (unsigned v = 0; v < NVAR; v++) { vpoint(lstacks.v[v], l_buf[v], 0); vpoint(ustacks.v[v], u_buf[v], 0); }
    point(m.int_lbounds, lstacks.v, NVAR, NVAR);
    point(m.int_ubounds, ustacks.v, NVAR, NVAR);
    vpoint(m.bound_trace, trace_buf, 0);
    lim_buf[0] = 0; vpoint(m.bound_limits, lim_buf, 1);       // the constructor's bound_limits.push(0)
    g_foreign = g_overflow = false; n_rec = 0; depth = 0;
    bool popped_nonempty = false, pushed_after_pop = false;
    for (int step = 0; step < NOPS; step++) {
        unsigned op = nondet_u8() & 3;
        if (op == 0) {
            m.pushBacktrackPoint();
            lim_ref[depth] = (int)n_rec; depth++;
        } else if (op == 1) {
            unsigned b = nondet_u8() & 7; VASSUME(b < NB && n_rec < CAP);
            m.pushBound(LABoundRef{b});
            rec_b[n_rec] = b; rec_level[n_rec] = depth; n_rec++;
            if (popped_nonempty) pushed_after_pop = true;
        } else if (op == 2) {
            VASSUME(depth > 0);       // one pop per pushed point (Simplex / LASolver pop what they pushed)
            m.popBacktrackPoint();
            unsigned k = 0;
            for (unsigned i = 0; i < CAP; i++) if (i < n_rec && rec_level[i] < depth) { rec_b[k] = rec_b[i]; rec_level[k] = rec_level[i]; k++; }
            if (k < n_rec) popped_nonempty = true;
            n_rec = k; depth--;
        }                               // op == 3: nothing (shorter histories)
    }
    VASSERT(!g_foreign && !g_overflow, "harness: only table bounds are looked up, buffer capacities suffice");
    VASSERT(m.getBacktrackSize() == depth + 1, "one limit per open backtrack point (plus the base entry)");
    for (int j = 0; j < CAP - 1; j++) if (j < depth) VASSERT(lim_buf[j + 1] == lim_ref[j], "every open backtrack point remembers the trace size at its push");
    VASSERT(lim_buf[0] == 0, "the base limit stays 0");
    VASSERT(m.bound_trace.size() == (int)n_rec, "bound_trace holds exactly the bounds pushed at surviving levels");
    for (unsigned i = 0; i < CAP; i++) if (i < n_rec) VASSERT(trace_buf[i].x == rec_b[i], "bound_trace keeps the original order");
    for (unsigned v = 0; v < NVAR; v++) {
        unsigned wl[CAP], wu[CAP], kl = 0, ku = 0;
        for (unsigned i = 0; i < CAP; i++) if (i < n_rec && b_var[rec_b[i]] == v) { if (b_upper[rec_b[i]]) wu[ku++] = rec_b[i]; else wl[kl++] = rec_b[i]; }
        VASSERT(lstacks.v[v].data == l_buf[v] && ustacks.v[v].data == u_buf[v], "harness: the stacks still use their buffers");
        VASSERT(lstacks.v[v].size() == (int)kl, "the lower-bound stack of v holds exactly its surviving lower bounds");
        VASSERT(ustacks.v[v].size() == (int)ku, "the upper-bound stack of v holds exactly its surviving upper bounds");
        for (unsigned i = 0; i < CAP; i++) {
            if (i < kl) VASSERT(l_buf[v][i].x == wl[i], "lower-bound stack in push order");
            if (i < ku) VASSERT(u_buf[v][i].x == wu[i], "upper-bound stack in push order");
        }
        VASSERT(m.hasLBound(LVRef{v}) == (kl > 0) && m.hasUBound(LVRef{v}) == (ku > 0), "a variable has a bound iff a surviving bound was pushed for it");
        if (kl > 0) VASSERT(m.readLBoundRef(LVRef{v}).x == wl[kl - 1], "the current lower bound is the last surviving one (the value before the matching push)");
        if (ku > 0) VASSERT(m.readUBoundRef(LVRef{v}).x == wu[ku - 1], "the current upper bound is the last surviving one (the value before the matching push)");
    }
    VWITNESS("end");
    if (pushed_after_pop && depth == 0) { VWITNESS("bound-pushed-after-a-pop-and-all-points-popped"); }
    if (popped_nonempty && n_rec > 0) { VWITNESS("some-bounds-popped-some-kept"); }
}

// C22: backtracking in the difference-logic solver retracts exactly the edges that were set after the backtrack point.
// Real: STPGraphManager<SafeInt>::removeAfter / setTrue / setDeduction / isTrue, EdgeGraph::addEdge (STPEdgeGraph.cc),
// STPMapper::setAssignment / removeAssignment / getAssignment, STPStore::getEdge, STPSolver<SafeInt>::pushBacktrackPoint /
// popBacktrackPoints / popBacktrackPoint, the libstdc++ code of std::vector operator[] / size / empty / pop_back / push_back
// (fast path) / back, minisat vec<size_t> push / shrink / last.
// Model: every std::vector of the solver state points at a static typed buffer of fixed capacity (set up by the harness, not
// through growth); the growth paths (_M_realloc_insert of vector<EdgeRef>, resize of vector<vector<EdgeRef>> and of
// vector<PtAsgn>) are cut and asserted not to be reached. TSolver::pushBacktrackPoint / popBacktrackPoint (deduction-stack
// bookkeeping of the base class) only count.
#include "verif.h"
#include "tsolvers/stpsolver/IDLSolver.h"
#include "tsolvers/stpsolver/STPSolver_implementations.hpp"
#include <new>
using namespace opensmt;
using GM = STPGraphManager<SafeInt>;
using Solver = STPSolver<SafeInt>;

#define NV 3            // vertices
#ifndef NE
#define NE 6            // edges in the store: atom a = edge 2a, its negation = edge 2a+1
#endif
#ifndef NOPS
#define NOPS 5
#endif
#define BTCAP 8

// typed raw storage: single-member unions whose member is never constructed
union RawSolver { IDLSolver s; RawSolver() {} ~RawSolver() {} };
static RawSolver rawSolver;
union RawAdj { std::vector<EdgeRef> v[NV]; RawAdj() {} ~RawAdj() {} };
static RawAdj adjIn, adjOut;
static Edge<SafeInt> edge_buf[NE];
union RawAsgns { PtAsgn a[NE]; RawAsgns() {} ~RawAsgns() {} };
static RawAsgns asgns;
static EdgeRef in_buf[NV][NE], out_buf[NV][NE], added_buf[NE], ded_buf[NE];
static size_t bt_buf[BTCAP];
static long dummy_logic;

static bool g_overflow; static int g_base_push, g_base_pop;
using ERVec = std::vector<EdgeRef>;
extern "C" void stub_realloc_insert(ERVec *, ERVec::iterator, EdgeRef const &) { g_overflow = true; }
extern "C" void stub_vv_resize(std::vector<ERVec> *, size_t) { g_overflow = true; }
extern "C" void stub_asgn_resize(std::vector<PtAsgn> *, size_t, PtAsgn const &) { g_overflow = true; }
extern "C" void stub_cap_size_t(vec<size_t> * v, int min_cap) { if (min_cap > v->cap) g_overflow = true; }
extern "C" void stub_base_push(TSolver *) { g_base_push++; }
extern "C" void stub_base_pop(TSolver *) { g_base_pop++; }

template <class F> static int vslot(F pmf) {
    union { F f; struct { intptr_t ptr; intptr_t adj; } r; } u;
    u.f = pmf;
    return (int)((u.r.ptr - 1) / 8);
}
static void * fake_vt[64];
extern "C" void thunk_popN(TSolver * t, unsigned n) { static_cast<Solver *>(t)->Solver::popBacktrackPoints(n); }

template <class V, class T> static void point(V & v, T * buf, size_t n, size_t cap) {
    v._M_impl._M_start = buf; v._M_impl._M_finish = buf + n; v._M_impl._M_end_of_storage = buf + cap;
}

static unsigned e_from[NE], e_to[NE];
static PtAsgn lit_of(unsigned e) { return PtAsgn(PTRef{10 + e / 2}, (e & 1) ? l_False : l_True); }

// fixed_graph: the end points are concrete (0->1, 1->0, 1->2, 2->1, 0->1, 1->0: vertex 1 shares its lists between several edges,
// edges 0 and 4 are parallel); otherwise every edge has arbitrary end points
static Solver & setup(bool fixed_graph = false) {
    Solver & s = rawSolver.s;
    fake_vt[vslot(&TSolver::popBacktrackPoints)] = (void *)&thunk_popN;
    *reinterpret_cast<void ***>(&s) = fake_vt;
    new (&s.store) STPStore<SafeInt>();
    new (&s.mapper) STPMapper<SafeInt>(*reinterpret_cast<ArithLogic const *>(&dummy_logic), s.store);
    new (&s.graphMgr) GM(s.store, s.mapper);
    s.store.vertices = NV;
    for (unsigned e = 0; e < NE; e++) {
        static const unsigned ff[6] = {0, 1, 1, 2, 0, 1}, ft[6] = {1, 0, 2, 1, 1, 0};
        if (fixed_graph) { e_from[e] = ff[e]; e_to[e] = ft[e]; }
        else { e_from[e] = nondet_u8() & 3; e_to[e] = nondet_u8() & 3; VASSUME(e_from[e] < NV && e_to[e] < NV && e_from[e] != e_to[e]); }
        Edge<SafeInt> & ed = edge_buf[e];
        ed.from = VertexRef{e_from[e]}; ed.to = VertexRef{e_to[e]}; ed.neg = EdgeRef{e ^ 1u}; ed.cost = SafeInt((ptrdiff_t)nondet_i64()); ed.setTime = 0;
        asgns.a[e] = PtAsgn_Undef;
    }
    point(s.store.edges, &edge_buf[0], NE, NE);
    point(s.mapper.edgeRefToAsgn, &asgns.a[0], NE, NE);
    for (unsigned v = 0; v < NV; v++) { point(adjIn.v[v], in_buf[v], 0, NE); point(adjOut.v[v], out_buf[v], 0, NE); }
    point(s.graphMgr.graph.incoming, adjIn.v, NV, NV);
    point(s.graphMgr.graph.outgoing, adjOut.v, NV, NV);
    point(s.graphMgr.graph.addedEdges, added_buf, 0, NE);
    point(s.graphMgr.deductions, ded_buf, 0, NE);
    new (&s.backtrack_points) vec<size_t>();
    s.backtrack_points.data = bt_buf; s.backtrack_points.cap = BTCAP; s.backtrack_points.sz = 0;
    s.inv_bpoint = (size_t)-1; s.inv_asgn = PtAsgn_Undef; s.has_explanation = false;
    g_overflow = false; g_base_push = g_base_pop = 0;
    return s;
}

// ---------------------------------------------------------------- reference: which edges hold, in which order, since which level
static int ref_level[NE];           // -1: does not hold; otherwise the number of backtrack points when it was set
static bool ref_deduced[NE];
static uint32_t ref_time[NE];       // setTime it received
static unsigned ref_added[NE], n_added, ref_ded[NE], n_ded;     // in the order of setting
static int ref_conflict_level;      // -1: consistent
static int depth;

static void ref_cut(int n) {        // drop everything set at a level > n, keep the order of the rest
    unsigned k = 0;
    for (unsigned i = 0; i < NE; i++) if (i < n_added) { unsigned e = ref_added[i]; if (ref_level[e] <= n) ref_added[k++] = e; else ref_level[e] = -1; }
    n_added = k; k = 0;
    for (unsigned i = 0; i < NE; i++) if (i < n_ded) { unsigned e = ref_ded[i]; if (ref_level[e] <= n) ref_ded[k++] = e; else ref_level[e] = -1; }
    n_ded = k;
    if (ref_conflict_level > n) ref_conflict_level = -1;
}

// the lists are compared through the static buffers the vectors point at (the vectors never reallocate: checked)
static void check_lists(Solver & s) {
    auto & g = s.graphMgr.graph;
    VASSERT(g.addedEdges._M_impl._M_start == added_buf && s.graphMgr.deductions._M_impl._M_start == ded_buf, "harness: the vectors still use their buffers");
    VASSERT(g.addedEdges.size() == n_added, "addedEdges holds exactly the edges set at the surviving levels");
    for (unsigned i = 0; i < NE; i++) if (i < n_added) VASSERT(added_buf[i].x == ref_added[i], "addedEdges keeps the original order");
    VASSERT(s.graphMgr.deductions.size() == n_ded, "deductions holds exactly the edges deduced at the surviving levels");
    for (unsigned i = 0; i < NE; i++) if (i < n_ded) VASSERT(ded_buf[i].x == ref_ded[i], "deductions keeps the original order");
    VASSERT(g.incoming.size() == NV && g.outgoing.size() == NV && g.incoming._M_impl._M_start == adjIn.v && g.outgoing._M_impl._M_start == adjOut.v, "one adjacency list per vertex");
    for (unsigned v = 0; v < NV; v++) {
        unsigned wi[NE], wo[NE], ki = 0, ko = 0;
        for (unsigned i = 0; i < NE; i++) if (i < n_added) {
            unsigned e = ref_added[i];
            if (e_to[e] == v) wi[ki++] = e;
            if (e_from[e] == v) wo[ko++] = e;
        }
        VASSERT(adjIn.v[v]._M_impl._M_start == in_buf[v] && adjOut.v[v]._M_impl._M_start == out_buf[v], "harness: the adjacency vectors still use their buffers");
        VASSERT(adjIn.v[v].size() == ki, "incoming[v] holds as many edges as survive into v");
        VASSERT(adjOut.v[v].size() == ko, "outgoing[v] holds as many edges as survive out of v");
        for (unsigned i = 0; i < NE; i++) {
            if (i < ki) VASSERT(in_buf[v][i].x == wi[i], "incoming[v] = the surviving edges into v, original order");
            if (i < ko) VASSERT(out_buf[v][i].x == wo[i], "outgoing[v] = the surviving edges out of v, original order");
        }
    }
}
static void check_edges(Solver & s) {
    for (unsigned e = 0; e < NE; e++) {
        bool holds = ref_level[e] >= 0;
        VASSERT(s.graphMgr.isTrue(EdgeRef{e}) == holds, "an edge holds iff it was set at a surviving level (retracted edges leave no trace)");
        if (holds) VASSERT(edge_buf[e].setTime == ref_time[e], "a surviving edge keeps its setTime");
        PtAsgn want = (holds && !ref_deduced[e]) ? lit_of(e) : PtAsgn_Undef;
        VASSERT(s.mapper.getAssignment(EdgeRef{e}) == want, "the mapper knows the literal of exactly the explicitly set surviving edges");
        if (holds) VASSERT(ref_time[e] <= s.graphMgr.timestamp, "the timestamp is not behind any surviving edge");
    }
}

#ifndef MAXDED
#define MAXDED 1
#endif
static bool popped_some, set_after_pop, retracted_after_reuse, popped_conflict, kept_conflict;
static void op_push(Solver & s) { s.Solver::pushBacktrackPoint(); depth++; }
// assertLit, third branch: the solver is consistent, neither the edge nor its negation holds yet; the edge is set and
// findConsequences marks 0..MAXDED edges that do not hold yet as deduced
static void op_set(Solver & s) {
    unsigned e = nondet_u8() & 7; VASSUME(e < NE);
    VASSUME(s.inv_asgn == PtAsgn_Undef && !s.graphMgr.isTrue(EdgeRef{e}) && !s.graphMgr.isTrue(EdgeRef{e ^ 1u}));
    uint32_t before = s.graphMgr.timestamp;
    s.graphMgr.setTrue(EdgeRef{e}, lit_of(e));
    VASSERT(s.graphMgr.timestamp == before + 1 && edge_buf[e].setTime == before + 1, "setTrue stamps the edge with a fresh time");
    for (unsigned i = 0; i < NE; i++) if (i < n_added) VASSERT(ref_time[ref_added[i]] < before + 1, "a fresh time is later than the time of every edge that holds");
    for (int j = 0; j < BTCAP; j++) if (j < depth) VASSERT(bt_buf[j] < (size_t)before + 1, "a fresh time is later than every backtrack point on the stack (so popping that point retracts the edge)");
    ref_level[e] = depth; ref_deduced[e] = false; ref_time[e] = before + 1; ref_added[n_added++] = e;
    if (popped_some) set_after_pop = true;
    unsigned nd = nondet_u8() & 3; VASSUME(nd <= MAXDED);
    for (unsigned j = 0; j < MAXDED; j++) if (j < nd) {
        unsigned d = nondet_u8() & 7; VASSUME(d < NE && !s.graphMgr.isTrue(EdgeRef{d}));
        s.graphMgr.setDeduction(EdgeRef{d});
        ref_level[d] = depth; ref_deduced[d] = true; ref_time[d] = before + 1; ref_ded[n_ded++] = d;
    }
}
static void op_pop(Solver & s) {
    unsigned k = nondet_u8() & 7; VASSUME((int)k <= depth);
    bool had_conflict = ref_conflict_level >= 0;
    if (k == 1 && nondet_bool()) s.Solver::popBacktrackPoint();       // forwards to the virtual popBacktrackPoints(1)
    else s.Solver::popBacktrackPoints(k);
    depth -= (int)k;
    unsigned held = n_added;
    ref_cut(depth);
    if (set_after_pop && n_added < held) retracted_after_reuse = true;
    if (k > 0) popped_some = true;
    if (had_conflict && ref_conflict_level < 0) popped_conflict = true;
    if (had_conflict && ref_conflict_level >= 0 && k > 0) kept_conflict = true;
}
// assertLit, second branch: the negation of the asserted literal holds -> the solver records the inconsistency
static void op_conflict(Solver & s) {
    unsigned e = nondet_u8() & 7; VASSUME(e < NE);
    VASSUME(s.inv_asgn == PtAsgn_Undef && !s.graphMgr.isTrue(EdgeRef{e}) && s.graphMgr.isTrue(EdgeRef{e ^ 1u}));
    s.inv_bpoint = s.backtrack_points.size(); s.inv_asgn = lit_of(e); s.has_explanation = true;
    ref_conflict_level = depth;
}
static Solver & history_begin() {
    Solver & s = setup(true);
    for (unsigned e = 0; e < NE; e++) ref_level[e] = -1;
    n_added = n_ded = 0; ref_conflict_level = -1; depth = 0;
    popped_some = set_after_pop = retracted_after_reuse = popped_conflict = kept_conflict = false;
    return s;
}
// the state is compared with the reference after the last step only: a step may be popBacktrackPoints(0) / skipped, which does
// nothing, so every shorter history is covered as well
static void history_end(Solver & s) {
    VASSERT(!g_overflow, "harness: buffer capacities suffice");
    VASSERT(s.backtrack_points.size() == depth && g_base_push - g_base_pop == depth, "one backtrack point (and one base-class point) per open level");
    VASSERT((s.inv_asgn != PtAsgn_Undef) == (ref_conflict_level >= 0), "the solver is inconsistent iff the violating literal was asserted at a surviving level");
    VASSERT(s.has_explanation == (ref_conflict_level >= 0), "has_explanation follows the inconsistency");
    check_edges(s);
    check_lists(s);
    VWITNESS("end");
}

// every history of NOPS steps
extern "C" void h_stp_history() {
    Solver & s = history_begin();
    for (int step = 0; step < NOPS; step++) {
        unsigned op = nondet_u8() & 3;
        if (op == 0) op_push(s); else if (op == 1) op_set(s); else if (op == 2) op_pop(s); else op_conflict(s);
    }
    history_end(s);
    if (set_after_pop) { VWITNESS("edge-set-after-a-pop"); }
#if NOPS >= 6
    if (retracted_after_reuse) { VWITNESS("edge-set-after-a-pop-is-retracted-by-a-later-pop"); }
#endif
    if (popped_conflict) { VWITNESS("conflict-retracted"); }
    if (kept_conflict) { VWITNESS("conflict-survives-a-pop"); }
    if (n_ded > 0 && popped_some) { VWITNESS("deduction-survives-or-follows-a-pop"); }
}

// the histories that are sub-sequences of  push set push set conflict pop(k) push set pop(k)  (every step but the pops optional,
// k arbitrary): two nested levels popped together or one by one, an edge set after a pop and retracted by the next pop (the
// timestamp is then ahead of the last edge), an inconsistency retracted or kept
extern "C" void h_stp_skeleton() {
    Solver & s = history_begin();
    if (nondet_bool()) op_push(s);
    if (nondet_bool()) op_set(s);
    if (nondet_bool()) op_push(s);
    if (nondet_bool()) op_set(s);
    if (nondet_bool()) op_conflict(s);
    op_pop(s);
    if (nondet_bool()) op_push(s);
    if (nondet_bool()) op_set(s);
    op_pop(s);
    history_end(s);
    if (retracted_after_reuse) { VWITNESS("edge-set-after-a-pop-is-retracted-by-a-later-pop"); }
    if (retracted_after_reuse && n_added > 0) { VWITNESS("an-older-edge-survives-both-pops"); }
    if (popped_conflict) { VWITNESS("conflict-retracted"); }
    if (kept_conflict) { VWITNESS("conflict-survives-a-pop"); }
    if (n_ded > 0 && popped_some) { VWITNESS("deduction-survives-a-pop"); }
}

// ---------------------------------------------------------------- removeAfter from an arbitrary well-formed state
#if NE >= 6
#define NA 4            // at most 4 explicitly set edges
#define ND 2            // at most 2 deduced edges
#ifndef RA_FIXED_GRAPH
#define RA_FIXED_GRAPH false
#endif
extern "C" void h_stp_remove_after() {
    Solver & s = setup(RA_FIXED_GRAPH);
    unsigned na = nondet_u8() & 7, nd = nondet_u8() & 3; VASSUME(na <= NA && nd <= ND && (na > 0 || nd == 0));
    unsigned slot[NA + ND]; uint32_t tm[NA + ND];
    // distinct store slots; explicitly set edges have strictly increasing times >= 1; a deduced edge carries the time of the set
    // edge whose consequences produced it, deductions are in time order
    for (unsigned i = 0; i < NA + ND; i++) { slot[i] = nondet_u8() & 7; VASSUME(slot[i] < NE); for (unsigned j = 0; j < i; j++) VASSUME(slot[i] != slot[j]); }
    for (unsigned i = 0; i < NA; i++) { tm[i] = nondet_u8(); VASSUME(tm[i] >= 1 && tm[i] <= 200 && (i == 0 || tm[i] > tm[i - 1])); }
    for (unsigned j = 0; j < ND; j++) { unsigned p = nondet_u8() & 3; VASSUME(p < NA && (p < na || j >= nd)); tm[NA + j] = tm[p]; VASSUME(j == 0 || tm[NA + j] >= tm[NA + j - 1]); }
    uint32_t ts0 = nondet_u8(); VASSUME(na == 0 || ts0 >= tm[na - 1]);      // the timestamp may be ahead of the last edge (after a pop that emptied the graph)
    s.graphMgr.timestamp = ts0;
    unsigned cin[NV] = {0, 0, 0}, cout[NV] = {0, 0, 0};
    for (unsigned i = 0; i < NA; i++) if (i < na) {
        unsigned e = slot[i];
        edge_buf[e].setTime = tm[i]; asgns.a[e] = lit_of(e); added_buf[i] = EdgeRef{e};
        for (unsigned v = 0; v < NV; v++) { if (e_to[e] == v) in_buf[v][cin[v]++] = EdgeRef{e}; if (e_from[e] == v) out_buf[v][cout[v]++] = EdgeRef{e}; }
    }
    for (unsigned j = 0; j < ND; j++) if (j < nd) { unsigned e = slot[NA + j]; edge_buf[e].setTime = tm[NA + j]; ded_buf[j] = EdgeRef{e}; }
    for (unsigned v = 0; v < NV; v++) { point(adjIn.v[v], in_buf[v], cin[v], NE); point(adjOut.v[v], out_buf[v], cout[v], NE); }
    point(s.graphMgr.graph.addedEdges, added_buf, na, NE);
    point(s.graphMgr.deductions, ded_buf, nd, NE);
    for (unsigned e = 0; e < NE; e++) ref_level[e] = -1;
    uint32_t pt = nondet_u8();
    s.graphMgr.removeAfter(pt);
    // reference: keep what has time <= pt (level 0), drop the rest (level 1)
    n_added = n_ded = 0; ref_conflict_level = -1;
    uint32_t last_kept = 0; bool any_kept = false;
    for (unsigned i = 0; i < NA; i++) if (i < na) { unsigned e = slot[i]; ref_time[e] = tm[i]; ref_deduced[e] = false; ref_level[e] = tm[i] <= pt ? 0 : 1; ref_added[n_added++] = e; if (tm[i] <= pt) { any_kept = true; last_kept = tm[i]; } }
    for (unsigned j = 0; j < ND; j++) if (j < nd) { unsigned e = slot[NA + j]; ref_time[e] = tm[NA + j]; ref_deduced[e] = true; ref_level[e] = tm[NA + j] <= pt ? 0 : 1; ref_ded[n_ded++] = e; }
    unsigned na_before = n_added;
    ref_cut(0);
    VASSERT(!g_overflow, "harness: no vector grows");
    VASSERT(s.graphMgr.timestamp == (any_kept ? last_kept : ts0), "the timestamp goes back to the last surviving set edge (unchanged if none survives)");
    for (unsigned e = 0; e < NE; e++) if (ref_level[e] < 0) VASSERT(edge_buf[e].setTime == 0, "setTime of a removed (or never set) edge is 0");
    check_edges(s);
    check_lists(s);
    VWITNESS("end");
    if (n_added < na_before && n_added > 0) { VWITNESS("some-removed-some-kept"); }
    if (na > 0 && n_added == 0) { VWITNESS("all-removed"); }
    if (nd == 2 && n_ded == 1) { VWITNESS("one-of-two-deductions-removed"); }
    if (na == NA && pt >= tm[NA - 1]) { VWITNESS("nothing-removed"); }
}
#endif

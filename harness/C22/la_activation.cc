// C22: the LA solver's per-variable count of active bounds is a function of the literals currently asserted.
// Simplex::boundsActivated[v] decides whether a row variable is kept in the tableau as a basic variable (count > 0) or
// parked as "quasi-basic" (count == 0, its row is ignored by the simplex).  It is incremented in Simplex::assertBound
// (boundActivated) and decremented in LASolver::popBacktrackPoints (boundDeactivated) for every decision popped from
// LASolver's own decision stack.  If the two sites disagree about WHICH assertions count (e.g. a bound that is already
// implied by the current bounds), the counter drifts with the history: a row whose variable still has an asserted bound is
// parked and its constraint silently ignored (wrong sat), or the unsigned counter wraps.
// Real: LASolver::assertLit (after initialisation), LASolver::assertBound, pushDecision, backtrackLevel, pushBacktrackPoint,
// popBacktrackPoints, popTermBacktrackPoint, popDecisions, setStatus, getStatus, Simplex::assertBound, Simplex::boundActivated,
// Simplex::boundDeactivated, Simplex::getNumOfBoundsActive, minisat vec push/pop/shrink/last, std::vector<unsigned>::operator[],
// std::vector<pair<LVRef,LABoundRef>>::emplace_back (capacity available).
// Model: LRAModel (trivially (un)satisfied tests: arbitrary answers; bound stacks: counted), Tableau status (ghost per variable),
// polarity map (ghost per atom), bound store (table), deductions (cut).
#include "verif.h"
#include "tsolvers/lasolver/LASolver.h"
#include <new>
using namespace opensmt;

#define NV 2
#ifndef NA
#define NA 3
#endif
#ifndef NOPS
#define NOPS 4
#endif
#define CAP 8

union RawLA { LASolver s; RawLA() {} ~RawLA() {} };
static RawLA raw;
union RawModel { LRAModel m; RawModel() {} ~RawModel() {} };
static RawModel rawModel;
union RawBounds { LABound b[2 * NA]; RawBounds() {} ~RawBounds() {} };
static RawBounds tab;
static unsigned act_buf[NV];
static std::pair<LVRef, LABoundRef> abuf[CAP];
static PtAsgn trace_buf[CAP]; static LASolver::DecEl dec_buf[CAP]; static int lim_buf[CAP];

static unsigned a_var[NA];              // the variable of atom a; its bounds are 2a (positive literal) and 2a+1 (negative literal)
static uint8_t pol[NA];                 // ghost polarity map: 0 undef, 1 true, 2 false
enum { NONBASIC = 0, BASIC = 1, QUASI = 2 };
static uint8_t tstate[NV];
static bool g_foreign, g_overflow, g_quasi_error;
static unsigned n_model_push, n_model_pop, n_pushBound;

static unsigned atom(PTRef tr) { unsigned a = tr.x - 10; if (a >= NA) { g_foreign = true; a = 0; } return a; }
static unsigned varid(LVRef v) { unsigned i = v.x; if (i >= NV) { g_foreign = true; i = 0; } return i; }

extern "C" bool stub_false(Logic const *, PTRef) { return false; }
extern "C" bool stub_hasPolarity(TSolver const *, PTRef tr) { return pol[atom(tr)] != 0; }
extern "C" lbool stub_getPolarity(TSolver const *, PTRef tr) { uint8_t p = pol[atom(tr)]; return p == 1 ? l_True : p == 2 ? l_False : l_Undef; }
extern "C" void stub_setPolarity(TSolver *, PTRef tr, lbool p) { pol[atom(tr)] = p == l_True ? 1 : p == l_False ? 2 : 0; }
extern "C" void stub_clearPolarity(TSolver *, PTRef tr) { pol[atom(tr)] = 0; }
extern "C" LABoundRefPair stub_getBoundRefPair(LASolver const *, PTRef tr) { unsigned a = atom(tr); return LABoundRefPair(LABoundRef{2 * a}, LABoundRef{2 * a + 1}); }
extern "C" LVRef stub_getVarForLeq(LASolver const *, PTRef tr) { return LVRef{a_var[atom(tr)]}; }
extern "C" LABound const * stub_bound(LABoundStore const *, LABoundRef r) { unsigned i = r.x; if (i >= 2 * NA) { g_foreign = true; i = 0; } return &tab.b[i]; }
extern "C" void stub_storeExplanation(LASolver * s, Simplex::Explanation * e) { s->explanation.sz = (int)e->size(); }
// the model: any answer to the two shortcut tests (they depend on the bound values, which are not part of this claim), except that a
// bound cannot be both
#ifdef WITH_CONFLICTS
extern "C" bool stub_trivUnsat(LRAModel const *, LVRef, LABoundRef) { return nondet_bool(); }
#else
// the direct-conflict path of Simplex::assertBound (it returns before any bookkeeping and allocates the explanation) is not explored
extern "C" bool stub_trivUnsat(LRAModel const *, LVRef, LABoundRef) { return false; }
#endif
extern "C" bool stub_trivSat(LRAModel const *, LVRef, LABoundRef) { return nondet_bool(); }
extern "C" void stub_pushBound(LRAModel *, LABoundRef) { n_pushBound++; }
extern "C" LABoundRef stub_readBoundRef(LRAModel const *, LVRef) { return LABoundRef{0}; }
extern "C" void stub_modelPush(LRAModel *) { n_model_push++; }
extern "C" void stub_modelPop(LRAModel *) { n_model_pop++; }
extern "C" bool stub_isQuasiBasic(Tableau const *, LVRef v) { return tstate[varid(v)] == QUASI; }
extern "C" bool stub_isBasic(Tableau const *, LVRef v) { return tstate[varid(v)] == BASIC; }
extern "C" void stub_basicToQuasi(Tableau *, LVRef v) { if (tstate[varid(v)] != BASIC) g_quasi_error = true; tstate[varid(v)] = QUASI; }
extern "C" void stub_quasiToBasic(Simplex *, LVRef v) { if (tstate[varid(v)] != QUASI) g_quasi_error = true; tstate[varid(v)] = BASIC; }
// the buffer of freshly activated bounds is consumed by the simplex, not by the counters: appends are only counted (a std::vector that may
// reallocate into malloc'ed memory is intractable for CBMC)
static unsigned n_buffered;
extern "C" std::pair<LVRef, LABoundRef> * stub_emplace(std::vector<std::pair<LVRef, LABoundRef>> *, LVRef *, LABoundRef *) { n_buffered++; return &abuf[0]; }
extern "C" void stub_finalize(Simplex * s) { s->bufferOfActivatedBounds._M_impl._M_finish = s->bufferOfActivatedBounds._M_impl._M_start; }
extern "C" void stub_cap_asgn(vec<PtAsgn> * v, int c) { if (c > v->cap) g_overflow = true; }
extern "C" void stub_cap_dec(vec<LASolver::DecEl> * v, int c) { if (c > v->cap) g_overflow = true; }
extern "C" void stub_cap_int(vec<int> * v, int c) { if (c > v->cap) g_overflow = true; }

template <class V, class T> static void point(V & v, T * buf, size_t n, size_t cap) {
    v._M_impl._M_start = buf; v._M_impl._M_finish = buf + n; v._M_impl._M_end_of_storage = buf + cap;
}
template <class T> static void vpoint(vec<T> & v, T * buf, int n) { v.data = buf; v.cap = CAP; v.sz = n; }

// reference: the stack of open backtrack points, each with the variable of the literal that was accepted there (or none)
static int lvl_var[CAP]; static unsigned depth;

static void compare(bool & drift) {
    for (unsigned v = 0; v < NV; v++) {
        unsigned want = 0;
        for (unsigned i = 0; i < CAP; i++) if (i < depth && lvl_var[i] == (int)v) want++;
        if (act_buf[v] != want) drift = true;
    }
}

extern "C" void h_activation_history() {
    LASolver & s = raw.s;
    for (unsigned a = 0; a < NA; a++) {
        a_var[a] = nondet_u8() & 1; pol[a] = 0;
        tab.b[2 * a].var = LVRef{a_var[a]}; tab.b[2 * a + 1].var = LVRef{a_var[a]};
        tab.b[2 * a].type = nondet_bool() ? bound_u.t : bound_l.t; tab.b[2 * a + 1].type = tab.b[2 * a].type == bound_u.t ? bound_l.t : bound_u.t;
    }
    bool was_row[NV];
    for (unsigned v = 0; v < NV; v++) { act_buf[v] = 0; was_row[v] = nondet_bool(); tstate[v] = was_row[v] ? QUASI : NONBASIC; }   // no bound active: rows are parked
    new (&s.simplex.model) std::unique_ptr<LRAModel>(&rawModel.m);
    point(s.simplex.boundsActivated, act_buf, NV, NV);
    point(s.simplex.bufferOfActivatedBounds, abuf, 0, CAP);
    vpoint(s.decision_trace, trace_buf, 0); vpoint(s.int_decisions, dec_buf, 0);
    lim_buf[0] = 0; vpoint(s.dec_limit, lim_buf, 1);          // the constructor's dec_limit.push(0)
    s.explanation.data = nullptr; s.explanation.sz = 0; s.explanation.cap = 0;
    s.status = LASolver::SAT; s.has_explanation = false;
    s.generalTSolverStats.sat_calls = 0; s.generalTSolverStats.unsat_calls = 0;
    g_foreign = g_overflow = g_quasi_error = false; n_model_push = n_model_pop = n_pushBound = 0; depth = 0;

    bool drift = false, saw_conflict = false, saw_trivial_sat = false, saw_repeat = false, popped = false, reasserted = false;
    for (int step = 0; step < NOPS; step++) {
        unsigned op = nondet_u8() & 1;
        if (op == 0) {
            // the SAT solver hands over one literal: THandler::assertLits does pushBacktrackPoint + assertLit; after a conflict it
            // backtracks before asserting anything else
            VASSUME(s.status == LASolver::SAT && depth < CAP - 2);
            unsigned a = nondet_u8() & 3; VASSUME(a < NA);
            bool sgn = nondet_bool();
            VASSUME(pol[a] == 0 || pol[a] == (sgn ? 1 : 2));       // never a literal and its negation at the same time
            bool repeat = pol[a] != 0;
            unsigned before = n_pushBound, act_before = act_buf[a_var[a]];
            s.LASolver::pushBacktrackPoint();
            bool ok = s.LASolver::assertLit(PtAsgn(PTRef{10 + a}, sgn ? l_True : l_False));
            bool accepted = ok && !repeat;
            lvl_var[depth++] = accepted ? (int)a_var[a] : -1;
            if (!ok) { saw_conflict = true; VASSERT(s.explanation.sz > 0 && s.has_explanation, "a rejected literal comes with an explanation"); }
            if (accepted && n_pushBound == before) saw_trivial_sat = true;
            if (repeat) saw_repeat = true;
            if (popped && accepted) reasserted = true;
            (void)act_before;
        } else {
            unsigned n = nondet_u8() & 3; VASSUME(n >= 1 && n <= depth);
            s.LASolver::popBacktrackPoints(n);
            depth -= n; popped = true;
            s.explanation.sz = 0;                                  // TSolver::popBacktrackPoint / the next check clear the explanation
        }
        compare(drift);
    }
    VASSERT(!g_foreign && !g_overflow, "harness: only table objects are looked up, buffer capacities suffice");
    VASSERT(!drift, "after every step the number of active bounds of a variable = the number of accepted literals on it that are still asserted");
    VASSERT(!g_quasi_error, "quasiToBasic only on a parked row, basicToQuasi only on a basic row");
    for (unsigned v = 0; v < NV; v++) {
        if (was_row[v]) VASSERT((tstate[v] == BASIC) == (act_buf[v] > 0), "a row is in the tableau exactly while one of its variable's bounds is asserted");
        else VASSERT(tstate[v] == NONBASIC, "a column variable is never parked");
    }
    VASSERT(s.dec_limit.size() == (int)depth + 1 && n_model_push - n_model_pop == depth, "one backtrack point of the solver and of the model per open level");
    VASSERT(s.status == LASolver::SAT || (s.status == LASolver::UNSAT && saw_conflict), "status is SAT unless the last literal was rejected");
    VWITNESS("end");
#ifdef WITH_CONFLICTS
    if (saw_conflict && popped) { VWITNESS("conflict-then-backtrack"); }
#endif
    if (saw_trivial_sat && popped && depth == 0) { VWITNESS("implied-bound-asserted-and-popped"); }
    if (reasserted) { VWITNESS("asserted-again-after-a-pop"); }
    if (saw_repeat) { VWITNESS("literal-already-known"); }
}

// C22: the Egraph's n-ary distinction bookkeeping is undone exactly.
// Real: Egraph::assertDist(PTRef, PtAsgn), Egraph::undoDistinction(PTRef), Egraph::mergeDistinctionClasses /
// unmergeDistinctionClasses, Egraph::mergeEquivalenceClasses / unmergeEquivalenceClasses, Enode::addDistClass /
// clearDistClass / getRoot / ..., the local minisat Map<ERef,ERef,ERefHash> root_to_enode (has / insert / rehash /
// operator[] / destructor), the local vec<ERef> nodes_changed, the push on undo_stack_main.
// Model: the enode store is a table of NE real Enode objects (ERef of enode i = 16*i) behind EnodeStore::operator[](ERef),
// EnodeStore::getERef (argument k of the distinct -> a symbolic enode), EnodeStore::getDistIndex (a symbolic index < 32) and
// Logic::getPterm (a fake Pterm with 2..3 arguments); Egraph::doExplain records its arguments.
#include "verif.h"
#include "tsolvers/egraph/Egraph.h"
#include "logics/Logic.h"
#include <new>
#include <cstdlib>
using namespace opensmt;

#define NE 5            // enodes
#define NARG 3          // arguments of the distinct term: 2..3
#define TR_D 77u        // the (distinct ...) term
#define ARG0 200u       // its arguments are the terms ARG0 + k

// typed raw storage: single-member unions whose member is never constructed (a union with a char member / byte buffer would turn
// every field access into a byte_extract)
union RawEgraph { Egraph e; RawEgraph() {} ~RawEgraph() {} };
static RawEgraph rawEgraph;
union RawEnodes { Enode e[NE]; RawEnodes() {} ~RawEnodes() {} };
static RawEnodes enodes;
struct FakePterm { uint32_t header; PTId id; SymRef sym; PTRef args[NARG]; };
static FakePterm fakePterm;

static bool g_foreign;
static unsigned g_argmap[NARG];
static unsigned g_index;
static int g_explain_calls; static ERef g_expl_a, g_expl_b; static PtAsgn g_expl_r;

static ERef eref(unsigned i) { return ERef{16u * i}; }
extern "C" Enode & stub_enode(EnodeStore *, ERef r) {
    unsigned i = r.x >> 4;
    if ((r.x & 15u) != 0 || i >= NE) { g_foreign = true; i = 0; }
    return enodes.e[i];
}
extern "C" ERef stub_getERef(EnodeStore const *, PTRef t) {
    unsigned k = t.x - ARG0;
    if (k >= NARG) { g_foreign = true; k = 0; }
    return eref(g_argmap[k]);
}
extern "C" char stub_getDistIndex(EnodeStore const *, PTRef t) { if (t.x != TR_D) g_foreign = true; return (char)g_index; }
extern "C" Pterm const & stub_getPterm(Logic const *, PTRef t) { if (t.x != TR_D) g_foreign = true; return *reinterpret_cast<Pterm const *>(&fakePterm); }
extern "C" void stub_doExplain(Egraph *, ERef a, ERef b, PtAsgn r) { g_explain_calls++; g_expl_a = a; g_expl_b = b; g_expl_r = r; }
// fixed-capacity buffers of the minisat vectors: static TYPED arrays (malloc'ed buffers are untyped byte arrays for CBMC), never reallocated
static bool g_overflow;
union RawUndos { Egraph::Undo u[4]; RawUndos() {} ~RawUndos() {} };
static RawUndos undo_buf;
static ERef eref_buf[4];
typedef Map<ERef, ERef, ERefHash> REMap;
static REMap::Pair pair_pool[NARG][2]; static unsigned g_pool_n;      // one 2-slot row per bucket vector that ever receives an entry
extern "C" void stub_cap_undo(vec<Egraph::Undo> * v, int min_cap) {
    if (v->cap >= min_cap) return;
    if (min_cap > 4) { g_overflow = true; return; }
    v->data = undo_buf.u; v->cap = 4;
}
extern "C" void stub_cap_eref(vec<ERef> * v, int min_cap) {       // the only vec<ERef> alive is assertDist's local nodes_changed
    if (v->cap >= min_cap) return;
    if (min_cap > 4) { g_overflow = true; return; }
    v->data = eref_buf; v->cap = 4;
}
extern "C" void stub_cap_pair(vec<REMap::Pair> * v, int min_cap) {
    if (v->cap >= min_cap) return;
    if (min_cap > 2 || (v->data == nullptr && g_pool_n >= NARG)) { g_overflow = true; return; }
    if (v->data == nullptr) v->data = pair_pool[g_pool_n++];
    v->cap = 2;
}
// the destructors of those vectors must not free the static buffers
extern "C" void stub_vec_dtor_eref(vec<ERef> * v) { v->data = nullptr; v->sz = 0; v->cap = 0; }
extern "C" void stub_vec_dtor_pair(vec<REMap::Pair> * v) { v->data = nullptr; v->sz = 0; v->cap = 0; }

// array model of the local Map<ERef,ERef,ERefHash> (used by the spec egraph_dist_merge.json only; egraph_dist.json runs the real Map)
static REMap::Pair g_map[NARG]; static unsigned g_map_n;
extern "C" void stub_map_ctor(REMap * m) { m->table = nullptr; m->cap = 0; m->size = 0; g_map_n = 0; }
extern "C" bool stub_map_has(REMap const *, ERef const & k) { bool r = false; for (unsigned i = 0; i < NARG; i++) if (i < g_map_n && g_map[i].key == k) r = true; return r; }
extern "C" void stub_map_insert(REMap *, ERef const & k, ERef const & d) {
    if (g_map_n >= NARG || stub_map_has(nullptr, k)) { g_overflow = true; return; }     // PRECONDITION of Map::insert: the key is not present
    g_map[g_map_n].key = k; g_map[g_map_n].data = d; g_map_n++;
}
extern "C" ERef & stub_map_index(REMap *, ERef const & k) {
    unsigned at = NARG;
    for (unsigned i = 0; i < NARG; i++) if (i < g_map_n && g_map[i].key == k) at = i;
    if (at == NARG) { g_overflow = true; at = 0; }                                       // PRECONDITION of Map::operator[]: the key is present
    return g_map[at].data;
}

static unsigned g_root[NE]; static uint32_t g_dist[NE];
static unsigned g_nargs;

// symbolic enode table: valid classes (the root of a root is the root itself), arbitrary distinction bit vectors
static void build_classes() {
    for (unsigned i = 0; i < NE; i++) { g_root[i] = nondet_u8() & 7; VASSUME(g_root[i] < NE); g_dist[i] = nondet_u32(); }
    for (unsigned i = 0; i < NE; i++) VASSUME(g_root[g_root[i]] == g_root[i]);
    for (unsigned i = 0; i < NE; i++) { enodes.e[i].root = eref(g_root[i]); enodes.e[i].dist_classes = g_dist[i]; }
}
static void build_distinct() {
    g_index = nondet_u8(); VASSUME(g_index < 32);
    g_nargs = nondet_u8(); VASSUME(g_nargs >= 2 && g_nargs <= NARG);
    for (unsigned k = 0; k < NARG; k++) { g_argmap[k] = nondet_u8() & 7; VASSUME(g_argmap[k] < NE); fakePterm.args[k] = PTRef{ARG0 + k}; }
    reinterpret_cast<Pterm *>(&fakePterm)->header.size = g_nargs;
    g_foreign = false; g_overflow = false; g_explain_calls = 0; g_pool_n = 0;
    new (&rawEgraph.e.undo_stack_main) vec<Egraph::Undo>();
}
static bool is_arg_root(unsigned i) { bool r = false; for (unsigned k = 0; k < NARG; k++) if (k < g_nargs && g_root[g_argmap[k]] == i) r = true; return r; }
static bool args_pairwise_separate() {
    bool ok = true;
    for (unsigned k = 0; k < NARG; k++) for (unsigned j = 0; j < k; j++) if (k < g_nargs && g_root[g_argmap[k]] == g_root[g_argmap[j]]) ok = false;
    return ok;
}

// assertDist / undoDistinction on a state where the distinction is not asserted
// pre: table = the table at the call; the bit is clear on every class root
static void assert_then_undo(uint32_t const * pre) {
    Egraph * eg = &rawEgraph.e;
    uint32_t bit = 1u << g_index;
    PtAsgn lit(PTRef{TR_D}, l_True);
    int undo_before = eg->undo_stack_main.size();
    bool r = eg->assertDist(PTRef{TR_D}, lit);
    VASSERT(!g_foreign && !g_overflow, "harness: only table enodes / the distinct term are looked up, vector capacities suffice");
    VASSERT(r == args_pairwise_separate(), "assertDist succeeds iff the arguments lie in pairwise different classes");
    for (unsigned i = 0; i < NE; i++) VASSERT(enodes.e[i].root.x == 16u * g_root[i], "assertDist does not change the classes");
    if (!r) {
        for (unsigned i = 0; i < NE; i++) VASSERT(enodes.e[i].dist_classes == pre[i], "a rejected distinction leaves every enode's distinction bits unchanged");
        VASSERT(eg->undo_stack_main.size() == undo_before, "a rejected distinction leaves no undo record");
        VASSERT(g_explain_calls == 1, "a rejected distinction is explained once");
        unsigned a = g_expl_a.x >> 4, b = g_expl_b.x >> 4;
        VASSERT(a < NE && b < NE && g_root[a < NE ? a : 0] == g_root[b < NE ? b : 0], "the explanation is asked for two enodes of the same class");
        bool a_is_arg = false, b_is_arg = false;
        for (unsigned k = 0; k < NARG; k++) if (k < g_nargs) { if (g_argmap[k] == a) a_is_arg = true; if (g_argmap[k] == b) b_is_arg = true; }
        VASSERT(a_is_arg && b_is_arg, "the explanation is asked for the enodes of two arguments of the distinct");
        VASSERT(g_expl_r.tr.x == TR_D && g_expl_r.sgn == l_True, "the explanation names the distinct literal");
        VWITNESS("rejected");
        return;
    }
    VASSERT(g_explain_calls == 0, "no explanation for an accepted distinction");
    for (unsigned i = 0; i < NE; i++)
        VASSERT(enodes.e[i].dist_classes == (pre[i] | (is_arg_root(i) ? bit : 0u)), "after assertDist exactly the roots of the arguments gained the bit, everything else is unchanged");
    VASSERT(eg->undo_stack_main.size() == undo_before + 1, "an accepted distinction leaves one undo record");
    if (eg->undo_stack_main.size() == undo_before + 1) {
        Egraph::Undo u = eg->undo_stack_main.last();
        VASSERT(u.oper == Egraph::DIST && u.arg.ptr.x == TR_D, "the undo record is DIST(the distinct term)");
    }
    // backtrackToStackSize dispatches DIST records to undoDistinction
    eg->undoDistinction(PTRef{TR_D});
    VASSERT(!g_foreign, "harness: only table enodes are looked up");
    for (unsigned i = 0; i < NE; i++) {
        VASSERT(enodes.e[i].dist_classes == pre[i], "undoDistinction restores every enode's distinction bits (no trace of the retracted distinct)");
        VASSERT(enodes.e[i].root.x == 16u * g_root[i], "undoDistinction does not change the classes");
    }
}

extern "C" void h_dist_assert_undo() {
    build_classes();
    build_distinct();
    uint32_t bit = 1u << g_index;
    // the distinction is not asserted: its bit is clear on every class root (non-roots: arbitrary)
    for (unsigned i = 0; i < NE; i++) if (g_root[i] == i) VASSUME((g_dist[i] & bit) == 0);
    assert_then_undo(g_dist);
    VWITNESS("accepted-and-undone");
    bool nonroot_arg = false;
    for (unsigned k = 0; k < NARG; k++) if (k < g_nargs && g_root[g_argmap[k]] != g_argmap[k]) nonroot_arg = true;
    if (nonroot_arg) { VWITNESS("an-argument-is-not-the-root-of-its-class"); }
    if (g_nargs == 3) { VWITNESS("three-arguments"); }
    if (g_index == 31) { VWITNESS("index-31"); }
}

// merge / unmerge of the distinction bit vectors; merge only happens for classes without a common distinction
extern "C" void h_dist_merge_unmerge() {
    uint32_t to = nondet_u32(), from = nondet_u32();
    VASSUME((to & from) == 0);      // Egraph::unmergeable: a common distinction forbids the merge
    enodes.e[0].dist_classes = to; enodes.e[1].dist_classes = from;
    Egraph::mergeDistinctionClasses(enodes.e[0], enodes.e[1]);
    VASSERT(enodes.e[0].dist_classes == (to | from) && enodes.e[1].dist_classes == from, "merge: the new root carries the union, the old root keeps its own bits");
    Egraph::unmergeDistinctionClasses(enodes.e[0], enodes.e[1]);
    VASSERT(enodes.e[0].dist_classes == to && enodes.e[1].dist_classes == from, "unmerge restores both bit vectors");
    VWITNESS("done");
}

// a distinction asserted and retracted while two classes are merged, then the merge is undone: everything as before
extern "C" void h_dist_under_merge() {
    Egraph * eg = &rawEgraph.e;
    build_classes();
    unsigned nxt[NE], size[NE];
    // equivalence classes as circular lists: eq_next is a permutation inside every class and the class of a root is one cycle
    for (unsigned i = 0; i < NE; i++) { nxt[i] = nondet_u8() & 7; VASSUME(nxt[i] < NE); VASSUME(g_root[nxt[i]] == g_root[i]); }
    for (unsigned i = 0; i < NE; i++) for (unsigned j = 0; j < i; j++) VASSUME(nxt[i] != nxt[j]);
    for (unsigned r = 0; r < NE; r++) {
        unsigned cnt = 0; for (unsigned i = 0; i < NE; i++) if (g_root[i] == r) cnt++;
        size[r] = cnt;
        if (g_root[r] == r) { unsigned v = r, len = 0; for (unsigned k = 1; k <= NE; k++) { v = nxt[v]; if (v == r && len == 0) len = k; } VASSUME(len == cnt); }
    }
    for (unsigned i = 0; i < NE; i++) { enodes.e[i].eq_next = eref(nxt[i]); enodes.e[i].eq_size = (int)size[i]; }
    build_distinct();
    uint32_t bit = 1u << g_index;
    for (unsigned i = 0; i < NE; i++) if (g_root[i] == i) VASSUME((g_dist[i] & bit) == 0);
    // two different roots x, y without a common distinction are merged (steps 4 and 5.3 of Egraph::merge)
    unsigned x = nondet_u8() & 7, y = nondet_u8() & 7;
    VASSUME(x < NE && y < NE && x != y && g_root[x] == x && g_root[y] == y && (g_dist[x] & g_dist[y]) == 0);
    unsigned root0[NE]; for (unsigned i = 0; i < NE; i++) root0[i] = g_root[i];
    Egraph::mergeDistinctionClasses(enodes.e[x], enodes.e[y]);
    eg->mergeEquivalenceClasses(eref(x), eref(y));
    for (unsigned i = 0; i < NE; i++) {
        VASSERT(enodes.e[i].root.x == 16u * (root0[i] == y ? x : root0[i]), "merge: the members of y's class are re-rooted to x, nothing else");
        g_root[i] = root0[i] == y ? x : root0[i];
    }
    VASSERT(enodes.e[x].eq_size == (int)(size[x] + size[y]), "merge: class sizes add up");
    { unsigned v = x, len = 0; for (unsigned k = 1; k <= NE; k++) { v = enodes.e[v].eq_next.x >> 4; VASSUME(v < NE); if (v == x && len == 0) len = k; } VASSERT(len == size[x] + size[y], "merge: the two circular lists are spliced into one"); }
    uint32_t mid[NE]; for (unsigned i = 0; i < NE; i++) mid[i] = enodes.e[i].dist_classes;
    VASSERT((mid[x] & bit) == 0, "the merged root does not carry the bit of a distinction that is not asserted");
    assert_then_undo(mid);
    // undo the merge (the corresponding steps of Egraph::undoMerge)
    eg->unmergeEquivalenceClasses(eref(x), eref(y));
    Egraph::unmergeDistinctionClasses(enodes.e[x], enodes.e[y]);
    VASSERT(!g_foreign, "harness: only table enodes are looked up");
    for (unsigned i = 0; i < NE; i++) {
        VASSERT(enodes.e[i].root.x == 16u * root0[i], "undoing the merge restores every root");
        VASSERT(enodes.e[i].eq_next.x == 16u * nxt[i], "undoing the merge restores the circular lists");
        VASSERT(enodes.e[i].eq_size == (int)size[i] || root0[i] != i, "undoing the merge restores the class sizes of the roots");
        VASSERT(enodes.e[i].dist_classes == g_dist[i], "undoing the merge restores every distinction bit vector");
    }
    VWITNESS("merged-asserted-undone-unmerged");
    if (size[y] >= 2 && size[x] >= 2) { VWITNESS("two-multi-member-classes-merged"); }
}

// C22: THandler::assertLits / THandler::backtrack + TSolverHandler::assertLit -- backtrack-point bookkeeping.
// Real bodies; the theory solvers are fake objects (fake vtable) that only count backtrack points; the term mapper,
// logic constants and the schedule accessor are stubs. For every history of trail extensions / retractions:
// each solver holds exactly one backtrack point per declared non-constant literal on the handler's stack.
#include "verif.h"
#include "tsolvers/THandler.h"
#include "tsolvers/TSolverHandler.h"
#include "tsolvers/TSolver.h"
#include <new>
#include <cstdlib>
using namespace opensmt;

#ifndef NSTEP
#define NSTEP 4
#endif
#define NVARS 6       // variable v <-> term PTRef{100+v}; v=0 is 'true', v=1 is 'false'
#ifndef TRAILCAP
#define TRAILCAP 6
#endif
#define NS 2          // theory solvers in the schedule

template <class F> static int vslot(F pmf) {
    union { F f; struct { intptr_t ptr; intptr_t adj; } r; } u;
    u.f = pmf;
    return (int)((u.r.ptr - 1) / 8);
}

static int g_depth[NS], g_underflow, g_asserts[NS], g_foreign;
static bool g_informed[NS][NVARS];
static bool g_any_false, g_bad_polarity;
static int g_last_term[NS];
static bool g_decl[NVARS];
static Lit g_trail_copy[TRAILCAP]; static int g_trail_n;
static void * fake_solver[NS][2];
static void * ts_vt[48];

static int sid(void * s) { for (int i = 0; i < NS; i++) if (s == (void *)fake_solver[i]) return i; g_foreign = 1; return 0; }

extern "C" void stub_pushBT(TSolver * s) { g_depth[sid(s)]++; }
extern "C" void stub_popBTs(TSolver * s, unsigned n) { int i = sid(s); if ((int)n > g_depth[i]) { g_underflow = 1; g_depth[i] = 0; } else g_depth[i] -= (int)n; }
extern "C" bool stub_solverAssert(TSolver * s, PtAsgn a) {
    int i = sid(s); g_asserts[i]++;
    int v = (int)a.tr.x - 100;
    if (v < 2 || v >= NVARS || !g_decl[v] || !g_informed[i][v]) g_foreign = 1;       // constants / undeclared / uninformed terms must never arrive
    // polarity must be the sign of the literal that is on the trail for this variable
    bool found = false;
    for (int k = 0; k < TRAILCAP; k++) if (k < g_trail_n && var(g_trail_copy[k]) == v) { found = true; if ((a.sgn == l_False) != sign(g_trail_copy[k])) g_bad_polarity = true; }
    if (!found) g_foreign = 1;
    bool r = nondet_bool(); if (!r) g_any_false = true; return r;
}
extern "C" bool stub_isInformed(TSolver const * s, PTRef t) { int v = (int)t.x - 100; return v >= 0 && v < NVARS && g_informed[sid((void *)s)][v]; }
extern "C" PTRef stub_varToPTRef(TermMapper const *, Var v) { return PTRef{100u + (uint32_t)v}; }
extern "C" Lit stub_PTRefToLit(THandler *, PTRef t) { return mkLit((Var)(t.x - 100), false); }
extern "C" PTRef stub_true(Logic const *) { return PTRef{100}; }
extern "C" PTRef stub_false(Logic const *) { return PTRef{101}; }
alignas(8) static unsigned char fake_logic[8];
extern "C" Logic * stub_getLogic(THandler *) { return reinterpret_cast<Logic *>(fake_logic); }
// concrete layout twin of the abstract TSolverHandler (never constructed; only the solverSchedule field is used)
struct ConcreteTSH : TSolverHandler { Logic & getLogic() override; Logic const & getLogic() const override; PTRef getInterpolant(ipartitions_t const &, ItpColorMap *, PartitionManager &) override; };
union RawTSH { ConcreteTSH h; RawTSH() {} ~RawTSH() {} };
static RawTSH rawtsh;
extern "C" TSolverHandler * stub_getSolverHandler(THandler *) { return &rawtsh.h; }
extern "C" void stub_vecPTRefPush(vec<PTRef> * v, PTRef const * e) {
    if (v->data == nullptr) { v->data = (PTRef *)malloc(8 * sizeof(PTRef)); v->cap = 8; v->sz = 0; }
    VASSERT(v->sz < 8, "harness: stack capacity");
    v->data[v->sz++] = *e;
}

union RawTH { THandler t; RawTH() {} ~RawTH() {} };
static RawTH rawth;

static bool counted(PTRef e) { int v = (int)e.x - 100; return v >= 2 && v < NVARS && g_decl[v]; }

static void check_state(THandler * th, vec<Lit> const & trail) {
    VASSERT(!g_foreign && !g_underflow, "solvers only see declared, informed, non-constant trail literals and never pop more points than they hold");
    VASSERT(!g_bad_polarity, "the polarity handed to the solvers is the sign of the trail literal");
    VASSERT(th->stack.size() <= trail.size() && th->checked_trail_size == (size_t)th->stack.size(), "handler stack is a prefix of the trail and checked_trail_size follows it");
    int want = 0;
    for (int i = 0; i < TRAILCAP; i++) if (i < th->stack.size()) {
        VASSERT(th->stack[i].x == 100u + (uint32_t)var(trail[i]), "stack entry i is the atom of trail literal i");
        if (counted(th->stack[i])) want++;
    }
    for (int s = 0; s < NS; s++) VASSERT(g_depth[s] == want, "every solver holds exactly one backtrack point per declared non-constant literal on the stack");
}

extern "C" void h_bt_points() {
    THandler * th = &rawth.t;
    ts_vt[vslot(&TSolver::pushBacktrackPoint)] = (void *)&stub_pushBT;
    ts_vt[vslot(&TSolver::popBacktrackPoints)] = (void *)&stub_popBTs;
    ts_vt[vslot(&TSolver::assertLit)] = (void *)&stub_solverAssert;
    new (&rawtsh.h.solverSchedule) vec<TSolver *>();
    rawtsh.h.solverSchedule.data = (TSolver **)malloc(NS * sizeof(TSolver *)); rawtsh.h.solverSchedule.cap = NS; rawtsh.h.solverSchedule.sz = NS;
    for (int s = 0; s < NS; s++) { fake_solver[s][0] = (void *)ts_vt; rawtsh.h.solverSchedule.data[s] = reinterpret_cast<TSolver *>(fake_solver[s]); g_depth[s] = 0; g_asserts[s] = 0; }
    new (&th->stack) vec<PTRef>();
    new (&th->declared) vec<bool>();
    th->checked_trail_size = 0;
    // declared set: fixed over the history (atoms are declared before search); 'true'/'false' may or may not be declared
    int nd = nondet_u8() & 7; VASSUME(nd <= NVARS);
    th->declared.data = (bool *)malloc(NVARS); th->declared.cap = NVARS; th->declared.sz = nd;
    for (int v = 0; v < NVARS; v++) { bool d = nondet_bool(); th->declared.data[v] = d; g_decl[v] = d && v < nd; for (int s = 0; s < NS; s++) g_informed[s][v] = nondet_bool(); }
    g_underflow = g_foreign = 0; g_bad_polarity = false;
    vec<Lit> trail;
    trail.data = (Lit *)malloc(TRAILCAP * sizeof(Lit)); trail.cap = TRAILCAP; trail.sz = 0;
    g_trail_n = 0;
    for (int step = 0; step < NSTEP; step++) {
        if (nondet_bool()) {
            // the SAT solver enqueues 0..2 further literals (distinct variables) and hands the trail to the theory
            int k = nondet_u8() & 3; VASSUME(k <= 2 && trail.sz + k <= TRAILCAP);
            for (int j = 0; j < 2; j++) if (j < k) {
                Lit l; l.x = nondet_u8() & 15; VASSUME(var(l) < NVARS);
                for (int q = 0; q < TRAILCAP; q++) if (q < trail.sz) VASSUME(var(trail.data[q]) != var(l));
                if (var(l) == 0) VASSUME(!sign(l));           // 'true' is only ever enqueued positively, 'false' negatively
                if (var(l) == 1) VASSUME(sign(l));
                trail.data[trail.sz++] = l; g_trail_copy[g_trail_n++] = l;
            }
            g_any_false = false;
            int before = th->stack.size();
            bool r = th->assertLits(trail);
            VASSERT(r == !g_any_false, "assertLits fails iff some solver rejected a literal");
            if (r) VASSERT(th->stack.size() == trail.size(), "on success the whole trail has been handed over");
            else { VASSERT(th->stack.size() > before, "a failure consumed at least the failing literal"); VWITNESS("assert-failed"); }
            if (r && k == 2) { VWITNESS("assert-two"); }
        } else {
            // cancelUntil: the trail is cut to n literals, then THandler::backtrack(trail.size()); clearSearch uses -1
            int n = nondet_u8() & 7; VASSUME(n <= trail.sz);
            trail.sz = n; g_trail_n = n;
            int lev = (n == 0 && nondet_bool()) ? -1 : n;
            int before = th->stack.size();
            th->backtrack(lev);
            VASSERT(th->stack.size() == (before < n ? before : n), "backtrack cuts the stack to the new trail size");
            if (before > n && n > 0) { VWITNESS("partial-backtrack"); }
        }
        check_state(th, trail);
    }
    if (g_depth[0] >= 2) { VWITNESS("two-points-held"); }
    VWITNESS("end");
}

// C28: the hash-consing map for constant symbols (minisat Map behind PtStore::hasCtermKey/addToCtermMap/getFromCtermMap) and the
// term allocator (PtermAllocator::alloc / PtStore::newTerm): same key -> same identity, different keys -> different identities,
// ids and references grow monotonically so that every term is created after (and is larger than) all of its arguments.
#include "verif.h"
#include "pterms/PtStore.h"
#include <cstdlib>
using namespace opensmt;

static uint32_t pick(uint32_t below) { uint32_t c = nondet_u8(); VASSUME(c < below); return c; }
// raw, correctly typed storage: the union member is never constructed (a typed object lets CBMC propagate constants through the fields)
union StoreBox { PtStore st; StoreBox() {} ~StoreBox() {} };
static StoreBox store_box;

// bucket vectors of the Map: vec<Pair>::capacity replaced by a fixed 4-slot allocation that is never reallocated (a realloc through a
// symbolic bucket pointer does not scale); more than 4 entries per bucket are flagged
typedef Map<SymRef, PTRef, SymRefHash, Equal<SymRef>> CtMap;
static bool bucket_overflow;
extern "C" void stub_cap_pair(vec<CtMap::Pair> * v, int min_cap) {
    if (v->cap >= min_cap) return;
    if (min_cap > 4) { bucket_overflow = true; return; }
    if (v->data == nullptr) v->data = (CtMap::Pair *)malloc(4 * sizeof(CtMap::Pair));
    v->cap = 4;
}
// lookup-or-create exactly as Logic::mkFun does for nullary symbols, on the real minisat Map
static uint32_t next_ref;
static PTRef lookup_or_create(PtStore * st, SymRef s, bool & created) {
    if (st->hasCtermKey(s)) { created = false; return st->getFromCtermMap(s); }
    PTRef r{next_ref++}; st->addToCtermMap(s, r); created = true; return r;
}
#ifndef NKEYS
#define NKEYS 3
#endif
extern "C" void h_cterm_map() {
    PtStore * st = &store_box.st;
    new (&st->cterm_map) Map<SymRef, PTRef, SymRefHash, Equal<SymRef>>();
    uint32_t s[NKEYS]; PTRef r[NKEYS]; bool c[NKEYS];
    next_ref = 100; bucket_overflow = false;
    for (int i = 0; i < NKEYS; i++) { s[i] = nondet_u8(); r[i] = lookup_or_create(st, SymRef{s[i]}, c[i]); }
    for (int i = 0; i < NKEYS; i++) for (int j = 0; j < i; j++) {
        VASSERT((s[i] == s[j]) == (r[i] == r[j]), "same symbol <=> same term identity");
    }
    for (int i = 0; i < NKEYS; i++) { bool seen = false; for (int j = 0; j < i; j++) seen = seen || s[j] == s[i]; VASSERT(c[i] == !seen, "a term is created exactly when the key was not seen before"); }
    uint32_t q = nondet_u8(); bool in = false; for (int i = 0; i < NKEYS; i++) in = in || s[i] == q;
    SymRef qs{q};
    VASSERT(st->hasCtermKey(qs) == in, "has(k) <=> k was inserted");
    VASSERT(!bucket_overflow, "bucket capacity of the harness model suffices");
    VWITNESS("done");
    if (NKEYS >= 2 && s[0] == s[1]) { VWITNESS("key-seen-again"); }
    if (NKEYS >= 2 && s[0] != s[1] && s[0] % 31 == s[1] % 31) { VWITNESS("two-keys-one-bucket"); }
    if (in) { VWITNESS("probe-present"); } else { VWITNESS("probe-absent"); }
}

// ---------------------------------------------------------------- allocator
template<int N> static PTRef new_term(PtermAllocator & pta, uint32_t sym, PTRef const * a) { vec<PTRef> args; for (int i = 0; i < N; i++) args.push(a[i]); return pta.alloc(SymRef{sym}, args); }
static PTRef new_term_n(PtermAllocator & pta, int n, uint32_t sym, PTRef const * a) {
    switch (n) { case 0: return new_term<0>(pta, sym, a); case 1: return new_term<1>(pta, sym, a); case 2: return new_term<2>(pta, sym, a); default: return new_term<3>(pta, sym, a); }
}
#ifndef NTERMS
#define NTERMS 3
#endif
extern "C" void h_pterm_alloc() {
    PtermAllocator pta(64);
    PTRef t[NTERMS]; int n[NTERMS]; uint32_t sym[NTERMS]; PTRef a[NTERMS][3];
    for (int k = 0; k < NTERMS; k++) {
        n[k] = k == 0 ? 0 : (int)pick(4); sym[k] = nondet_u32();
        for (int i = 0; i < 3; i++) a[k][i] = k == 0 ? PTRef{0} : t[pick(k)];      // arguments are earlier terms
        t[k] = new_term_n(pta, n[k], sym[k], a[k]);
    }
    VASSERT(pta.getNumTerms() == NTERMS, "number of terms");
    for (int k = 0; k < NTERMS; k++) {
        Pterm & p = pta[t[k]];
        VASSERT(p.getId().x == (uint32_t)k, "ids are handed out in creation order");
        VASSERT(p.size() == n[k] && p.symb().x == sym[k], "symbol and arity are stored");
        for (int i = 0; i < 3; i++) if (i < n[k]) {
            VASSERT(p[i] == a[k][i], "arguments are stored");
            VASSERT(pta[p[i]].getId().x < p.getId().x && p[i].x < t[k].x, "every argument has a smaller id and a smaller reference than the term");
        }
        if (k > 0) { VASSERT(t[k - 1].x < t[k].x, "references grow with creation order"); VASSERT(t[k].x >= t[k - 1].x + 3 + (uint32_t)n[k - 1], "terms do not overlap"); }
    }
    VWITNESS("done");
    if (n[NTERMS - 1] == 3) { VWITNESS("ternary-term"); }
    if (n[NTERMS - 1] == 2 && a[NTERMS - 1][0] == a[NTERMS - 1][1]) { VWITNESS("repeated-argument"); }
}

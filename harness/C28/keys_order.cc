// C28: hash-consing keys and argument ordering.
//  (a) PTLKey::operator== is the structural equality on (symbol, argument list) and equal keys have equal PTLHash
//  (b) LessThan_deepPTRef (ArithLogic::termSort) is a strict weak order whose key ignores the factor/variable order of a product
//  (c) Logic::termSort / ArithLogic::termSort return a sorted permutation that does not depend on the order of the input
#include "verif.h"
#include "logics/ArithLogic.h"
#include "pterms/Pterm.h"
using namespace opensmt;

static uint32_t pick(uint32_t below) { uint32_t c = nondet_u8(); VASSUME(c < below); return c; }

// ---------------------------------------------------------------- (a)
template<int N> static void fill(PTLKey & k, uint32_t const * a) { for (int i = 0; i < N; i++) k.args.push(PTRef{a[i]}); }
static void filln(PTLKey & k, int n, uint32_t const * a) { switch (n) { case 0: fill<0>(k, a); break; case 1: fill<1>(k, a); break; case 2: fill<2>(k, a); break; default: fill<3>(k, a); } }
extern "C" void h_ptlkey() {
    uint32_t s1 = nondet_u32(), s2 = nondet_u32(); int n1 = pick(4), n2 = pick(4);
    uint32_t a[3], b[3]; for (int i = 0; i < 3; i++) { a[i] = nondet_u32(); b[i] = nondet_u32(); }
    PTLKey k1, k2; k1.sym = SymRef{s1}; k2.sym = SymRef{s2}; filln(k1, n1, a); filln(k2, n2, b);
    bool same = s1 == s2 && n1 == n2; for (int i = 0; i < 3; i++) if (i < n1 && i < n2 && a[i] != b[i]) same = false;
    bool eq = (k1 == k2);
    VASSERT(eq == same, "PTLKey == is structural equality of symbol and argument list");
    VASSERT(k1 == k1, "PTLKey == is reflexive");
    VASSERT(eq == (k2 == k1), "PTLKey == is symmetric");
    PTLHash h;
    if (eq) { VASSERT(h(k1) == h(k2), "equal keys have equal hash"); VWITNESS("equal-keys"); if (n1 == 3) { VWITNESS("equal-keys-3-args"); } }
    else { if (h(k1) == h(k2)) { VWITNESS("collision-of-different-keys"); } VWITNESS("different-keys"); }
}

// ---------------------------------------------------------------- (b), (c)
#ifndef NT
#define NT 8
#endif
//                      // term ids 0..NT-1
static uint32_t pt[NT][5];          // raw Pterm: header | id | sym | args[2]
static bool is_times[NT], is_const[NT]; static bool bad_ref;
extern "C" Pterm & stub_getPterm(Logic *, PTRef t) { if (t.x >= NT) { bad_ref = true; return *reinterpret_cast<Pterm *>(pt[0]); } return *reinterpret_cast<Pterm *>(pt[t.x]); }
extern "C" bool stub_isTimes(ArithLogic *, PTRef t) { if (t.x >= NT) { bad_ref = true; return false; } return is_times[t.x]; }
extern "C" bool stub_isConstant(Logic *, PTRef t) { if (t.x >= NT) { bad_ref = true; return false; } return is_const[t.x]; }
static uint64_t fake_logic[4];
static ArithLogic const & AL() { return *reinterpret_cast<ArithLogic const *>(fake_logic); }
// universe: every term is a constant, a variable-like term, or a product of exactly one constant and one variable-like
// term in either order (what mkTimes builds); children precede their parent
static void build_terms() {
    for (int i = 0; i < NT; i++) {
        uint32_t kind = pick(3); is_const[i] = kind == 0; is_times[i] = false;
        pt[i][0] = 0; pt[i][1] = i; pt[i][2] = 50 + i; pt[i][3] = 0; pt[i][4] = 0;
        if (kind == 2) {
            VASSUME(i >= 2);
            uint32_t c = pick(i), v = pick(i); VASSUME(is_const[c] && !is_const[v] && !is_times[v]);
            bool swapped = nondet_bool();
            is_times[i] = true; pt[i][0] = 2u << 6; pt[i][2] = 7; pt[i][3] = swapped ? v : c; pt[i][4] = swapped ? c : v;
        }
    }
    bad_ref = false;
}
static uint32_t var_of(uint32_t t) { return is_times[t] ? (is_const[pt[t][3]] ? pt[t][4] : pt[t][3]) : t; }
extern "C" void h_deep_less() {
    build_terms();
    PTRef a{pick(NT)}, b{pick(NT)}, c{pick(NT)};
    LessThan_deepPTRef lt(AL());
    bool ab = lt(a, b), ba = lt(b, a), bc = lt(b, c), cb = lt(c, b), ac = lt(a, c), ca = lt(c, a), aa = lt(a, a);
    VASSERT(!bad_ref, "comparator only looks at the compared terms and their children");
    VASSERT(!aa, "irreflexive");
    VASSERT(!(ab && ba), "asymmetric");
    VASSERT(!(ab && bc) || ac, "transitive");
    VASSERT(!(!ab && !ba && !bc && !cb) || (!ac && !ca), "incomparability is transitive");
    VASSERT(ab == (var_of(a.x) < var_of(b.x) || (var_of(a.x) == var_of(b.x) && a.x < b.x)), "order is the order of the variable ids (factor/variable order of a product is irrelevant), then of the term ids");
    VASSERT(a.x == b.x || ab || ba, "total on different terms: no ties, so a sorted argument list is unique");
    if (is_times[a.x] && is_times[b.x] && a.x != b.x && var_of(a.x) == var_of(b.x)) { VASSERT(ab != ba, "products over the same variable are ordered, not tied"); VWITNESS("two-products-same-variable"); }
    if (is_times[a.x] && pt[a.x][3] == var_of(a.x)) { VWITNESS("product-with-variable-first"); }
    if (ab && bc) { VWITNESS("chain"); }
    VWITNESS("compared");
}
static bool same_multiset(uint32_t const * x, uint32_t const * y) {
    for (int i = 0; i < 3; i++) { int cx = 0, cy = 0; for (int j = 0; j < 3; j++) { cx += x[j] == x[i]; cy += y[j] == x[i]; } if (cx != cy) return false; }
    return true;
}
template<int N> static void sortN(bool deep, uint32_t const * in, uint32_t * out) {
    vec<PTRef> v; for (int i = 0; i < N; i++) v.push(PTRef{in[i]});
    if (deep) AL().ArithLogic::termSort(v); else AL().Logic::termSort(v);
    for (int i = 0; i < N; i++) out[i] = v[i].x;
}
extern "C" void h_termsort_logic() {     // Logic::termSort: ascending PTRef order, permutation, input-order insensitive
    uint32_t in[3], p[3], o1[3], o2[3]; for (int i = 0; i < 3; i++) in[i] = nondet_u32();
    uint32_t r = pick(6); static const uint8_t perm[6][3] = {{0,1,2},{0,2,1},{1,0,2},{1,2,0},{2,0,1},{2,1,0}};
    for (int i = 0; i < 3; i++) p[i] = in[perm[r][i]];
    sortN<3>(false, in, o1); sortN<3>(false, p, o2);
    VASSERT(o1[0] <= o1[1] && o1[1] <= o1[2], "sorted ascending");
    VASSERT(same_multiset(in, o1), "result is a rearrangement of the input");
    VASSERT(o1[0] == o2[0] && o1[1] == o2[1] && o1[2] == o2[2], "result does not depend on the order of the arguments");
    VWITNESS("sorted"); if (r == 5 && in[0] < in[1] && in[1] < in[2]) { VWITNESS("reversed-input"); }
}
extern "C" void h_termsort_arith() {     // ArithLogic::termSort with the deep comparator: a rearrangement sorted by variable id
    build_terms();
    uint32_t in[3], o1[3]; for (int i = 0; i < 3; i++) in[i] = pick(NT);
    sortN<3>(true, in, o1);
    VASSERT(!bad_ref, "only the sorted terms and their children are inspected");
    VASSERT(var_of(o1[0]) <= var_of(o1[1]) && var_of(o1[1]) <= var_of(o1[2]), "sorted by variable id");
    VASSERT(same_multiset(in, o1), "result is a rearrangement of the input");
    VWITNESS("sorted"); if (is_times[in[0]]) { VWITNESS("product-sorted"); }
    if (var_of(in[0]) > var_of(in[1]) && var_of(in[1]) > var_of(in[2])) { VWITNESS("reversed-input"); }
}
// Consequence used by hash-consing of commutative terms (=, distinct, +, * sort their arguments with this comparator): the sorted
// rearrangement is unique, hence independent of the input order - also for v, (* 2 v), (* 3 v), which used to be ties (repaired in
// /repo a134439). Decided here directly for 2 arguments.
extern "C" void h_termsort_arith_order() {
    build_terms();
    uint32_t in[2], p[2], o1[2], o2[2]; in[0] = pick(NT); in[1] = pick(NT); p[0] = in[1]; p[1] = in[0];
    sortN<2>(true, in, o1); sortN<2>(true, p, o2);
    VASSERT(!bad_ref, "only the sorted terms and their children are inspected");
    VASSERT(o1[0] == o2[0] && o1[1] == o2[1], "result does not depend on the order of the arguments");
    if (var_of(in[0]) != var_of(in[1])) { VWITNESS("different-variables"); }
    else if (in[0] != in[1]) { VWITNESS("same-variable-different-terms"); }
    VWITNESS("sorted");
}

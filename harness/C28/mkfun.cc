// C28 (thorough): the real Logic::mkFun on the real PtStore (PtermAllocator, minisat Map for nullary symbols, libstdc++
// unordered_map<PTLKey,PTRef,PTLHash,Equal<PTLKey>> for Boolean operators): building the same (symbol, argument list) twice yields the
// same PTRef, different (symbol, argument list) yield different PTRefs, every term is created after its arguments.
#include "verif.h"
#include "logics/Logic.h"
using namespace opensmt;

static uint32_t pick(uint32_t below) { uint32_t c = nondet_u8(); VASSUME(c < below); return c; }
union LogicBox { Logic l; LogicBox() {} ~LogicBox() {} };
static LogicBox box;
enum : uint32_t { S_AND = 3, S_OR, S_XOR, S_NOT, S_EQ, S_IMPLIES, S_DISTINCT, S_ITE, S_VAR0 = 20 };
#ifndef NCONS
#define NCONS 3
#endif
template<int N> static PTRef mk(Logic * L, uint32_t sym, PTRef const * a) { vec<PTRef> args; for (int i = 0; i < N; i++) args.push(a[i]); return L->mkFun(SymRef{sym}, std::move(args)); }
static PTRef mkn(Logic * L, int n, uint32_t sym, PTRef const * a) { switch (n) { case 0: return mk<0>(L, sym, a); case 1: return mk<1>(L, sym, a); default: return mk<2>(L, sym, a); } }

extern "C" void h_mkfun() {
    Logic * L = &box.l;
    L->sym_AND = SymRef{S_AND}; L->sym_OR = SymRef{S_OR}; L->sym_XOR = SymRef{S_XOR}; L->sym_NOT = SymRef{S_NOT}; L->sym_EQ = SymRef{S_EQ};
    L->sym_IMPLIES = SymRef{S_IMPLIES}; L->sym_DISTINCT = SymRef{S_DISTINCT}; L->sym_ITE = SymRef{S_ITE};
    PtStore & st = L->term_store;
    new (&st.pta) PtermAllocator(64);
    new (&st.idToPTRef) vec<PTRef>();
    new (&st.cterm_map) Map<SymRef, PTRef, SymRefHash, Equal<SymRef>>();
    new (&st.cplx_map) std::unordered_map<PTLKey, PTRef, PTLHash, Equal<PTLKey>>();
    new (&st.bool_map) std::unordered_map<PTLKey, PTRef, PTLHash, Equal<PTLKey>>();
    // construction sequence: the first is a variable; each later one is a variable (one of 2 symbols) or and/or/not over earlier results
    uint32_t sym[NCONS]; int n[NCONS]; PTRef a[NCONS][2]; PTRef r[NCONS];
    for (int k = 0; k < NCONS; k++) {
        uint32_t kind = k == 0 ? 0 : pick(4);
        if (kind == 0) { sym[k] = S_VAR0 + pick(2); n[k] = 0; a[k][0] = a[k][1] = PTRef{0}; }
        else { sym[k] = kind == 1 ? S_AND : kind == 2 ? S_OR : S_NOT; n[k] = kind == 3 ? 1 : 2; a[k][0] = r[pick(k)]; a[k][1] = n[k] == 2 ? r[pick(k)] : PTRef{0}; }
        r[k] = mkn(L, n[k], sym[k], a[k]);
    }
    for (int i = 0; i < NCONS; i++) for (int j = 0; j < i; j++) {
        bool same = sym[i] == sym[j] && n[i] == n[j] && (n[i] < 1 || a[i][0] == a[j][0]) && (n[i] < 2 || a[i][1] == a[j][1]);
        VASSERT(same == (r[i] == r[j]), "same symbol and arguments <=> same term identity");
    }
    for (int k = 0; k < NCONS; k++) {
        Pterm & p = st.pta[r[k]];
        VASSERT(p.symb().x == sym[k] && p.size() == n[k], "the term has the requested symbol and arity");
        for (int i = 0; i < 2; i++) if (i < n[k]) { VASSERT(p[i] == a[k][i], "arguments stored"); VASSERT(st.pta[p[i]].getId().x < p.getId().x, "every argument has a smaller id (created earlier)"); }
    }
    VWITNESS("done");
    if (r[NCONS - 1] == r[NCONS - 2]) { VWITNESS("term-found-again"); }
    if (n[NCONS - 1] == 2 && r[NCONS - 1] != r[NCONS - 2]) { VWITNESS("binary-term-created"); }
}

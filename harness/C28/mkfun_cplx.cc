// C28: hash-consing of applications of non-Boolean symbols in Logic::mkFun: "building the same term twice yields the same
// identity; commutative operators are insensitive to argument order".  The existing mkfun harness covers the nullary and the
// Boolean branch over the real maps; this one covers the third branch (uninterpreted / arithmetic / equality symbols):
// arity check, argument sorting for commutative symbols of ANY arity (commutative symbols are declared binary but +, * take
// 3 and more arguments through left associativity), key lookup, creation.
// Real: Logic::mkFun (the non-Boolean branch), Logic::termSort (through the virtual slot) with minisat sort, vec::moveTo, PTLKey.
// Model: the symbol's properties are ghost values behind the Symbol accessors; PtStore's complex-term map is an association
// list keyed by (symbol, argument sequence) - the specification of PTLKey equality, whose real ==/hash are decided in keys_order;
// PtStore::newTerm hands out increasing ids.
#include "verif.h"
#include "logics/Logic.h"
#include <cstring>
using namespace opensmt;

#define NARG 3
#define NT 4
union LogicBox { Logic l; LogicBox() {} ~LogicBox() {} };
static LogicBox logic_box;
static void * fake_vt[96];
template<class F> static size_t vslot(F f) { uintptr_t raw[2]; memcpy(raw, &f, sizeof raw); return (raw[0] - 1) / sizeof(void *); }
extern "C" void stub_termSort(Logic * l, vec<PTRef> & v) { l->Logic::termSort(v); }

static bool p_commutes[2]; static uint8_t p_kind[2]; static uint32_t p_nargs[2];   // kind: 0 none, 1 left-assoc, 2 right-assoc, 3 chainable, 4 pairwise
static bool g_foreign, g_overflow;
static unsigned symidx(const Symbol * s);
static Symbol * fake_sym[2];
union SymBox { Symbol s; SymBox() {} ~SymBox() {} };
static SymBox sym0, sym1;
static unsigned symidx(const Symbol * s) { if (s == &sym0.s) return 0; if (s == &sym1.s) return 1; g_foreign = true; return 0; }
extern "C" Symbol * stub_symAt(SymStore *, SymRef r) { if (r.x >= 2) { g_foreign = true; return &sym0.s; } return r.x == 0 ? &sym0.s : &sym1.s; }
extern "C" bool stub_commutes(const Symbol * s) { return p_commutes[symidx(s)]; }
extern "C" bool stub_left(const Symbol * s) { return p_kind[symidx(s)] == 1; }
extern "C" bool stub_right(const Symbol * s) { return p_kind[symidx(s)] == 2; }
extern "C" bool stub_chain(const Symbol * s) { return p_kind[symidx(s)] == 3; }
extern "C" bool stub_pair(const Symbol * s) { return p_kind[symidx(s)] == 4; }
extern "C" uint32_t stub_nargs(const Symbol * s) { return p_nargs[symidx(s)]; }
extern "C" bool stub_notBoolOp(Logic const *, SymRef) { return false; }

// the complex-term map + term store model
static uint32_t t_sym[NT], t_n[NT], t_arg[NT][NARG]; static unsigned n_terms;
static uint32_t next_id;
static int find(SymRef s, vec<PTRef> const & a) {
    for (unsigned i = 0; i < NT; i++) if (i < n_terms && t_sym[i] == s.x && (int)t_n[i] == a.size()) {
        bool eq = true;
        for (int j = 0; j < NARG; j++) if (j < a.size() && t_arg[i][j] != a[j].x) eq = false;
        if (eq) return (int)i;
    }
    return -1;
}
static uint32_t pending_sym, pending_n, pending_arg[NARG]; static bool pending;
extern "C" bool stub_hasCplxKey(PtStore *, PTLKey const * k) { return find(k->sym, k->args) >= 0; }
extern "C" PTRef stub_getFromCplxMap(PtStore *, PTLKey const * k) { int i = find(k->sym, k->args); if (i < 0) { g_foreign = true; return PTRef_Undef; } return PTRef{100 + (uint32_t)i}; }
extern "C" PTRef stub_newTerm(PtStore *, SymRef s, vec<PTRef> const * a) {
    if (n_terms >= NT || a->size() > NARG) { g_overflow = true; return PTRef_Undef; }
    pending = true; pending_sym = s.x; pending_n = (uint32_t)a->size();
    for (int j = 0; j < NARG; j++) pending_arg[j] = j < a->size() ? (*a)[j].x : 0;
    return PTRef{100 + n_terms};
}
extern "C" void stub_addToCplxMap(PtStore *, PTLKey * k, PTRef tr) {
    if (n_terms >= NT || k->args.size() > NARG || tr.x != 100 + n_terms) { g_overflow = true; return; }
    t_sym[n_terms] = k->sym.x; t_n[n_terms] = (uint32_t)k->args.size();
    for (int j = 0; j < NARG; j++) t_arg[n_terms][j] = j < k->args.size() ? k->args[j].x : 0;
    VASSERT(pending && pending_sym == k->sym.x && pending_n == t_n[n_terms], "the key stored in the map is the key of the term just created");
    for (int j = 0; j < NARG; j++) if (j < (int)pending_n) VASSERT(pending_arg[j] == t_arg[n_terms][j], "the new term's argument list equals the key's argument list");
    pending = false; n_terms++;
}
static PTRef bufA[4], bufB[4], bufK[2][4]; static unsigned kbuf_used;
extern "C" void stub_cap_ptref(vec<PTRef> * v, int m) {
    if (v->cap >= m) return;
    if (m > 4 || (v->data == nullptr && kbuf_used >= 2)) { g_overflow = true; return; }
    if (v->data == nullptr) v->data = bufK[kbuf_used++];
    v->cap = 4;
}

static PTRef build(Logic & L, unsigned n, uint32_t a, uint32_t b, uint32_t c, PTRef * buf) {
    vec<PTRef> v; v.data = buf; v.cap = 4; v.sz = (int)n;
    buf[0] = PTRef{a}; buf[1] = PTRef{b}; buf[2] = PTRef{c};
    PTRef r = L.Logic::mkFun(SymRef{0}, std::move(v));
    v.data = nullptr; v.sz = 0; v.cap = 0;
    return r;
}

// one symbol with CONCRETE properties per entry (the symbol component of the key is decided in keys_order), N arguments per call
template <bool COMM, int KIND, int DECL, int N> static void run() {
    Logic & L = logic_box.l;
    fake_vt[vslot(&Logic::termSort)] = (void *)&stub_termSort;
    *reinterpret_cast<void **>(&L) = (void *)fake_vt;
    p_commutes[0] = COMM; p_kind[0] = KIND; p_nargs[0] = DECL;
    g_foreign = g_overflow = false; n_terms = 0; pending = false; kbuf_used = 0;
    uint32_t a1 = nondet_u8() & 7, b1 = nondet_u8() & 7, c1 = nondet_u8() & 7, a2 = nondet_u8() & 7, b2 = nondet_u8() & 7, c2 = nondet_u8() & 7;
    if (N < 3) { c1 = 0; c2 = 0; }
    PTRef r1 = build(L, N, a1, b1, c1, bufA);
    PTRef r2 = build(L, N, a2, b2, c2, bufB);
    VASSERT(!g_foreign && !g_overflow, "harness: lookups stay inside the tables");
    VASSERT(!pending, "every created term is entered into the map");
    bool same_seq = a1 == a2 && b1 == b2 && c1 == c2;
    auto sort3 = [](uint32_t & x, uint32_t & y, uint32_t & z) {
        if (x > y) { uint32_t t = x; x = y; y = t; }
        if (N >= 3 && y > z) { uint32_t t = y; y = z; z = t; }
        if (x > y) { uint32_t t = x; x = y; y = t; } };
    uint32_t x1 = a1, y1 = b1, z1 = c1, x2 = a2, y2 = b2, z2 = c2; sort3(x1, y1, z1); sort3(x2, y2, z2);
    bool same_multiset = x1 == x2 && y1 == y2 && z1 == z2;
    VASSERT(r1 != PTRef_Undef && r2 != PTRef_Undef, "mkFun returns a term");
    if (same_seq) VASSERT(r1 == r2, "building the same application twice yields the same identity");
    if (COMM && same_multiset) VASSERT(r1 == r2, "a commutative symbol is insensitive to the argument order (any arity)");
    if (COMM ? !same_multiset : !same_seq) VASSERT(r1 != r2, "different identities for structurally different applications");
    if (r1 != r2) VASSERT(r1.x < r2.x, "ids grow with creation");
    if (same_seq) { VWITNESS("same-application-twice"); }
    if (COMM && same_multiset && !same_seq) { VWITNESS("commutative-arguments-permuted"); }
    if (!COMM && same_multiset && !same_seq) { VWITNESS("non-commutative-permuted-is-different"); }
    VWITNESS("end");
}
extern "C" void h_commut_plus3() { run<true, 1, 2, 3>(); }     // like + and *: commutative, left-associative, declared binary, 3 arguments
extern "C" void h_commut_eq2() { run<true, 3, 2, 2>(); }       // like =: commutative, chainable, 2 arguments
extern "C" void h_commut_distinct3() { run<true, 4, 2, 3>(); } // like distinct: commutative, pairwise, 3 arguments
extern "C" void h_plain_uf3() { run<false, 0, 3, 3>(); }       // an uninterpreted ternary function
extern "C" void h_leftassoc_minus3() { run<false, 1, 2, 3>(); }// like -: left-associative, not commutative, 3 arguments

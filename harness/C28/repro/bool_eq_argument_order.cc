// BORDERLINE observation on unmodified code (worktree HEAD 20bb98f), property C28.
// The Boolean equality symbol sym_EQ is declared commutative (declareFun_Commutative_NoScoping_Chainable), but it is
// a "Boolean operator" for Logic::mkFun, and the Boolean-operator branch of mkFun does not sort the arguments of
// commutative symbols (mkAnd/mkOr/mkXor sort themselves, Logic::mkBinaryEq does not).  So (= p q) and (= q p) over
// Bool are two different terms, while (= a b) / (= b a) over every other sort are one term.
// Whether this violates C28 depends on reading "where the constructor normalises it" - the constructor does not
// normalise here, although the symbol is flagged commutative and equality over all other sorts is normalised.
//
//   g++ -std=c++20 -O1 -I/tmp/seed_probe/src -I/tmp/seed_probe/_build/src existing_defect_2.cc -o existing_defect_2 \
//       /tmp/seed_probe/_build/lib/libopensmt.so -lgmpxx -lgmp -Wl,-rpath,/tmp/seed_probe/_build/lib
//   ./existing_defect_2      (exit code 1 = order-sensitive)
#include <logics/Logic.h>
#include <iostream>
using namespace opensmt;
int main() {
    Logic logic(Logic_t::QF_UF);
    PTRef p = logic.mkBoolVar("p");
    PTRef q = logic.mkBoolVar("q");
    PTRef e1 = logic.mkEq(p, q);
    PTRef e2 = logic.mkEq(q, p);
    std::cout << logic.pp(e1) << " [" << e1.x << "]  vs  " << logic.pp(e2) << " [" << e2.x << "]\n";
    SRef U = logic.declareUninterpretedSort("U");
    PTRef a = logic.mkVar(U, "a"), b = logic.mkVar(U, "b");
    std::cout << "for comparison, sort U: " << logic.mkEq(a, b).x << " vs " << logic.mkEq(b, a).x << "\n";
    return e1 != e2;
}

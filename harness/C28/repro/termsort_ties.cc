// EXISTING DEFECT (unmodified code at worktree HEAD 20bb98f), property C28:
// "commutative operators are insensitive to argument order where the constructor normalises it".
//
// ArithLogic::termSort orders arguments with LessThan_deepPTRef, which maps a product (* c v) to the PTRef of its
// variable v and every other term to its own PTRef.  This is not a total order on distinct terms: v, (* 2 v) and
// (* 3 v) all compare as equivalent.  minisat's selection sort keeps equivalent elements in input order, so for
// every commutative symbol whose arguments may contain two such terms the hash-consing key depends on the order in
// which the caller listed the arguments:
//   - (= x (* 2 x)) vs (= (* 2 x) x) in logics with UFs/arrays (there ArithLogic::mkBinaryEq does no arithmetic
//     normalisation and goes straight to Logic::mkBinaryEq -> mkFun -> termSort)
//   - (distinct (* 2 x) (* 3 x) y) vs (distinct (* 3 x) (* 2 x) y) in every arithmetic logic (Logic::mkDistinct)
// Both pairs get two different PTRefs / Pterm ids although mkFun/mkDistinct do sort commutative arguments.
// A consequence of the same ties: the duplicate check in mkDistinct (adjacent equal elements after sorting) misses
// (distinct (* 2 x) (* 3 x) (* 2 x)), which is not simplified to false.
//
// Build & run (exit code 1 = defect observed):
//   g++ -std=c++20 -O1 -I/tmp/seed_probe/src -I/tmp/seed_probe/_build/src existing_defect_1.cc -o existing_defect_1 \
//       /tmp/seed_probe/_build/lib/libopensmt.so -lgmpxx -lgmp -Wl,-rpath,/tmp/seed_probe/_build/lib
//   ./existing_defect_1
#include <logics/ArithLogic.h>
#include <iostream>
using namespace opensmt;
int main() {
    int bad = 0;
    {
        ArithLogic logic(Logic_t::QF_UFLIA);
        PTRef x = logic.mkIntVar("x");
        PTRef x2 = logic.mkTimes(logic.mkIntConst(2), x);
        PTRef e1 = logic.mkEq(x, x2);
        PTRef e2 = logic.mkEq(x2, x);
        std::cout << "QF_UFLIA " << logic.pp(e1) << " [" << e1.x << "]  vs  " << logic.pp(e2) << " [" << e2.x << "]\n";
        bad += (e1 != e2);
    }
    {
        ArithLogic logic(Logic_t::QF_LIA);
        PTRef x = logic.mkIntVar("x");
        PTRef y = logic.mkIntVar("y");
        PTRef x2 = logic.mkTimes(logic.mkIntConst(2), x);
        PTRef x3 = logic.mkTimes(logic.mkIntConst(3), x);
        PTRef d1 = logic.mkDistinct({x2, x3, y});
        PTRef d2 = logic.mkDistinct({x3, x2, y});
        std::cout << "QF_LIA   " << logic.pp(d1) << " [" << d1.x << "]  vs  " << logic.pp(d2) << " [" << d2.x << "]\n";
        bad += (d1 != d2);
        PTRef d3 = logic.mkDistinct({x2, x3, x2});
        std::cout << "QF_LIA   distinct with a repeated argument: " << logic.pp(d3) << (d3 == logic.getTerm_false() ? "" : "   (not simplified to false)") << "\n";
        bad += (d3 != logic.getTerm_false());
    }
    std::cout << (bad ? "DEFECT OBSERVED\n" : "no defect\n");
    return bad ? 1 : 0;
}

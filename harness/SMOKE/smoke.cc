#include "verif.h"
#include "common/numbers/FastRational.h"
using namespace opensmt;
extern "C" void h_absval() {
    word x = nondet_i32();
    uword a = absVal(x);
    VASSERT(x >= 0 ? a == (uword)x : (uint64_t)a == (uint64_t)(-(int64_t)x), "absVal exact");
    VWITNESS("absval");
}
extern "C" void h_gcd8() {
    uword a = nondet_u32(), b = nondet_u32();
    VASSUME(a < 16 && b < 16);
    uword g = gcd<uword>(a, b);
    if (a || b) { VASSERT(g != 0 && a % g == 0 && b % g == 0, "gcd divides"); }
    VWITNESS("gcd");
}

// C01, Tseitin soundness half: same harness as harness/C02/tseitin.cc with the implication turned round
// (definition holds under sigma => every emitted clause is true under sigma).
#define TS_SOUND 1
#include "../C02/tseitin.cc"

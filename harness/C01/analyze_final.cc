// C01: CoreSMTSolver::analyzeFinal (real code) from an arbitrary valid state at the point where search() finds a false
// assumption: the final conflict clause is implied by the clause DB and theory reasons, and is made of negated assumptions.
#define SS_ASSUMPTIONS 1
#include "satstate.h"
using namespace opensmt;
using namespace ss;

extern "C" void h_analyze_final() {
    build_state(0);
    assume_assumptions();
    assume_sigma_models_db();
    materialize();
    materialize_assumptions();
    // proof logging off: resolutionProof == nullptr
    const int a = g_asm[g_nl];          // the failing assumption (false under the trail)
    const int p = a ^ 1;                // search() calls analyzeFinal(~a, conflict)
    vec<Lit> out; prealloc(out, buf_out, SS_NV + 2, nondet_u8() % 3);   // analyzeFinal clears it
    S->analyzeFinal(toLit(p), out);

    VASSERT(!g_bad_getreason, "getReason is asked only for trail literals whose reason is the theory");
    int n = out.size();
    VASSERT(n >= 1 && n <= SS_NV + 1 && out[0].x == p, "out_conflict[0] is p");
    bool sat = false, neg_assumptions = true, ordered = true, taut = false;
    for (int i = 0; i < SS_NV + 1; i++) if (i < n) {
        int l = out[i].x;
        if (!lit_ok(l)) { neg_assumptions = false; continue; }
        if (sig(l)) sat = true;
        if (!(l & 1) && g_order[lvar(l)] < 0) ordered = false;
        if (i >= 1) {
            bool is_neg_asm = false;
            for (int k = 0; k < SS_NA; k++) if (k < g_na && g_asm[k] == (l ^ 1)) is_neg_asm = true;
            if (l == (p ^ 1)) {
                // the one exception on the unchanged tree: p itself is a level-0 fact without reason and its variable is an
                // active assumption variable; analyzeFinal (which, unlike MiniSat, also walks level 0) then adds ~p as well
                taut = true;
                if (!(g_lev[lvar(p)] == 0 && g_kind[lvar(p)] == K_UNDEF)) neg_assumptions = false;
            } else if (!(is_neg_asm && lit_false_entry(l))) neg_assumptions = false;
        }
    }
#ifdef SS_WRONG
    VASSERT(n == 1, "DELIBERATELY WRONG: the final conflict never mentions another assumption");
#endif
    VASSERT(neg_assumptions, "every literal of out_conflict other than p is the negation of an assumption literal that is on the trail");
    VASSERT(ordered, "every positive literal of out_conflict has an assumptions_order entry (search() indexes the map with it)");
    VASSERT(sat, "sigma satisfies DB and theory reasons => sigma satisfies out_conflict");
    VASSERT(seen_clear(), "seen[] is clear on exit");
    VWITNESS("analyzeFinal-returns");
    if (n >= 3) { VWITNESS("conflict-with-two-other-assumptions"); }
    if (n == 1) { VWITNESS("assumption-false-by-itself"); }
    if (g_nth > 0) { VWITNESS("theory-reason-used"); }
    if (taut) { VWITNESS("p-and-not-p"); }
    out.data = nullptr; out.sz = 0; out.cap = 0;
}

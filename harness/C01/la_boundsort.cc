// C01 (shared with C22): the per-variable bound list of the LA solver stays sorted and every bound knows its own
// position after a bound pair is inserted into an initialised solver (incremental use: a new atom arrives after the
// first check-sat).  Simplex / LASolver compare bounds of one variable BY THESE POSITIONS (boundTriviallyUnsatisfied,
// getSimpleDeductions, getBoundByIdx): a stale position makes the solver treat a weaker bound as a stronger one, i.e.
// report a conflict (unsat) or a deduction that the asserted bounds do not imply.
// Real: LABoundStore::allocBoundPairAndSort (src/tsolvers/lasolver/LABounds.cc), LABound::setIdx / getIdx, minisat vec
// accessors, std::swap<LABoundRef>.
// Model: the allocator is a table of NB real LABound objects in typed raw storage behind LABoundAllocator::operator[];
// allocBoundPair appends the two fresh bounds (upper, lower) to the list as the real one does; the order on bound values
// (bound_lessthan, a comparison of Delta values) is an arbitrary strict weak order given by symbolic keys (ties allowed:
// x <= c and x >= c carry the same value).
#include "verif.h"
#include "tsolvers/lasolver/LABounds.h"
#include <new>
#include <utility>
using namespace opensmt;

#ifndef NOLD
#define NOLD 4
#endif
#define NB (NOLD + 2)

union RawStore { LABoundStore s; RawStore() {} ~RawStore() {} };      // typed raw storage, never constructed
static RawStore rawStore;
union RawBounds { LABound b[NB]; RawBounds() {} ~RawBounds() {} };
static RawBounds tab;
union RawPair { LABoundStore::BoundValuePair p; RawPair() {} ~RawPair() {} };
static RawPair rawPair;
union RawVec { vec<LABoundRef> v; RawVec() {} ~RawVec() {} };
static RawVec list;
static LABoundRef buf[NB];
static uint8_t key[NB];
static unsigned n_old;
static bool g_foreign, g_overflow;
static unsigned n_alloc;

extern "C" LABound * stub_ba_at(LABoundAllocator *, LABoundRef r) { unsigned i = r.x; if (i >= NB) { g_foreign = true; i = 0; } return &tab.b[i]; }
extern "C" vec<LABoundRef> * stub_getBounds(LABoundStore *, LVRef) { return &list.v; }
extern "C" bool stub_lessthan(bound_lessthan const *, LABoundRef a, LABoundRef b) {
    unsigned i = a.x, j = b.x; if (i >= NB || j >= NB) { g_foreign = true; return false; }
    return key[i] < key[j];
}
// the real allocBoundPair: two fresh bounds (upper first, then lower) are pushed at the end of the variable's list
extern "C" LABoundStore::BoundInfo stub_allocBoundPair(LABoundStore *, LVRef v, LABoundStore::BoundValuePair) {
    n_alloc++;
    if (list.v.sz + 2 > list.v.cap) { g_overflow = true; return {v, LABoundRef{0}, LABoundRef{0}}; }
    LABoundRef ub{n_old}, lb{n_old + 1};
    tab.b[n_old].bidx = UINT32_MAX; tab.b[n_old + 1].bidx = UINT32_MAX;       // LABound's constructor
    buf[list.v.sz++] = ub; buf[list.v.sz++] = lb;
    return {v, ub, lb};
}

extern "C" void h_insert_sorted() {
    n_old = nondet_u8() & 7; VASSUME(n_old <= NOLD);
    for (unsigned i = 0; i < NB; i++) key[i] = nondet_u8();
    // invariant of an initialised store (buildBounds, or an earlier allocBoundPairAndSort): the list is sorted by value
    // and every bound records its position.  The names of the old bounds are their positions (a renaming).
    for (unsigned i = 0; i < NOLD; i++) if (i < n_old) {
        buf[i] = LABoundRef{i}; tab.b[i].bidx = i;
        if (i + 1 < n_old) VASSUME(key[i] <= key[i + 1]);
    }
    list.v.data = buf; list.v.sz = (int)n_old; list.v.cap = NB;
    g_foreign = g_overflow = false; n_alloc = 0;

    LABoundStore::BoundInfo bi = rawStore.s.allocBoundPairAndSort(LVRef{0}, std::move(rawPair.p));

    VASSERT(!g_foreign && !g_overflow && n_alloc == 1, "harness: only table bounds are looked up, one allocation, capacity suffices");
    VASSERT(bi.ub.x == n_old && bi.lb.x == n_old + 1 && bi.v.x == 0, "allocBoundPairAndSort returns the pair that was allocated");
    VASSERT(list.v.data == buf && list.v.sz == (int)n_old + 2, "the list holds the old bounds and the two new ones");
    unsigned seen = 0; bool moved = false, tie = false;
    for (unsigned i = 0; i < NB; i++) if (i < n_old + 2) {
        unsigned r = buf[i].x;
        VASSERT(r < n_old + 2, "the list only contains bounds of this variable");
        if (r < n_old + 2) {
            seen |= 1u << r;
            VASSERT(tab.b[r].bidx == i, "every bound records its own position in the variable's bound list");
            if (r < n_old && r != i) moved = true;
            if (i + 1 < n_old + 2 && buf[i + 1].x < NB) {
                VASSERT(key[r] <= key[buf[i + 1].x], "the bound list is sorted by bound value");
                if (key[r] == key[buf[i + 1].x]) tie = true;
            }
        }
    }
    VASSERT(seen == (1u << (n_old + 2)) - 1, "the list is a permutation of the old bounds and the two new ones");
    VWITNESS("end");
    if (moved) { VWITNESS("an-old-bound-was-displaced"); }
    if (tie && moved) { VWITNESS("equal-values-and-a-displacement"); }
    if (n_old == 0) { VWITNESS("first-pair-of-the-variable"); }
}

// Symbolic term universe for arithmetic kernels: a small table of term nodes (real Pterm objects of exact size, so
// reading an argument that does not exist is an out-of-bounds access) behind the accessor cut points of Logic/ArithLogic.
// Cut points to put in the JSON spec ("replace"):
//   "opensmt::PtStore::operator[](opensmt::PTRef)": "stu_pterm", "opensmt::PtStore::operator[](opensmt::PTRef) const": "stu_pterm",
//   "opensmt::Logic::isVar(opensmt::SymRef) const": "stu_isVar", "opensmt::Logic::isConstant(opensmt::SymRef) const": "stu_isConstant",
//   "opensmt::ArithLogic::getNumConst(opensmt::PTRef) const": "stu_getNumConst",
//   "re:opensmt::ArithLogic::yieldsSort(Int|Real|Num)\\(opensmt::SymRef\\) const": see stu_yieldsSortInt / Real / Num
#pragma once
#include "verif.h"
#include <cstdlib>
#include "logics/ArithLogic.h"
namespace stu {
using namespace opensmt;
enum Kind : uint8_t { K_VAR = 0, K_CONST = 1, K_PLUS = 2, K_TIMES = 3, K_LEQ = 4, K_OTHER = 5,
                      K_AND = 6, K_OR = 7, K_NOT = 8, K_EQ = 9, K_DISTINCT = 10, K_DIV = 11, K_MOD = 12, K_BVAR = 13 };   // 6..13: used by stu_val.h
#ifndef STU_MAXN
#define STU_MAXN 10
#endif
constexpr int MAXN = STU_MAXN;
// symbol numbering: operators get fixed symbols, every variable / constant node its own symbol
// (the numbering can be compressed with -DSTU_COMPACT_SYMS for width-scaled harnesses, where every id must fit the scaled word)
#ifdef STU_COMPACT_SYMS
constexpr uint32_t SYM_PLUS = 1, SYM_TIMES = 2, SYM_LEQ = 3, SYM_OTHER = 4, SYM_VAR0 = 8, SYM_CONST0 = 12, SYM_REAL0 = 24;
#else
constexpr uint32_t SYM_PLUS = 1, SYM_TIMES = 2, SYM_LEQ = 3, SYM_OTHER = 4, SYM_VAR0 = 16, SYM_CONST0 = 32, SYM_REAL0 = 100;
#endif
struct Node { Kind kind; uint8_t nargs; Pterm * pt; FastRational * num; int32_t cval; };
static Node nodes[MAXN];
static int nnodes;
static ArithLogic * L;                       // raw storage, only the symbol fields are filled

static Pterm * alloc_pterm(int nargs) {
    // exact object sizes (constant per branch): header(4) + id(4) + sym(4) + 4*nargs
    void * p = nargs == 0 ? malloc(sizeof(Pterm)) : nargs == 1 ? malloc(sizeof(Pterm) + 4) : nargs == 2 ? malloc(sizeof(Pterm) + 8) : malloc(sizeof(Pterm) + 12);
    return static_cast<Pterm *>(p);
}
static PTRef mk(Kind k, uint32_t sym, int nargs, PTRef a0 = PTRef_Undef, PTRef a1 = PTRef_Undef, PTRef a2 = PTRef_Undef) {
    VASSUME(nnodes < MAXN);
    Node & n = nodes[nnodes];
    n.kind = k; n.nargs = (uint8_t)nargs; n.num = nullptr; n.cval = 0;
    n.pt = alloc_pterm(nargs);
    n.pt->header.type = 0; n.pt->header.has_extra = 0; n.pt->header.reloced = 0; n.pt->header.noscoping = 0; n.pt->header.size = nargs;
    n.pt->id.x = nnodes; n.pt->sym = SymRef{sym};
    if (nargs > 0) n.pt->args[0] = a0;
    if (nargs > 1) n.pt->args[1] = a1;
    if (nargs > 2) n.pt->args[2] = a2;
    return PTRef{(uint32_t)nnodes++};
}
static PTRef mkVar(int i) { return mk(K_VAR, SYM_VAR0 + i, 0); }
static PTRef mkConst(int32_t v) {        // small integer constant in word representation
    PTRef r = mk(K_CONST, SYM_CONST0 + nnodes, 0);
    Node & n = nodes[r.x];
    n.cval = v;
    n.num = static_cast<FastRational *>(malloc(sizeof(FastRational)));
    n.num->state = State::WORD_VALID; n.num->num = v; n.num->den = 1; n.num->mpq = nullptr;
    return r;
}
static void init_logic(void * raw) {
    L = static_cast<ArithLogic *>(raw);
    L->sym_Int_PLUS = SymRef{SYM_PLUS}; L->sym_Int_TIMES = SymRef{SYM_TIMES}; L->sym_Int_LEQ = SymRef{SYM_LEQ};
    L->sym_Real_PLUS = SymRef{SYM_REAL0}; L->sym_Real_TIMES = SymRef{SYM_REAL0 + 1}; L->sym_Real_LEQ = SymRef{SYM_REAL0 + 2};
    nnodes = 0;
}
}  // namespace stu
extern "C" {
opensmt::Pterm * stu_pterm(void *, opensmt::PTRef r) {
    VASSERT(r.x < (uint32_t)stu::nnodes, "term reference outside the term table (undefined or garbage PTRef dereferenced)");
    VASSUME(r.x < (uint32_t)stu::nnodes);
    return stu::nodes[r.x].pt;
}
bool stu_isVar(void *, opensmt::SymRef s) { return s.x >= stu::SYM_VAR0 && s.x < stu::SYM_CONST0; }
bool stu_isConstant(void *, opensmt::SymRef s) { return s.x >= stu::SYM_CONST0 && s.x < stu::SYM_REAL0; }
bool stu_yieldsSortInt(void *, opensmt::SymRef s) { return s.x != stu::SYM_LEQ && s.x < stu::SYM_REAL0; }
bool stu_false(void *, opensmt::SymRef) { return false; }
opensmt::FastRational const * stu_getNumConst(void *, opensmt::PTRef r) {
    VASSERT(r.x < (uint32_t)stu::nnodes && stu::nodes[r.x].kind == stu::K_CONST, "getNumConst applied to a term that is not a numeric constant");
    VASSUME(r.x < (uint32_t)stu::nnodes && stu::nodes[r.x].kind == stu::K_CONST);
    return stu::nodes[r.x].num;
}
}
extern "C" bool stu_isConstantTerm(void *, opensmt::PTRef r) { return r.x < (uint32_t)stu::nnodes && stu::nodes[r.x].kind == stu::K_CONST; }

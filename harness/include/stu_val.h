// Valued extension of the symbolic term universe (stu_arith.h): Boolean / = / distinct / div / mod nodes and, per node, its
// VALUE under one symbolic valuation of the variables (small integers; Booleans as 0/1).  The term constructors a rewriter calls
// are cut and answered by "append a node and compute its value" (that the real constructors return an equivalent term is C14).
// Cut points for the JSON spec ("replace"), in addition to those of stu_arith.h:
//   "opensmt::Logic::mkAnd(opensmt::vec<opensmt::PTRef>&&)": "stuv_mkAnd",  "opensmt::Logic::mkNot(opensmt::PTRef)": "stuv_mkNot",
//   "opensmt::Logic::mkBinaryEq(opensmt::PTRef, opensmt::PTRef)": "stuv_mkBinaryEq",
//   "opensmt::ArithLogic::mkBinaryLeq(opensmt::PTRef, opensmt::PTRef)": "stuv_mkBinaryLeq",
//   "opensmt::ArithLogic::mkPlus(opensmt::vec<opensmt::PTRef>&&)": "stuv_mkPlus", "opensmt::ArithLogic::mkTimes(opensmt::vec<opensmt::PTRef>&&)": "stuv_mkTimes",
//   "opensmt::ArithLogic::mkIntConst(opensmt::FastRational const&)": "stuv_mkIntConst",
//   "opensmt::ArithLogic::isNumEq(opensmt::SymRef) const": "stuv_isNumEq", "opensmt::Logic::isDisequality(opensmt::PTRef) const": "stuv_isDisequality",
//   "opensmt::Logic::hasSortBool(opensmt::PTRef) const": "stuv_hasSortBool", "opensmt::Logic::isIte(opensmt::PTRef) const": "stuv_false_ptref"
#pragma once
#include "stu_arith.h"
namespace stu {
constexpr uint32_t SYM_NOT = 5, SYM_AND = 6, SYM_OR = 7, SYM_EQ = 8, SYM_DISTINCT = 9, SYM_DIV = 10, SYM_MOD = 11, SYM_BEQ = 12;
constexpr int32_t VMIN = -64, VMAX = 63;          // every computed integer value must stay inside (asserted)
static int32_t val[MAXN];                         // value of node i under the valuation (Booleans 0/1)
static bool isBool[MAXN];
static int overflow_seen;

static PTRef mkv(Kind k, uint32_t sym, int nargs, int32_t v, bool b, PTRef a0 = PTRef_Undef, PTRef a1 = PTRef_Undef, PTRef a2 = PTRef_Undef) {
    PTRef r = mk(k, sym, nargs, a0, a1, a2);
    if (!b && (v < VMIN || v > VMAX)) overflow_seen = 1;
    val[r.x] = v; isBool[r.x] = b;
    return r;
}
static PTRef vVar(int i, int32_t lo, int32_t hi) { int32_t v = (int8_t)nondet_u8(); VASSUME(v >= lo && v <= hi); return mkv(K_VAR, SYM_VAR0 + i, 0, v, false); }
static PTRef vConst(int32_t c) { PTRef r = mkConst(c); val[r.x] = c; isBool[r.x] = false; return r; }
static int fresh_vars;
static PTRef vFreshVar(int32_t lo, int32_t hi) { return vVar(8 + fresh_vars++, lo, hi); }
static int32_t mul_small(int32_t c, int32_t x) {   // c in [-3,3]: multiplication without a multiplier circuit
    switch (c) { case 0: return 0; case 1: return x; case -1: return -x; case 2: return x + x; case -2: return -(x + x); case 3: return x + x + x; default: return -(x + x + x); }
}
template <class F> static int vslot(F pmf) {       // vtable slot of a virtual member function (Itanium ABI pointer-to-member encoding)
    union { F f; struct { intptr_t ptr; intptr_t adj; } r; } u;
    u.f = pmf;
    return (int)((u.r.ptr - 1) / 8);
}
static void * fake_logic_vt[256];
}
extern "C" opensmt::PTRef stuv_mkBinaryEq(void *, opensmt::PTRef a, opensmt::PTRef b);
namespace stu {
static void init_valued(void * rawLogic) {
    init_logic(rawLogic);
    // Logic::mkEq(PTRef,PTRef) dispatches to the virtual mkBinaryEq: the raw logic object gets a vtable whose only filled slot is that one
    fake_logic_vt[vslot(&Logic::mkBinaryEq)] = (void *)&stuv_mkBinaryEq;
    *reinterpret_cast<void ***>(L) = fake_logic_vt;
    L->sym_Int_DIV = SymRef{SYM_DIV}; L->sym_Int_MOD = SymRef{SYM_MOD};
    fresh_vars = 0; overflow_seen = 0;
}
static bool ref_ok(PTRef r) { return r.x < (uint32_t)nnodes; }
}  // namespace stu
extern "C" {
opensmt::PTRef stuv_mkAnd(void *, opensmt::vec<opensmt::PTRef> * args) {
    using namespace stu;
    int n = args->size();
    VASSERT(n >= 1 && n <= 3, "harness bound: conjunction of 1..3 arguments");
    VASSUME(n >= 1 && n <= 3);
    opensmt::PTRef a0 = (*args)[0], a1 = n > 1 ? (*args)[1] : opensmt::PTRef_Undef, a2 = n > 2 ? (*args)[2] : opensmt::PTRef_Undef;
    VASSERT(ref_ok(a0) && (n < 2 || ref_ok(a1)) && (n < 3 || ref_ok(a2)), "mkAnd over known terms");
    VASSUME(ref_ok(a0) && (n < 2 || ref_ok(a1)) && (n < 3 || ref_ok(a2)));
    VASSERT(isBool[a0.x] && (n < 2 || isBool[a1.x]) && (n < 3 || isBool[a2.x]), "mkAnd over Boolean terms");
    int32_t v = val[a0.x] && (n < 2 || val[a1.x]) && (n < 3 || val[a2.x]);
    return mkv(K_AND, SYM_AND, n, v, true, a0, a1, a2);
}
opensmt::PTRef stuv_mkNot(void *, opensmt::PTRef a) {
    using namespace stu;
    VASSERT(ref_ok(a) && isBool[a.x], "mkNot over a known Boolean term"); VASSUME(ref_ok(a));
    return mkv(K_NOT, SYM_NOT, 1, !val[a.x], true, a);
}
opensmt::PTRef stuv_mkBinaryEq(void *, opensmt::PTRef a, opensmt::PTRef b) {
    using namespace stu;
    VASSERT(ref_ok(a) && ref_ok(b) && isBool[a.x] == isBool[b.x], "mkEq over two known terms of one sort"); VASSUME(ref_ok(a) && ref_ok(b));
    return mkv(K_EQ, isBool[a.x] ? SYM_BEQ : SYM_EQ, 2, val[a.x] == val[b.x], true, a, b);
}
opensmt::PTRef stuv_mkBinaryLeq(void *, opensmt::PTRef a, opensmt::PTRef b) {
    using namespace stu;
    VASSERT(ref_ok(a) && ref_ok(b) && !isBool[a.x] && !isBool[b.x], "mkLeq over two known integer terms"); VASSUME(ref_ok(a) && ref_ok(b));
    return mkv(K_LEQ, SYM_LEQ, 2, val[a.x] <= val[b.x], true, a, b);
}
opensmt::PTRef stuv_mkPlus(void *, opensmt::vec<opensmt::PTRef> * args) {
    using namespace stu;
    VASSERT(args->size() == 2, "harness bound: binary sum"); VASSUME(args->size() == 2);
    opensmt::PTRef a = (*args)[0], b = (*args)[1];
    VASSERT(ref_ok(a) && ref_ok(b) && !isBool[a.x] && !isBool[b.x], "mkPlus over two known integer terms"); VASSUME(ref_ok(a) && ref_ok(b));
    return mkv(K_PLUS, SYM_PLUS, 2, val[a.x] + val[b.x], false, a, b);
}
opensmt::PTRef stuv_mkTimes(void *, opensmt::vec<opensmt::PTRef> * args) {
    using namespace stu;
    VASSERT(args->size() == 2, "harness bound: binary product"); VASSUME(args->size() == 2);
    opensmt::PTRef a = (*args)[0], b = (*args)[1];
    VASSERT(ref_ok(a) && ref_ok(b) && !isBool[a.x] && !isBool[b.x], "mkTimes over two known integer terms"); VASSUME(ref_ok(a) && ref_ok(b));
    bool ca = nodes[a.x].kind == K_CONST, cb = nodes[b.x].kind == K_CONST;
    VASSERT(ca || cb, "linear product: one factor is a constant"); VASSUME(ca || cb);
    int32_t c = ca ? val[a.x] : val[b.x], x = ca ? val[b.x] : val[a.x];
    VASSERT(c >= -3 && c <= 3, "harness bound: constant factor in [-3,3]"); VASSUME(c >= -3 && c <= 3);
    return mkv(K_TIMES, SYM_TIMES, 2, mul_small(c, x), false, a, b);
}
opensmt::PTRef stuv_mkIntConst(void *, opensmt::FastRational const * c) {
    using namespace stu;
    auto nd = c->tryGetNumDen();
    VASSERT(nd.has_value() && nd->second == 1, "mkIntConst of a small integer"); VASSUME(nd.has_value() && nd->second == 1);
    return vConst(nd->first);
}
bool stuv_isNumEq(void *, opensmt::SymRef s) { return s.x == stu::SYM_EQ; }
bool stuv_isDisequality(void *, opensmt::PTRef t) { return stu::ref_ok(t) && stu::nodes[t.x].pt->sym.x == stu::SYM_DISTINCT; }
bool stuv_hasSortBool(void *, opensmt::PTRef t) { return stu::ref_ok(t) && stu::isBool[t.x]; }
bool stuv_false_ptref(void *, opensmt::PTRef) { return false; }
}

// C-side oracle for FastRational harnesses (rt/gmp_model.c + rt/fr_oracle.c)
#pragma once
#include "verif.h"
#include "common/numbers/FastRational.h"
extern "C" {
void vfr_make(opensmt::FastRational *x, uint8_t kinds);     // symbolic well-formed value; kinds: 1 word, 2 mpq, 4 both
uint8_t vfr_wellformed(opensmt::FastRational *x);             // representation invariant incl. canonicity and "word iff fits"
void vfr_snapshot(uint8_t slot, opensmt::FastRational *x);   // remember exact value
uint8_t vfr_same_as(uint8_t slot, opensmt::FastRational *x);
uint8_t vfr_is_result(opensmt::FastRational *r, uint8_t op, uint8_t sa, uint8_t sb);  // op 0+ 1- 2* 3/
uint8_t vfr_is_frac(opensmt::FastRational *r, uint64_t n, uint64_t d);
uint8_t vfr_cmp(uint8_t sa, uint8_t sb);          // 0 equal, 1 a>b, 2 a<b (exact, by cross-multiplication)
uint8_t vfr_slot_is_integer(uint8_t s);
uint8_t vfr_slot_is_zero(uint8_t s);
uint8_t vfr_slot_is_neg(uint8_t s);
uint8_t vfr_is_floor(opensmt::FastRational *r, uint8_t s);
uint8_t vfr_is_ceil(opensmt::FastRational *r, uint8_t s);
uint8_t vfr_is_fdiv(opensmt::FastRational *r, uint8_t sn, uint8_t sd);
uint8_t vfr_is_mod_sign_of_d(opensmt::FastRational *r, uint8_t sn, uint8_t sd);
uint8_t vfr_is_gcd(opensmt::FastRational *r, uint8_t sa, uint8_t sb);
uint8_t vfr_is_lcm(opensmt::FastRational *r, uint8_t sa, uint8_t sb);
uint8_t vfr_state(opensmt::FastRational *x);
void vfr_make_int(opensmt::FastRational *x, uint64_t v);   // canonical integer value (word form iff it fits)
}
#define ALLKINDS ((uint8_t)7)
extern "C" {
uint8_t vfr_is_neg_of(opensmt::FastRational *r, uint8_t s);
uint8_t vfr_is_inverse_of(opensmt::FastRational *r, uint8_t s);
uint8_t vfr_is_num_of(opensmt::FastRational *r, uint8_t s);
uint8_t vfr_is_den_of(opensmt::FastRational *r, uint8_t s);
uint8_t vfr_slot_sign(uint8_t s);                    // 0 zero, 1 positive, 2 negative
uint8_t vfr_slots_equal(uint8_t sa, uint8_t sb);
uint8_t vfr_slot_divides(uint8_t sd, uint8_t sn);
uint8_t vfr_is_exact_quotient(opensmt::FastRational *r, uint8_t sn, uint8_t sd);
uint8_t vfr_is_canonical_of_raw(opensmt::FastRational *r, uint32_t n, uint32_t d);
void vfr_make_integer(opensmt::FastRational *x, uint8_t kinds);
uint8_t vfr_is_uint(opensmt::FastRational *r, uint32_t v);
}
extern "C" { uint8_t vfr_int_bounds_ok(uint8_t strict, uint8_t sc, uint8_t sub, uint8_t slb); }
extern "C" { uint8_t vfr_is_euclid_div(opensmt::FastRational *q, uint8_t sn, uint8_t sd); uint8_t vfr_is_euclid_mod(opensmt::FastRational *m, uint8_t sn, uint8_t sd); }

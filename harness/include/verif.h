// Interface between C++ harnesses and the verifier. Everything here survives clang -> IR -> ir2c by name.
#pragma once
#include <cstdint>
extern "C" {
void __CPROVER_assume(bool);
__attribute__((nomerge)) void __CPROVER_assert(bool, const char *);
uint8_t nondet_u8();
uint16_t nondet_u16();
uint32_t nondet_u32();
uint64_t nondet_u64();
}
static inline bool nondet_bool() { return nondet_u8() & 1; }
static inline int32_t nondet_i32() { return (int32_t)nondet_u32(); }
static inline int64_t nondet_i64() { return (int64_t)nondet_u64(); }
#define VASSUME(c) __CPROVER_assume(c)
#define VASSERT(c, msg) __CPROVER_assert((c), msg)
// reachability witness: this assertion is EXPECTED TO FAIL; a proved witness means a vacuous harness
#define VWITNESS(name) __CPROVER_assert(false, "WITNESS:" name)

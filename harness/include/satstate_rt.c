/* Storage for the SAT-state harness objects (see satstate.h).
 * In the C++ harness they are only DECLARED (extern), so no constructor runs and the IR keeps their real class types.
 * Under CBMC they are defined here with exactly that generated struct type (typed, zero-initialised, field-sensitive);
 * in the native replay build they are plain zeroed storage of sufficient size (checked by static_assert in satstate.h). */
#ifdef __CPROVER__
#ifdef IR2C_NEEDG_ss_solver_obj
__typeof__(ss_solver_obj) ss_solver_obj;
#endif
#ifdef IR2C_NEEDG_ss_config_obj
__typeof__(ss_config_obj) ss_config_obj;
#endif
#ifdef IR2C_NEEDG_ss_amap_tbl
__typeof__(ss_amap_tbl) ss_amap_tbl;
#endif
#else
__attribute__((aligned(64))) char ss_amap_tbl[31 * 16];
__attribute__((aligned(64))) char ss_solver_obj[4096];
__attribute__((aligned(64))) char ss_config_obj[4096];
#endif

// SAT-state: a CoreSMTSolver object in typed zero storage (no constructor is run) filled from symbolic data, plus the
// representation invariant of the CDCL trail as ASSUMPTIONS.  Shared by C12 (analyze/litRedundant), C01 (analyzeFinal)
// and C10 (analyze with proof logging).  Everything the kernels read is set here; everything else is zero.
//
// Clause memory layout (a restriction on WHERE clauses live, not on which clauses exist): the region holds SS_NV+SS_NX
// slots of STRIDE words; slot v < SS_NV holds the reason clause of variable v whenever v is implied by a clause, slots
// SS_NV.. hold further clauses (the conflict clause).  Every slot holds a clause of the DB (sigma satisfies all of them);
// a slot that should be "absent" is covered by tautological contents.
//
// Bounds (override with -D):  SS_NV variables, SS_NV+SS_NX clauses of <= SS_ML literals, <= SS_NL decision levels,
// theory reasons of <= SS_TL literals.
#pragma once
#include "verif.h"
#include <cstdlib>
#include "options/SMTConfig.h"
#include "tsolvers/THandler.h"
#include "smtsolvers/CoreSMTSolver.h"
#include "smtsolvers/ResolutionProof.h"

#ifndef SS_NV
#define SS_NV 4
#endif
#ifndef SS_NX
#define SS_NX 1
#endif
#define SS_NC (SS_NV + SS_NX)
#ifndef SS_ML
#define SS_ML 3
#endif
#ifndef SS_NL
#define SS_NL 2
#endif
#ifndef SS_TL
#define SS_TL 3
#endif
// SS_PROOF: 1 = state of a proof-logging solver (resolutionProof != null, level-0 literals have UNIT reason clauses)
#ifndef SS_PROOF
#define SS_PROOF 0
#endif
// SS_CANON: 1 = variables are numbered in trail order (symmetry reduction), 0 = arbitrary numbering
#ifndef SS_CANON
#define SS_CANON 0
#endif

namespace ss {
using namespace opensmt;

enum { STRIDE = SS_ML + 2,                               // header + literals + extra word
       NEWCL = SS_NV + 2,                                // clauses the kernel may allocate (one theory reason per variable, +2)
       CA_CAP = SS_NC * STRIDE + NEWCL * (SS_TL + 2),
       K_UNDEF = 0, K_FAKE = 1, K_CLAUSE = 2 };

// ---- raw storage -------------------------------------------------------------------------------------------------
// typed storage without construction: only declared here, defined in satstate_rt.c (c_include / native_c of every spec)
}
extern "C" {
extern opensmt::CoreSMTSolver ss_solver_obj; extern opensmt::SMTConfig ss_config_obj;
extern opensmt::vec<opensmt::Map<opensmt::Var, int, opensmt::VarHash>::Pair> ss_amap_tbl[31];   // hash table of assumptions_order
}
namespace ss {
static_assert(sizeof(CoreSMTSolver) <= 4096 && sizeof(SMTConfig) <= 4096, "native replay storage in satstate_rt.c too small");
alignas(16) static unsigned char thandler_mem[64];
static uint32_t ca_mem[CA_CAP];
static CoreSMTSolver * const S = &ss_solver_obj;
static SMTConfig * const CFG = &ss_config_obj;

// ---- ghost copy of the entry state (the kernels backtrack the trail, the checks refer to the entry state) ------------
static int g_n;                      // trail size
static int g_nl;                     // decision level
static int g_trail[SS_NV];           // Lit::x
static int g_lim[SS_NL];
static int g_pos[SS_NV];             // trail position of a variable, -1 = unassigned
static int g_lev[SS_NV];             // level of an assigned variable
static uint8_t g_val[SS_NV];         // lbool value of the variable: 0 true, 1 false, 2 undef
static int g_kind[SS_NV];            // reason kind: K_UNDEF (decision/fact), K_FAKE (theory), K_CLAUSE (clause in slot v)
static int g_csz[SS_NC];
static int g_clit[SS_NC][SS_ML];
static bool g_clearnt[SS_NC];
static uint32_t g_sigma;             // the symbolic total assignment: bit v = value of variable v
// theory reasons handed out by the getReason stub
static int g_nth;
static int g_thvar[SS_NV + 2];
static int g_thsz[SS_NV + 2];
static int g_thlit[SS_NV + 2][SS_TL];
static bool g_bad_getreason;
// assumptions (C01): g_na assumption literals over distinct variables; active = negative literals (enabled frames)
#ifndef SS_NA
#define SS_NA (SS_NL + 1)
#endif
static int g_na;
static int g_asm[SS_NA];
static bool g_asmvar[SS_NV];         // v is the variable of an assumption literal
static int g_order[SS_NV];           // assumptions_order[v] for active assumption variables, -1 otherwise

static inline int lvar(int l) { return l >> 1; }
static inline bool lit_true_entry(int l) { return g_val[lvar(l)] == (uint8_t)(l & 1); }
static inline bool lit_false_entry(int l) { return g_val[lvar(l)] == (uint8_t)((l & 1) ^ 1); }
static inline bool sig(int l) { return (((g_sigma >> lvar(l)) & 1u) != 0) != ((l & 1) != 0); }
static inline bool lit_ok(int l) { return l >= 0 && l < 2 * SS_NV; }
static inline CRef cref_of(int k) { return (CRef)(k * STRIDE); }
static inline bool sigma_sat_clause(int k) { bool s = false; for (int j = 0; j < SS_ML; j++) if (j < g_csz[k] && sig(g_clit[k][j])) s = true; return s; }

// ---- stubs referenced from the JSON specs ----------------------------------------------------------------------
// every vec the kernels grow is preallocated by the harness; growth (realloc) is outside the model
extern "C" void ss_vec_capacity(vec<int> * v, int min_cap) {
    VASSERT(v->cap >= min_cap, "harness preallocated enough vec capacity (no realloc in the kernel)");
}
// RegionAllocator<uint32_t>::alloc(int): bump allocation inside the preallocated region; growth (xrealloc) and the
// out-of-memory exception are outside the model
extern "C" uint32_t ss_region_alloc(RegionAllocator<uint32_t> * ra, int size) {
    uint32_t prev = ra->sz;
    VASSERT(size > 0 && prev + (uint32_t)size <= ra->cap, "harness preallocated enough clause memory (no realloc in the kernel)");
    ra->sz = prev + (uint32_t)size;
    return prev;
}
// the only virtual call in the kernels: attachClause (watch lists do not influence the learnt clause)
extern "C" void ss_virtual(CoreSMTSolver *, CRef) {}
#define SS_V1 (void *)&ss_virtual,
#define SS_V8 SS_V1 SS_V1 SS_V1 SS_V1 SS_V1 SS_V1 SS_V1 SS_V1
static void * fake_vtable[32] = {SS_V8 SS_V8 SS_V8 SS_V8};

// vec storage: typed static buffers (CBMC handles typed objects far better than malloc'ed byte arrays); the kernels
// never free or grow them (vec::capacity is stubbed, vec<Lit>::~vec of the local theory-reason vector is a no-op)
template<class T> static void prealloc(vec<T> & v, T * buf, int cap, int size) { v.data = buf; v.cap = cap; v.sz = size; }
static Lit buf_trail[SS_NV], buf_toclear[2 * SS_NV + 2], buf_stack[SS_NV + 1], buf_out[SS_NV + 2], buf_r[NEWCL][SS_TL];
static int buf_lim[SS_NL];
static VarData buf_vardata[SS_NV];
static lbool buf_assigns[SS_NV];
static char buf_seen[SS_NV];
static CRef buf_cleanup[NEWCL], buf_learnts[NEWCL], buf_tmp_reas[NEWCL];

// THandler::getReason(p, r): r[0] = p, the other literals are false and EARLIER on the entry trail, and the clause is
// a valid theory lemma, i.e. sigma (any theory-consistent total assignment) satisfies it.  Arbitrary otherwise.
extern "C" void ss_getReason(THandler *, Lit p, vec<Lit> & r) {
    int v = var(p);
    bool ok = p.x >= 0 && p.x < 2 * SS_NV && g_pos[v] >= 0 && g_trail[g_pos[v]] == p.x && g_kind[v] == K_FAKE && g_nth < SS_NV + 2;
    if (!ok) { g_bad_getreason = true; prealloc(r, buf_r[0], 1, 1); r[0] = p; return; }
    int i = g_pos[v];
    int m = nondet_u8();
    VASSUME(m >= 1 && m <= SS_TL);
    prealloc(r, buf_r[g_nth], SS_TL, m);
    r[0] = p;
    bool sat = sig(p.x);
    g_thlit[g_nth][0] = p.x;
    for (int j = 1; j < SS_TL; j++) {
        int l = nondet_u8();
        VASSUME(lit_ok(l));
        if (j < m) {
            VASSUME(lit_false_entry(l) && g_pos[lvar(l)] < i);
#ifdef SS_ASSUMPTIONS
            VASSUME(!(g_asmvar[lvar(l)] && (l & 1)));   // frame literals occur only positively (see assume_assumptions)
#endif
            if (sig(l)) sat = true;
        }
#ifdef SS_DISTINCT_VARS
        if (j < m) { VASSUME(lvar(l) != v); for (int i = 1; i < j; i++) VASSUME(lvar(g_thlit[g_nth][i]) != lvar(l)); }
#endif
        r[j] = toLit(l);
        g_thlit[g_nth][j] = l;
    }
    VASSUME(sat);
    g_thvar[g_nth] = v; g_thsz[g_nth] = m; g_nth++;
}

// ---- the state -----------------------------------------------------------------------------------------------------
static inline int level_of_pos(int i) { int l = 0; for (int k = 0; k < SS_NL; k++) if (k < g_nl && g_lim[k] <= i) l++; return l; }

// Symbolic trail, levels, clause DB, reasons + the representation invariant.  min_level: smallest decision level allowed.
static void build_state(int min_level) {
    // trail: g_n literals over distinct variables
#ifdef SS_SHAPE_LIMS
    g_n = SS_NV;                          // fixed trail shape (scenario family): all variables assigned, fixed level boundaries
#else
    g_n = nondet_u8(); VASSUME(g_n >= 0 && g_n <= SS_NV);
#endif
    for (int v = 0; v < SS_NV; v++) { g_pos[v] = -1; g_val[v] = 2; g_lev[v] = 0; }
    for (int i = 0; i < SS_NV; i++) {
#if SS_CANON
        int l = 2 * i + (nondet_u8() & 1);   // variables are numbered in trail order (a renaming of the variables)
#else
        int l = nondet_u8(); VASSUME(lit_ok(l));
#endif
        g_trail[i] = l;
        if (i < g_n) { int v = lvar(l); VASSUME(g_pos[v] == -1); g_pos[v] = i; g_val[v] = (uint8_t)(l & 1); }   // every trail literal is true
    }
    // decision levels: trail_lim non-decreasing (empty "dummy" levels exist for already-true assumptions), <= trail size
#ifdef SS_SHAPE_LIMS
    static const int shape_lims[SS_NL] = {SS_SHAPE_LIMS};
    g_nl = SS_NL;
#else
    g_nl = nondet_u8(); VASSUME(g_nl >= min_level && g_nl <= SS_NL);
#endif
    for (int k = 0; k < SS_NL; k++) {
#ifdef SS_SHAPE_LIMS
        g_lim[k] = shape_lims[k];
#else
        g_lim[k] = nondet_u8();
#endif
        VASSUME(g_lim[k] >= 0 && g_lim[k] <= g_n);
        if (k > 0 && k < g_nl) VASSUME(g_lim[k - 1] <= g_lim[k]);
    }
    for (int i = 0; i < SS_NV; i++) if (i < g_n) g_lev[lvar(g_trail[i])] = level_of_pos(i);   // levels are monotone along the trail
    // clause DB
    for (int k = 0; k < SS_NC; k++) {
        g_csz[k] = nondet_u8(); VASSUME(g_csz[k] >= 1 && g_csz[k] <= SS_ML);
        g_clearnt[k] = nondet_bool();
        for (int j = 0; j < SS_ML; j++) {
            int l = nondet_u8(); VASSUME(lit_ok(l)); g_clit[k][j] = l;
#ifdef SS_DISTINCT_VARS
            if (j < g_csz[k]) for (int i = 0; i < j; i++) VASSUME(lvar(g_clit[k][i]) != lvar(l));   // stored clauses are duplicate-free and non-tautological
#endif
        }
    }
    // reasons
    for (int i = 0; i < SS_NV; i++) {
        int v = lvar(g_trail[i]);
        if (i >= g_n) continue;
        int lev = g_lev[v];
        bool first_of_level = false;
        for (int k = 0; k < SS_NL; k++) if (k < g_nl && g_lim[k] == i && k + 1 == lev) first_of_level = true;
        int kind = K_UNDEF;
        if (!(lev >= 1 && first_of_level)) { kind = nondet_u8(); VASSUME(kind >= 0 && kind <= K_CLAUSE); }
        g_kind[v] = kind;
#ifdef SS_NO_THEORY
        VASSUME(kind != K_FAKE);   // case split: no theory-propagated literal on the trail
#endif
        if (lev >= 1) {
            // the first literal of a non-empty level is its decision/assumption (no reason); every other literal is implied
            if (first_of_level) VASSUME(kind == K_UNDEF); else VASSUME(kind != K_UNDEF);
        }
#if SS_PROOF
        // proof-logging solver: level-0 literals always carry a UNIT reason clause (logUnitClauseDerivationAtLevelZero,
        // the level-0 branch of theory propagation, learnt units)
        if (lev == 0) VASSUME(kind == K_CLAUSE && g_csz[v] == 1);
#endif
        if (kind == K_CLAUSE) {
            // reason clause (slot v): implied literal first, all other literals false and earlier on the trail
            VASSUME(g_clit[v][0] == g_trail[i]);
            for (int j = 1; j < SS_ML; j++) if (j < g_csz[v]) { int l = g_clit[v][j]; VASSUME(lit_false_entry(l) && g_pos[lvar(l)] < i); }
        }
    }
    for (int v = 0; v < SS_NV; v++) if (g_pos[v] < 0) { int kind = nondet_u8(); VASSUME(kind <= K_CLAUSE); g_kind[v] = kind; g_lev[v] = nondet_u8() & 7; }  // stale vardata of unassigned variables
    g_nth = 0; g_bad_getreason = false;
}

// sigma: a total assignment that satisfies the clause DB and the level-0 facts that have no clause reason
static void assume_sigma_models_db() {
    g_sigma = nondet_u32(); VASSUME(g_sigma < (1u << SS_NV));
    for (int k = 0; k < SS_NC; k++) VASSUME(sigma_sat_clause(k));
    for (int i = 0; i < SS_NV; i++) if (i < g_n) { int v = lvar(g_trail[i]); if (g_lev[v] == 0 && g_kind[v] != K_CLAUSE) VASSUME(sig(g_trail[i])); }
}

// write the ghost state into the raw CoreSMTSolver object
static void materialize() {
    void ** raw = reinterpret_cast<void **>(S);
    raw[0] = (void *)fake_vtable;     // vptr
    raw[1] = (void *)CFG;             // SMTConfig & config
    raw[2] = (void *)thandler_mem;    // THandler & theory_handler (never dereferenced: all its methods are stubbed)
    prealloc(S->trail, buf_trail, SS_NV, g_n);
    for (int i = 0; i < SS_NV; i++) S->trail[i] = toLit(g_trail[i]);
    prealloc(S->trail_lim, buf_lim, SS_NL, g_nl);
    for (int k = 0; k < SS_NL; k++) S->trail_lim[k] = g_lim[k];
    prealloc(S->vardata, buf_vardata, SS_NV, SS_NV);
    prealloc(S->assigns, buf_assigns, SS_NV, SS_NV);
    prealloc(S->seen, buf_seen, SS_NV, SS_NV);
    for (int v = 0; v < SS_NV; v++) {
        int kind = g_kind[v];
        S->vardata[v].reason = kind == K_UNDEF ? CRef_Undef : kind == K_FAKE ? CRef_Fake : cref_of(v);
        S->vardata[v].level = g_lev[v];
        S->assigns[v] = lbool(g_val[v]);
        S->seen[v] = 0;
    }
    prealloc(S->analyze_toclear, buf_toclear, 2 * SS_NV + 2, 0);
    prealloc(S->analyze_stack, buf_stack, SS_NV + 1, 0);
    prealloc(S->cleanup, buf_cleanup, NEWCL, 0);
    prealloc(S->learnts, buf_learnts, NEWCL, 0);
    prealloc(S->tmp_reas, buf_tmp_reas, NEWCL, 0);
    // clause allocator: SS_NC slots of STRIDE words, the rest is free space for theory reasons
    S->ca.memory = ca_mem; S->ca.sz = SS_NC * STRIDE; S->ca.cap = CA_CAP; S->ca.wasted_ = 0;
    S->ca.extra_clause_field = nondet_bool();
    for (int k = 0; k < SS_NC; k++) {
        Clause & c = *reinterpret_cast<Clause *>(&ca_mem[k * STRIDE]);
        c.header.mark = 0; c.header.learnt = g_clearnt[k]; c.header.has_extra = g_clearnt[k] || S->ca.extra_clause_field;
        c.header.reloced = 0; c.header.glue = nondet_u8() & 7; c.header.size = (unsigned)g_csz[k];
        for (int j = 0; j < SS_ML; j++) c.data[j].lit = toLit(g_clit[k][j]);
    }
#ifdef SS_CFG_SYMBOLIC
    // all values of the three SAT options read by the kernels (not reachable through SMTConfig, which hard-codes 0/1/1)
    CFG->sat_learn_up_to_size = nondet_u8() & 3;
    CFG->sat_temporary_learn = nondet_bool();
    CFG->sat_minimize_conflicts = nondet_u8() & 3; VASSUME(CFG->sat_minimize_conflicts <= 2);
#else
    // the values SMTConfig::initializeConfig hard-codes; no option changes them
    CFG->sat_learn_up_to_size = 0;
    CFG->sat_temporary_learn = 1;
    CFG->sat_minimize_conflicts = 1;
#endif
}

// Assumption state at the point where search() calls analyzeFinal: call after build_state, before materialize.
//  * g_na > decisionLevel assumption literals over pairwise distinct variables; every decision level so far is an
//    assumption level: a non-empty level L starts with assumptions[L-1], an empty (dummy) level L has assumptions[L-1]
//    already true at a lower level; the next assumption a = assumptions[decisionLevel] is FALSE under the trail.
//  * assumption variables are MainSolver's frame variables: the NEGATIVE literal of an assumption variable occurs in no
//    reason clause and in no theory reason (clauses of a frame carry the frame literal positively; learnt clauses are
//    resolvents of those).  Assumed for the reason clauses here and for theory reasons in ss_getReason.
static void assume_assumptions() {
    g_na = nondet_u8(); VASSUME(g_na > g_nl && g_na <= SS_NA);
    for (int v = 0; v < SS_NV; v++) { g_asmvar[v] = false; g_order[v] = -1; }
    int active = 0;
    for (int k = 0; k < SS_NA; k++) {
        int l = nondet_u8(); VASSUME(lit_ok(l));
        g_asm[k] = l;
        if (k < g_na) {
            VASSUME(!g_asmvar[lvar(l)]);
            g_asmvar[lvar(l)] = true;
            if (l & 1) g_order[lvar(l)] = active++;
        }
    }
    for (int L = 1; L <= SS_NL; L++) if (L <= g_nl) {
        int a = g_asm[L - 1];
        bool empty = (L < g_nl ? g_lim[L] : g_n) == g_lim[L - 1];
        VASSUME(lit_true_entry(a));
        if (empty) VASSUME(g_pos[lvar(a)] < g_lim[L - 1]); else VASSUME(g_pos[lvar(a)] == g_lim[L - 1]);
    }
    VASSUME(lit_false_entry(g_asm[g_nl]));
    for (int v = 0; v < SS_NV; v++) if (g_pos[v] >= 0 && g_kind[v] == K_CLAUSE)
        for (int j = 1; j < SS_ML; j++) if (j < g_csz[v]) { int l = g_clit[v][j]; VASSUME(!(g_asmvar[lvar(l)] && (l & 1))); }
}

// write assumptions / assumptions_order (a real minisat Map: 31 buckets, identity hash) into the solver object
static Map<Var, int, VarHash>::Pair buf_pairs[SS_NV];
static Lit buf_assumptions[SS_NA];
static void materialize_assumptions() {
    prealloc(S->assumptions, buf_assumptions, SS_NA, g_na);
    for (int k = 0; k < SS_NA; k++) S->assumptions[k] = toLit(g_asm[k]);
    int n = 0;
    for (int v = 0; v < SS_NV; v++) {
        vec<Map<Var, int, VarHash>::Pair> & b = ss_amap_tbl[v];
        b.data = &buf_pairs[v]; b.cap = 1; b.sz = 0;
        if (g_order[v] >= 0) { buf_pairs[v].key = v; buf_pairs[v].data = g_order[v]; b.sz = 1; n++; }
    }
    S->assumptions_order.table = ss_amap_tbl; S->assumptions_order.cap = 31; S->assumptions_order.size = n;
}

static inline bool seen_clear() { bool z = true; for (int v = 0; v < SS_NV; v++) if (S->seen[v] != 0) z = false; return z; }

} // namespace ss

// C18 (exit status): the real main() of src/bin/opensmt.cc with the interpreter stubbed by contract.
// Every problem that was reported on the way (syntax error diagnostic of the file parser, "(error ...)" answers of
// commands, usage errors of main itself) must make the exit status non-zero.
#include "verif.h"
#include "api/Interpret.h"
#include <getopt.h>
#include <cstdio>
using namespace opensmt;

int main(int argc, char * argv[]);     // -Dmain=opensmt_real_main: this is the real main of opensmt.cc
extern "C" void verif_path_end();
namespace opensmt { extern bool pipeExecution; }

// ---- ghost state
static bool problem;          // a diagnostic for an input problem has been printed
static bool syntax_error_seen, command_error_seen, usage_error_seen;
static int n_files, n_pipe;

// parseCMDLineArgs: any option handling, leaves optind somewhere in [1, argc] and may select pipe mode (sret: config untouched)
extern "C" void stub_parse_args(SMTConfig * /*sret*/, int argc, char ** /*argv*/) {
    int oi = nondet_u8();
    VASSUME(oi >= 1 && oi <= argc);
    optind = oi;
    pipeExecution = nondet_bool();
}
extern "C" void stub_interpret_ctor(Interpret * self, SMTConfig *) { self->f_exit = false; self->_okStatus = true; }

// contract of Interpret::interpFile(FILE*): parse the whole file; on a syntax error the parser has printed
// "At line N: syntax error ..." and the non-zero parser result is returned, nothing is executed. Otherwise the commands
// are executed; each command that fails answers (error "...") through notify_formatted(true, ..), which clears _okStatus.
extern "C" int stub_interp_file(Interpret * self, FILE * f) {
    VASSERT(f != nullptr, "interpFile is given an open file");
    n_files++;
    bool syntax_error = nondet_bool();
#ifdef KF_C18_SYNTAX_EXIT
    // known finding: main ignores the result of interpFile, a syntax error in file mode exits with status 0
    VASSUME(!syntax_error);
#endif
    if (syntax_error) { problem = true; syntax_error_seen = true; return 1 + (nondet_u8() & 1); }
    if (nondet_bool()) { self->_okStatus = false; problem = true; command_error_seen = true; }
    return 0;
}
// contract of Interpret::interpPipe(): always returns 0; scanner errors and command errors go through notify_formatted(true, ..)
extern "C" int stub_interp_pipe(Interpret * self) {
    n_pipe++;
    if (nondet_bool()) { self->_okStatus = false; problem = true; command_error_seen = true; }
    return 0;
}
static char fake_file;
extern "C" FILE * stub_fopen(const char * name, const char *) {
    VASSERT(name != nullptr, "fopen is given a name");
    return nondet_bool() ? reinterpret_cast<FILE *>(&fake_file) : nullptr;
}
// exit() does not return: the obligation is checked here (the path ends after the call)
extern "C" void stub_exit(int status) {
    usage_error_seen = true;      // main only calls exit() from its opensmt_error macros, after printing "; Error: ..."
    VASSERT(status != 0, "exit() after a reported usage error has a non-zero status");
    VWITNESS("exit-called");
    verif_path_end();
}

static char f_smt2[] = "a.smt2", f_smt[] = "a.smt", f_dash[] = "-x", f_ddash[] = "--", f_noext[] = "a", f_cnf[] = "b.cnf", f_dots[] = "a.b.smt2", prog[] = "opensmt";
static char * pick_name() {
    switch (nondet_u8() & 7) {
    case 0: return f_smt2; case 1: return f_smt; case 2: return f_dash; case 3: return f_ddash;
    case 4: return f_noext; case 5: return f_cnf; case 6: return f_dots; default: return f_smt2;
    }
}

extern "C" void h_exit_status() {
    problem = syntax_error_seen = command_error_seen = usage_error_seen = false; n_files = n_pipe = 0;
    int argc = nondet_u8();
    VASSUME(argc >= 1 && argc <= 3);
    char * argv[4] = { prog, pick_name(), pick_name(), nullptr };
    int rc = main(argc, argv);
    VASSERT(!problem || rc != 0, "a reported problem (syntax error diagnostic or (error ...) answer) gives a non-zero exit status");
    VASSERT(problem || rc == 0, "a run without any reported problem exits with status 0");
    VWITNESS("main-returned");
    if (n_files == 2) { VWITNESS("two-files"); }
    if (n_pipe == 1) { VWITNESS("stdin"); }
#ifndef KF_C18_SYNTAX_EXIT
    if (syntax_error_seen) { VWITNESS("syntax-error-in-file-mode"); }
#endif
    if (command_error_seen && rc == 1) { VWITNESS("command-error-exit-1"); }
}

/* model: the current path ends here (used by the exit() stub: exit does not return) */
void verif_path_end(void) { __CPROVER_assume(0); }

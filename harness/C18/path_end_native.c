/* native replay twin of path_end.c: the process ends with the replay verdict */
#include <stdio.h>
#include <stdlib.h>
int replay_finish(void);
void verif_path_end(void) { fflush(stdout); exit(replay_finish()); }

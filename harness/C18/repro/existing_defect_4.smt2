; EXISTING DEFECT (unmodified HEAD): wrong arity of a left-associative arithmetic symbol crashes.
; PtStore::lookupSymbol accepts ONE argument for left_assoc symbols (the left-assoc branch has no lower
; bound on args.size()), ArithLogic::mkIntDiv only has assert(args.size()==2) (compiled out) and reads args[1].
; Run: /tmp/seed_probe/_build/opensmt existing_defect_4.smt2
; Observed: Segmentation fault (exit 139), nothing on stdout.
; Related: (div x 2 3) is accepted without diagnostic (exit 0).
(set-logic QF_LIA)
(declare-fun x () Int)
(assert (= (div x) 1))
(check-sat)

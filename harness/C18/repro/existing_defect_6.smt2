; EXISTING DEFECT (unmodified HEAD): "(as f Sort)" used as the head of an application aborts.
; For an LQID_T node Interpret::parseTerm takes (**node_iter).getValue() as the name; for an AS_T node the
; value is NULL -> std::string(nullptr) -> std::logic_error ("basic_string: construction from null is not
; valid"), which is not an ApiException -> std::terminate, exit 134.
; Run: /tmp/seed_probe/_build/opensmt existing_defect_6.smt2
(set-logic QF_UFLIA)
(declare-fun x () Int)
(declare-fun f (Int Int) Int)
(assert (= ((as f Int) x x) 1))
(check-sat)

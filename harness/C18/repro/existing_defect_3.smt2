; EXISTING DEFECT (unmodified HEAD): get-value in a pure array logic aborts.
; std::logic_error("Model computation not supported for the used theory yet!") is thrown during
; MainSolver::getModel; Interpret::interp only catches ApiException -> std::terminate, exit 134.
; Run: /tmp/seed_probe/_build/opensmt existing_defect_3.smt2
; Observed: "sat" then "terminate called after throwing an instance of 'std::logic_error'", exit 134
(set-option :produce-models true)
(set-logic QF_AX)
(declare-sort I 0)(declare-sort E 0)
(declare-fun a () (Array I E))
(declare-fun i () I)(declare-fun e () E)
(assert (= (select a i) e))
(check-sat)
(get-value (a))

; EXISTING DEFECT (unmodified HEAD): attribute :named without a symbol -> NULL dereference.
; Grammar allows "(! term attribute)" with attribute = KW_NAMED alone (no attribute_value), then
; Interpret::parseTerm (BANG_T) does **(name_attr.children->begin()) with children == nullptr.
; Run: /tmp/seed_probe/_build/opensmt existing_defect_5.smt2
; Observed: Segmentation fault (exit 139).
(set-logic QF_UF)
(declare-fun p () Bool)
(assert (! p :named))
(check-sat)

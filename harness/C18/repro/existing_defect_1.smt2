; EXISTING DEFECT (unmodified HEAD a134439): a non-linear term makes the executable abort.
; ArithLogic throws LANonLinearException (derived from std::runtime_error, not ApiException);
; Interpret::parseTerm (LQID_T branch) only catches ArithDivisionByZeroException and ApiException,
; Interpret::interp only ApiException -> std::terminate, SIGABRT (exit 134), no "(error ...)" on stdout.
; Same for (/ x y) in QF_LRA and (div x y) in QF_LIA (non-constant divisor).
; Run: /tmp/seed_probe/_build/opensmt existing_defect_1.smt2
; Observed: "terminate called after throwing an instance of 'opensmt::LANonLinearException'", exit 134
(set-logic QF_LRA)
(declare-fun x () Real)
(declare-fun y () Real)
(assert (= (* x y) 1))
(check-sat)

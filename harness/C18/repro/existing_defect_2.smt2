; EXISTING DEFECT (unmodified HEAD): format-string injection through symbol names.
; Interpret::reportError(msg) / notify_formatted(true, e.what()) pass the exception text as the FORMAT
; string of notify_formatted; the text contains the user's symbol ("Unknown symbol `%s%s... Bool'"),
; '%' is a legal character of SMT-LIB simple symbols, so va_arg reads non-existent arguments.
; Run: /tmp/seed_probe/_build/opensmt existing_defect_2.smt2
; Observed: Segmentation fault (exit 139). With "%d%d" instead: garbage numbers printed in the message.
(set-logic QF_UF)
(declare-fun p () Bool)
(assert (%s%s%s%s%s%s p))
(check-sat)

; EXISTING DEFECT (unmodified /tmp/seed_probe HEAD 8f83689): segmentation fault.
; :global-declarations may be changed at any time (it is not a "pre-initialization" option and
; TermNames::isGlobal() reads the option live).  If it is true at (push) and false at (pop),
; TermNames::pushScope() returned early but TermNames::popScope() runs ScopedVector::popScope()
; with an empty `limits` vector (limits.back() on an empty vector; the assert is compiled out
; in RelWithDebInfo) -> SIGSEGV.
; Run:  /tmp/seed_probe/_build/opensmt existing_defect_1.smt2     observed: Segmentation fault, rc=139
; Expected: either the set-option after set-logic is refused, or the pop works and the name n,
; introduced at the popped level with global declarations off, can be introduced again
; (output "sat" and "((n true))").
; The opposite order (false at push, true at pop) silently leaves a stale scope limit and the
; level-1 name alive after the pop.
(set-option :produce-assignments true)
(set-logic QF_UF)
(declare-fun a () Bool)
(set-option :global-declarations true)
(push 1)
(set-option :global-declarations false)
(assert (! a :named n))
(pop 1)
(assert (! (not a) :named n))
(check-sat)
(get-assignment)

; EXISTING DEFECT (unmodified /tmp/seed_probe HEAD 8f83689), minor:
; a reference to a popped name in get-interpolants is reported as an error, but the command is NOT
; abandoned: Interpret::getInterpolants pushes PTRef_Undef into `grouping` and, because the last group is
; ignored anyway, still prints an interpolant for the remaining arguments.
; Run:  /tmp/seed_probe/_build/opensmt existing_defect_3.smt2
; observed:
;   unsat
;   (a)
;   unsat
;   (error "Unknown symbol `B '")
;   (a)                      <- an interpolant is printed for a command that referenced the popped name B
; expected: the second get-interpolants prints only the error.
(set-option :produce-interpolants true)
(set-logic QF_UF)
(declare-fun a () Bool)
(declare-fun b () Bool)
(assert (! a :named A))
(push 1)
(assert (! (not a) :named B))
(check-sat)
(get-interpolants A B)
(pop 1)
(push 1)
(assert (! (and (not a) b) :named C))
(check-sat)
(get-interpolants A B)

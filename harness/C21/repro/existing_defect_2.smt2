; EXISTING DEFECT (unmodified /tmp/seed_probe HEAD 8f83689), weaker / borderline for C21:
; a :named annotation inside the body of a REJECTED define-fun stays registered.  Interpret.cc rolls the
; names back for a rejected assert (forgetTermNamesSince) but Interpret::defineFun has no such rollback.
; The name of a command that had no effect then blocks its (first!) legitimate introduction and is
; printed by get-assignment.
; Run:  /tmp/seed_probe/_build/opensmt existing_defect_2.smt2
; observed:
;   (error "define-fun term and return sort do not match: Bool and Int\n")
;   (error "name n already exists")
;   (error "assertion returns an unknown sort")
;   sat
;   ((n unknown))
; expected: only the first error, then  sat  and  ((n true)).
; The same happens inside a scope: (push 1) <rejected define-fun naming n> ... so the name belongs to a
; level although nothing was introduced there.
(set-option :produce-assignments true)
(set-logic QF_LIA)
(declare-fun a () Bool)
(define-fun f () Int (! a :named n))
(assert (! (not a) :named n))
(check-sat)
(get-assignment)

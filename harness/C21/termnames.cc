// C21 / C06: the real TermNames + ScopedVector code (tryInsert, pushScope, popScope, shrinkTo, eraseTermName, the
// queries) on every history of <= NOPS operations over 2 names x 2 terms, scoped and global mode, against a reference
// scoped map. The two std::unordered_map members are array models behind their member functions (the nodes are real
// libstdc++ node objects, so iterators and it->second work); std::vector and std::string stay real libstdc++ code with
// bounded char_traits primitives.
#include "verif.h"
#include "common/TermNames.h"
#ifdef WITH_C06
#include "unsatcores/UnsatCoreBuilder.h"
#include "api/MainSolver.h"
#endif
#include <new>
using namespace opensmt;

#ifndef NOPS
#define NOPS 4
#endif
#define NN 2        // names "a", "b"
#define NT 2        // terms 1, 2

// ---- bounded primitives of std::string: every string here has one character (SSO buffer, no heap)
extern "C" char * stub_ct_copy(char * d, const char * s, size_t n) {
    VASSERT(n <= 3, "bound: strings of at most 2 characters");
    for (size_t i = 0; i < 3; i++) if (i < n) d[i] = s[i];
    return d;
}
extern "C" int stub_ct_compare(const char * a, const char * b, size_t n) {
    VASSERT(n <= 3, "bound: strings of at most 2 characters");
    for (size_t i = 0; i < 3; i++) if (i < n) { unsigned char x = (unsigned char)a[i], y = (unsigned char)b[i]; if (x != y) return x < y ? -1 : 1; }
    return 0;
}
extern "C" size_t stub_ct_length(const char * s) {
    for (size_t i = 0; i < 3; i++) if (s[i] == 0) return i;
    VASSERT(false, "bound: C strings of at most 2 characters");
    return 0;
}
extern "C" char * stub_str_create(std::string *, size_t &, size_t) { VASSERT(false, "bound: no heap-allocated string (SSO only)"); return nullptr; }
extern "C" void stub_str_destroy(std::string *, size_t) { VASSERT(false, "bound: no heap-allocated string to free (SSO only)"); }

// ---- std::string special members and comparison, for strings of at most one character held in the SSO buffer
static void sso_take(std::string * d, std::string const * s) {
    size_t n = s->_M_string_length; char c = s->_M_local_buf[0];
    VASSERT(n <= 1, "bound: one-character strings in the SSO buffer");
    d->_M_dataplus._M_p = d->_M_local_buf;
    d->_M_local_buf[0] = c;
    d->_M_local_buf[1] = 0;
    d->_M_string_length = n;
}
static void sso_clear(std::string * s) { s->_M_string_length = 0; s->_M_local_buf[0] = 0; }
extern "C" void stub_str_copy_ctor(std::string * self, std::string const & o) { sso_take(self, &o); }
extern "C" void stub_str_move_ctor(std::string * self, std::string & o) { sso_take(self, &o); sso_clear(&o); }
extern "C" std::string & stub_str_move_assign(std::string * self, std::string & o) { if (self != &o) { sso_take(self, &o); sso_clear(&o); } return *self; }
extern "C" std::string & stub_str_copy_assign(std::string * self, std::string const & o) { if (self != &o) sso_take(self, &o); return *self; }
extern "C" void stub_str_dtor(std::string * self) { VASSERT(self->_M_dataplus._M_p == self->_M_local_buf, "bound: no heap-allocated string is destroyed"); }
extern "C" bool stub_str_eq(std::string const & a, std::string const & b) {
    if (a._M_string_length != b._M_string_length) return false;
    VASSERT(a._M_string_length <= 1, "bound: one-character strings");
    return a._M_string_length == 0 || a._M_dataplus._M_p[0] == b._M_dataplus._M_p[0];
}
// std::find over a vector<std::string> (libstdc++'s __find_if is unrolled four-fold; the vectors here hold <= 2 names)
using VIt = std::vector<std::string>::iterator;
extern "C" VIt stub_find_if(VIt first, VIt last, __gnu_cxx::__ops::_Iter_equals_val<std::string const> pred, std::random_access_iterator_tag) {
    for (int k = 0; k < 3; k++) {
        if (first == last) return last;
        if (stub_str_eq(*first, pred._M_value)) return first;
        ++first;
    }
    VASSERT(false, "bound: at most 2 names per term");
    return last;
}

// ---- the mutators of the three std::vector instances are fixed-capacity models (push_back, erase); the vector objects
// keep libstdc++'s layout (start / finish / end-of-storage), so begin/end/size/empty/front/back/pop_back/data stay real code.
union RawStr { char raw; std::string s; constexpr RawStr() : raw(0) {} ~RawStr() {} };     // constant-initialised, no constructor runs
using NamePair = opensmt::pair<TermName, PTRef>;
union RawPair { char raw; NamePair p; constexpr RawPair() : raw(0) {} ~RawPair() {} };
#define VCAP 2      // two names exist: at most 2 names per term, at most 2 (name, term) pairs
#define LCAP 3      // at most 3 open scopes
static RawStr str_buf_t0[VCAP], str_buf_t1[VCAP];
static RawPair pair_buf[VCAP];
static unsigned uns_buf[LCAP];
static void * term_vector_address(int j);
using StrVec = std::vector<std::string>;
using PairVec = std::vector<NamePair>;
using UnsVec = std::vector<unsigned>;
extern "C" void stub_strvec_push_back(StrVec * v, std::string const & x) {
    if (v->_M_impl._M_start == nullptr) {
        int t = (void *)v == term_vector_address(1) ? 1 : 0;
        VASSERT((void *)v == term_vector_address(t), "only the name vectors of the two terms hold strings");
        std::string * b = t == 0 ? &str_buf_t0[0].s : &str_buf_t1[0].s;
        v->_M_impl._M_start = v->_M_impl._M_finish = b; v->_M_impl._M_end_of_storage = b + VCAP;
    }
    VASSERT(v->_M_impl._M_finish != v->_M_impl._M_end_of_storage, "bound: at most 2 names per term");
    sso_take(v->_M_impl._M_finish, &x);
    ++v->_M_impl._M_finish;
}
extern "C" StrVec::iterator stub_strvec_erase(StrVec * v, StrVec::iterator pos) {
    std::string * p = &*pos;
    VASSERT(p != v->_M_impl._M_finish, "erase() is given an element, not end()  [std::find found the name]");
    for (int k = 0; k < VCAP; k++) { if (p + 1 == v->_M_impl._M_finish || p == v->_M_impl._M_finish) break; sso_take(p, p + 1); ++p; }
    if (v->_M_impl._M_finish != v->_M_impl._M_start) --v->_M_impl._M_finish;
    return pos;
}
extern "C" void stub_pairvec_push_back(PairVec * v, NamePair const & x) {
    if (v->_M_impl._M_start == nullptr) { NamePair * b = &pair_buf[0].p; v->_M_impl._M_start = v->_M_impl._M_finish = b; v->_M_impl._M_end_of_storage = b + VCAP; }
    VASSERT(v->_M_impl._M_finish != v->_M_impl._M_end_of_storage, "bound: at most 2 (name, term) pairs");
    sso_take(&v->_M_impl._M_finish->first, &x.first);
    v->_M_impl._M_finish->second = x.second;
    ++v->_M_impl._M_finish;
}
extern "C" void stub_unsvec_push_back(UnsVec * v, unsigned const & x) {
    if (v->_M_impl._M_start == nullptr) { v->_M_impl._M_start = v->_M_impl._M_finish = &uns_buf[0]; v->_M_impl._M_end_of_storage = &uns_buf[0] + LCAP; }
    VASSERT(v->_M_impl._M_finish != v->_M_impl._M_end_of_storage, "bound: at most 3 open scopes");
    *v->_M_impl._M_finish = x;
    ++v->_M_impl._M_finish;
}

static bool global_mode;
extern "C" bool stub_decl_global(SMTConfig const *) { return global_mode; }

// ---------------------------------------------------------------- array models of the two hash maps
using NMap = std::unordered_map<TermName, PTRef>;
using TMap = std::unordered_map<PTRef, std::vector<TermName>, PTRefHash>;
using NNode = std::remove_pointer_t<decltype(std::declval<NMap::iterator>()._M_cur)>;
using TNode = std::remove_pointer_t<decltype(std::declval<TMap::iterator>()._M_cur)>;
// one slot per possible key (names 'a','b'; terms 1,2); the value lives in a real node object
static NNode nnodes[NN]; static bool npresent[NN];
static TNode tnodes[NT]; static bool tpresent[NT];
static bool foreign_key;
static int nidx(TermName const & k) { char c = k.data()[0]; if (c == 'a') return 0; if (c == 'b') return 1; foreign_key = true; return 0; }
static int tidx(PTRef t) { if (t.x == 1) return 0; if (t.x == 2) return 1; return -1; }     // other terms are never named

static void * term_vector_address(int j) { return (void *)&tnodes[j]._M_valptr()->second; }

extern "C" NMap::iterator stub_n_find(NMap *, TermName const & k) { int i = nidx(k); return NMap::iterator(npresent[i] ? &nnodes[i] : nullptr); }
extern "C" NMap::iterator stub_n_end(NMap *) { return NMap::iterator(nullptr); }
extern "C" bool stub_n_contains(NMap const *, TermName const & k) { return npresent[nidx(k)]; }
extern "C" std::pair<NMap::iterator, bool> stub_n_try_emplace(NMap *, TermName const & k, PTRef & v) {
    int i = nidx(k);
    if (npresent[i]) return {NMap::iterator(&nnodes[i]), false};
    ::new ((void *)nnodes[i]._M_valptr()) NMap::value_type(k, v);
    npresent[i] = true;
    return {NMap::iterator(&nnodes[i]), true};
}
extern "C" PTRef const & stub_n_at(NMap const *, TermName const & k) {
    int i = nidx(k);
    VASSERT(npresent[i], "nameToTerm.at() only on a known name (otherwise std::out_of_range)");
    return nnodes[i]._M_valptr()->second;
}
extern "C" NMap::iterator stub_n_erase_it(NMap *, NMap::iterator it) {
    for (int i = 0; i < NN; i++) if (it._M_cur == &nnodes[i]) {
        VASSERT(npresent[i], "nameToTerm.erase(it) on a live element");
        nnodes[i]._M_valptr()->~pair();
        npresent[i] = false;
    }
    return NMap::iterator(nullptr);
}

extern "C" TMap::iterator stub_t_find(TMap *, PTRef const & k) { int i = tidx(k); return TMap::iterator(i >= 0 && tpresent[i] ? &tnodes[i] : nullptr); }
extern "C" TMap::iterator stub_t_end(TMap *) { return TMap::iterator(nullptr); }
extern "C" bool stub_t_contains(TMap const *, PTRef const & k) { int i = tidx(k); return i >= 0 && tpresent[i]; }
extern "C" std::vector<TermName> & stub_t_index(TMap *, PTRef const & k) {
    int i = tidx(k);
    if (i < 0) { foreign_key = true; i = 0; }
    if (!tpresent[i]) {
        const_cast<PTRef &>(tnodes[i]._M_valptr()->first) = k;
        StrVec & v = tnodes[i]._M_valptr()->second;     // a fresh, empty vector
        v._M_impl._M_start = v._M_impl._M_finish = v._M_impl._M_end_of_storage = nullptr;
        tpresent[i] = true;
    }
    return tnodes[i]._M_valptr()->second;
}
extern "C" std::vector<TermName> const & stub_t_at(TMap const *, PTRef const & k) {
    int i = tidx(k);
    if (i < 0) { foreign_key = true; i = 0; }
    VASSERT(tpresent[i], "termToNames.at() only on a known term (otherwise std::out_of_range)");
    return tnodes[i]._M_valptr()->second;
}
extern "C" size_t stub_t_erase_key(TMap *, PTRef const & k) {
    int i = tidx(k);
    if (i < 0 || !tpresent[i]) return 0;
    StrVec & v = tnodes[i]._M_valptr()->second;     // the map destroys the value: the model forgets the buffer
    v._M_impl._M_start = v._M_impl._M_finish = v._M_impl._M_end_of_storage = nullptr;
    tpresent[i] = false;
    return 1;
}

// ---------------------------------------------------------------- reference: a scoped list of (name, term)
struct RefMap {
    int n; int name[NN]; int term[NN];      // current names in the order they were given
    int nlim; int lim[4];                   // scoped mode: list length at each open scope
    int depth;                              // open scopes (both modes)
    bool ever[NT];
};
static RefMap M;
static bool ref_has_name(int i) { for (int k = 0; k < NN; k++) if (k < M.n && M.name[k] == i) return true; return false; }
static int ref_term_of(int i) { for (int k = 0; k < NN; k++) if (k < M.n && M.name[k] == i) return M.term[k]; return -1; }
static bool ref_term_named(int j) { for (int k = 0; k < NN; k++) if (k < M.n && M.term[k] == j) return true; return false; }

// raw, zero-initialised storage: empty vectors; the hash maps are never touched except through the models
union RawTermNames { TermNames tn; RawTermNames() {} ~RawTermNames() {} };
static RawTermNames raw;
static bool popped_a_name, shrunk_a_name, reinserted, insert_refused;

static void run_history() {
    global_mode = nondet_bool();
    TermNames & tn = raw.tn;
    std::string const names[NN] = { std::string("a"), std::string("b") };
    PTRef const terms[NT] = { PTRef{1}, PTRef{2} };
    M.n = 0; M.nlim = 0; M.depth = 0; M.ever[0] = M.ever[1] = false;
    unsigned nops = nondet_u8();
    VASSUME(nops <= NOPS);
    for (unsigned step = 0; step < NOPS; step++) if (step < nops) {
        unsigned op = nondet_u8(), i = nondet_u8() & 1, j = nondet_u8() & 1;
        VASSUME(op < 4);
        if (op == 0) {
            bool was_popped = M.ever[j] && !ref_term_named((int)j);
            bool r = tn.tryInsert(names[i], terms[j]);
            VASSERT(r == !ref_has_name((int)i), "tryInsert succeeds exactly for a name that is not current");
            if (r) { M.name[M.n] = (int)i; M.term[M.n] = (int)j; M.n++; M.ever[j] = true; if (was_popped) reinserted = true; }
            else insert_refused = true;
        } else if (op == 1) {
            VASSUME(M.depth < 3);
            tn.pushScope();
            if (!global_mode) { M.lim[M.nlim] = M.n; M.nlim++; }
            M.depth++;
        } else if (op == 2) {
            VASSUME(M.depth > 0);               // MainSolver::pop only pops an existing frame
            tn.popScope();
            if (!global_mode) { M.nlim--; if (M.lim[M.nlim] < M.n) popped_a_name = true; M.n = M.lim[M.nlim]; }
            M.depth--;
        } else {
            // rollback of a rejected command: forget the names given since there were k of them (same scope)
            unsigned k = nondet_u8();
            VASSUME(k <= (unsigned)M.n && (M.nlim == 0 || k >= (unsigned)M.lim[M.nlim - 1]));
            tn.shrinkTo(k);
            if (k < (unsigned)M.n) shrunk_a_name = true;
            M.n = (int)k;
        }
    }
    VASSERT(!foreign_key, "the maps are only asked about the names and terms of the harness");
    // every query, against the reference
    for (int i = 0; i < NN; i++) {
        bool cur = ref_has_name(i);
        VASSERT(tn.contains(names[i]) == cur, "contains(name) is true exactly for current names");
        if (cur) VASSERT(tn.termByName(names[i]).x == terms[ref_term_of(i)].x, "termByName returns the term the current name was given to");
        auto t = tn.tryGetTermByName(names[i]);
        VASSERT(t.has_value() == cur, "tryGetTermByName finds exactly the current names");
    }
    for (int j = 0; j < NT; j++) {
        bool expect = ref_term_named(j);
#ifdef KF_C21_EMPTY_VECTOR
        if (!expect && M.ever[j]) continue;     // (repaired) a term whose names were all popped stayed "named"
#endif
        VASSERT(tn.contains(terms[j]) == expect, "contains(term) is true exactly for terms with a current name");
        if (!expect && M.ever[j]) { VWITNESS("query-about-a-term-whose-names-are-all-gone"); }
        TermName const * nm = tn.tryGetNameForTerm(terms[j]);
        VASSERT((nm != nullptr) == expect, "tryGetNameForTerm returns a name exactly for terms with a current name");
        if (nm != nullptr && expect) {
            char c = nm->data()[0];
            bool ok = false;
            for (int k = 0; k < NN; k++) if (k < M.n && M.term[k] == j && c == 'a' + M.name[k]) ok = true;
            VASSERT(ok, "the name returned for a term is one of its current names");
        }
    }
    VASSERT(tn.size() == (size_t)M.n, "the scoped list holds exactly the current names");
    for (int k = 0; k < NN; k++) if (k < M.n && (size_t)k < tn.size()) {
        auto const & p = tn.scopedNamesAndTerms.data()[k];
        VASSERT(p.first.data()[0] == 'a' + M.name[k] && p.second.x == terms[M.term[k]].x, "iteration yields the current (name, term) pairs in the order they were given");
    }
}

#ifndef WITH_C06
extern "C" void h_termnames_history() {
    run_history();
    VWITNESS("history-done");
    if (popped_a_name) { VWITNESS("a-name-was-popped"); }
    if (shrunk_a_name) { VWITNESS("a-name-was-rolled-back"); }
    if (reinserted) { VWITNESS("a-popped-term-was-named-again"); }
    if (global_mode && M.n == 2 && M.depth == 0) { VWITNESS("global-mode-names-survive-pop"); }
    if (insert_refused) { VWITNESS("duplicate-name-refused"); }
}
#else
// ---------------------------------------------------------------- C06: UnsatCoreBuilder::partitionNamedTerms on top of it
// opensmt::vec<PTRef>: growth (capacity) hands out one of four static 4-element buffers; free() is a no-op
static PTRef vec_bufs[4][4]; static int n_vec_bufs;
extern "C" void stub_vec_capacity(vec<PTRef> * v, int min_cap) {
    if (v->cap >= min_cap) return;
    VASSERT(min_cap <= 4, "bound: at most 4 terms in a vec<PTRef>");
    if (v->data == nullptr) {
        VASSERT(n_vec_bufs < 4, "bound: at most 4 vec<PTRef> buffers");
        int k = n_vec_bufs++;
        v->data = k == 0 ? vec_bufs[0] : k == 1 ? vec_bufs[1] : k == 2 ? vec_bufs[2] : vec_bufs[3];
    }
    v->cap = 4;
}
extern "C" void stub_free(void *) {}
static bool minimal_cores;
extern "C" bool stub_minimal_cores(SMTConfig const *) { return minimal_cores; }
extern "C" TermNames const & stub_get_term_names(MainSolver const *) { return raw.tn; }
union RawBuilder { UnsatCoreBuilder b; RawBuilder() {} ~RawBuilder() {} };
static RawBuilder rawb;

extern "C" void h_partition_named_terms() {
    run_history();
    UnsatCoreBuilder & b = rawb.b;      // zero storage: empty vec<PTRef>s; config/solver references only reach the stubs
    minimal_cores = nondet_bool();
    // the terms the core clauses were mapped to: any non-empty duplicate-free list over term 1, term 2 and an unnamed term 3
    unsigned mask = nondet_u8() & 7;
    VASSUME(mask != 0);
    bool in_all[4] = { false, false, false, false };
    for (unsigned t = 1; t <= 3; t++) if (mask & (1u << (t - 1))) { b.allTerms.push(PTRef{t}); in_all[t] = true; }
    b.partitionNamedTerms();
    bool seen_named[4] = { false, false, false, false }, seen_hidden[4] = { false, false, false, false };
    for (int k = 0; k < b.namedTerms.size(); k++) {
        uint32_t t = b.namedTerms[k].x;
        VASSERT(t >= 1 && t <= 3 && in_all[t], "a term reported as named is one of the mapped terms");
        if (t >= 1 && t <= 3) { VASSERT(!seen_named[t], "no term is reported twice"); seen_named[t] = true; }
        VASSERT(t <= 2 && ref_term_named((int)t - 1), "every term reported as named has a CURRENT name");
    }
    for (int k = 0; k < b.hiddenTerms.size(); k++) {
        uint32_t t = b.hiddenTerms[k].x;
        VASSERT(t >= 1 && t <= 3 && in_all[t], "a hidden term is one of the mapped terms");
        if (t >= 1 && t <= 3) { VASSERT(!seen_hidden[t] && !seen_named[t], "hidden and named terms are disjoint and duplicate-free"); seen_hidden[t] = true; }
    }
    for (uint32_t t = 1; t <= 3; t++) if (in_all[t]) {
        bool named_now = t <= 2 && ref_term_named((int)t - 1);
        VASSERT(seen_named[t] == named_now, "a mapped term with a current name is reported as named");
        if (!minimal_cores) VASSERT(seen_hidden[t] == !named_now, "hidden + named = mapped terms (full partition unless minimal cores are requested)");
        else VASSERT(!seen_hidden[t], "with minimal cores the hidden terms are left to minimize()");
    }
    VWITNESS("partition-done");
    if (b.namedTerms.size() >= 1 && b.hiddenTerms.size() >= 1) { VWITNESS("named-and-hidden"); }
    if (in_all[1] && M.ever[0] && !ref_term_named(0)) { VWITNESS("mapped-term-whose-names-are-all-gone"); }
}
#endif

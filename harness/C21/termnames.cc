// C21 / C06: the real header-only TermNames (+ ScopedVector, libstdc++ unordered_map / vector / string) driven by a
// symbolic history of operations and compared with a reference scoped map.
#include "verif.h"
#include "common/TermNames.h"
using namespace opensmt;

#ifndef NOPS
#define NOPS 4
#endif
#define NN 2        // names "a", "b"
#define NT 2        // terms 1, 2

// ---- bounded primitives of std::string: every string in these harnesses fits the 15-character SSO buffer
extern "C" char * stub_ct_copy(char * d, const char * s, size_t n) {
    VASSERT(n <= 3, "bound: strings of at most 2 characters");
    for (size_t i = 0; i < 3; i++) if (i < n) d[i] = s[i];
    return d;
}
extern "C" int stub_ct_compare(const char * a, const char * b, size_t n) {
    VASSERT(n <= 3, "bound: strings of at most 2 characters");
    for (size_t i = 0; i < 3; i++) if (i < n) { unsigned char x = (unsigned char)a[i], y = (unsigned char)b[i]; if (x != y) return x < y ? -1 : 1; }
    return 0;
}
extern "C" size_t stub_ct_length(const char * s) {
    for (size_t i = 0; i < 3; i++) if (s[i] == 0) return i;
    VASSERT(false, "bound: C strings of at most 2 characters");
    return 0;
}
extern "C" char * stub_str_create(std::string *, size_t &, size_t) { VASSERT(false, "bound: no heap-allocated string (SSO only)"); return nullptr; }
extern "C" void stub_str_destroy(std::string *, size_t) { VASSERT(false, "bound: no heap-allocated string to free (SSO only)"); }

static bool global_mode;
extern "C" bool stub_decl_global(SMTConfig const *) { return global_mode; }

// ---- reference: a scoped map name -> term
struct RefMap {
    bool bound[NN]; int term[NN]; int level[NN]; int depth;
    bool ever[NT];              // the term has had a name at some time
};
static RefMap M;
static bool popped_a_name, reinserted;
static bool ref_term_named(int j) { for (int i = 0; i < NN; i++) if (M.bound[i] && M.term[i] == j) return true; return false; }

struct World {
    TermNames tn;
    std::string names[NN];
    PTRef terms[NT];
    World(SMTConfig const & c) : tn(c), names{std::string("a"), std::string("b")}, terms{PTRef{1}, PTRef{2}} {}
};

static void do_insert(World & w, unsigned i, unsigned j) {
    bool was_popped = M.ever[j] && !ref_term_named((int)j);
    bool r = w.tn.tryInsert(w.names[i], w.terms[j]);
    VASSERT(r == !M.bound[i], "tryInsert succeeds exactly for a name that is not current");
    if (r) { M.bound[i] = true; M.term[i] = (int)j; M.level[i] = M.depth; M.ever[j] = true; if (was_popped) reinserted = true; }
}
static void do_push(World & w) { w.tn.pushScope(); M.depth++; }
static void do_pop(World & w) {
    w.tn.popScope();
    if (!global_mode) for (int k = 0; k < NN; k++) if (M.bound[k] && M.level[k] == M.depth) { M.bound[k] = false; popped_a_name = true; }
    M.depth--;
}
static void query_name(World & w, unsigned i) {
    VASSERT(w.tn.contains(w.names[i]) == M.bound[i], "contains(name) is true exactly for current names");
    if (M.bound[i]) VASSERT(w.tn.termByName(w.names[i]).x == w.terms[M.term[i]].x, "termByName returns the term the current name was given to");
}
static void query_term(World & w, unsigned j) {
    bool expect = ref_term_named((int)j);
#ifdef KF_C21_EMPTY_VECTOR
    // known finding: eraseTermName leaves an empty vector in termToNames, so a term whose names were all popped
    // still counts as named (and tryGetNameForTerm then reads the front of an empty vector); such queries are excluded
    if (!expect && M.ever[j]) return;
#endif
    VASSERT(w.tn.contains(w.terms[j]) == expect, "contains(term) is true exactly for terms with a current name");
    if (!expect && M.ever[j]) { VWITNESS("query-about-a-term-whose-names-were-popped"); }
    TermName const * nm = w.tn.tryGetNameForTerm(w.terms[j]);
    VASSERT((nm != nullptr) == expect, "tryGetNameForTerm returns a name exactly for terms with a current name");
    if (nm != nullptr && expect) {
        bool ok = false;
        for (int k = 0; k < NN; k++) if (M.bound[k] && M.term[k] == (int)j && *nm == w.names[k]) ok = true;
        VASSERT(ok, "the name returned for a term is one of its current names");
    }
}

// a concrete prefix (builds a representative reachable state), then NSYM arbitrary operations, then every query
//   prefix alphabet: P push, O pop, 1 = insert(a,t1), 2 = insert(a,t2), 3 = insert(b,t1), 4 = insert(b,t2)
#ifndef NSYM
#define NSYM 1
#endif
static void reset_ref(bool global) {
    global_mode = global;
    for (int i = 0; i < NN; i++) M.bound[i] = false;
    for (int j = 0; j < NT; j++) M.ever[j] = false;
    M.depth = 0; popped_a_name = reinserted = false;
}
static void finish(World & w) {
    for (int step = 0; step < NSYM; step++) {
        unsigned op = nondet_u8();
        VASSUME(op < 6);
        if (op == 0) do_insert(w, 0, 0);
        else if (op == 1) do_insert(w, 0, 1);
        else if (op == 2) do_insert(w, 1, 0);
        else if (op == 3) do_insert(w, 1, 1);
        else if (op == 4) { VASSUME(M.depth < 3); do_push(w); }
        else { VASSUME(M.depth > 0); do_pop(w); }       // MainSolver::pop only pops an existing frame
    }
    for (unsigned i = 0; i < NN; i++) query_name(w, i);
    for (unsigned j = 0; j < NT; j++) query_term(w, j);
    unsigned cnt = 0;
    for (int k = 0; k < NN; k++) if (M.bound[k]) cnt++;
    VASSERT(w.tn.size() == cnt, "the scoped list holds exactly the current names");
    VWITNESS("scenario-done");
    if (popped_a_name) { VWITNESS("a-name-was-popped"); }
}
// prefix "", scoped mode
extern "C" void h_tn_empty() { unsigned char fc[8]; World w(*reinterpret_cast<SMTConfig const *>(fc)); reset_ref(false);  finish(w); }
// prefix "1", scoped mode
extern "C" void h_tn_one() { unsigned char fc[8]; World w(*reinterpret_cast<SMTConfig const *>(fc)); reset_ref(false); do_insert(w, 0, 0); finish(w); }
// prefix "13", scoped mode
extern "C" void h_tn_two_same_term() { unsigned char fc[8]; World w(*reinterpret_cast<SMTConfig const *>(fc)); reset_ref(false); do_insert(w, 0, 0); do_insert(w, 1, 0); finish(w); }
// prefix "14", scoped mode
extern "C" void h_tn_two_terms() { unsigned char fc[8]; World w(*reinterpret_cast<SMTConfig const *>(fc)); reset_ref(false); do_insert(w, 0, 0); do_insert(w, 1, 1); finish(w); }
// prefix "P1", scoped mode
extern "C" void h_tn_pushed_one() { unsigned char fc[8]; World w(*reinterpret_cast<SMTConfig const *>(fc)); reset_ref(false); do_push(w); do_insert(w, 0, 0); finish(w); }
// prefix "1P3", scoped mode
extern "C" void h_tn_outer_inner() { unsigned char fc[8]; World w(*reinterpret_cast<SMTConfig const *>(fc)); reset_ref(false); do_insert(w, 0, 0); do_push(w); do_insert(w, 1, 0); finish(w); }
// prefix "1P4", scoped mode
extern "C" void h_tn_outer_inner2() { unsigned char fc[8]; World w(*reinterpret_cast<SMTConfig const *>(fc)); reset_ref(false); do_insert(w, 0, 0); do_push(w); do_insert(w, 1, 1); finish(w); }
// prefix "P1O", scoped mode
extern "C" void h_tn_popped() { unsigned char fc[8]; World w(*reinterpret_cast<SMTConfig const *>(fc)); reset_ref(false); do_push(w); do_insert(w, 0, 0); do_pop(w); finish(w); }
// prefix "1P3O", scoped mode
extern "C" void h_tn_popped_inner() { unsigned char fc[8]; World w(*reinterpret_cast<SMTConfig const *>(fc)); reset_ref(false); do_insert(w, 0, 0); do_push(w); do_insert(w, 1, 0); do_pop(w); finish(w); }
// prefix "P1P4", scoped mode
extern "C" void h_tn_two_levels() { unsigned char fc[8]; World w(*reinterpret_cast<SMTConfig const *>(fc)); reset_ref(false); do_push(w); do_insert(w, 0, 0); do_push(w); do_insert(w, 1, 1); finish(w); }
// prefix "P1", global mode
extern "C" void h_tn_g_pushed_one() { unsigned char fc[8]; World w(*reinterpret_cast<SMTConfig const *>(fc)); reset_ref(true); do_push(w); do_insert(w, 0, 0); finish(w); }
// prefix "P1O", global mode
extern "C" void h_tn_g_popped() { unsigned char fc[8]; World w(*reinterpret_cast<SMTConfig const *>(fc)); reset_ref(true); do_push(w); do_insert(w, 0, 0); do_pop(w); finish(w); }
// prefix "1P4", global mode
extern "C" void h_tn_g_two() { unsigned char fc[8]; World w(*reinterpret_cast<SMTConfig const *>(fc)); reset_ref(true); do_insert(w, 0, 0); do_push(w); do_insert(w, 1, 1); finish(w); }

// the shortest history behind DESIGN 7-F1, straight-line: a name given inside a scope that is then popped
extern "C" void h_popped_name_is_gone() {
    global_mode = false;
    unsigned char fc[8];
    TermNames tn(*reinterpret_cast<SMTConfig const *>(fc));
    std::string const a("a");
    PTRef const t{1};
    tn.pushScope();
    bool r = tn.tryInsert(a, t);
    VASSERT(r, "a fresh name can be given");
    VASSERT(tn.contains(t), "the term is named inside the scope");
    tn.popScope();
    VASSERT(!tn.contains(a), "after the pop the name is unknown");
    VASSERT(tn.size() == 0, "after the pop the scoped list is empty");
#ifndef KF_C21_EMPTY_VECTOR
    // known finding (guarded): eraseTermName leaves an empty vector in termToNames
    VASSERT(!tn.contains(t), "after the pop the term has no name any more");
#endif
    bool r2 = tn.tryInsert(a, t);
    VASSERT(r2, "a popped name can be given again");
    VASSERT(tn.contains(t) && tn.contains(a), "and is then known again");
    VWITNESS("popped-and-renamed");
}

// C20: the framing loop of Interpret::interpPipe (real code) against (A1) a second arbitrary chunking of the
// same bytes and (A2) a reference top-level s-expression scanner written from smt2newlexer.ll.
#include "verif.h"
#include "api/Interpret.h"
#include <unistd.h>
using namespace opensmt;

// initial size of interpPipe's line buffer: 16, or the value of the verification hook (OPENSMT_VERIF_HOOKS)
#ifdef OPENSMT_VERIF_PIPE_BUFFER_SIZE
#define LINE0 OPENSMT_VERIF_PIPE_BUFFER_SIZE
#else
#define LINE0 16
#endif
#ifndef NBYTES
#define NBYTES 6
#endif
#define MAXF (NBYTES / 2)          // a frame has at least the two bytes "()"
#ifdef GROW
#define LINECAP (2 * LINE0)          // the line buffer is doubled once
#else
#define LINECAP LINE0
#endif

// ---------------------------------------------------------------- symbolic environment
static unsigned char input[NBYTES + 1];
static int in_len;
static int in_pos;
static bool eof_seen;
static uint32_t cut_mask;          // bit p set: a read() call started at input offset p (0 < p < in_len)
static bool parse_fail[MAXF + 1];  // verdict of the parser on the k-th frame (arbitrary, the same for every chunking)
static int exit_at;                // the k-th frame is an (exit) command; MAXF = no exit
enum Policy { ANY, BYTEWISE, ONESHOT };
static Policy policy;              // how read() cuts the input: arbitrarily, one byte per call, everything in one call

struct Log {
    unsigned char fr[MAXF + 1][NBYTES + 1];
    int len[MAXF + 1];
    int n;          // frames handed to the parser (while alive)
    bool err;       // notify_formatted(true, ..) seen (while alive)
    bool dead;      // (exit) executed or "unbalanced parentheses" reported: the reader stops, later noise is not compared
    bool tail_parsed;   // at EOF the reader handed the unframed rest of its line buffer to the parser
};
static Log logs[2];
static Log * cur;
// how stub_yyparse treats the frame it is handed: record it, compare it with the frame recorded by the first run,
// or compare it with the frame [s,e] of the reference scanner
enum Mode { LOG, CMPLOG, CMPREF };
static Mode mode;
struct Ref {
    int n; int s[MAXF + 1], e[MAXF + 1];
    int tail_s;             // first byte after the last complete frame
    bool unbalanced;        // a ')' at depth 0
    bool tail_token;        // some token (or an unterminated literal) after the last complete frame
    bool string_backslash;  // a backslash inside a string literal (the lexer reads \" and \\ as escapes)
    bool comment_paren, string_paren, qsym_paren, string_semicolon, escaped_quote;
};
static Ref R;

// allocation model: interpPipe's line buffer is 16 bytes, doubled by realloc; the frame buffer is malloc(i+2).
// Fixed objects of exactly the requested sizes, so that CBMC's bounds checks are the buffer-overflow checks.
static char buf16[LINE0];
static char buf32[2 * LINE0];
static char out_buf[NBYTES + 2];
static bool line_given;
static unsigned out_cap;
static bool out_live;

extern "C" void * stub_malloc(size_t n) {
    if (!line_given) {
        line_given = true;
        VASSERT(n == LINE0, "bound: initial line buffer has the configured size");
        return buf16;
    }
    VASSERT(!out_live, "frame buffer of the previous frame was freed");
    VASSERT(n <= sizeof(out_buf), "bound: frame buffer fits the model buffer");
    out_cap = (unsigned)n;
    out_live = true;
    return out_buf;
}
extern "C" void * stub_realloc(void * p, size_t n) {
#ifndef GROW
    VASSERT(false, "bound: the line buffer is never grown for inputs shorter than 15 bytes");
    return p;
#else
    VASSERT(p == (void *)buf16 && n == 2 * LINE0, "bound: exactly one doubling of the line buffer");
    for (int j = 0; j < LINE0; j++) buf32[j] = buf16[j];
    return buf32;
#endif
}
extern "C" void stub_free(void * p) {
    if (p == (void *)out_buf) { VASSERT(out_live, "no double free of the frame buffer"); out_live = false; }
}

extern "C" ssize_t stub_read(int fd, void * p, size_t cnt) {
    VASSERT(fd == 0, "reads standard input");
    VASSERT(cnt >= 1, "read is asked for at least one byte");
    char * d = (char *)p;
    d[cnt - 1] = 0;                 // the whole range offered to read() must be inside the line buffer (CBMC bounds check)
    int rem = in_len - in_pos;
    if (rem <= 0) { eof_seen = true; return 0; }
    if (in_pos > 0) cut_mask |= 1u << in_pos;
    unsigned n;
    if (policy == BYTEWISE) n = 1;
    else if (policy == ONESHOT) { n = (unsigned)rem; VASSUME(n <= cnt); }
    else { n = nondet_u8(); VASSUME(n >= 1 && n <= (unsigned)rem && n <= cnt); }
    for (unsigned j = 0; j < NBYTES; j++) if (j < n) d[j] = (char)input[in_pos + j];
    in_pos += (int)n;
    return (ssize_t)n;
}

extern "C" void stub_ctx_ctor(Smt2newContext * c, char * s) { c->ib = s; c->root = nullptr; }

extern "C" int stub_yyparse(Smt2newContext * c) {
    char * s = c->ib;
    if (cur->dead) return 1;
    if (s != out_buf) {
        // not a frame: the reader shows the parser what is left in its line buffer at EOF, so that leftover tokens
        // get the parser's diagnostic; blanks and comments alone are an empty script
        VASSERT(eof_seen && !cur->tail_parsed, "only at EOF, and only once, is the parser handed something that is not a frame");
        cur->tail_parsed = true;
        unsigned L = LINECAP;
        for (unsigned j = 0; j < NBYTES + 1; j++) {
            unsigned char ch = (unsigned char)s[j];
            if (ch == 0) { L = j; break; }
            VASSERT(R.tail_s + (int)j < in_len && ch == input[R.tail_s + j], "A2: the text parsed at EOF is the input after the last complete frame");
        }
        VASSERT((int)L == in_len - R.tail_s, "A2: the text parsed at EOF is all of the input after the last complete frame");
        return R.tail_token ? 1 : 0;
    }
    VASSERT(out_live, "the parser is handed the freshly allocated frame buffer");
    int k = cur->n;
    VASSERT(k < MAXF, "no more frames than pairs of bytes");
    if (k >= MAXF) return 1;
    // one pass over the frame text: find its end, and record / compare each byte on the way
    unsigned L = NBYTES + 1;
    for (unsigned j = 0; j < NBYTES + 1; j++) {
        if (j >= out_cap) break;
        unsigned char ch = (unsigned char)s[j];
        if (ch == 0) { L = j; break; }
        if (j >= NBYTES) break;
        if (mode == LOG) cur->fr[k][j] = ch;
        else if (mode == CMPLOG) VASSERT(ch == logs[0].fr[k][j], "A1: frame contents agree");
        else VASSERT(k < R.n && R.s[k] + (int)j <= R.e[k] && ch == input[R.s[k] + j], "A2: frame bytes are the input bytes from the end of the previous frame to the closing parenthesis");
    }
    VASSERT(L < out_cap && L <= NBYTES, "frame text is NUL-terminated inside its allocation");
    if (mode == LOG) {
        cur->len[k] = (int)L;
    } else if (mode == CMPLOG) {
        VASSERT(k < logs[0].n, "A1: the second chunking frames nothing that the first did not");
        VASSERT((int)L == logs[0].len[k], "A1: frame lengths agree");
    } else {
        VASSERT(k < R.n, "A2: every frame handed to the parser is a top-level s-expression of the reference scanner");
        VASSERT((int)L == R.e[k] - R.s[k] + 1, "A2: frame length is that of the reference frame");
    }
    cur->n = k + 1;
    return parse_fail[k] ? 1 : 0;
}

extern "C" void stub_execute(Interpret * self, const ASTNode *) {
    if (cur->dead || cur->tail_parsed) return;
    if (cur->n - 1 == exit_at) { self->f_exit = true; cur->dead = true; }
}

extern "C" void stub_notify(Interpret *, bool error, const char * fmt, ...) {
    if (cur->dead) return;
    if (error) {
        cur->err = true;
        if (fmt[0] == 'p') cur->dead = true;      // "pipe reader: unbalanced parentheses": the reader gives up
    }
}

// ---------------------------------------------------------------- reference scanner (from smt2newlexer.ll)
// INITIAL:  \;.*  comment (up to, not including, the newline) | [ \t\n]+ blanks | ( | ) | " -> STR | '|' -> PSYM | other: token text
// STR:      \" and \\ are two-character escapes; any other single character (a lone backslash is echoed and skipped by
//           flex's default rule) belongs to the literal; " ends it
// PSYM:     everything up to the next | (a backslash is a lexical error raised by the lexer when the frame is parsed)
static bool is_paren(unsigned char c) { return c == '(' || c == ')'; }

static void ref_scan() {
    R.n = 0; R.unbalanced = false; R.tail_token = false; R.string_backslash = false;
    R.comment_paren = R.string_paren = R.qsym_paren = R.string_semicolon = R.escaped_quote = false;
    int pos = 0, depth = 0, start = 0;
    bool token = false;
    while (pos < in_len) {
        unsigned char c = input[pos];
        pos++;
        if (c == ';') {
            while (pos < in_len && input[pos] != '\n') { if (is_paren(input[pos]) && depth > 0) R.comment_paren = true; pos++; }
        } else if (c == ' ' || c == '\n') {
        } else if (c == '"') {
            token = true;
            while (pos < in_len && input[pos] != '"') {
                if (is_paren(input[pos]) && depth > 0) R.string_paren = true;
                if (input[pos] == ';') R.string_semicolon = true;
                if (input[pos] == '\\') {
                    R.string_backslash = true;
                    if (pos + 1 < in_len && (input[pos + 1] == '"' || input[pos + 1] == '\\')) { if (input[pos + 1] == '"') R.escaped_quote = true; pos++; }
                }
                pos++;
            }
            pos++;                  // closing quote (or past the end: unterminated, stays a tail token)
        } else if (c == '|') {
            token = true;
            while (pos < in_len && input[pos] != '|') { if (is_paren(input[pos]) && depth > 0) R.qsym_paren = true; pos++; }
            pos++;
        } else if (c == '(') {
            token = true; depth++;
        } else if (c == ')') {
            token = true; depth--;
            if (depth == 0) {
                if (R.n < MAXF) { R.s[R.n] = start; R.e[R.n] = pos - 1; }
                R.n++;
                start = pos; token = false;
            } else if (depth < 0) { R.unbalanced = true; break; }
        } else {
            token = true;           // 'a' (a simple symbol character) or a backslash outside literals (lexical error of that frame)
        }
    }
    R.tail_s = start;
    R.tail_token = !R.unbalanced && token;
}

static void symbolic_input() {
    in_len = nondet_u8();
    VASSUME(in_len >= 0 && in_len <= NBYTES);
    for (int i = 0; i < NBYTES; i++) {
        unsigned char c = nondet_u8();
#ifdef SMALL_ALPHABET
        VASSUME(c == '(' || c == ')' || c == '"' || c == 'a');
#else
        VASSUME(c == '(' || c == ')' || c == ';' || c == '"' || c == '|' || c == '\n' || c == 'a' || c == ' ' || c == '\\');
#endif
        input[i] = c;
    }
    for (int k = 0; k <= MAXF; k++) parse_fail[k] = nondet_bool();
    exit_at = nondet_u8();
    VASSUME(exit_at >= 0 && exit_at <= MAXF);
    ref_scan();
    VASSERT(R.n <= MAXF, "reference: frame bound");
#ifdef KF_C20_STRING_ESCAPE
    // known finding: the pipe reader does not know the lexer's \" and \\ escapes inside string literals
    VASSUME(!R.string_backslash);
#endif
#ifdef KF_C20_EOF_TAIL
    // known finding: text after the last complete top-level s-expression is dropped without any diagnostic at EOF
    VASSUME(!R.tail_token);
#endif
}

// raw, correctly typed storage for the interpreter object (no constructor runs)
union RawInterpret { Interpret obj; RawInterpret() {} ~RawInterpret() {} };
static RawInterpret storage0, storage1;

static void run_pipe(int which) {
    cur = &logs[which];
    cur->n = 0; cur->err = false; cur->dead = false; cur->tail_parsed = false;
    in_pos = 0; eof_seen = false; line_given = false; out_live = false; out_cap = 0; cut_mask = 0;
    Interpret * I = which == 0 ? &storage0.obj : &storage1.obj;
    I->f_exit = false;              // the only field interpPipe itself reads
    int rv = I->interpPipe();
    VASSERT(rv == 0, "interpPipe returns 0");
    VASSERT(in_pos == in_len || cur->dead, "the reader consumes its input up to EOF unless it stopped on exit/unbalanced");
}

// ---------------------------------------------------------------- A1: chunking independence
extern "C" void h_chunking() {
    symbolic_input();
    policy = ANY;
    mode = LOG;
    run_pipe(0);
    uint32_t cuts0 = cut_mask;
    mode = CMPLOG;
    run_pipe(1);
    uint32_t cuts1 = cut_mask;
    Log & a = logs[0]; Log & b = logs[1];
    VASSERT(a.n == b.n, "A1: both chunkings hand the same number of frames to the parser");
    VASSERT(a.err == b.err, "A1: both chunkings report an error or neither does");
    VWITNESS("two-runs-done");
    if (cuts0 != cuts1 && a.n >= 1) { VWITNESS("different-chunkings-with-a-frame"); }
}

// ---------------------------------------------------------------- A2: frames = top-level s-expressions of the reference
static void reference_run() {
    mode = CMPREF;
    run_pipe(0);
    Log & a = logs[0];
    // expected behaviour
    int en = 0; bool eerr = false, edead = false;
    for (int k = 0; k < MAXF; k++) if (k < R.n && !edead) {
        en = k + 1;
        if (parse_fail[k]) eerr = true;
        else if (exit_at == k) edead = true;
    }
    if (!edead && R.unbalanced) { eerr = true; edead = true; }
    VASSERT(a.n == en, "A2: the parser is called once per top-level s-expression of the reference scanner");
    if (!edead && R.tail_token) {
        VASSERT(a.err, "A2: input left over after the last complete frame (file mode: syntax error) is reported, not dropped");
    } else {
        VASSERT(a.err == eerr, "A2: an error is reported exactly for a rejected frame or an unbalanced ')'");
    }
    VWITNESS("reference-done");
}
static bool some_frame_split() {
    for (int k = 0; k < MAXF; k++) if (k < logs[0].n && k < R.n) {
        uint32_t inside = 0;
        for (int p = 1; p < NBYTES; p++) if (p > R.s[k] && p <= R.e[k]) inside |= 1u << p;
        if (cut_mask & inside) return true;
    }
    return false;
}

extern "C" void h_reference() {
    symbolic_input();
    policy = ANY;
    reference_run();
    Log & a = logs[0];
    if (a.n >= 1 && some_frame_split()) { VWITNESS("frame-split-across-reads"); }
#if NBYTES >= 5
    if (a.n >= 1 && R.string_paren) { VWITNESS("string-literal-contains-paren"); }
#endif
}
// every read() returns one byte: every state of the scanner is carried across a read boundary at every position
extern "C" void h_reference_bytewise() {
    symbolic_input();
    policy = BYTEWISE;
    reference_run();
    Log & a = logs[0];
    if (a.n >= 1 && R.string_paren && some_frame_split()) { VWITNESS("string-literal-contains-paren-split-across-reads"); }
#if NBYTES >= 6
    if (a.n >= 1 && R.string_paren && R.string_semicolon) { VWITNESS("string-literal-contains-paren-and-semicolon"); }
    if (a.n >= 1 && R.escaped_quote) { VWITNESS("frame-with-escaped-quote"); }
#endif
}
// the whole input arrives in one read(): all frames are cut out of one buffer
extern "C" void h_reference_oneshot() {
    symbolic_input();
    policy = ONESHOT;
    reference_run();
    Log & a = logs[0];
    if (a.n >= 1 && (R.comment_paren || R.qsym_paren)) { VWITNESS("comment-or-quoted-symbol-with-paren-inside-a-frame"); }
    if (R.tail_token && a.tail_parsed && a.err) { VWITNESS("leftover-tokens-reported-at-eof"); }
#if NBYTES >= 6
    if (R.unbalanced && a.n >= 1) { VWITNESS("unbalanced-after-a-frame"); }
    if (a.n >= 3) { VWITNESS("three-frames"); }
#endif
}

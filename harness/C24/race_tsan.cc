// two independent computations on big rationals in two threads
#include "common/numbers/FastRational.h"
#include <thread>
#include <cstdio>
using namespace opensmt;
static void work(int seed, FastRational * out) {
    FastRational acc("1000000000000000000000000000001");
    for (int i = 0; i < 300; i++) {
        FastRational t("123456789012345678901234567");
        t *= FastRational(seed + i);
        acc += t;
        acc /= FastRational("99999999999999999999");
    }
    *out = acc;
}
int main() {
    FastRational a, b, a2, b2;
    work(1, &a2); work(2, &b2);              // sequential reference
    std::thread t1(work, 1, &a), t2(work, 2, &b);
    t1.join(); t2.join();
    printf("%s\n", (a == a2 && b == b2) ? "same" : "DIFFERENT");
}

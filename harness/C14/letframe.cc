// C14 (second sentence: terms read from SMT-LIB input denote what the input denotes): the real Interpret::addLetFrame with the real
// LetRecords/LetBinder bookkeeping implements SMT-LIB's PARALLEL let: in (let ((b0 r0) (b1 r1)) body) every right-hand side is read in
// the scope OUTSIDE the let, and afterwards b0, b1 are bound to exactly those terms; popFrame restores the outer scope.
#include "verif.h"
#include "api/Interpret.h"
#include <cstdlib>
using namespace opensmt;

static uint32_t pick(uint32_t below) { uint32_t c = nondet_u8(); VASSUME(c < below); return c; }
// names: "x","y","z".  Global scope (declared constants): x -> 201, y -> 202, z -> 203.
static PTRef global_of(char c) { return PTRef{201u + (uint32_t)(c - 'x')}; }
static PTRef seen[4]; static int n_seen; static bool bad_node;
// Interpret::parseTerm for the bound terms (each is a symbol): let-bound name -> its CURRENT binding in letRecords, else the global constant
extern "C" PTRef stub_parseTerm(Interpret *, ASTNode const & term, LetRecords & lr) {
    char const * s = term.getValue();
    if (s == nullptr || s[0] < 'x' || s[0] > 'z' || s[1] != 0) { bad_node = true; return PTRef_Undef; }
    PTRef r = lr.getOrUndef(s);
    if (r == PTRef_Undef) r = global_of(s[0]);
    if (n_seen < 4) seen[n_seen] = r;
    n_seen++;
    return r;
}
extern "C" bool stub_hasSym(Logic *, char const *) { return false; }     // the bound names are not symbols marked "no scoping"

static char * mkname(char c) { char * p = (char *)malloc(2); p[0] = c; p[1] = 0; return p; }
static ASTNode * binding(char name, char rhs) {
    ASTNode * vb = new ASTNode(TERM_T, mkname(name));
    vb->children = new std::vector<ASTNode *>();
    vb->children->push_back(new ASTNode(TERM_T, mkname(rhs)));
    return vb;
}
union InterpBox { Interpret i; InterpBox() {} ~InterpBox() {} };
static InterpBox ibox; static uint64_t fake_logic[2];

// one scenario = one outer scope (OX/OY: an enclosing let binds x / y) and one pair of right-hand sides; everything concrete per
// scenario (symbolic string contents / conditionally built hash tables make the libstdc++ containers explode); the entry selects the
// scenario symbolically, so all 36 are decided in one query
template<bool OX, bool OY, int R0, int R1> static void scenario() {
    Interpret * I = &ibox.i;
    *reinterpret_cast<void **>(&I->logic) = fake_logic;
    LetRecords lr; lr.pushFrame();
    if (OX) lr.addBinding("x", PTRef{101});
    if (OY) lr.addBinding("y", PTRef{102});
    PTRef outer[3] = { OX ? PTRef{101} : global_of('x'), OY ? PTRef{102} : global_of('y'), global_of('z') };
    // (let ((x r0) (y r1)) ...)   (binding names of one let are pairwise different: SMT-LIB)
    ASTNode * bindings = new ASTNode(TERM_T, (char *)nullptr);
    bindings->children = new std::vector<ASTNode *>();
    bindings->children->push_back(binding('x', (char)('x' + R0)));
    bindings->children->push_back(binding('y', (char)('x' + R1)));
    n_seen = 0; bad_node = false;
    lr.pushFrame();
    bool ok = I->addLetFrame(*bindings, lr);
    VASSERT(ok && !bad_node && n_seen == 2, "both bindings are read, each right-hand side once");
    VASSERT(seen[0] == outer[R0], "first right-hand side is resolved in the scope outside the let");
    VASSERT(seen[1] == outer[R1], "second right-hand side is resolved in the scope outside the let (parallel let, not let*)");
    VASSERT(lr.getOrUndef("x") == outer[R0] && lr.getOrUndef("y") == outer[R1], "after the frame both names are bound to the terms of the outer scope");
    VASSERT(lr.getOrUndef("z") == PTRef_Undef, "other names stay unbound");
    lr.popFrame();
    VASSERT(lr.getOrUndef("x") == (OX ? PTRef{101} : PTRef_Undef) && lr.getOrUndef("y") == (OY ? PTRef{102} : PTRef_Undef), "popFrame restores the outer bindings");
    VWITNESS("done");
}
template<bool OX, bool OY> static void outer_scope() {
    uint32_t r = pick(9);
    switch (r) {
    case 0: scenario<OX, OY, 0, 0>(); break; case 1: scenario<OX, OY, 0, 1>(); break; case 2: scenario<OX, OY, 0, 2>(); break;
    case 3: scenario<OX, OY, 1, 0>(); VWITNESS("swap-x-y"); break; case 4: scenario<OX, OY, 1, 1>(); break; case 5: scenario<OX, OY, 1, 2>(); break;
    case 6: scenario<OX, OY, 2, 0>(); VWITNESS("second-rhs-mentions-first-name"); break; case 7: scenario<OX, OY, 2, 1>(); break;
    default: scenario<OX, OY, 2, 2>(); VWITNESS("rhs-free-of-bound-names"); break;
    }
}
extern "C" void h_let_global()  { outer_scope<false, false>(); }   // x, y denote global constants outside the let
extern "C" void h_let_nested()  { outer_scope<true, true>(); }     // x, y bound by an enclosing let (shadowing)
extern "C" void h_let_mixed()   { if (nondet_bool()) outer_scope<true, false>(); else outer_scope<false, true>(); }

// C14 (second sentence: terms read from SMT-LIB input denote what the input denotes): the real Interpret::addLetFrame with the real
// LetRecords/LetBinder bookkeeping implements SMT-LIB's PARALLEL let: in (let ((b0 r0) (b1 r1)) body) every right-hand side is read in
// the scope OUTSIDE the let, and afterwards b0, b1 are bound to exactly those terms; popFrame restores the outer scope.
#include "verif.h"
#include "api/Interpret.h"
#include <cstdlib>
using namespace opensmt;

static uint32_t pick(uint32_t below) { uint32_t c = nondet_u8(); VASSUME(c < below); return c; }
// names: "x","y","z".  Global scope (declared constants): x -> 201, y -> 202, z -> 203.
static PTRef global_of(char c) { return PTRef{201u + (uint32_t)(c - 'x')}; }

// ---- LetRecords model: the std::unordered_map<std::string, LetBinder> / std::vector<std::string> containers of the real LetRecords do
// not scale in CBMC; the model keeps the same bookkeeping over an array indexed by the (one-letter) name, with the REAL LetBinder objects
// (current value + shadow stack) and the same frame logic as LetRecords::pushFrame/popFrame/addBinding/getOrUndef.
union BinderBox { LetBinder b; BinderBox() {} ~BinderBox() {} };
static BinderBox binders[3]; static bool has_binder[3];
static int known[8]; static int n_known; static int frame_limit[4]; static int n_frames; static bool model_overflow, bad_name;
static int name_index(char const * s) { if (s == nullptr || s[0] < 'x' || s[0] > 'z' || s[1] != 0) { bad_name = true; return 0; } return s[0] - 'x'; }
static void m_reset() { for (int i = 0; i < 3; i++) has_binder[i] = false; n_known = n_frames = 0; model_overflow = bad_name = false; }
static void m_pushFrame() { if (n_frames >= 4) { model_overflow = true; return; } frame_limit[n_frames++] = n_known; }
static void m_popFrame() {
    if (n_frames == 0) { model_overflow = true; return; }
    int limit = frame_limit[--n_frames];
    while (n_known > limit) { int i = known[--n_known]; if (binders[i].b.hasShadowValue()) binders[i].b.restoreShadowedValue(); else has_binder[i] = false; }
}
static void m_addBinding(int i, PTRef arg) {
    if (!has_binder[i]) { new (&binders[i].b) LetBinder(arg); has_binder[i] = true; } else binders[i].b.addValue(arg);
    if (n_known >= 8) { model_overflow = true; return; }
    known[n_known++] = i;
}
static PTRef m_get(int i) { return has_binder[i] ? binders[i].b.getValue() : PTRef_Undef; }
extern "C" void stub_addBinding(LetRecords *, std::string const & name, PTRef arg) { if (name.size() != 1) { bad_name = true; return; } m_addBinding(name_index(name.c_str()), arg); }
extern "C" PTRef stub_getOrUndef(LetRecords const *, char const * s) { return m_get(name_index(s)); }

static PTRef seen[4]; static int n_seen; static bool bad_node;
// Interpret::parseTerm for the bound terms (each is a symbol): let-bound name -> its CURRENT binding in letRecords, else the global constant
extern "C" PTRef stub_parseTerm(Interpret *, ASTNode const & term, LetRecords & lr) {
    char const * s = term.getValue();
    if (s == nullptr || s[0] < 'x' || s[0] > 'z' || s[1] != 0) { bad_node = true; return PTRef_Undef; }
    PTRef r = lr.getOrUndef(s);
    if (r == PTRef_Undef) r = global_of(s[0]);
    if (n_seen < 4) seen[n_seen] = r;
    n_seen++;
    return r;
}
extern "C" bool stub_hasSym(Logic *, char const *) { return false; }     // the bound names are not symbols marked "no scoping"

// AST in static, typed storage (no heap): node = {type, tok, val, children}; children vectors laid out by hand over static arrays
union NodeBox { ASTNode n; NodeBox() {} ~NodeBox() {} };
union VecBox { std::vector<ASTNode *> v; VecBox() {} ~VecBox() {} };
static NodeBox nb_root, nb_vb[2], nb_rhs[2]; static VecBox vb_root, vb_vb[2];
static ASTNode * arr_root[2]; static ASTNode * arr_vb[2][1]; static char names[4][2];
static void set_vec(std::vector<ASTNode *> & v, ASTNode ** a, int n) { v._M_impl._M_start = a; v._M_impl._M_finish = a + n; v._M_impl._M_end_of_storage = a + n; }
static ASTNode * build_let(char b0, char r0, char b1, char r1) {
    char const bn[2] = {b0, b1}, rn[2] = {r0, r1};
    for (int k = 0; k < 2; k++) {
        names[k][0] = bn[k]; names[k][1] = 0; names[2 + k][0] = rn[k]; names[2 + k][1] = 0;
        new (&nb_rhs[k].n) ASTNode(TERM_T, names[2 + k]);
        new (&nb_vb[k].n) ASTNode(TERM_T, names[k]);
        arr_vb[k][0] = &nb_rhs[k].n; set_vec(vb_vb[k].v, arr_vb[k], 1); nb_vb[k].n.children = &vb_vb[k].v;
        arr_root[k] = &nb_vb[k].n;
    }
    new (&nb_root.n) ASTNode(TERM_T, (char *)nullptr);
    set_vec(vb_root.v, arr_root, 2); nb_root.n.children = &vb_root.v;
    return &nb_root.n;
}
union InterpBox { Interpret i; InterpBox() {} ~InterpBox() {} };
static InterpBox ibox; static uint64_t fake_logic[2];

union RecBox { LetRecords r; RecBox() {} ~RecBox() {} };
static RecBox recbox;        // never constructed: every LetRecords member function used is redirected to the model
// One scenario = outer scope (OX/OY: an enclosing let binds x / y), binding order B0 and right-hand sides R0, R1: executed with concrete
// strings (symbolic string contents make the encoding explode); the entries select the scenario symbolically, all are decided.
template<bool OX, bool OY, int B0, int R0, int R1> static void scenario() {
    Interpret * I = &ibox.i;
    *reinterpret_cast<void **>(&I->logic) = fake_logic;
    LetRecords & lr = recbox.r;
    m_reset(); m_pushFrame();
    if (OX) m_addBinding(0, PTRef{101});
    if (OY) m_addBinding(1, PTRef{102});
    PTRef outer[3] = { OX ? PTRef{101} : global_of('x'), OY ? PTRef{102} : global_of('y'), global_of('z') };
    const int B1 = 1 - B0;     // binding names of one let are pairwise different (SMT-LIB)
    ASTNode * bindings = build_let((char)('x' + B0), (char)('x' + R0), (char)('x' + B1), (char)('x' + R1));
    n_seen = 0; bad_node = false;
    m_pushFrame();
    bool ok = I->addLetFrame(*bindings, lr);
    VASSERT(!model_overflow && !bad_name && !bad_node, "harness model bounds suffice, only the names of the let are used");
    VASSERT(ok && n_seen == 2, "both bindings are read, each right-hand side once");
    VASSERT(seen[0] == outer[R0], "first right-hand side is resolved in the scope outside the let");
    VASSERT(seen[1] == outer[R1], "second right-hand side is resolved in the scope outside the let (parallel let, not let*)");
    VASSERT(m_get(B0) == outer[R0] && m_get(B1) == outer[R1], "after the frame both names are bound to the terms of the outer scope");
    VASSERT(m_get(2) == PTRef_Undef, "other names stay unbound");
    m_popFrame();
    VASSERT(m_get(0) == (OX ? PTRef{101} : PTRef_Undef) && m_get(1) == (OY ? PTRef{102} : PTRef_Undef), "popFrame restores the outer bindings");
    VWITNESS("done");
    if (OX || OY) { VWITNESS("enclosing-let-shadowed"); } else { VWITNESS("outer-scope-global"); }
}
// quick tier: the scope-sensitive shapes, one concrete scenario per entry (each costs ~1 min of SAT time: std::string and
// std::vector<pair<PTRef,std::string>> inside addLetFrame live on CBMC's byte-level heap)
extern "C" void h_let_swap()                { scenario<false, false, 0, 1, 0>(); }   // (let ((x y) (y x)) ..), x, y global
extern "C" void h_let_swap_nested()         { scenario<true, true, 0, 1, 0>(); }     // same under an enclosing let of x and y
extern "C" void h_let_second_uses_first()   { scenario<false, false, 0, 2, 0>(); }   // (let ((x z) (y x)) ..), x global
extern "C" void h_let_second_uses_first_nested() { scenario<true, false, 0, 2, 0>(); } // x bound by an enclosing let
extern "C" void h_let_first_uses_second()   { scenario<false, false, 0, 1, 2>(); }   // (let ((x y) (y z)) ..)
extern "C" void h_let_first_uses_second_rev() { scenario<true, false, 1, 0, 2>(); }  // (let ((y x) (x z)) ..), x bound by an enclosing let
extern "C" void h_let_self_nested()         { scenario<true, true, 0, 0, 1>(); }     // (let ((x x) (y y)) ..) under an enclosing let
extern "C" void h_let_free()                { scenario<false, false, 0, 2, 2>(); }   // (let ((x z) (y z)) ..)

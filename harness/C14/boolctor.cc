// C14: the real Boolean simplifying constructors of Logic (mkAnd/mkOr/mkXor/mkImpl/mkIte/mkNot/mkEq/mkDistinct on Bool)
// return a term whose value equals op(values of the arguments) -- for ALL valuations sigma and ALL argument tuples over a
// SYMBOLIC TERM UNIVERSE (table of <= UK nodes of symbolic shape, each carrying its value under one symbolic sigma).
#include "verif.h"
#include "logics/Logic.h"
#include <cstring>
#include <cstdlib>
using namespace opensmt;

#ifndef UK
#define UK 6            // nodes of the initial universe (node 0 = true, node 1 = false)
#endif
#define UKMAX (UK + 5)   // room for the nodes the constructor creates
#define MAXCH 3
enum : uint32_t { S_TRUE = 1, S_FALSE, S_AND, S_OR, S_XOR, S_NOT, S_EQ, S_IMPLIES, S_DISTINCT, S_ITE, S_UFNOT, S_VAR0 = 20 };
#define SORT_BOOL 0u

static uint32_t nodes[UKMAX][3 + MAXCH];   // raw Pterm per node: header(size<<6) | id | sym | args[]; PTRef.x == node index
static bool     value[UKMAX];              // value of the node under sigma
static int      n_nodes; static bool bad_ref, overflow, bad_sym; static int created;

static int  nsz(int i) { return (int)(nodes[i][0] >> 6); }
static uint32_t nsym(int i) { return nodes[i][2]; }
static void set_node(int i, uint32_t sym, int n, uint32_t a, uint32_t b, uint32_t c) { nodes[i][0] = (uint32_t)n << 6; nodes[i][1] = i; nodes[i][2] = sym; nodes[i][3] = a; nodes[i][4] = b; nodes[i][5] = c; }
static bool eval_node(uint32_t sym, int n, const uint32_t * a, bool & ok) {
    ok = true;
    switch (sym) {
    case S_AND: { bool r = true; for (int i = 0; i < n; i++) r = r && value[a[i]]; return r; }
    case S_OR: { bool r = false; for (int i = 0; i < n; i++) r = r || value[a[i]]; return r; }
    case S_NOT: ok = (n == 1); return !value[a[0]];
    case S_XOR: ok = (n == 2); return value[a[0]] != value[a[1]];
    case S_EQ: ok = (n == 2); return value[a[0]] == value[a[1]];
    case S_IMPLIES: ok = (n == 2); return !value[a[0]] || value[a[1]];
    case S_ITE: ok = (n == 3); return value[a[0]] ? value[a[1]] : value[a[2]];
    case S_DISTINCT: ok = (n == 2); return value[a[0]] != value[a[1]];
    default: ok = false; return false;
    }
}

// ---------------- stubs (answer from the table) ----------------
extern "C" Pterm & stub_getPterm(Logic *, PTRef t) { if (t.x >= (uint32_t)n_nodes) { bad_ref = true; return *reinterpret_cast<Pterm *>(nodes[0]); } return *reinterpret_cast<Pterm *>(nodes[t.x]); }
extern "C" bool stub_hasSortBool(Logic *, PTRef t) { if (t.x >= (uint32_t)n_nodes) bad_ref = true; return true; }       // one-sorted universe: every node is Bool
extern "C" SRef stub_getSortRef(Logic *, PTRef t) { if (t.x >= (uint32_t)n_nodes) bad_ref = true; return SRef{SORT_BOOL}; }
extern "C" bool stub_isConstantSym(Logic *, SymRef s) { return s.x == S_TRUE || s.x == S_FALSE; }
// Logic::mkFun = hash-consing lookup-or-create: the same (symbol, args) gives the same node; a new node gets its value from its children
extern "C" PTRef stub_mkFun(Logic *, SymRef s, vec<PTRef> && args) {
    int n = args.size(); uint32_t a[MAXCH] = {0, 0, 0};
    if (n < 1 || n > MAXCH) { overflow = true; return PTRef{0}; }
    for (int i = 0; i < n; i++) { a[i] = args[i].x; if (a[i] >= (uint32_t)n_nodes) { bad_ref = true; return PTRef{0}; } }
    for (int j = 0; j < n_nodes; j++)
        if (nsym(j) == s.x && nsz(j) == n && (n < 1 || nodes[j][3] == a[0]) && (n < 2 || nodes[j][4] == a[1]) && (n < 3 || nodes[j][5] == a[2])) return PTRef{(uint32_t)j};
    if (n_nodes >= UKMAX) { overflow = true; return PTRef{0}; }
    bool ok; bool v = eval_node(s.x, n, a, ok); if (!ok) bad_sym = true;
    int id = n_nodes++; set_node(id, s.x, n, a[0], a[1], a[2]); value[id] = v; created++;
    return PTRef{(uint32_t)id};
}
// minisat vec<T>::capacity replaced by a fixed-capacity allocation (8 elements, never reallocated): a symbolic-size realloc makes the
// encoding explode; the vec implementation is not the subject here. A request beyond 8 elements is flagged.
#define VCAP 8
template<class T> static void fixed_capacity(vec<T> * v, int min_cap) {
    if (v->cap >= min_cap) return;
    if (min_cap > VCAP) { overflow = true; return; }
    if (v->data == nullptr) v->data = (T *)malloc(VCAP * sizeof(T));
    v->cap = VCAP;
}
extern "C" void stub_cap_ptref(vec<PTRef> * v, int m) { fixed_capacity(v, m); }
extern "C" void stub_cap_ptasgn(vec<PtAsgn> * v, int m) { fixed_capacity(v, m); }
extern "C" void stub_termSort(Logic * l, vec<PTRef> & v) { l->Logic::termSort(v); }                 // virtual slot -> real Logic::termSort
extern "C" PTRef stub_mkBinaryEq(Logic * l, PTRef a, PTRef b) { return l->Logic::mkBinaryEq(a, b); } // virtual slot -> real Logic::mkBinaryEq

template<class F> static size_t vslot(F f) { uintptr_t raw[2]; memcpy(raw, &f, sizeof raw); return (raw[0] - 1) / sizeof(void *); }

// raw, correctly typed storage for the Logic object: the union member is never constructed (typed fields let CBMC propagate constants)
union LogicBox { Logic l; LogicBox() {} ~LogicBox() {} };
static LogicBox logic_box;
static void * fake_vt[96];
static Logic * L;

static uint32_t pick(uint32_t below) { uint32_t c = nondet_u8(); VASSUME(c < below); return c; }

// Builds the symbolic universe. Invariants assumed (each is established by the real constructors / PtStore):
//  U1 node 0 is the unique `true`, node 1 the unique `false` (term_TRUE/term_FALSE), values 1/0
//  U2 children are earlier nodes (every term is created after its subterms)
//  U3 the argument of a `not` node is neither a constant nor a `not` (mkNot never builds such a node)
//  U4 hash-consing: no two nodes have the same symbol and the same argument list; each variable has its own symbol
//  U5 value(node) = op(value(children)); variables (= opaque Bool atoms) have an arbitrary value
static void build_universe() {
    set_node(0, S_TRUE, 0, 0, 0, 0); value[0] = true;
    set_node(1, S_FALSE, 0, 0, 0, 0); value[1] = false;
    for (int i = 2; i < UK; i++) {
        uint32_t kind = pick(7), a = pick(i), b = pick(i), c = pick(i);
        bool ok;
        switch (kind) {
        case 0: set_node(i, S_VAR0 + i, 0, 0, 0, 0); value[i] = nondet_bool(); break;
        case 1: VASSUME(a >= 2 && nsym(a) != S_NOT); set_node(i, S_NOT, 1, a, 0, 0); break;
        case 2: { int n = 2 + (nondet_u8() & 1); set_node(i, S_AND, n, a, b, n == 3 ? c : 0); break; }
        case 3: { int n = 2 + (nondet_u8() & 1); set_node(i, S_OR, n, a, b, n == 3 ? c : 0); break; }
        case 4: set_node(i, S_XOR, 2, a, b, 0); break;
        case 5: set_node(i, S_EQ, 2, a, b, 0); break;
        default: set_node(i, S_ITE, 3, a, b, c); break;
        }
        if (kind != 0) value[i] = eval_node(nsym(i), nsz(i), &nodes[i][3], ok);
        for (int j = 2; j < i; j++)
            VASSUME(!(nsym(j) == nsym(i) && nsz(j) == nsz(i) && nodes[j][3] == nodes[i][3] && nodes[j][4] == nodes[i][4] && nodes[j][5] == nodes[i][5]));
    }
    n_nodes = UK; bad_ref = overflow = bad_sym = false; created = 0;
    // Logic object in raw storage: only the fields the constructors read are filled
    L = &logic_box.l;
    fake_vt[vslot(&Logic::termSort)] = (void *)&stub_termSort;
    fake_vt[vslot(static_cast<PTRef (Logic::*)(PTRef, PTRef)>(&Logic::mkBinaryEq))] = (void *)&stub_mkBinaryEq;
    *reinterpret_cast<void **>(L) = (void *)fake_vt;
    L->sort_BOOL = SRef{SORT_BOOL}; L->term_TRUE = PTRef{0}; L->term_FALSE = PTRef{1};
    L->sym_TRUE = SymRef{S_TRUE}; L->sym_FALSE = SymRef{S_FALSE}; L->sym_AND = SymRef{S_AND}; L->sym_OR = SymRef{S_OR}; L->sym_XOR = SymRef{S_XOR};
    L->sym_NOT = SymRef{S_NOT}; L->sym_UF_NOT = SymRef{S_UFNOT}; L->sym_EQ = SymRef{S_EQ}; L->sym_IMPLIES = SymRef{S_IMPLIES}; L->sym_DISTINCT = SymRef{S_DISTINCT}; L->sym_ITE = SymRef{S_ITE};
    // sortToIte / sortToEquality: real minisat Map objects laid out by hand (1 bucket, 1 entry: Bool -> ite / =); Map::operator[] stays real
    typedef Map<SRef, SymRef, SRefHash> SMap;
    static SMap::Pair pIte, pEq; static uint64_t vIte[2], vEq[2];
    pIte.key = SRef{SORT_BOOL}; pIte.data = SymRef{S_ITE}; pEq.key = SRef{SORT_BOOL}; pEq.data = SymRef{S_EQ};
    vec<SMap::Pair> * bi = reinterpret_cast<vec<SMap::Pair> *>(vIte), * be = reinterpret_cast<vec<SMap::Pair> *>(vEq);
    bi->data = &pIte; bi->sz = 1; bi->cap = 1; be->data = &pEq; be->sz = 1; be->cap = 1;
    L->sortToIte.table = bi; L->sortToIte.cap = 1; L->sortToIte.size = 1;
    L->sortToEquality.table = be; L->sortToEquality.cap = 1; L->sortToEquality.size = 1;
}
static bool V(PTRef r) { return value[r.x]; }
static void check(PTRef res, bool expected) {
    VASSERT(!bad_ref && !overflow && !bad_sym, "constructor only touches nodes of the universe and builds well-formed nodes");
    VASSERT(res.x < (uint32_t)n_nodes, "result is a term of the universe");
    if (res.x < (uint32_t)n_nodes) { VASSERT(V(res) == expected, "value(result) == op(values of the arguments)"); }
    VWITNESS("returned");
    if (res.x < 2) { VWITNESS("simplified-to-constant"); }
    else if (res.x < UK) { VWITNESS("simplified-to-existing-term"); }
    else { VWITNESS("new-term-created"); }
}
// the argument vector is built with a CONCRETE length per branch (a symbolic-length vec makes CBMC's symbolic execution explode)
enum Ctor { C_AND, C_OR, C_XOR, C_IMPL, C_ITE, C_EQ, C_DISTINCT };
template<int N> static PTRef call(Ctor c, PTRef const * a) {
    vec<PTRef> args; for (int i = 0; i < N; i++) args.push(a[i]);
    switch (c) {
    case C_AND: return L->mkAnd(std::move(args));
    case C_OR: return L->mkOr(std::move(args));
    case C_XOR: return L->mkXor(std::move(args));
    case C_IMPL: return L->mkImpl(std::move(args));
    case C_ITE: return L->mkIte(std::move(args));
    case C_EQ: return L->mkEq(std::move(args));
    default: return L->mkDistinct(std::move(args));
    }
}
static PTRef calln(Ctor c, int n, PTRef const * a) {
    switch (n) { case 0: return call<0>(c, a); case 1: return call<1>(c, a); case 2: return call<2>(c, a); case 3: return call<3>(c, a); default: return call<4>(c, a); }
}
static void pick_args(PTRef * a) { for (int i = 0; i < 4; i++) a[i] = PTRef{pick(UK)}; }
static bool is_neg_of(PTRef x, PTRef y) { return nsym(x.x) == S_NOT && nodes[x.x][3] == y.x; }
static void arg_witness2(PTRef * a) {        // only for entries with >= 2 arguments
    if (a[0] == a[1]) { VWITNESS("repeated-argument"); }
    if (is_neg_of(a[1], a[0])) { VWITNESS("complementary-arguments"); }
    if (a[0].x < 2) { VWITNESS("constant-argument"); }
}

template<int lo, int hi> static void run_andor(Ctor c) {
    build_universe(); int n = lo + (int)pick(hi - lo + 1); PTRef a[4]; pick_args(a);
    bool e = (c == C_AND); for (int i = 0; i < n; i++) e = (c == C_AND) ? (e && V(a[i])) : (e || V(a[i]));
    PTRef r = calln(c, n, a); check(r, e);
    uint32_t sym = (c == C_AND) ? S_AND : S_OR;
    if constexpr (hi >= 2) { if (n >= 2) arg_witness2(a); }
    if constexpr (hi >= 3) {
        if (r.x >= UK && nsym(r.x) == sym && nsz(r.x) < n) { VWITNESS("argument-dropped"); }
        if (n == hi && r.x >= UK && nsym(r.x) == sym && nsz(r.x) == n) { VWITNESS("max-arity-kept"); }
        if (n == hi && r.x >= 2 && r.x < UK && nsym(r.x) == sym) { VWITNESS("existing-term-found"); }
    }
}
extern "C" void h_mkAnd()  { run_andor<0, 2>(C_AND); }
extern "C" void h_mkAnd3() { run_andor<3, 3>(C_AND); }
extern "C" void h_mkOr()   { run_andor<0, 2>(C_OR); }
extern "C" void h_mkOr3()  { run_andor<3, 3>(C_OR); }
extern "C" void h_mkXor()  { build_universe(); PTRef a[4]; pick_args(a); bool e = V(a[0]) != V(a[1]); PTRef r = call<2>(C_XOR, a); check(r, e); arg_witness2(a); if (created >= 2) { VWITNESS("auxiliary-negation-created"); } }
extern "C" void h_mkImpl() { build_universe(); PTRef a[4]; pick_args(a); bool e = !V(a[0]) || V(a[1]); PTRef r = call<2>(C_IMPL, a); check(r, e); arg_witness2(a); if (created >= 2) { VWITNESS("auxiliary-negation-created"); } }
extern "C" void h_mkIte()  { build_universe(); PTRef a[4]; pick_args(a); bool e = V(a[0]) ? V(a[1]) : V(a[2]); PTRef r = call<3>(C_ITE, a); check(r, e); arg_witness2(a); if (a[1] == a[2]) { VWITNESS("equal-branches"); } }

// C28: commutative constructors are insensitive to the order of their arguments - the two calls return the SAME term identity
// (the constructor sorts its arguments before the hash-consing lookup)
static void run_commut(Ctor c) {
    build_universe(); PTRef a[4]; pick_args(a);
    PTRef ab[2] = {a[0], a[1]}, ba[2] = {a[1], a[0]};
    PTRef r1 = call<2>(c, ab); PTRef r2 = call<2>(c, ba);
    VASSERT(!bad_ref && !overflow && !bad_sym, "constructor only touches nodes of the universe and builds well-formed nodes");
    VASSERT(r1 == r2, "swapping the two arguments of a commutative constructor gives the same term identity");
    VWITNESS("returned"); if (r1.x >= UK) { VWITNESS("new-term-created"); } if (a[0].x > a[1].x) { VWITNESS("arguments-given-in-descending-order"); }
}
extern "C" void h_commut_and() { run_commut(C_AND); }
extern "C" void h_commut_or()  { run_commut(C_OR); }
extern "C" void h_commut_xor() { run_commut(C_XOR); }
extern "C" void h_mkNot()  {
    build_universe(); PTRef a[4]; pick_args(a); bool e = !V(a[0]); PTRef r = L->mkNot(a[0]); check(r, e);
    if (nsym(a[0].x) == S_NOT) { VWITNESS("double-negation"); }
    if (a[0].x < 2) { VWITNESS("constant-argument"); }
}
extern "C" void h_mkEq() {    // Bool equality (iff)
    build_universe(); PTRef a[4]; pick_args(a); bool e = V(a[0]) == V(a[1]);
    PTRef r = call<2>(C_EQ, a); check(r, e); arg_witness2(a);
    if (created >= 2) { VWITNESS("auxiliary-negation-created"); }
}
extern "C" void h_mkEq3() {   // chain (= a b c) -> and of binary equalities
    build_universe(); PTRef a[4]; pick_args(a); bool e = V(a[0]) == V(a[1]) && V(a[1]) == V(a[2]);
    PTRef r = call<3>(C_EQ, a); check(r, e); arg_witness2(a);
    if (r.x >= UK && nsym(r.x) == S_AND) { VWITNESS("conjunction-of-two-equalities"); }
}
extern "C" void h_mkDistinct() {
    build_universe(); int n = pick(4); PTRef a[4]; pick_args(a);
    bool e = true; for (int i = 0; i < n; i++) for (int j = i + 1; j < n; j++) e = e && (V(a[i]) != V(a[j]));
    PTRef r = calln(C_DISTINCT, n, a); check(r, e); if (n == 2) arg_witness2(a); if (n == 3) { VWITNESS("three-bools"); }
}

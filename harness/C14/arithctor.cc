// C14 / C29: the real arithmetic term constructors of ArithLogic -- mkTimes(vec&&) with SimplifyConst::simplify, simplifyConstOp and
// SimplifyConstTimes::constSimplify, mkPlus, mkNeg, mkMinus, mkBinaryLeq/Geq/Lt/Gt (sumToNormalizedInequality), mkBinaryEq
// (sumToNormalizedEquality) -- return a term whose VALUE under an arbitrary valuation of the variables equals the SMT-LIB operator
// applied to the values of the arguments, or (products only) end in LANonLinearException.
//
// Term universe: the node table of stu_arith.h (Node/kinds/symbol numbering and its accessor cut points) extended by a value per node.
// The STRUCTURE of the universe is concrete (a fixed set of 14 well-formed linear terms, see build_universe) and every argument tuple
// over it is enumerated by concrete loops, so that CBMC's symbolic execution runs the real constructors like an interpreter; the
// VALUATION of the variables is symbolic, i.e. each (universe, argument tuple) is decided for all valuations at once by the solver.
// (A universe of symbolic SHAPE with symbolic argument choice was tried first: symbolic execution of one mkTimes call with one
//  symbolic argument did not finish in 15 minutes, see CLAIM.json.)
#ifndef STU_MAXN
#define STU_MAXN 44
#endif
#include "stu_arith.h"
#include <new>
#include <string>
#include <cstring>
using namespace opensmt;
using namespace stu;

// ---------------------------------------------------------------- valued node table
enum : uint32_t { SYM_TRUE = 5, SYM_FALSE = 6, SYM_NOT = 7, SYM_EQ = 8 };
constexpr uint32_t SORT_BOOL = 0, SORT_INT = 7, SORT_REAL = 8;
static int32_t val[MAXN];       // value of node i under the valuation sigma (Booleans 0/1)
static bool isB[MAXN];          // node is a formula
static bool badv[MAXN];         // value of the node left the range the harness computes exactly (such a node must never be RETURNED)
static bool bad_ref, bad_sym, overflow, other_exc;
// Storage that the real code works on is TYPED and static (defined in arithctor_rt.c with the generated struct types): CBMC keeps a
// malloc'ed object as one byte array and rewrites all of it on every store, which makes symbolic execution 10-50x slower.
extern "C" {
extern ArithLogic ac_logic;                 // raw logic object: never constructed, only the fields the constructors read are filled
extern FastRational ac_fr[STU_MAXN];        // numbers of the constant nodes
}
static_assert(sizeof(ArithLogic) <= 16384 && sizeof(FastRational) == 24 && STU_MAXN <= 64, "native replay storage in arithctor_rt.c too small");
static PTRef ac_vbuf[40][8]; static int ac_nvbuf;     // buffers of minisat vec<PTRef> (fixed capacity 8)
static int ac_ibuf[24][8]; static int ac_nibuf;       // buffers of minisat vec<int>
// operator new (the std::vector<Entry> of mkPlus): one zero-initialised 256-byte block per request (separate objects, so that a store
// rewrites 32 words and not the whole pool), reset per run
static uint64_t ac_heap0[32], ac_heap1[32], ac_heap2[32], ac_heap3[32], ac_heap4[32], ac_heap5[32], ac_heap6[32], ac_heap7[32]; static unsigned ac_nheap;
static int created, U, UA;      // U = nodes of the initial universe, UA = the arithmetic ones among them (0..UA-1)

// a * b for |a| < 128, |b| < 2^20, written without a multiplier circuit (a full-width multiplier against the solver does not scale)
// (branch-free: a branch on a symbolic value makes CBMC fork and merge its whole state)
static int32_t smul(int32_t a, int32_t b, bool & bad) {
    bad |= (a <= -128) | (a >= 128) | (b <= -(1 << 20)) | (b >= (1 << 20));
    uint32_t neg = (uint32_t)(a < 0), m = 0u - neg;
    uint32_t ua = ((uint32_t)a ^ m) + neg, ub = (uint32_t)b, r = 0;
    r += ub & (0u - (ua & 1));
    r += (ub << 1) & (0u - ((ua >> 1) & 1));
    r += (ub << 2) & (0u - ((ua >> 2) & 1));
    r += (ub << 3) & (0u - ((ua >> 3) & 1));
    r += (ub << 4) & (0u - ((ua >> 4) & 1));
    r += (ub << 5) & (0u - ((ua >> 5) & 1));
    r += (ub << 6) & (0u - ((ua >> 6) & 1));
    return (int32_t)((r ^ m) + neg);
}
// Pterm storage: one static row per node (header | id | sym | args[4]); unused argument slots hold a poison reference, so reading an
// argument that does not exist and using it is reported by the accessors ("term reference outside the term table").
// Shadow copies (sh_*) of symbol / arity / arguments serve the hash-consing lookups of the stubs.
#define POISON 0xFFFFFF00u
static uint32_t pstore[MAXN][3 + 4];
static uint32_t sh_sym[MAXN], sh_a[MAXN][4]; static int sh_n[MAXN];
// appends a node (caller guarantees room) and computes its value from its children by the SMT-LIB semantics of the operator
static PTRef newNode(Kind k, uint32_t sym, int nargs, PTRef const * a) {
    int id = nnodes++;
    Node & n = nodes[id];
    n.kind = k; n.nargs = (uint8_t)nargs; n.num = nullptr; n.cval = 0;
    n.pt = reinterpret_cast<Pterm *>(pstore[id]);
    pstore[id][0] = (uint32_t)nargs << 6; pstore[id][1] = (uint32_t)id; pstore[id][2] = sym;
    sh_sym[id] = sym; sh_n[id] = nargs;
    bool bad = false; int32_t v = 0; bool b = false;
    for (int i = 0; i < 4; i++) {
        uint32_t x = i < nargs ? a[i].x : POISON;
        pstore[id][3 + i] = x; sh_a[id][i] = x;
        if (i < nargs) bad |= badv[x];
    }
    switch (k) {
    case K_PLUS: for (int i = 0; i < 4; i++) if (i < nargs) { if (isB[a[i].x]) bad_sym = true; v = (int32_t)((uint32_t)v + (uint32_t)val[a[i].x]); } break;
    case K_TIMES: v = 1; for (int i = 0; i < 4; i++) if (i < nargs) { if (isB[a[i].x]) bad_sym = true; v = smul(val[a[i].x], v, bad); } break;
    case K_LEQ: if (nargs != 2 || isB[a[0].x] || isB[a[1].x]) bad_sym = true; else v = val[a[0].x] <= val[a[1].x]; b = true; break;
    case K_EQ: if (nargs != 2 || isB[a[0].x] != isB[a[1].x]) bad_sym = true; else v = val[a[0].x] == val[a[1].x]; b = true; break;
    case K_NOT: if (nargs != 1 || !isB[a[0].x]) bad_sym = true; else v = !val[a[0].x]; b = true; break;
    default: break;   // leaves: value set by the caller
    }
    bad |= (v <= -(1 << 20)) | (v >= (1 << 20));
    val[id] = v; isB[id] = b; badv[id] = bad;
    return PTRef{(uint32_t)id};
}
static PTRef newConst(int32_t v) {        // small integer constant in word representation; every constant has its own symbol
    PTRef r = newNode(K_CONST, SYM_CONST0 + nnodes, 0, nullptr);
    Node & n = nodes[r.x];
    n.cval = v; val[r.x] = v;
    n.num = &ac_fr[r.x];
    n.num->state = State::WORD_VALID; n.num->num = v; n.num->den = 1; n.num->mpq = nullptr;
    return r;
}
static PTRef newVar(int i, int32_t lo, int32_t hi) {
    PTRef r = newNode(K_VAR, SYM_VAR0 + i, 0, nullptr);
    int32_t v = (int8_t)nondet_u8(); VASSUME(v >= lo && v <= hi); val[r.x] = v;
    return r;
}
static PTRef node2(Kind k, uint32_t sym, uint32_t a, uint32_t b) { PTRef x[2] = {PTRef{a}, PTRef{b}}; return newNode(k, sym, 2, x); }
static PTRef node3(Kind k, uint32_t sym, uint32_t a, uint32_t b, uint32_t c) { PTRef x[3] = {PTRef{a}, PTRef{b}, PTRef{c}}; return newNode(k, sym, 3, x); }
static bool ref_ok(PTRef r) { return r.x < (uint32_t)nnodes; }

// ---------------------------------------------------------------- cut points (answered from the table)
static bool boolSym(SymRef s) { return s.x == SYM_LEQ || (s.x >= SYM_TRUE && s.x <= SYM_EQ); }
extern "C" {
Pterm * stub_pterm(void *, PTRef r) {
    VASSERT(r.x < (uint32_t)nnodes, "term reference outside the term table (undefined, poison or garbage PTRef dereferenced)");
    VASSUME(r.x < (uint32_t)nnodes);
    return reinterpret_cast<Pterm *>(pstore[r.x]);
}
FastRational const * stub_getNumConst(void *, PTRef r) {
    VASSERT(r.x < (uint32_t)nnodes && nodes[r.x].kind == K_CONST, "getNumConst applied to a term that is not a numeric constant");
    VASSUME(r.x < (uint32_t)nnodes && nodes[r.x].kind == K_CONST);
    return &ac_fr[r.x];
}
SRef stub_getSortRefTerm(void *, PTRef t) { if (!ref_ok(t)) { bad_ref = true; return SRef{SORT_INT}; } return SRef{isB[t.x] ? SORT_BOOL : SORT_INT}; }
SRef stub_getSortRefSym(void *, SymRef s) { return SRef{boolSym(s) ? SORT_BOOL : SORT_INT}; }
SRef stub_getUniqueArgSort(void *, SymRef s) { return SRef{s.x == SYM_NOT ? SORT_BOOL : SORT_INT}; }
bool stub_yieldsSortInt(void *, SymRef s) { return !boolSym(s) && s.x < SYM_REAL0; }
bool stub_false_ptref(void *, PTRef) { return false; }
bool stub_false_sym(void *, SymRef) { return false; }
bool stub_false(void *) { return false; }
bool stub_hasSortBool(void *, PTRef t) { return ref_ok(t) && isB[t.x]; }
// Logic::pp (only used for the text of LANonLinearException) and the exception's constructor (string concatenation): cut
void stub_pp(std::string * out, void *, PTRef) { new (out) std::string(); }
void stub_nonlinear_ctor(LANonLinearException * self, char const * r) {     // base and (empty) message are constructed: the native replay destroys the object
    new (static_cast<std::runtime_error *>(self)) std::runtime_error(r);
    new (&self->msg) std::string();
}
// ArithLogic::mkConst(SRef, Number const &): hash-consed numeric constant = the node with that value, else a new constant node
PTRef stub_mkConstNumber(ArithLogic *, SRef, FastRational const & c) {
    if (!c.wordPartValid() || c.den != 1 || c.num <= -128 || c.num >= 128) { overflow = true; return PTRef{0}; }   // small integers only
    int32_t v = c.num;
    for (int j = 0; j < MAXN; j++) { if (j >= nnodes) break; if (nodes[j].kind == K_CONST && nodes[j].cval == v) return PTRef{(uint32_t)j}; }
    if (nnodes >= MAXN) { overflow = true; return PTRef{0}; }
    created++;
    return newConst(v);
}
// Logic::mkFun: hash-consing lookup-or-create. The same (symbol, arguments) is the same node; a new node gets its value from its children.
PTRef stub_mkFun(Logic *, SymRef s, vec<PTRef> && args) {
    int n = args.size(); PTRef a[4];
    if (n < 0 || n > 4) { overflow = true; return PTRef{0}; }
    for (int i = 0; i < 4; i++) {
        a[i] = i < n ? args[i] : PTRef{POISON};
        if (i < n && !ref_ok(a[i])) { bad_ref = true; return PTRef{0}; }
    }
    for (int j = 0; j < MAXN; j++) {
        if (j >= nnodes) break;
        if (sh_sym[j] == s.x && sh_n[j] == n && sh_a[j][0] == a[0].x && sh_a[j][1] == a[1].x && sh_a[j][2] == a[2].x && sh_a[j][3] == a[3].x) return PTRef{(uint32_t)j};
    }
    Kind k = s.x == SYM_PLUS ? K_PLUS : s.x == SYM_TIMES ? K_TIMES : s.x == SYM_LEQ ? K_LEQ : s.x == SYM_EQ ? K_EQ : s.x == SYM_NOT ? K_NOT : K_OTHER;
    if (k == K_OTHER || n == 0) { bad_sym = true; return PTRef{0}; }     // a leaf symbol that is not in the table, or an unknown operator
    if (nnodes >= MAXN) { overflow = true; return PTRef{0}; }
    created++;
    return newNode(k, s.x, n, a);
}
// minisat Map<PTRef, uint32_t, PTRefHash> (the local variable->index map of mkPlus) replaced by an 8-entry association list: the real one
// allocates and destroys a 31-bucket hash table per call, which CBMC's symbolic execution cannot keep concrete. `table` points at the list.
struct MapModel { uint32_t key[8]; uint32_t data[8]; };
typedef Map<PTRef, uint32_t, PTRefHash> VarIdxMap;
static MapModel ac_map[4]; static int ac_nmap;
void stub_map_ctor(VarIdxMap * m) { m->table = reinterpret_cast<vec<VarIdxMap::Pair> *>(&ac_map[ac_nmap & 3]); ac_nmap++; m->cap = 8; m->size = 0; }
void stub_map_dtor(VarIdxMap *) {}
bool stub_map_has(VarIdxMap const * m, PTRef const & k) {
    MapModel * t = reinterpret_cast<MapModel *>(m->table);
    for (int i = 0; i < 8; i++) if (i < m->size && t->key[i] == k.x) return true;
    return false;
}
void stub_map_insert(VarIdxMap * m, PTRef const & k, uint32_t const & d) {
    MapModel * t = reinterpret_cast<MapModel *>(m->table);
    if (m->size >= 8) { overflow = true; return; }
    t->key[m->size] = k.x; t->data[m->size] = d; m->size++;
}
uint32_t & stub_map_index(VarIdxMap * m, PTRef const & k) {
    MapModel * t = reinterpret_cast<MapModel *>(m->table);
    int at = 0; bool found = false;
    for (int i = 0; i < 8; i++) if (i < m->size && t->key[i] == k.x) { at = i; found = true; }
    if (!found) bad_ref = true;      // precondition of Map::operator[]: the key exists
    return t->data[at];
}
// minisat vec<T>::capacity replaced by one fixed-capacity buffer per vec (8 elements, never reallocated; a larger request is flagged),
// operator new by bump allocation from a static pool, operator delete / free by no-ops: CBMC's malloc/realloc/free models record
// allocated and freed objects nondeterministically, which makes every later pointer check symbolic
#define VCAP 8
void stub_cap_ptref(vec<PTRef> * v, int m) {
    if (v->cap >= m) return;
    if (m > VCAP || (v->data == nullptr && ac_nvbuf >= 40)) { overflow = true; return; }
    if (v->data == nullptr) v->data = ac_vbuf[ac_nvbuf++];
    v->cap = VCAP;
}
void stub_cap_int(vec<int> * v, int m) {
    if (v->cap >= m) return;
    if (m > VCAP || (v->data == nullptr && ac_nibuf >= 24)) { overflow = true; return; }
    if (v->data == nullptr) v->data = ac_ibuf[ac_nibuf++];
    v->cap = VCAP;
}
void * stub_opnew(unsigned long n) {
    if (n > 256 || ac_nheap >= 8) { overflow = true; ac_nheap = 0; }
    switch (ac_nheap++) {
    case 0: return ac_heap0; case 1: return ac_heap1; case 2: return ac_heap2; case 3: return ac_heap3;
    case 4: return ac_heap4; case 5: return ac_heap5; case 6: return ac_heap6; default: return ac_heap7;
    }
}
bool stub_isUF(void *, PTRef) { return false; }
void stub_termSort(ArithLogic * l, vec<PTRef> & v) { l->ArithLogic::termSort(v); }            // virtual slot -> the real ArithLogic::termSort
#ifdef ARITH_CMP
PTRef stub_vmkBinaryEq(ArithLogic * l, PTRef a, PTRef b) { return l->ArithLogic::mkBinaryEq(a, b); }   // virtual slot -> the real ArithLogic::mkBinaryEq
#endif
}
template <class F> static int vslot(F pmf) {   // vtable slot of a virtual member function (Itanium ABI pointer-to-member encoding)
    union { F f; struct { intptr_t ptr; intptr_t adj; } r; } u;
    u.f = pmf;
    return (int)((u.r.ptr - 1) / 8);
}
static void * fake_vt[128];

// ---------------------------------------------------------------- the universe
// Arithmetic nodes (UA = 14), every one a term the real constructors build (linear normal forms):
//   0: 0    1: 1    2: -1    3: x    4: y    5: 2    6: -3
//   7: (* 2 x)   constant first (mkPlus / mkTimes)        8: (* y -1)  variable first (mkNeg)
//   9: (+ x 1)   10: (+ y 1)   11: (+ x y)   12: (+ (* 2 x) (* y -1) -3)   13: (+ 2 (* y -1))
// With -DARITH_CMP additionally 14: true, 15: false (results of the comparisons).
// Invariants this universe satisfies (each is what the real constructors establish):
//   A1 numeric constants are hash-consed: one node per value; term_Int_ZERO/ONE/MINUSONE are nodes 0/1/2
//   A2 a product node is (constant, variable) or (variable, constant), constant not 0 or 1; a sum has >= 2 arguments, no sum, no 0, at most
//      one constant and each variable at most once among its arguments
//   A3 hash-consing: no two nodes with the same symbol and argument list; every variable / constant has its own symbol
//   A4 value(node) = operator(value(children)); x, y arbitrary in [-7,7]
enum : uint32_t { N_ZERO = 0, N_ONE, N_MONE, N_X, N_Y, N_2, N_M3, N_2X, N_NEGY, N_XP1, N_YP1, N_XPY, N_S3, N_2MY, N_ARITH };
static void build_universe() {
    init_logic(&ac_logic);
    bad_ref = bad_sym = overflow = other_exc = false; created = 0;
    newConst(0); newConst(1); newConst(-1);
    newVar(0, -7, 7); newVar(1, -7, 7);
    newConst(2); newConst(-3);
    node2(K_TIMES, SYM_TIMES, N_2, N_X);
    node2(K_TIMES, SYM_TIMES, N_Y, N_MONE);
    node2(K_PLUS, SYM_PLUS, N_X, N_ONE);
    node2(K_PLUS, SYM_PLUS, N_Y, N_ONE);
    node2(K_PLUS, SYM_PLUS, N_X, N_Y);
    node3(K_PLUS, SYM_PLUS, N_2X, N_NEGY, N_M3);
    node2(K_PLUS, SYM_PLUS, N_2, N_NEGY);
    UA = nnodes;
    L->sort_INT = SRef{SORT_INT}; L->sort_REAL = SRef{SORT_REAL}; L->sort_BOOL = SRef{SORT_BOOL};
    L->term_Int_ZERO = PTRef{N_ZERO}; L->term_Int_ONE = PTRef{N_ONE}; L->term_Int_MINUSONE = PTRef{N_MONE};
    L->term_Real_ZERO = PTRef{1000}; L->term_Real_ONE = PTRef{1001}; L->term_Real_MINUSONE = PTRef{1002};   // no node has these ids
    L->sym_Int_ZERO = SymRef{sh_sym[N_ZERO]}; L->sym_Int_ONE = SymRef{sh_sym[N_ONE]}; L->sym_Real_ZERO = SymRef{SYM_REAL0 + 10}; L->sym_Real_ONE = SymRef{SYM_REAL0 + 11};
    L->sym_Int_NEG = SymRef{SYM_REAL0 + 12}; L->sym_Real_NEG = SymRef{SYM_REAL0 + 13}; L->sym_Int_MINUS = SymRef{SYM_REAL0 + 14}; L->sym_Real_MINUS = SymRef{SYM_REAL0 + 15};
    fake_vt[vslot(static_cast<bool (Logic::*)(PTRef) const>(&Logic::isUF))] = (void *)&stub_isUF;
    fake_vt[vslot(&Logic::termSort)] = (void *)&stub_termSort;
#ifdef ARITH_CMP
    fake_vt[vslot(static_cast<PTRef (Logic::*)(PTRef, PTRef)>(&Logic::mkBinaryEq))] = (void *)&stub_vmkBinaryEq;
    PTRef t = newNode(K_OTHER, SYM_TRUE, 0, nullptr); val[t.x] = 1; isB[t.x] = true;
    PTRef f = newNode(K_OTHER, SYM_FALSE, 0, nullptr); val[f.x] = 0; isB[f.x] = true;
    L->term_TRUE = t; L->term_FALSE = f; L->sym_TRUE = SymRef{SYM_TRUE}; L->sym_FALSE = SymRef{SYM_FALSE}; L->sym_NOT = SymRef{SYM_NOT};
    L->sym_Int_LEQ = SymRef{SYM_LEQ}; L->sym_Int_EQ = SymRef{SYM_EQ};
    // sortToEquality: a real minisat Map laid out by hand (1 bucket, 1 entry: Int -> =); Map::operator[] stays real
    typedef Map<SRef, SymRef, SRefHash> SMap;
    static SMap::Pair pEq; static uint64_t vEq[2];
    pEq.key = SRef{SORT_INT}; pEq.data = SymRef{SYM_EQ};
    vec<SMap::Pair> * be = reinterpret_cast<vec<SMap::Pair> *>(vEq);
    be->data = &pEq; be->sz = 1; be->cap = 1;
    L->sortToEquality.table = be; L->sortToEquality.cap = 1; L->sortToEquality.size = 1;
#endif
    *reinterpret_cast<void ***>(L) = fake_vt;
    U = nnodes;
}
static void reset_run() { nnodes = U; bad_ref = bad_sym = overflow = other_exc = false; created = 0; ac_nvbuf = ac_nibuf = 0; ac_nheap = 0; }
static bool isConstNode(PTRef a) { return nodes[a.x].kind == K_CONST; }
static bool isSumNode(PTRef a) { return nodes[a.x].kind == K_PLUS; }

// ---------------------------------------------------------------- checks
// Reachability witnesses: the tuple loops count what happened (concrete counters); every entry ends in finish<MASK>(), which holds the
// witnesses that this entry's argument set must reach (a witness that an entry cannot reach would make it vacuous by the checker's rules).
enum : unsigned { W_REJ = 1, W_REJ2SUMS = 2, W_RET = 4, W_RET_EXIST = 8, W_RET_NEW = 16, W_DISTRIB = 32, W_FOLDED = 64, W_ZERO_NL = 128,
                  W_NEWSUM = 256, W_ATOM = 512, W_DECIDED = 1024 };
static int n_rej, n_rej2sums, n_ret, n_ret_exist, n_ret_new, n_distrib, n_folded, n_zero_nl, n_newsum, n_atom, n_decided, n_tuples;
template <unsigned M> static void finish(int expected_tuples) {
    VASSERT(n_tuples == expected_tuples, "harness: every argument tuple of the entry was executed");
    if constexpr ((M & W_REJ) != 0) { if (n_rej > 0) { VWITNESS("rejected-as-nonlinear"); } }
    if constexpr ((M & W_REJ2SUMS) != 0) { if (n_rej2sums > 0) { VWITNESS("rejected-constant-times-two-sums"); } }
    if constexpr ((M & W_RET) != 0) { if (n_ret > 0) { VWITNESS("returned-a-term"); } }
    if constexpr ((M & W_RET_EXIST) != 0) { if (n_ret_exist > 0) { VWITNESS("returned-existing-term"); } }
    if constexpr ((M & W_RET_NEW) != 0) { if (n_ret_new > 0) { VWITNESS("returned-new-term"); } }
    if constexpr ((M & W_DISTRIB) != 0) { if (n_distrib > 0) { VWITNESS("constant-distributed-over-sum"); } }
    if constexpr ((M & W_FOLDED) != 0) { if (n_folded > 0) { VWITNESS("constants-folded-to-new-constant"); } }
    if constexpr ((M & W_ZERO_NL) != 0) { if (n_zero_nl > 0) { VWITNESS("returned-zero-for-nonlinear-product-with-zero-factor"); } }
    if constexpr ((M & W_NEWSUM) != 0) { if (n_newsum > 0) { VWITNESS("new-sum-built"); } }
    if constexpr ((M & W_ATOM) != 0) { if (n_atom > 0) { VWITNESS("atom-built"); } }
    if constexpr ((M & W_DECIDED) != 0) { if (n_decided > 0) { VWITNESS("decided-to-true-or-false"); } }
}
static void check_returned(PTRef r, int32_t expected, bool expectBool) {
    VASSERT(!bad_ref && !overflow && !bad_sym, "constructor only touches nodes of the table and builds well-formed nodes (harness capacity not exceeded)");
    VASSERT(ref_ok(r), "result is a term of the table");
    if (ref_ok(r) && !bad_ref && !overflow && !bad_sym) {
        VASSERT(!badv[r.x], "harness: the value of the returned term stayed in the exactly computed range");
        VASSERT(isB[r.x] == expectBool, "result has the sort of the operator");
        VASSERT(val[r.x] == expected, "value(result) == operator(values of the arguments) under the valuation");
        n_ret++;
        if ((int)r.x < U) n_ret_exist++; else n_ret_new++;
    }
}

template <int N> static void times_tuple(PTRef const * a) {
    reset_run(); n_tuples++;
    bool bad = false; int32_t e = 1; int nonconst = 0;
    for (int i = 0; i < N; i++) { e = smul(val[a[i].x], e, bad); if (!isConstNode(a[i])) nonconst++; }
    VASSERT(!bad, "harness: expected product within the computed range");
    vec<PTRef> args; for (int i = 0; i < N; i++) args.push(a[i]);
    PTRef r = PTRef_Undef; bool nonlinear = false;
    try { r = L->mkTimes(std::move(args)); }
    catch (LANonLinearException const &) { nonlinear = true; }
    catch (...) { other_exc = true; }
    VASSERT(!other_exc, "no exception other than LANonLinearException");
    bool zeroFactor = false; for (int i = 0; i < N; i++) if (a[i].x == N_ZERO) zeroFactor = true;
    if (nonlinear) {
        VASSERT(nonconst >= 2, "a product with at most one non-constant factor is linear and is not rejected");
        n_rej++;
        int sums = 0; for (int i = 0; i < N; i++) if (isSumNode(a[i])) sums++;
        if (sums >= 2 && nonconst == 2) n_rej2sums++;
    } else if (!other_exc) {
        // C29: that a product which genuinely depends on two non-constant factors is never silently returned as a linear term
        // follows from the value assertion (a linear term differs from the product under some valuation in [-7,7]^2)
        check_returned(r, e, false);
        if (nonconst >= 2 && zeroFactor) n_zero_nl++;
        if (ref_ok(r) && isSumNode(r) && (int)r.x >= U) n_distrib++;
        if (ref_ok(r) && isConstNode(r) && (int)r.x >= U) n_folded++;
    }
}

// ---------------------------------------------------------------- argument sets and entries
// ALL: every arithmetic node (thorough tier).  Quick tier: QA = one node of every kind -- 0, -1, a constant, a variable, a product over
// the other variable, a 2-argument sum, the 3-argument sum with products and a constant; QB = QA without 0 and -1.
static const uint32_t ALL[N_ARITH] = {0, 1, 2, 3, 4, 5, 6, 7, 8, 9, 10, 11, 12, 13};
#define NQA 7
#define NQB 5
static const uint32_t QA[NQA] = {N_ZERO, N_MONE, N_2, N_X, N_NEGY, N_XP1, N_S3};
static const uint32_t * const QB = QA + 2;
#define ROWS(lo, hi) (ALL + (lo)), ((hi) - (lo))

static int times2(uint32_t const * l0, int n0, uint32_t const * l1, int n1) {
    build_universe();
    for (int i = 0; i < n0; i++) for (int j = 0; j < n1; j++) { PTRef a[2] = {PTRef{l0[i]}, PTRef{l1[j]}}; times_tuple<2>(a); }
    return n0 * n1;
}
static int times3(uint32_t a0, uint32_t const * l1, int n1, uint32_t const * l2, int n2) {
    build_universe();
    for (int i = 0; i < n1; i++) for (int j = 0; j < n2; j++) { PTRef a[3] = {PTRef{a0}, PTRef{l1[i]}, PTRef{l2[j]}}; times_tuple<3>(a); }
    return n1 * n2;
}
// quick tier
extern "C" void h_mkTimes2_q1() { finish<W_REJ | W_RET | W_RET_EXIST | W_RET_NEW | W_DISTRIB | W_FOLDED>(times2(QA, 4, QA, NQA)); }
extern "C" void h_mkTimes2_q2() { finish<W_REJ | W_RET | W_RET_EXIST | W_RET_NEW | W_DISTRIB>(times2(QA + 4, 3, QA, NQA)); }
extern "C" void h_mkTimes3_q_const1() { finish<W_REJ | W_RET | W_RET_NEW | W_DISTRIB | W_FOLDED>(times3(N_2, QB, 2, QB, NQB)); }
extern "C" void h_mkTimes3_q_const2() { finish<W_REJ | W_REJ2SUMS | W_RET | W_RET_NEW | W_DISTRIB>(times3(N_2, QB + 2, 3, QB, NQB)); }
extern "C" void h_mkTimes3_q_sum1() { finish<W_REJ | W_REJ2SUMS | W_RET | W_RET_NEW | W_DISTRIB>(times3(N_XP1, QB, 2, QB, NQB)); }
extern "C" void h_mkTimes3_q_sum2() { finish<W_REJ | W_REJ2SUMS>(times3(N_XP1, QB + 2, 3, QB, NQB)); }
// the defect repaired by ce45400 as single tuples: (* 2 (+ x 1) (+ y 1)) in every argument order, and a linear control (* 2 3 (+ x 1))
extern "C" void h_mkTimes3_two_sums() {
    build_universe();
    static const uint32_t p[7][3] = {{N_2, N_XP1, N_YP1}, {N_2, N_YP1, N_XP1}, {N_XP1, N_2, N_YP1}, {N_XP1, N_YP1, N_2}, {N_YP1, N_XP1, N_2}, {N_YP1, N_2, N_XP1}, {N_2, N_M3, N_XP1}};
    for (int k = 0; k < 7; k++) { PTRef a[3] = {PTRef{p[k][0]}, PTRef{p[k][1]}, PTRef{p[k][2]}}; times_tuple<3>(a); }
    finish<W_REJ | W_REJ2SUMS | W_RET | W_DISTRIB>(7);
}
// -1 as first or second of three factors (the two-argument shortcut "multiplication by -1 is negation" must not apply): 18 triples
extern "C" void h_mkTimes3_q_minus1() {
    static const uint32_t s3[3] = {N_2, N_X, N_XP1};
    build_universe();
    for (int i = 0; i < 3; i++) for (int j = 0; j < 3; j++) {
        PTRef a[3] = {PTRef{N_MONE}, PTRef{s3[i]}, PTRef{s3[j]}}; times_tuple<3>(a);
        PTRef b[3] = {PTRef{s3[i]}, PTRef{N_MONE}, PTRef{s3[j]}}; times_tuple<3>(b);
    }
    finish<W_REJ | W_RET | W_RET_NEW | W_DISTRIB | W_FOLDED>(18);
}
// thorough tier: all pairs, all triples. The rows (first / second argument) are split in five groups -- {0,1,-1} {x,y,2} {-3,2x,-y}
// {x+1,y+1,x+y} {3-argument sum, 2-y} -- because CBMC's object numbering (--object-bits 12) admits only about 50 calls per entry.
#define SPLIT5(name, call, ma, mb, mc, md, me) \
    extern "C" void name##_a() { finish<ma>(call(ROWS(0, 3))); } extern "C" void name##_b() { finish<mb>(call(ROWS(3, 6))); } \
    extern "C" void name##_c() { finish<mc>(call(ROWS(6, 9))); } extern "C" void name##_d() { finish<md>(call(ROWS(9, 12))); } \
    extern "C" void name##_e() { finish<me>(call(ROWS(12, 14))); }
static int t2rows(uint32_t const * l, int n) { return times2(l, n, ALL, N_ARITH); }
#define W_T2 (W_REJ | W_RET | W_RET_EXIST | W_RET_NEW | W_DISTRIB)
SPLIT5(h_mkTimes2, t2rows, (W_RET | W_RET_EXIST | W_RET_NEW | W_DISTRIB | W_FOLDED), (W_T2 | W_FOLDED), (W_T2 | W_FOLDED), W_T2, W_T2)
template <uint32_t K> static int t3rows(uint32_t const * l, int n) { return times3(K, l, n, ALL, N_ARITH); }
#define W_T3 (W_REJ | W_RET)
#define T3C(k) SPLIT5(h_mkTimes3_##k, t3rows<k>, W_RET, W_T3, W_T3, W_T3, W_T3)          /* constant first factor: constant x constant x anything is never rejected */
#define T3N(k) SPLIT5(h_mkTimes3_##k, t3rows<k>, W_T3, W_T3, W_T3, W_T3, W_T3)
SPLIT5(h_mkTimes3_0, t3rows<0>, (W_RET | W_RET_EXIST), (W_RET | W_RET_EXIST | W_ZERO_NL), (W_RET | W_RET_EXIST | W_ZERO_NL), (W_RET | W_RET_EXIST | W_ZERO_NL), (W_RET | W_RET_EXIST | W_ZERO_NL))   // first factor 0: always 0
T3C(1) T3C(2) T3N(3) T3N(4) T3C(5) T3C(6) T3N(7) T3N(8) T3N(9) T3N(10) T3N(11) T3N(12) T3N(13)

enum Op { O_PLUS, O_MINUS, O_LEQ, O_GEQ, O_LT, O_GT, O_EQ };
template <int N> static void sum_tuple(Op op, PTRef const * a) {
    reset_run(); n_tuples++;
    uint32_t e = (uint32_t)val[a[0].x];              // unsigned arithmetic: no sanitizer branch on a symbolic value; the values are small
    for (int i = 1; i < N; i++) e = op == O_MINUS ? e - (uint32_t)val[a[i].x] : e + (uint32_t)val[a[i].x];
    if (op == O_MINUS && N == 1) e = 0u - e;
    vec<PTRef> args; for (int i = 0; i < N; i++) args.push(a[i]);
    PTRef r = PTRef_Undef;
    try { r = op == O_MINUS ? L->mkMinus(std::move(args)) : L->mkPlus(std::move(args)); }
    catch (...) { other_exc = true; }
    VASSERT(!other_exc, "sum / difference / negation never throws");
    if (!other_exc) {
        check_returned(r, (int32_t)e, false);
        if (ref_ok(r) && isConstNode(r) && (int)r.x >= U) n_folded++;
        if (ref_ok(r) && isSumNode(r) && (int)r.x >= U) n_newsum++;
    }
}
static int sums2(Op op, uint32_t const * l0, int n0, uint32_t const * l1, int n1) {
    build_universe();
    for (int i = 0; i < n0; i++) for (int j = 0; j < n1; j++) { PTRef a[2] = {PTRef{l0[i]}, PTRef{l1[j]}}; sum_tuple<2>(op, a); }
    return n0 * n1;
}
static int plus3(uint32_t a0, uint32_t const * l1, int n1, uint32_t const * l2, int n2) {
    build_universe();
    for (int i = 0; i < n1; i++) for (int j = 0; j < n2; j++) { PTRef a[3] = {PTRef{a0}, PTRef{l1[i]}, PTRef{l2[j]}}; sum_tuple<3>(O_PLUS, a); }
    return n1 * n2;
}
extern "C" void h_mkNeg() {
    build_universe();
    for (int i = 0; i < N_ARITH; i++) { PTRef a[1] = {PTRef{(uint32_t)i}}; sum_tuple<1>(O_MINUS, a); }
    finish<W_RET | W_RET_EXIST | W_RET_NEW | W_FOLDED | W_NEWSUM>(N_ARITH);
}
extern "C" void h_mkPlus2_q1() { finish<W_RET | W_RET_EXIST | W_RET_NEW | W_FOLDED | W_NEWSUM>(sums2(O_PLUS, QA, 4, QA, NQA)); }
extern "C" void h_mkPlus2_q2() { finish<W_RET | W_RET_EXIST | W_RET_NEW | W_NEWSUM>(sums2(O_PLUS, QA + 4, 3, QA, NQA)); }
extern "C" void h_mkMinus2_q() { finish<W_RET | W_RET_EXIST | W_RET_NEW | W_NEWSUM>(sums2(O_MINUS, QB, NQB, QB, NQB)); }
#define W_SUM (W_RET | W_RET_NEW | W_NEWSUM)
static int p2rows(uint32_t const * l, int n) { return sums2(O_PLUS, l, n, ALL, N_ARITH); }
static int m2rows(uint32_t const * l, int n) { return sums2(O_MINUS, l, n, ALL, N_ARITH); }
SPLIT5(h_mkPlus2, p2rows, W_SUM, W_SUM, W_SUM, W_SUM, W_SUM)
SPLIT5(h_mkMinus2, m2rows, W_SUM, W_SUM, W_SUM, W_SUM, W_SUM)
template <uint32_t K> static int p3rows(uint32_t const * l, int n) { return plus3(K, l, n, ALL, N_ARITH); }
#define P3(k) SPLIT5(h_mkPlus3_##k, p3rows<k>, W_SUM, W_SUM, W_SUM, W_SUM, W_SUM)
P3(3) P3(7) P3(9) P3(12)

#ifdef ARITH_CMP
static void cmp_pair(Op op, PTRef a, PTRef b) {
    reset_run(); n_tuples++;
    int32_t x = val[a.x], y = val[b.x];
    bool e = op == O_LEQ ? x <= y : op == O_GEQ ? x >= y : op == O_LT ? x < y : op == O_GT ? x > y : x == y;
    PTRef r = PTRef_Undef;
    try {
        r = op == O_LEQ ? L->mkBinaryLeq(a, b) : op == O_GEQ ? L->mkBinaryGeq(a, b) : op == O_LT ? L->mkBinaryLt(a, b) : op == O_GT ? L->mkBinaryGt(a, b) : L->ArithLogic::mkBinaryEq(a, b);
    } catch (...) { other_exc = true; }
    VASSERT(!other_exc, "a comparison of two linear terms never throws");
    if (!other_exc) {
        check_returned(r, e, true);
        if (ref_ok(r) && (nodes[r.x].kind == K_LEQ || nodes[r.x].kind == K_EQ || nodes[r.x].kind == K_NOT)) n_atom++;
        if (ref_ok(r) && (int)r.x < U && (int)r.x >= UA) n_decided++;
    }
}
static int cmps(Op op, uint32_t const * l0, int n0, uint32_t const * l1, int n1) {
    build_universe();
    for (int i = 0; i < n0; i++) for (int j = 0; j < n1; j++) cmp_pair(op, PTRef{l0[i]}, PTRef{l1[j]});
    return n0 * n1;
}
#define W_CMP (W_RET | W_ATOM | W_DECIDED)
extern "C" void h_mkLeq_q1() { finish<W_CMP>(cmps(O_LEQ, QA, 4, QA, NQA)); }
extern "C" void h_mkLeq_q2() { finish<W_CMP>(cmps(O_LEQ, QA + 4, 3, QA, NQA)); }
extern "C" void h_mkEq_q1() { finish<W_CMP>(cmps(O_EQ, QB, 2, QB, NQB)); }
extern "C" void h_mkEq_q2() { finish<W_CMP>(cmps(O_EQ, QB + 2, 3, QB, NQB)); }
// mkBinaryGeq(a,b) = mkBinaryLeq(b,a), mkBinaryLt = not mkBinaryGeq, mkBinaryGt = not mkBinaryLeq: a variable and a sum against everything in QB
static void geqltgt(uint32_t a) {
    build_universe();
    for (int j = 0; j < NQB; j++) { cmp_pair(O_GEQ, PTRef{a}, PTRef{QB[j]}); cmp_pair(O_LT, PTRef{a}, PTRef{QB[j]}); cmp_pair(O_GT, PTRef{a}, PTRef{QB[j]}); }
    finish<W_CMP>(15);
}
extern "C" void h_mkGeqLtGt_q1() { geqltgt(N_X); }
extern "C" void h_mkGeqLtGt_q2() { geqltgt(N_XP1); }
template <Op OP> static int cmprows(uint32_t const * l, int n) { return cmps(OP, l, n, ALL, N_ARITH); }
#define CMP5(name, op) SPLIT5(h_##name, cmprows<op>, W_CMP, W_CMP, W_CMP, W_CMP, W_CMP)
CMP5(mkLeq, O_LEQ) CMP5(mkGeq, O_GEQ) CMP5(mkLt, O_LT) CMP5(mkGt, O_GT) CMP5(mkEq, O_EQ)
#endif

// C14 / C29: the real arithmetic term constructors of ArithLogic (mkTimes with SimplifyConstTimes::constSimplify and
// SimplifyConst::simplify, mkPlus, mkNeg, mkMinus, mkBinaryLeq/Geq/Lt/Gt, mkBinaryEq) return a term whose VALUE under an arbitrary
// valuation of the variables equals the SMT-LIB operator applied to the values of the arguments -- or, for products only, end in
// LANonLinearException.  Arguments: arbitrary nodes of a symbolic term universe (stu_arith.h node table behind the Logic accessors).
#ifndef STU_MAXN
#define STU_MAXN 22
#endif
#include "stu_arith.h"
#include <new>
#include <string>
#include <cstring>
using namespace opensmt;
using namespace stu;

// ---------------------------------------------------------------- valued node table
enum : uint32_t { SYM_TRUE = 5, SYM_FALSE = 6, SYM_NOT = 7, SYM_EQ = 8 };
constexpr uint32_t SORT_BOOL = 0, SORT_INT = 7, SORT_REAL = 8;
static int32_t val[MAXN];       // value of node i under the valuation sigma (Booleans 0/1)
static bool isB[MAXN];          // node is a formula
static bool badv[MAXN];         // value of the node left the range the harness can compute exactly (must never be RETURNED)
static bool bad_ref, bad_sym, overflow, other_exc;
static int created, U;          // U = number of nodes of the initial universe
static PTRef T_TRUE, T_FALSE;

// a * b for |a| < 128, |b| < 2^20, written without a multiplier circuit (a full-width multiplier against the solver's does not scale)
static int32_t smul(int32_t a, int32_t b, bool & bad) {
    if (a <= -128 || a >= 128 || b <= -(1 << 20) || b >= (1 << 20)) { bad = true; return 0; }
    uint32_t ua = a < 0 ? 0u - (uint32_t)a : (uint32_t)a, ub = (uint32_t)b, r = 0;
    if (ua & 1) r += ub;
    if (ua & 2) r += ub << 1;
    if (ua & 4) r += ub << 2;
    if (ua & 8) r += ub << 3;
    if (ua & 16) r += ub << 4;
    if (ua & 32) r += ub << 5;
    if (ua & 64) r += ub << 6;
    return (int32_t)(a < 0 ? 0u - r : r);
}
static Pterm * alloc_exact(int nargs) {   // exact object size per arity: reading an argument that does not exist is out of bounds
    void * p = nargs == 0 ? malloc(sizeof(Pterm)) : nargs == 1 ? malloc(sizeof(Pterm) + 4) : nargs == 2 ? malloc(sizeof(Pterm) + 8)
             : nargs == 3 ? malloc(sizeof(Pterm) + 12) : malloc(sizeof(Pterm) + 16);
    return static_cast<Pterm *>(p);
}
// appends a node (caller guarantees room) and computes its value from its children by the SMT-LIB semantics of the operator
static PTRef newNode(Kind k, uint32_t sym, int nargs, PTRef const * a) {
    int id = nnodes++;
    Node & n = nodes[id];
    n.kind = k; n.nargs = (uint8_t)nargs; n.num = nullptr; n.cval = 0;
    n.pt = alloc_exact(nargs);
    n.pt->header.type = 0; n.pt->header.has_extra = 0; n.pt->header.reloced = 0; n.pt->header.noscoping = 0; n.pt->header.size = nargs;
    n.pt->id.x = id; n.pt->sym = SymRef{sym};
    bool bad = false; int32_t v = 0; bool b = false;
    for (int i = 0; i < 4; i++) if (i < nargs) { n.pt->args[i] = a[i]; if (badv[a[i].x]) bad = true; }
    switch (k) {
    case K_PLUS: for (int i = 0; i < 4; i++) if (i < nargs) { if (isB[a[i].x]) bad_sym = true; v = (int32_t)((uint32_t)v + (uint32_t)val[a[i].x]); } break;
    case K_TIMES: v = 1; for (int i = 0; i < 4; i++) if (i < nargs) { if (isB[a[i].x]) bad_sym = true; v = smul(val[a[i].x], v, bad); } break;
    case K_LEQ: if (nargs != 2 || isB[a[0].x] || isB[a[1].x]) bad_sym = true; else v = val[a[0].x] <= val[a[1].x]; b = true; break;
    case K_EQ: if (nargs != 2 || isB[a[0].x] != isB[a[1].x]) bad_sym = true; else v = val[a[0].x] == val[a[1].x]; b = true; break;
    case K_NOT: if (nargs != 1 || !isB[a[0].x]) bad_sym = true; else v = !val[a[0].x]; b = true; break;
    default: break;   // leaves: value set by the caller
    }
    if (v <= -(1 << 20) || v >= (1 << 20)) bad = true;
    val[id] = v; isB[id] = b; badv[id] = bad;
    return PTRef{(uint32_t)id};
}
static PTRef newConst(int32_t v) { PTRef r = mkConst(v); val[r.x] = v; isB[r.x] = false; badv[r.x] = false; return r; }
static PTRef newVar(int i, int32_t lo, int32_t hi) {
    PTRef r = newNode(K_VAR, SYM_VAR0 + i, 0, nullptr);
    int32_t v = (int8_t)nondet_u8(); VASSUME(v >= lo && v <= hi); val[r.x] = v;
    return r;
}
static bool ref_ok(PTRef r) { return r.x < (uint32_t)nnodes; }

// ---------------------------------------------------------------- cut points (answered from the table)
extern "C" {
SRef stub_getSortRefTerm(void *, PTRef t) { if (!ref_ok(t)) { bad_ref = true; return SRef{SORT_INT}; } return SRef{isB[t.x] ? SORT_BOOL : SORT_INT}; }
SRef stub_getSortRefSym(void *, SymRef s) { return SRef{(s.x == SYM_LEQ || (s.x >= SYM_TRUE && s.x <= SYM_EQ)) ? SORT_BOOL : SORT_INT}; }
bool stub_yieldsSortInt(void *, SymRef s) { return !(s.x == SYM_LEQ || (s.x >= SYM_TRUE && s.x <= SYM_EQ)) && s.x < SYM_REAL0; }
bool stub_false_ptref(void *, PTRef) { return false; }
bool stub_false_sym(void *, SymRef) { return false; }
bool stub_hasSortBool(void *, PTRef t) { return ref_ok(t) && isB[t.x]; }
// Logic::pp (only used for the text of LANonLinearException) and the exception's constructor (string concatenation): cut
void stub_pp(std::string * out, void *, PTRef) { new (out) std::string(); }
void stub_nonlinear_ctor(LANonLinearException *, char const *) {}
// ArithLogic::mkConst(SRef, Number const &): hash-consed numeric constant = the node with that value, else a new constant node
PTRef stub_mkConstNumber(ArithLogic *, SRef, FastRational const & c) {
    if (!c.wordPartValid() || c.den != 1 || c.num <= -128 || c.num >= 128) { overflow = true; return PTRef{0}; }   // small integers only
    int32_t v = c.num;
    for (int j = 0; j < MAXN; j++) { if (j >= nnodes) break; if (nodes[j].kind == K_CONST && nodes[j].cval == v) return PTRef{(uint32_t)j}; }
    if (nnodes >= MAXN) { overflow = true; return PTRef{0}; }
    created++;
    return newConst(v);
}
// Logic::mkFun: hash-consing lookup-or-create. The same (symbol, arguments) is the same node; a new node gets its value from its children.
PTRef stub_mkFun(Logic *, SymRef s, vec<PTRef> && args) {
    int n = args.size(); PTRef a[4] = {PTRef{0}, PTRef{0}, PTRef{0}, PTRef{0}};
    if (n < 0 || n > 4) { overflow = true; return PTRef{0}; }
    for (int i = 0; i < 4; i++) if (i < n) { a[i] = args[i]; if (!ref_ok(a[i])) { bad_ref = true; return PTRef{0}; } }
    for (int j = 0; j < MAXN; j++) {
        if (j >= nnodes) break;
        Pterm * p = nodes[j].pt;
        if (p->sym.x != s.x || (int)nodes[j].nargs != n) continue;
        bool same = true;
        for (int i = 0; i < 4; i++) if (i < n && p->args[i].x != a[i].x) same = false;
        if (same) return PTRef{(uint32_t)j};
    }
    Kind k = s.x == SYM_PLUS ? K_PLUS : s.x == SYM_TIMES ? K_TIMES : s.x == SYM_LEQ ? K_LEQ : s.x == SYM_EQ ? K_EQ : s.x == SYM_NOT ? K_NOT : K_OTHER;
    if (k == K_OTHER || n == 0) { bad_sym = true; return PTRef{0}; }     // a leaf symbol that is not in the table, or an unknown operator
    if (nnodes >= MAXN) { overflow = true; return PTRef{0}; }
    created++;
    return newNode(k, s.x, n, a);
}
// minisat vec<T>::capacity replaced by one fixed-capacity allocation (never reallocated): symbolic-size realloc does not scale
#define VCAP 8
void stub_cap_ptref(vec<PTRef> * v, int m) { if (v->cap >= m) return; if (m > VCAP) { overflow = true; return; } if (v->data == nullptr) v->data = (PTRef *)malloc(VCAP * sizeof(PTRef)); v->cap = VCAP; }
void stub_cap_int(vec<int> * v, int m) { if (v->cap >= m) return; if (m > VCAP) { overflow = true; return; } if (v->data == nullptr) v->data = (int *)malloc(VCAP * sizeof(int)); v->cap = VCAP; }
bool stub_isUF(void *, PTRef) { return false; }
void stub_termSort(ArithLogic * l, vec<PTRef> & v) { l->ArithLogic::termSort(v); }
#ifdef ARITH_CMP
PTRef stub_vmkBinaryEq(ArithLogic * l, PTRef a, PTRef b) { return l->ArithLogic::mkBinaryEq(a, b); }
#endif
}
template <class F> static int vslot(F pmf) {   // vtable slot of a virtual member function (Itanium ABI pointer-to-member encoding)
    union { F f; struct { intptr_t ptr; intptr_t adj; } r; } u;
    u.f = pmf;
    return (int)((u.r.ptr - 1) / 8);
}
static void * fake_vt[128];
union RawLogic { ArithLogic l; RawLogic() {} ~RawLogic() {} };
static RawLogic rawl;

static uint32_t pick(uint32_t below) { uint32_t c = nondet_u8(); VASSUME(c < below); return c; }

// ---------------------------------------------------------------- the symbolic universe
// Fixed leaves, symbolic compounds:
//   0: 0   1: 1   2: -1   3: x   4: y   5: constant c (symbolic, |c| in 2..3)
//   6: P  = product of a constant in {-1, c} and a variable in {x, y}, in either argument order      (what mkNeg / mkPlus / mkTimes build)
//   7,8: S1, S2 = sums of 2..3 arguments, each argument a variable, the product P or a constant, at most one constant and it is not 0
// Invariants assumed (each is what the real constructors establish):
//   A1 numeric constants are hash-consed: one node per value; term_Int_ZERO/ONE/MINUSONE are nodes 0/1/2
//   A2 a product node has exactly one constant (not 0, not 1) and one variable; a sum node has no sum, no 0 and at most one constant among its arguments
//   A3 hash-consing: no two nodes with the same symbol and argument list
//   A4 value(node) = operator(value(children)); variables have arbitrary values in [-3,3]
#ifndef NSUMS
#define NSUMS 2
#endif
static void sum_node(int below) {
    int n = 2 + (nondet_u8() & 1);
    PTRef a[4]; int nconst = 0;
    for (int i = 0; i < 3; i++) {
        a[i] = PTRef{pick(below)};
        if (i < n) {
            VASSUME(a[i].x != 0 && nodes[a[i].x].kind != K_PLUS);
            if (nodes[a[i].x].kind == K_CONST) nconst++;
        }
    }
    VASSUME(nconst <= 1);
    if (n == 2) { PTRef b[2] = {a[0], a[1]}; newNode(K_PLUS, SYM_PLUS, 2, b); } else newNode(K_PLUS, SYM_PLUS, 3, a);
}
static void build_universe() {
    init_logic(&rawl.l);
    bad_ref = bad_sym = overflow = other_exc = false; created = 0;
    newConst(0); newConst(1); newConst(-1);
    newVar(0, -3, 3); newVar(1, -3, 3);
    int32_t c = (int8_t)nondet_u8(); VASSUME(c == 2 || c == -2 || c == 3 || c == -3);
    newConst(c);
    { PTRef k = nondet_bool() ? PTRef{2} : PTRef{5}; PTRef v = nondet_bool() ? PTRef{3} : PTRef{4};
      PTRef a[2]; if (nondet_bool()) { a[0] = k; a[1] = v; } else { a[0] = v; a[1] = k; }
      newNode(K_TIMES, SYM_TIMES, 2, a); }
    for (int s = 0; s < NSUMS; s++) sum_node(7 + s);
#if NSUMS >= 2
    {   // A3 for the two sums
        Pterm * p = nodes[7].pt, * q = nodes[8].pt;
        bool same = nodes[7].nargs == nodes[8].nargs && p->args[0].x == q->args[0].x && p->args[1].x == q->args[1].x && (nodes[7].nargs < 3 || p->args[2].x == q->args[2].x);
        VASSUME(!same);
    }
#endif
    U = nnodes;
    L->sort_INT = SRef{SORT_INT}; L->sort_REAL = SRef{SORT_REAL}; L->sort_BOOL = SRef{SORT_BOOL};
    L->term_Int_ZERO = PTRef{0}; L->term_Int_ONE = PTRef{1}; L->term_Int_MINUSONE = PTRef{2};
    L->term_Real_ZERO = PTRef{1000}; L->term_Real_ONE = PTRef{1001}; L->term_Real_MINUSONE = PTRef{1002};   // no node has these ids
    L->sym_Int_ZERO = nodes[0].pt->sym; L->sym_Int_ONE = nodes[1].pt->sym; L->sym_Real_ZERO = SymRef{SYM_REAL0 + 10}; L->sym_Real_ONE = SymRef{SYM_REAL0 + 11};
    L->sym_Int_NEG = SymRef{SYM_REAL0 + 12}; L->sym_Real_NEG = SymRef{SYM_REAL0 + 13}; L->sym_Int_MINUS = SymRef{SYM_REAL0 + 14}; L->sym_Real_MINUS = SymRef{SYM_REAL0 + 15};
    fake_vt[vslot(static_cast<bool (Logic::*)(PTRef) const>(&Logic::isUF))] = (void *)&stub_isUF;
    fake_vt[vslot(&Logic::termSort)] = (void *)&stub_termSort;
#ifdef ARITH_CMP
    fake_vt[vslot(static_cast<PTRef (Logic::*)(PTRef, PTRef)>(&Logic::mkBinaryEq))] = (void *)&stub_vmkBinaryEq;
#endif
    *reinterpret_cast<void ***>(L) = fake_vt;
}

// ---------------------------------------------------------------- checks
static void check_returned(PTRef r, int32_t expected, bool expectBool) {
    VASSERT(!bad_ref && !overflow && !bad_sym, "constructor only touches nodes of the table and builds well-formed nodes (harness capacity not exceeded)");
    VASSERT(ref_ok(r), "result is a term of the table");
    if (ref_ok(r) && !bad_ref && !overflow && !bad_sym) {
        VASSERT(!badv[r.x], "harness: the value of the returned term stayed in the exactly computed range");
        VASSERT(isB[r.x] == expectBool, "result has the sort of the operator");
        VASSERT(val[r.x] == expected, "value(result) == operator(values of the arguments) under the valuation");
    }
    VWITNESS("returned");
    if ((int)r.x < U) { VWITNESS("returned-existing-term"); } else { VWITNESS("returned-new-term"); }
}
static bool isConstNode(PTRef a) { return nodes[a.x].kind == K_CONST; }

template <int N> static void run_times() {
    build_universe();
    PTRef a[3]; for (int i = 0; i < 3; i++) a[i] = PTRef{pick(U)};
    bool bad = false; int32_t e = 1; int nonconst = 0;
    for (int i = 0; i < N; i++) { e = smul(val[a[i].x], e, bad); if (!isConstNode(a[i])) nonconst++; }
    VASSERT(!bad, "harness: expected product within the computed range");
    vec<PTRef> args; for (int i = 0; i < N; i++) args.push(a[i]);
    PTRef r = PTRef_Undef; bool nonlinear = false;
    try { r = L->mkTimes(std::move(args)); }
    catch (LANonLinearException const &) { nonlinear = true; }
    catch (...) { other_exc = true; }
    VASSERT(!other_exc, "no exception other than LANonLinearException");
    if (nonlinear) {
        VASSERT(nonconst >= 2, "a product with at most one non-constant factor is linear and is not rejected");
        VWITNESS("rejected-as-nonlinear");
        if (nodes[a[0].x].kind == K_PLUS && nodes[a[1].x].kind == K_PLUS) { VWITNESS("rejected-product-of-two-sums"); }
    } else if (!other_exc) {
        check_returned(r, e, false);
        if (nonconst >= 2) { VWITNESS("returned-with-two-nonconstant-factors"); }   // e.g. (* x y 0)
        if (ref_ok(r) && nodes[r.x].kind == K_PLUS && (int)r.x >= U) { VWITNESS("constant-distributed-over-sum"); }
        if (N == 3 && nonconst == 1 && isConstNode(a[0]) && isConstNode(a[1]) && a[0].x >= 2 && a[1].x >= 2) { VWITNESS("constants-folded"); }
    }
}
extern "C" void h_mkTimes2() { run_times<2>(); }
extern "C" void h_mkTimes3() { run_times<3>(); }

template <int N> static void run_plus(bool minus) {
    build_universe();
    PTRef a[3]; for (int i = 0; i < 3; i++) a[i] = PTRef{pick(U)};
    int32_t e = val[a[0].x];
    for (int i = 1; i < N; i++) e = minus ? e - val[a[i].x] : e + val[a[i].x];
    if (minus && N == 1) e = -e;
    vec<PTRef> args; for (int i = 0; i < N; i++) args.push(a[i]);
    PTRef r = PTRef_Undef;
    try { r = minus ? L->mkMinus(std::move(args)) : L->mkPlus(std::move(args)); }
    catch (...) { other_exc = true; }
    VASSERT(!other_exc, "sum / difference / negation never throws");
    if (!other_exc) {
        check_returned(r, e, false);
        if (ref_ok(r) && isConstNode(r)) { VWITNESS("folded-to-constant"); }
        if (ref_ok(r) && nodes[r.x].kind == K_PLUS && (int)r.x >= U) { VWITNESS("new-sum"); }
    }
}
extern "C" void h_mkPlus2() { run_plus<2>(false); }
extern "C" void h_mkPlus3() { run_plus<3>(false); }
extern "C" void h_mkNeg() { run_plus<1>(true); }
extern "C" void h_mkMinus2() { run_plus<2>(true); }

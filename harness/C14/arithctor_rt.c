/* Storage for the objects of harness/C14/arithctor.cc that the real code works on.
 * In the C++ harness they are only DECLARED (extern), so no constructor runs and the IR keeps their real class types.
 * Under CBMC they are defined here with exactly that generated struct type (typed, zero-initialised, field-sensitive);
 * in the native replay build they are plain zeroed storage of sufficient size (checked by static_assert in the harness). */
#ifdef __CPROVER__
#ifdef IR2C_NEEDG_ac_logic
__typeof__(ac_logic) ac_logic;
#endif
#ifdef IR2C_NEEDG_ac_fr
__typeof__(ac_fr) ac_fr;
#endif
#else
__attribute__((aligned(64))) char ac_logic[16384];
__attribute__((aligned(64))) char ac_fr[64 * 24];
#endif

// C14: the real Logic::mkDistinct on >= 3 arguments of a NON-Boolean sort (real termSort + duplicate scan + "all constants" shortcut).
// Arguments are drawn with repetition from a pool of 3 constants (pairwise different values) and 2 variables (arbitrary values).
//   result == true   => the argument values are pairwise different (for every valuation)
//   result == false  => two argument values are equal (for every valuation)
//   otherwise the result is the term handed out by the term store (a created/looked-up distinct term): outside this claim.
#include "verif.h"
#include "logics/Logic.h"
#include <cstring>
#include <cstdlib>
using namespace opensmt;

#define NPOOL 5          // PTRef 0..2: constants, 3..4: variables
#define T_TRUE 10u
#define T_FALSE 11u
#define T_NEW 20u        // "a distinct term was created"
#define T_OLD 21u        // "a distinct term was found in the map"
enum : uint32_t { S_TRUE = 1, S_FALSE = 2, S_DISTINCT_U = 9, S_CONST0 = 30, S_VAR0 = 40 };
static uint32_t pt[NPOOL][3];            // raw Pterm: header | id | sym  (no arguments)
static uint8_t  value[NPOOL];            // value of the term under sigma
static bool bad_ref, store_used_wrongly; static int store_calls;

static uint32_t pick(uint32_t below) { uint32_t c = nondet_u8(); VASSUME(c < below); return c; }
extern "C" Pterm & stub_getPterm(Logic *, PTRef t) { if (t.x >= NPOOL) { bad_ref = true; return *reinterpret_cast<Pterm *>(pt[0]); } return *reinterpret_cast<Pterm *>(pt[t.x]); }
extern "C" bool stub_hasSortBool(Logic *, PTRef t) { if (t.x >= NPOOL) bad_ref = true; return false; }   // every pool term has the same non-Bool sort
extern "C" bool stub_isConstantSym(Logic *, SymRef s) { return s.x >= S_CONST0 && s.x < S_CONST0 + 3; }
// term store: opaque "a distinct-term exists / is created" answers
extern "C" SymRef stub_lookupSymbol(PtStore *, char const *, vec<PTRef> const & args, SymbolMatcher, SRef) { store_calls++; for (int i = 0; i < args.size(); i++) if (args[i].x >= NPOOL) bad_ref = true; return SymRef{S_DISTINCT_U}; }
static bool key_known;
extern "C" bool stub_hasCplxKey(PtStore *, PTLKey const & k) { store_calls++; if (k.sym.x != S_DISTINCT_U) store_used_wrongly = true; return key_known; }
extern "C" PTRef stub_getFromCplxMap(PtStore *, PTLKey const &) { if (!key_known) store_used_wrongly = true; return PTRef{T_OLD}; }
extern "C" PTRef stub_newTerm(PtStore *, SymRef s, vec<PTRef> const &) { if (key_known || s.x != S_DISTINCT_U) store_used_wrongly = true; return PTRef{T_NEW}; }
extern "C" void stub_addToCplxMap(PtStore *, PTLKey &&, PTRef r) { if (r.x != T_NEW) store_used_wrongly = true; }
extern "C" void stub_termSort(Logic * l, vec<PTRef> & v) { l->Logic::termSort(v); }      // virtual slot -> real Logic::termSort

template<class F> static size_t vslot(F f) { uintptr_t raw[2]; memcpy(raw, &f, sizeof raw); return (raw[0] - 1) / sizeof(void *); }
union LogicBox { Logic l; LogicBox() {} ~LogicBox() {} };
static LogicBox logic_box; static void * fake_vt[96]; static Logic * L;

static void setup() {
    for (int i = 0; i < NPOOL; i++) { pt[i][0] = 0; pt[i][1] = i; pt[i][2] = (i < 3 ? S_CONST0 + i : S_VAR0 + (i - 3)); value[i] = nondet_u8(); }
    // unique-constants invariant: different constant terms denote different values (mkConst hash-conses a normalised numeral/name)
    VASSUME(value[0] != value[1] && value[0] != value[2] && value[1] != value[2]);
    bad_ref = store_used_wrongly = false; store_calls = 0; key_known = nondet_bool();
    L = &logic_box.l;
    fake_vt[vslot(&Logic::termSort)] = (void *)&stub_termSort;
    *reinterpret_cast<void **>(L) = (void *)fake_vt;
    L->term_TRUE = PTRef{T_TRUE}; L->term_FALSE = PTRef{T_FALSE}; L->sym_TRUE = SymRef{S_TRUE}; L->sym_FALSE = SymRef{S_FALSE};
    int dc = nondet_u8(); VASSUME(dc >= 0 && dc < maxDistinctClasses);   // the pairwise-expansion fallback (all 32 distinct classes used up) is outside this harness
    L->distinctClassCount = dc;
}
template<int N> static void run() {
    setup();
    PTRef a[N]; vec<PTRef> args; for (int i = 0; i < N; i++) { a[i] = PTRef{pick(NPOOL)}; args.push(a[i]); }
    bool all_diff = true, all_const = true, repeated_term = false;
    for (int i = 0; i < N; i++) { if (a[i].x >= 3) all_const = false; for (int j = i + 1; j < N; j++) { if (value[a[i].x] == value[a[j].x]) all_diff = false; if (a[i] == a[j]) repeated_term = true; } }
    PTRef r = L->mkDistinct(std::move(args));
    VASSERT(!bad_ref && !store_used_wrongly, "only the arguments are inspected; the term store is used as lookup-or-create");
    VASSERT(r.x == T_TRUE || r.x == T_FALSE || r.x == T_NEW || r.x == T_OLD, "result is true, false or a distinct term from the store");
    if (r.x == T_TRUE) { VASSERT(all_diff, "result true => argument values pairwise different"); if constexpr (N <= 3) { VWITNESS("folded-to-true"); } }
    if (r.x == T_FALSE) { VASSERT(!all_diff, "result false => two argument values are equal"); VWITNESS("folded-to-false"); }
    if (r.x == T_NEW) { VWITNESS("distinct-term-created"); }
    if (r.x == T_OLD) { VWITNESS("distinct-term-found"); }
    if (all_const && repeated_term) { VWITNESS("constants-with-a-repetition"); }
    if constexpr (N <= 3) { if (all_const && !repeated_term) { VWITNESS("pairwise-different-constants"); } }
    if (!all_const && repeated_term) { VWITNESS("repeated-variable-or-mixed"); }
    if (!all_const && !repeated_term && !all_diff) { VWITNESS("different-terms-equal-values"); }
    if (a[0].x > a[N - 1].x) { VWITNESS("unsorted-input"); }
}
extern "C" void h_distinct3() { run<3>(); }
extern "C" void h_distinct4() { run<4>(); }

// C27: negation of integer difference constraints: not(a-b <= c) == (b-a <= -c-1), for every 64-bit c, without overflow.
#include "verif.h"
#include "tsolvers/stpsolver/IDLSolver.h"
using namespace opensmt;
extern "C" void h_negate_safeint() {
    int64_t c = nondet_i64();
    SafeInt n = Converter<SafeInt>::negate(SafeInt(c));
    // for every integer d:  not(d <= c)  <=>  -d <= n   i.e. n = -c-1 ; checked without overflow as n + c == -1
    VASSERT((__int128)n.value() + (__int128)c == -1, "negated bound is exactly -c-1");
    int64_t d = nondet_i64();
    VASSUME(d != INT64_MIN);
    VASSERT((!(d <= c)) == (-d <= n.value()), "not(d <= c) is equivalent to (-d <= negate(c)) for every integer d");
    if (c == INT64_MAX) { VWITNESS("largest-constant"); }
    VWITNESS("negate");
}

// C27 / C14: constant folding of (div n d) and (mod n d) in ArithLogic::mkIntDiv / mkMod follows SMT-LIB's Euclidean
// semantics for both divisor signs. Real mkMod/mkIntDiv and FastRational arithmetic at scaled width; term table behind
// the Logic accessors.
#include "stu_arith.h"
#include "vfr.h"
using namespace opensmt;
using namespace stu;

static FastRational folded; static int nfold;
// replacement for ArithLogic::mkConst(SRef, Number const&) (what mkIntConst calls): records the folded value
extern "C" PTRef stub_mkConstNumber(ArithLogic *, SRef, FastRational const & v) { folded = v; nfold++; return PTRef{27}; }
extern "C" void stub_checkSort(ArithLogic const *, vec<PTRef> const &) {}
extern "C" PTRef stub_mkFun(Logic *, SymRef, vec<PTRef> &&) { return PTRef{28}; }
union RawLogic { ArithLogic l; RawLogic() {} ~RawLogic() {} };
static RawLogic rawl;

static void setup(FastRational & n, FastRational & d, PTRef & tn, PTRef & td) {
    init_logic(&rawl.l);
    L->sort_INT = SRef{7}; L->sort_REAL = SRef{8};
    // distinguished constant terms / symbols: ids that no table node has (all ids must fit the scaled word)
    L->term_Int_ZERO = PTRef{20}; L->term_Int_ONE = PTRef{21}; L->term_Int_MINUSONE = PTRef{22};
    L->term_Real_ZERO = PTRef{23}; L->term_Real_ONE = PTRef{24}; L->term_Real_MINUSONE = PTRef{25};
    L->sym_Int_ZERO = SymRef{29}; L->sym_Real_ZERO = SymRef{30};
    int32_t nv = nondet_i32(), dv = nondet_i32();
    // every word-sized dividend; divisor any word except 0, 1, -1 (those are answered before folding by identity checks
    // on the distinguished constant terms)
    VASSUME(dv != 0 && dv != 1 && dv != -1);
    VASSUME(nv >= -40 && nv <= 40 && dv >= -9 && dv <= 9);   // full machine width, small magnitudes (a full-width divider does not finish)
    tn = mkConst(nv); td = mkConst(dv);
    n = *nodes[tn.x].num; d = *nodes[td.x].num;
    vfr_snapshot(0, &n); vfr_snapshot(1, &d);
}
extern "C" void h_mod_fold() {
    FastRational n, d; PTRef tn, td; setup(n, d, tn, td);
    vec<PTRef> args; args.push(tn); args.push(td);
    PTRef r = L->mkMod(std::move(args));
    VASSERT(nfold == 1 && r.x == 27, "(mod const const) is folded to one constant");
    VASSERT(vfr_is_euclid_mod(&folded, 0, 1), "folded (mod n d) = r with 0 <= r < |d| and d | n - r");
    VASSERT(vfr_wellformed(&folded), "folded constant is a well-formed number");
    if (vfr_slot_is_neg(1)) { VWITNESS("negative-divisor"); }
    if (vfr_slot_is_neg(0)) { VWITNESS("negative-dividend"); }
    VWITNESS("mod");
}
extern "C" void h_div_fold() {
    FastRational n, d; PTRef tn, td; setup(n, d, tn, td);
    vec<PTRef> args; args.push(tn); args.push(td);
    PTRef r = L->mkIntDiv(std::move(args));
    VASSERT(nfold == 1 && r.x == 27, "(div const const) is folded to one constant");
    VASSERT(vfr_is_euclid_div(&folded, 0, 1), "folded (div n d) = q with 0 <= n - d*q < |d|");
    VASSERT(vfr_wellformed(&folded), "folded constant is a well-formed number");
    if (vfr_slot_is_neg(1) && vfr_slot_is_neg(0)) { VWITNESS("both-negative"); }
    VWITNESS("div");
}

// C18 / C14: an explicit division by the constant zero is rejected with ArithDivisionByZeroException, whatever the dividend - it is
// never folded (no division by zero is executed) and no term is built
template<bool MOD> static void div_by_zero() {
    FastRational n, d; PTRef tn, td;
    init_logic(&rawl.l);
    L->sort_INT = SRef{7}; L->sort_REAL = SRef{8};
    L->term_Int_ONE = PTRef{21}; L->term_Int_MINUSONE = PTRef{22};
    L->term_Real_ZERO = PTRef{23}; L->term_Real_ONE = PTRef{24}; L->term_Real_MINUSONE = PTRef{25};
    L->sym_Real_ZERO = SymRef{30};
    int32_t nv = nondet_i32(); VASSUME(nv >= -40 && nv <= 40);
    bool const_dividend = nondet_bool();
    tn = const_dividend ? mkConst(nv) : mkVar(0);
    td = mkConst(0); L->term_Int_ZERO = td; L->sym_Int_ZERO = nodes[td.x].pt->sym;   // the distinguished zero constant (term and symbol) is a real table node with value 0
    vec<PTRef> args; args.push(tn); args.push(td);
    bool thrown = false; PTRef r = PTRef_Undef;
    try { r = MOD ? L->mkMod(std::move(args)) : L->mkIntDiv(std::move(args)); }
    catch (ArithDivisionByZeroException const &) { thrown = true; }
    VASSERT(thrown, "division by the constant zero is rejected with ArithDivisionByZeroException");
    VASSERT(nfold == 0, "nothing is folded for a zero divisor");
    if (const_dividend) { VWITNESS("constant-dividend"); } else { VWITNESS("variable-dividend"); }
}
extern "C" void h_div_zero() { div_by_zero<false>(); }
extern "C" void h_mod_zero() { div_by_zero<true>(); }
extern "C" bool stub_hasIntegers(Logic const *) { return true; }
extern "C" bool stub_hasReals(Logic const *) { return false; }

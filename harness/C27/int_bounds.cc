// C27: tightening of strict / non-strict bounds on integer variables (LASolver::getBoundsValueForIntVar) and the
// delta encoding for real variables (getBoundsValueForRealVar), real FastRational/Delta code at scaled width.
#include "vfr.h"
#include "tsolvers/lasolver/LASolver.h"
using namespace opensmt;
union RawLA { LASolver s; RawLA() {} ~RawLA() {} };

extern "C" void h_int_bounds() {
    static RawLA raw;                      // the two functions do not read the solver object
    FastRational c; vfr_make(&c, (uint8_t)5); vfr_snapshot(0, &c);
    bool strict = nondet_bool();
    auto p = raw.s.getBoundsValueForIntVar(c, strict);
    FastRational ub = p.upper.R(), lb = p.lower.R();
    vfr_snapshot(1, &ub); vfr_snapshot(2, &lb);
    VASSERT(p.upper.D().isZero() && p.lower.D().isZero(), "integer bounds carry no delta");
    VASSERT(vfr_int_bounds_ok(strict, 0, 1, 2), "for every integer v: (v < c | v <= c) iff v <= UB, and its negation iff v >= LB");
    if (strict && vfr_slot_is_integer(0)) { VWITNESS("strict-bound-on-integer-constant"); }
    if (!vfr_slot_is_integer(0)) { VWITNESS("fractional-constant"); }
    VWITNESS("int-bounds");
}
extern "C" void h_real_bounds() {
    static RawLA raw;
    FastRational c; vfr_make(&c, (uint8_t)5); vfr_snapshot(0, &c);
    bool strict = nondet_bool();
    auto p = raw.s.getBoundsValueForRealVar(c, strict);
    FastRational ur = p.upper.R(), lr = p.lower.R();
    VASSERT(vfr_same_as(0, &ur) && vfr_same_as(0, &lr), "real bounds keep the constant");
    // v < c  <=> v <= c - delta ;  not(v < c) <=> v >= c ;  v <= c <=> v <= c ; not(v <= c) <=> v >= c + delta
    FastRational ud = p.upper.D(), ld = p.lower.D();
    VASSERT(strict ? (vfr_is_frac(&ud, (uint64_t)-1, 1) && ld.isZero()) : (ud.isZero() && vfr_is_frac(&ld, 1, 1)), "delta parts encode strictness");
    VWITNESS("real-bounds");
}

// C27 (+C15, C18): integer rounding kernels of FastRational at FULL width, word representation.
#include "verif.h"
#include "common/numbers/FastRational.h"
using namespace opensmt;
using FR = FastRational;

static FR word_int(int32_t v) { FR x; x.state = State::WORD_VALID; x.num = v; x.den = 1; x.mpq = nullptr; return x; }

// floor division n/d for all word integers that stay on the word path (n != INT_MIN, see fastrat_fdiv_q)
extern "C" void h_fdiv_q_word() {
    int32_t n = nondet_i32(), d = nondet_i32();
    VASSUME(d != 0);
    VASSUME(n != INT_MIN);           // that case leaves the word path (GMP), covered by the scaled C15 harness
    FR N = word_int(n), D = word_int(d);
    FR q = fastrat_fdiv_q(N, D);
    VASSERT(q.wordPartValid() && q.den == 1, "floor quotient is a word integer");
    int64_t Q = q.num, rem = (int64_t)n - Q * (int64_t)d;
    VASSERT(d > 0 ? (rem >= 0 && rem < d) : (rem <= 0 && rem > d), "n = q*d + r with r between 0 and d (floor division)");
    VWITNESS("fdiv");
}

// operator%: result has the sign of d and is congruent to n (documented contract: "*this % d, sign of d")
extern "C" void h_mod_word() {
    int32_t n = nondet_i32(), d = nondet_i32();
    VASSUME(d != 0);
    VASSUME(!(n == INT_MIN && d == -1));   // INT_MIN % -1: reported separately by h_mod_word_ub
    FR N = word_int(n), D = word_int(d);
    FR r = N % D;
    VASSERT(r.wordPartValid() && r.den == 1, "remainder is a word integer");
    int64_t R = r.num;
    VASSERT(d > 0 ? (R >= 0 && R < d) : (R <= 0 && R > d), "remainder lies between 0 and d, with the sign of d");
    int64_t a = n < 0 ? -(int64_t)n : n, m = d < 0 ? -(int64_t)d : d, ar = R < 0 ? -R : R;
    VASSERT(ar == a % m, "|remainder| = |n| mod |d| (the value the implementation documents)");
    VWITNESS("mod");
}

// ceil / floor for all word rationals num/den (den >= 1, num/den not an unreduced integer: implied by canonicity)
extern "C" void h_ceil_floor_word() {
    int32_t n = nondet_i32(); uint32_t d = nondet_u32();
    VASSUME(d >= 1);
    VASSUME(d == 1 || (n < 0 ? (uint32_t)(-(int64_t)n) % d != 0 : (uint32_t)n % d != 0));
    FR x; x.state = State::WORD_VALID; x.num = n; x.den = d; x.mpq = nullptr;
    FR c = x.ceil();
    VASSERT(c.wordPartValid() && c.den == 1, "ceil is a word integer");
    int64_t C = c.num;
    VASSERT(C * (int64_t)d >= n && (C - 1) * (int64_t)d < n, "ceil(n/d): smallest integer >= n/d");
    if (d != 1 && !(C == INT_MIN)) {
        FR f = x.floor();
        VASSERT(f.wordPartValid() && f.den == 1, "floor is a word integer");
        int64_t F = f.num;
        VASSERT(F * (int64_t)d <= n && (F + 1) * (int64_t)d > n, "floor(n/d): largest integer <= n/d");
        VWITNESS("floor");
    }
    VWITNESS("ceil");
}

// C07: UnsatCoreBuilder::Minimize::performNaive (real loop) against a symbolic monotone unsat-oracle.
#include "verif.h"
#include "unsatcores/UnsatCoreBuilder.h"
#include "api/MainSolver.h"
using namespace opensmt;

#define V1 (void *)&stub_check,
#define V4 V1 V1 V1 V1
#ifndef NT
#define NT 4
#endif
// ---- oracle solver: U(mask) = "background + the targets in mask are unsatisfiable", arbitrary monotone truth table
static uint32_t U_table;                 // bit m = U(m), m subset of NT targets
static uint32_t masks[4]; static int level; static int bad_use;
static bool U(uint32_t m) { return (U_table >> m) & 1; }
static int target_index(PTRef t) { return (t.x >= 10 && t.x < 10 + NT) ? (int)(t.x - 10) : -1; }

extern "C" void stub_insertFormula(MainSolver *, PTRef t) { int i = target_index(t); if (i >= 0) masks[level] |= (1u << i); else if (t.x < 100) bad_use = 1; }
extern "C" void stub_push(MainSolver *) { if (level >= 3) { bad_use = 1; return; } masks[level + 1] = masks[level]; level++; }
extern "C" bool stub_pop(MainSolver *) { if (level == 0) { bad_use = 1; return false; } level--; return true; }
extern "C" sstat stub_check(MainSolver *) { return U(masks[level]) ? s_False : s_True; }


extern "C" void h_perform_naive() {
    U_table = nondet_u32();
    VASSUME((U_table >> (1u << NT)) == 0);
    // monotone: U(S) => U(S + {i});  the full set is unsat (the core being minimised is a core)
    for (uint32_t s = 0; s < (1u << NT); s++)
        for (int i = 0; i < NT; i++) VASSUME(!U(s) || U(s | (1u << i)));
    VASSUME(U((1u << NT) - 1));
    int n = nondet_u8();
    VASSUME(n >= 1 && n <= NT);         // the core has n named terms (ids 10..10+n-1); absent targets never asserted
    VASSUME(U((1u << n) - 1));
    int nb = nondet_u8(); VASSUME(nb >= 0 && nb <= 2);
    vec<PTRef> background; for (int i = 0; i < nb; i++) background.push(PTRef{100u + (uint32_t)i});
    vec<PTRef> targets; for (int i = 0; i < n; i++) targets.push(PTRef{10u + (uint32_t)i});
    // performNaive reads only targetTerms and backgroundTerms; the builder reference is never dereferenced
    unsigned char fake_builder[8];
    UnsatCoreBuilder::Minimize m(*reinterpret_cast<UnsatCoreBuilder *>(fake_builder), std::move(targets), background);
    level = 0; masks[0] = 0; bad_use = 0;
    // fake MainSolver: only its vptr is read (check() is virtual); every slot of the table leads to the oracle
    static void * fake_vt[16] = {V4 V4 V4 V4};
    void * fake_solver[2] = { (void *)fake_vt, nullptr };
    vec<PTRef> res = m.performNaive(*reinterpret_cast<MainSolver *>(fake_solver));
    uint32_t R = 0; bool dup = false, foreign = false;
    for (int i = 0; i < res.size(); i++) { int k = target_index(res[i]); if (k < 0 || k >= n) foreign = true; else { if (R & (1u << k)) dup = true; R |= 1u << k; } }
    VASSERT(!bad_use && level == 0, "internal solver used with balanced push/pop and known terms only");
    VASSERT(!foreign && !dup, "minimised core is a duplicate-free subset of the given core");
    VASSERT(U(R), "minimised core (with the background) is still unsatisfiable");
    for (int k = 0; k < NT; k++) if (R & (1u << k)) VASSERT(!U(R & ~(1u << k)), "removing any single element makes it satisfiable");
    VWITNESS("naive");
    if (res.size() < n) { VWITNESS("something-removed"); }
}

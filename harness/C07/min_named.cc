// C07: the named-core pipeline  partitionNamedTerms -> minimize -> Minimize::perform -> performNaive  (all real) against a
// symbolic monotone unsat-oracle over ALL current assertions (named and unnamed).
#include "verif.h"
#include <vector>
#include "unsatcores/UnsatCoreBuilder.h"
#include "api/MainSolver.h"
using namespace opensmt;

#ifndef NA
#define NA 4          // current assertions, term ids 10..10+NA-1
#endif
static uint32_t U_table;                  // bit m = "the assertions in m are unsatisfiable together", monotone
static bool U(uint32_t m) { return (U_table >> m) & 1; }
static uint32_t named_mask, current_mask;  // which assertions are named / current (all NA are current)
static uint32_t masks[4]; static int level; static int bad_use;
static int idx(PTRef t) { return (t.x >= 10 && t.x < 10 + NA) ? (int)(t.x - 10) : -1; }

// minisat vec<PTRef>::capacity replaced by one fixed 8-slot allocation (a symbolic-size realloc makes the encoding explode;
// the vec implementation is not the subject); a request beyond 8 is flagged
static bool vec_overflow;
extern "C" void stub_cap_ptref(vec<PTRef> * v, int min_cap) {
    if (v->cap >= min_cap) return;
    if (min_cap > 8) { vec_overflow = true; return; }
    if (v->data == nullptr) v->data = (PTRef *)malloc(8 * sizeof(PTRef));
    v->cap = 8;
}
extern "C" void stub_insertFormula(MainSolver *, PTRef t) { int i = idx(t); if (i >= 0) masks[level] |= (1u << i); else bad_use = 1; }
extern "C" void stub_push(MainSolver *) { if (level >= 3) { bad_use = 1; return; } masks[level + 1] = masks[level]; level++; }
extern "C" bool stub_pop(MainSolver *) { if (level == 0) { bad_use = 1; return false; } level--; return true; }
extern "C" sstat stub_check(MainSolver *) { return U(masks[level]) ? s_False : s_True; }
extern "C" bool stub_names_contains(TermNames const *, PTRef t) { int i = idx(t); return i >= 0 && ((named_mask >> i) & 1); }
extern "C" bool stub_names_empty(TermNames const *) { return named_mask == 0; }
extern "C" bool stub_true(SMTConfig const *) { return true; }
extern "C" bool stub_false(SMTConfig const *) { return false; }
extern "C" vec<PTRef> stub_currentAssertions(MainSolver const *) {
    vec<PTRef> v; for (int i = 0; i < NA; i++) v.push(PTRef{10u + (uint32_t)i}); return v;
}
// what the partition manager knows: every formula EVER asserted, i.e. the current assertions plus one that has been popped (term 99).
// The current code does not ask for it; a change that takes the background from there instead of the current assertions is caught
// by "internal solver used with ... current assertions only"
extern "C" std::vector<PTRef> stub_allPartitionsEver(void const *) {
    std::vector<PTRef> v(NA + 1);
    for (int i = 0; i < NA; i++) v[i] = PTRef{10u + (uint32_t)i};
    v[NA] = PTRef{99u};
    return v;
}
#define V1 (void *)&stub_check,
#define V4 V1 V1 V1 V1
static void * fake_vt[16] = {V4 V4 V4 V4};
// typed, zero-initialised MainSolver objects that are only DECLARED here (no constructor runs; storage in min_named_rt.c):
// the outer solver (its reference members are never followed: every accessor is stubbed) and the internal one (only its vptr is read)
extern "C" { extern MainSolver c07_outer_solver; extern MainSolver c07_inner_solver; }
extern "C" std::unique_ptr<MainSolver> stub_newSmtSolver(UnsatCoreBuilder::Minimize const *, SMTConfig &) {
    return std::unique_ptr<MainSolver>(&c07_inner_solver);
}
extern "C" ResolutionProof * stub_getResolutionProof(void *) { return nullptr; }

extern "C" void h_named_core() {
    U_table = nondet_u32();
    VASSUME((U_table >> (1u << NA)) == 0);
    for (uint32_t s = 0; s < (1u << NA); s++)
        for (int i = 0; i < NA; i++) VASSUME(!U(s) || U(s | (1u << i)));
    named_mask = nondet_u8(); VASSUME(named_mask < (1u << NA));
    uint32_t core = nondet_u8(); VASSUME(core < (1u << NA) && core != 0 && U(core));     // the proof-based core is unsat
    *reinterpret_cast<void ***>(&c07_inner_solver) = fake_vt;
    UnsatCoreBuilder b(c07_outer_solver);            // real constructor: copies the outer solver's (null) references
    for (int i = 0; i < NA; i++) if ((core >> i) & 1) b.allTerms.push(PTRef{10u + (uint32_t)i});   // result of mapClausesToTerms
    level = 0; masks[0] = 0; bad_use = 0;

    b.partitionNamedTerms();
    b.minimize();

    uint32_t R = 0; bool foreign = false, dup = false;
    for (int i = 0; i < b.namedTerms.size(); i++) { int k = idx(b.namedTerms[i]); if (k < 0 || !((named_mask >> k) & 1)) foreign = true; else { if (R & (1u << k)) dup = true; R |= 1u << k; } }
    uint32_t unnamed = ((1u << NA) - 1) & ~named_mask;
    VASSERT(!vec_overflow, "term vectors stay within the harness capacity");
    VASSERT(!bad_use && level == 0, "internal solver used with balanced push/pop and current assertions only");
    VASSERT(!foreign && !dup, "reported core consists of distinct named current assertions");
    VASSERT(U(R | unnamed), "reported named assertions together with all unnamed current assertions are unsatisfiable");
    for (int k = 0; k < NA; k++) if (R & (1u << k)) VASSERT(!U((R & ~(1u << k)) | unnamed), "removing any single reported name (keeping all unnamed current assertions) makes the set satisfiable");
    if (R != (core & named_mask)) { VWITNESS("a-name-was-removed"); }
    if ((unnamed & ~core) != 0 && R != 0) { VWITNESS("unnamed-assertion-outside-the-refutation"); }
    if (R == 0) { VWITNESS("empty-core"); }
    VWITNESS("named-core");
}

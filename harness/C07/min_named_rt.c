/* typed zero-initialised storage for the fake MainSolver objects of min_named.cc (see harness/include/satstate_rt.c for the idiom) */
#ifdef __CPROVER__
#ifdef IR2C_NEEDG_c07_outer_solver
__typeof__(c07_outer_solver) c07_outer_solver;
#endif
#ifdef IR2C_NEEDG_c07_inner_solver
__typeof__(c07_inner_solver) c07_inner_solver;
#endif
#else
__attribute__((aligned(64))) char c07_outer_solver[8192];
__attribute__((aligned(64))) char c07_inner_solver[8192];
#endif

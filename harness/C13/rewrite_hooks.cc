// C13: equivalence-preserving rewriters, checked at their Config::rewrite(PTRef) hooks over a valued symbolic term universe:
//   DivModConfig::rewrite (real, incl. its cache and FastRational abs()/-1), EqualityRewriterConfig::rewrite, DistinctRewriteConfig::rewrite.
// The DFS driver Rewriter<T>::rewrite (term marks, substitution map) is NOT part of these entries.
#define STU_MAXN 24
#include "stu_val.h"
#include "rewriters/DivModRewriter.h"
#include "rewriters/ArithmeticEqualityRewriter.h"
#include "rewriters/DistinctRewriter.h"
using namespace opensmt;
using namespace stu;

union RawLogic { ArithLogic l; RawLogic() {} ~RawLogic() {} };
static RawLogic rawLogic;

// fresh div/mod variables: two new integer variables with arbitrary values (the name construction is cut)
extern "C" DivModConfig::DivModPair stub_freshDivModPair(DivModConfig *, PTRef, PTRef) {
    PTRef q = vFreshVar(-16, 15), r = vFreshVar(-16, 15);
    return DivModConfig::DivModPair{q, r};
}

// Euclidean quotient / remainder of n by d (d != 0, |d| <= 3, |n| <= 8) by specification: the unique (q, r) with n = q*d + r, 0 <= r < |d|
static void euclid(int32_t n, int32_t d, int32_t & q, int32_t & r) {
    q = (int8_t)nondet_u8(); VASSUME(q >= -8 && q <= 8);
    r = n - mul_small(d, q);
    VASSUME(r >= 0 && r < (d < 0 ? -d : d));
}

// the divisor is concrete per entry (FastRational abs()/-1 on a symbolic word costs millions of clauses); dividend and the fresh variables symbolic
template <int DV> static void divmod() {
    init_valued(&rawLogic.l);
    PTRef zero = vConst(0); rawLogic.l.term_Int_ZERO = zero;
    PTRef n = vVar(0, -8, 7);
    const int32_t dv = DV;
    PTRef d = vConst(dv);
    int32_t eq, er; euclid(val[n.x], dv, eq, er);
    PTRef divT = mkv(K_DIV, SYM_DIV, 2, eq, false, n, d);       // value of (div n d) / (mod n d): SMT-LIB Euclidean semantics
    PTRef modT = mkv(K_MOD, SYM_MOD, 2, er, false, n, d);
    VASSERT(val[n.x] == mul_small(dv, eq) + er && er >= 0 && er < (dv < 0 ? -dv : dv), "harness: Euclidean pair computed");

    DivModConfig cfg(rawLogic.l);
    bool divFirst = nondet_bool();
    PTRef o1 = cfg.rewrite(divFirst ? divT : modT);
    int after1 = cfg.definitions.size();
    PTRef o2 = cfg.rewrite(divFirst ? modT : divT);
    PTRef o3 = cfg.rewrite(n);                                     // anything else is left alone
    VASSERT(o3 == n, "a term that is neither div nor mod is returned unchanged");
    VASSERT(after1 == 1 && cfg.definitions.size() == 1, "one definition per (dividend, divisor) pair, shared by div and mod (cache)");
    PTRef q = divFirst ? o1 : o2, r = divFirst ? o2 : o1;
    VASSERT(ref_ok(q) && ref_ok(r) && q != r && nodes[q.x].kind == K_VAR && nodes[r.x].kind == K_VAR, "div and mod are replaced by two distinct variables");
    VASSUME(ref_ok(q) && ref_ok(r));
    PTRef def = cfg.definitions[0];
    VASSERT(ref_ok(def) && isBool[def.x], "the definition is a formula"); VASSUME(ref_ok(def));
    VASSERT(!overflow_seen, "harness: all intermediate values stayed in range");
    // (1) soundness: under the definition the fresh variables have the values of the terms they replace
    if (val[def.x]) {
        VASSERT(val[q.x] == val[divT.x], "definition forces the div variable to the Euclidean quotient");
        VASSERT(val[r.x] == val[modT.x], "definition forces the mod variable to the Euclidean remainder");
        VWITNESS("definition-satisfied");
    }
    // (2) no model is lost: the Euclidean pair satisfies the definition
    if (val[q.x] == eq && val[r.x] == er) {
        VASSERT(val[def.x], "the Euclidean quotient/remainder satisfy the definition");
        VWITNESS("euclidean-pair");
        if (DV != 1 && DV != -1) { if (val[n.x] < 0 && er != 0) { VWITNESS("negative-dividend-inexact"); } }
    }
    VWITNESS("divmod");
}
extern "C" void h_divmod_p1() { divmod<1>(); }
extern "C" void h_divmod_p2() { divmod<2>(); }
extern "C" void h_divmod_p3() { divmod<3>(); }
extern "C" void h_divmod_m1() { divmod<-1>(); }
extern "C" void h_divmod_m2() { divmod<-2>(); }
extern "C" void h_divmod_m3() { divmod<-3>(); }

extern "C" void h_arith_eq() {
    init_valued(&rawLogic.l);
    PTRef a = vVar(0, -8, 7), b = vVar(1, -8, 7);
    PTRef c = vConst(2);
    PTRef lhs = nondet_bool() ? a : mkv(K_PLUS, SYM_PLUS, 2, val[a.x] + 2, false, a, c);
    PTRef eqT = mkv(K_EQ, SYM_EQ, 2, val[lhs.x] == val[b.x], true, lhs, b);
    PTRef leqT = mkv(K_LEQ, SYM_LEQ, 2, val[lhs.x] <= val[b.x], true, lhs, b);
    EqualityRewriterConfig cfg(rawLogic.l);
    PTRef o = cfg.rewrite(eqT);
    VASSERT(ref_ok(o) && isBool[o.x], "result is a formula"); VASSUME(ref_ok(o));
    VASSERT(o != eqT && nodes[o.x].kind == K_AND, "an arithmetic equality is replaced by a conjunction");
    VASSERT(val[o.x] == val[eqT.x], "a = b  is equivalent to its replacement (a <= b and b <= a) under every valuation");
    PTRef o2 = cfg.rewrite(leqT);
    VASSERT(o2 == leqT, "an inequality is left unchanged");
    if (val[eqT.x]) { VWITNESS("equality-true"); } else { VWITNESS("equality-false"); }
}

template <int N> static void distinct() {
    init_valued(&rawLogic.l);
    PTRef x[3];
    for (int i = 0; i < 3; i++) if (i < N) x[i] = vVar(i, -2, 2);
    bool alld = true;
    for (int i = 0; i < N; i++) for (int j = i + 1; j < N; j++) if (val[x[i].x] == val[x[j].x]) alld = false;
    PTRef dT = mkv(K_DISTINCT, SYM_DISTINCT, N, alld, true, x[0], N > 1 ? x[1] : PTRef_Undef, N > 2 ? x[2] : PTRef_Undef);
    DistinctRewriteConfig cfg(rawLogic.l);
    PTRef o = cfg.rewrite(dT);
    VASSERT(ref_ok(o) && isBool[o.x], "result is a formula"); VASSUME(ref_ok(o));
    VASSERT(val[o.x] == val[dT.x], "distinct(x1..xn) is equivalent to its pairwise expansion under every valuation");
    VASSERT(o != dT, "the distinct term is eliminated");
    PTRef eqT = mkv(K_EQ, SYM_EQ, 2, val[x[0].x] == val[x[1].x], true, x[0], x[1]);
    VASSERT(cfg.rewrite(eqT) == eqT, "a term that is not a distinct is left unchanged");
    if (alld) { VWITNESS("all-distinct"); } else { VWITNESS("some-equal"); }
}
extern "C" void h_distinct_2() { distinct<2>(); }
extern "C" void h_distinct_3() { distinct<3>(); }

// C13: Boolean flattening (rewriteMaxArity), its LOCAL step: the REAL template opensmt::mergeAndOrArgs(logic, tr, cache, doNotMerge)
// (simplifiers/BoolRewriting.h) over a valued symbolic term table.  Given an and/or node tr whose children are mapped by `cache` to terms
// with the SAME truth value (the invariant the DFS driver maintains), the node it returns -- children replaced, children with the same
// connective spliced in unless doNotMerge vetoes -- has the same truth value as tr under every valuation; an unchanged node is returned as is.
// The DFS driver rewriteMaxArity / computeIncomingEdges (stack, cache filling, incoming-edge counts) is NOT part of this entry.
#define STU_MAXN 20
#include "stu_val.h"
#include "simplifiers/BoolRewriting.h"
using namespace opensmt;
using namespace stu;

constexpr int NA = 6;                                                         // Boolean atoms 0..5 (arbitrary truth values)
enum : uint32_t { N_C0 = 6, N_S0 = 9, N_TR = 12, N_FIRST_NEW = 13 };          // children C0..C2, their cache images S0..S2, the node tr
#define VCAP 12

union RawLogic { ArithLogic l; RawLogic() {} ~RawLogic() {} };
static RawLogic rawLogic;

// Term table: plain typed arrays (symbol, arity, arguments, value); PTRef.x == node index; opaque Pterm handles (see eqtrans.cc)
static uint32_t n_sym[STU_MAXN], n_sz[STU_MAXN], n_arg[STU_MAXN][3];
static void put(int i, uint32_t sym, int n, int32_t v, uint32_t a0 = 0, uint32_t a1 = 0, uint32_t a2 = 0) {
    n_sym[i] = sym; n_sz[i] = n; n_arg[i][0] = a0; n_arg[i][1] = a1; n_arg[i][2] = a2; val[i] = v; isBool[i] = true;
}
constexpr uintptr_t HANDLE0 = 0x100;
static uint32_t nodeOf(Pterm const * p) {
    uintptr_t h = reinterpret_cast<uintptr_t>(p) - HANDLE0;
    VASSERT(h < (uintptr_t)nnodes, "Pterm accessor applied to a handle of the table"); VASSUME(h < (uintptr_t)nnodes);
    return (uint32_t)h;
}
static PTRef cache_of[STU_MAXN];          // the rewriter's cache: child -> already rewritten (equivalent) term
static bool dnm[STU_MAXN];                // doNotMerge(child): symbolic veto (classic mode: child has more than one parent)
static PTRef vbuf[VCAP];
static int n_vbuf, n_ctor, ctor_nargs;
static uint32_t ctor_sym;

extern "C" {
Pterm * stub_pterm(void *, PTRef r) {
    VASSERT(ref_ok(r), "term reference outside the term table (undefined or garbage PTRef dereferenced)"); VASSUME(ref_ok(r));
    return reinterpret_cast<Pterm *>(HANDLE0 + r.x);
}
int stub_ptSize(Pterm const * p) { return (int)n_sz[nodeOf(p)]; }
SymRef stub_ptSymb(Pterm const * p) { return SymRef{n_sym[nodeOf(p)]}; }
PTRef stub_ptArg(Pterm const * p, int i) {
    uint32_t n = nodeOf(p);
    VASSERT(i >= 0 && (uint32_t)i < n_sz[n], "Pterm::operator[]: argument index beyond the arity of the term"); VASSUME(i >= 0 && (uint32_t)i < n_sz[n]);
    return PTRef{n_arg[n][i]};
}
PTRef * stub_cacheAt(void *, PTRef const * k) {
    VASSERT(k->x >= N_C0 && k->x < N_C0 + 3, "cache[] precondition: the key is a child of tr (present in the cache)"); VASSUME(k->x >= N_C0 && k->x < N_C0 + 3);
    return &cache_of[k->x];
}
// mkAnd / mkOr of the collected argument list (2..9 arguments): appended node whose value is the conjunction / disjunction of the argument
// values (the real constructors are C14); the node records only its arity
static PTRef ctor(uint32_t sym, vec<PTRef> * args) {
    int n = args->size();
    VASSERT(n >= 1 && n <= 9, "harness bound: 1..9 collected arguments"); VASSUME(n >= 1 && n <= 9);
    bool isAnd = sym == SYM_AND;
    int32_t v = isAnd ? 1 : 0;
    for (int i = 0; i < 9; i++) if (i < n) {
        PTRef a = (*args)[i];
        VASSERT(ref_ok(a) && isBool[a.x], "constructor over known Boolean terms"); VASSUME(ref_ok(a));
        if (isAnd) { if (!val[a.x]) v = 0; } else { if (val[a.x]) v = 1; }
    }
    VASSERT(nnodes < STU_MAXN, "harness bound: term table full"); VASSUME(nnodes < STU_MAXN);
    n_ctor++; ctor_nargs = n; ctor_sym = sym;
    put(nnodes, sym, 0, v);
    return PTRef{(uint32_t)nnodes++};
}
PTRef stub_mkAndN(void *, vec<PTRef> * args) { return ctor(SYM_AND, args); }
PTRef stub_mkOrN(void *, vec<PTRef> * args) { return ctor(SYM_OR, args); }
// vec<PTRef>::capacity: one typed static buffer of 12 slots (new_args), never reallocated; clear(true) does not free
void stub_cap_ptref(vec<PTRef> * v, int min_cap) {
    if (v->cap >= min_cap) return;
    VASSERT(v->data == nullptr && n_vbuf == 0 && min_cap <= VCAP, "harness bound: one argument vector of at most 12 slots"); VASSUME(v->data == nullptr && n_vbuf == 0 && min_cap <= VCAP);
    n_vbuf++; v->data = vbuf; v->cap = VCAP;
}
void stub_clear_ptref(vec<PTRef> * v, bool) { v->sz = 0; }
}

static uint32_t pick(uint32_t lo, uint32_t hi) { uint32_t c = nondet_u8(); VASSUME(c >= lo && c < hi); return c; }

// node i: an atom-like term (opaque symbol, arbitrary value) or and/or over 2..3 symbolically chosen atoms
static void some_term(int i) {
    uint32_t kind = pick(0, 3);
    bool three = nondet_bool();
    uint32_t a = pick(0, NA), b = pick(0, NA), c = pick(0, NA);
    if (kind == 0) put(i, SYM_VAR0 + 8 + i, 0, nondet_bool());
    else if (kind == 1) put(i, SYM_AND, three ? 3 : 2, val[a] && val[b] && (!three || val[c]), a, b, three ? c : 0);
    else put(i, SYM_OR, three ? 3 : 2, val[a] || val[b] || (three && val[c]), a, b, three ? c : 0);
}

extern "C" void h_merge_args() {
    init_logic(&rawLogic.l);
    rawLogic.l.sym_AND = SymRef{SYM_AND}; rawLogic.l.sym_OR = SymRef{SYM_OR};
    for (int i = 0; i < NA; i++) put(i, SYM_VAR0 + i, 0, nondet_bool());
    for (int i = 0; i < 3; i++) { some_term(N_C0 + i); some_term(N_S0 + i); }
    bool three = nondet_bool(), isAnd = nondet_bool();
    int32_t v = isAnd ? (val[N_C0] && val[N_C0 + 1] && (!three || val[N_C0 + 2])) : (val[N_C0] || val[N_C0 + 1] || (three && val[N_C0 + 2]));
    put(N_TR, isAnd ? SYM_AND : SYM_OR, three ? 3 : 2, v, N_C0, N_C0 + 1, three ? N_C0 + 2 : 0);
    nnodes = N_FIRST_NEW;
    bool any_changed = false;
    for (int i = 0; i < 3; i++) {
        // invariant of the driver: the cache maps a child to itself or to a term with the same truth value
        bool changed = nondet_bool();
        if (changed) VASSUME(val[N_S0 + i] == val[N_C0 + i]);
        cache_of[N_C0 + i] = PTRef{(uint32_t)(changed ? N_S0 + i : N_C0 + i)};
        dnm[N_C0 + i] = nondet_bool();
        if (changed && (i < 2 || three)) any_changed = true;
    }
    n_vbuf = 0; n_ctor = 0;
    static union RawMap { Map<PTRef, PTRef, PTRefHash> m; RawMap() {} ~RawMap() {} } rawCache;      // never read: operator[] is answered from cache_of[]

    PTRef res = mergeAndOrArgs(rawLogic.l, PTRef{N_TR}, rawCache.m, [](PTRef t) { return dnm[t.x]; });

    VASSERT(ref_ok(res) && isBool[res.x], "the result is a formula of the table"); VASSUME(ref_ok(res));
    VASSERT(val[res.x] == val[N_TR], "the flattened node has the truth value of the original node under every valuation");
    if (n_ctor == 0) {
        VASSERT(res.x == N_TR && !any_changed, "a node is returned unchanged only if no child was rewritten");
        VWITNESS("unchanged");
    } else {
        VASSERT(n_ctor == 1 && res.x == N_FIRST_NEW && ctor_sym == n_sym[N_TR], "one new node with the connective of the original node");
        if (ctor_nargs > 3) { VWITNESS("children-spliced"); }
        if (ctor_nargs == 9) { VWITNESS("three-ternary-children-spliced"); }
        if (!any_changed) { VWITNESS("merged-without-rewritten-child"); }
        VWITNESS("rebuilt");
    }
    if (dnm[N_C0] && n_sym[cache_of[N_C0].x] == n_sym[N_TR] && n_ctor == 1 && ctor_nargs == 2) { VWITNESS("merge-vetoed"); }
}

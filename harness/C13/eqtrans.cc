// C13: the learnt transitivity facts.  The REAL Logic::learnEqTransitivity(PTRef) (its own DFS: vec<PTRef> stack + `processed` map, the
// diamond pattern match, the end-point comparison) is executed over a valued symbolic term table: a formula DAG of SYMBOLIC SHAPE
// whose every node carries its truth value under ONE symbolic valuation.  Obligation: the returned term (true, or the conjunction of the
// learnt implications  D -> (= x z)) is TRUE under every valuation, i.e. every learnt fact is a valid formula, so conjoining it to the
// frame formula neither removes nor adds models.
#ifndef NF
#define NF 9                 // formula nodes (the last one is the root handed to learnEqTransitivity)
#endif
#define STU_MAXN (8 + NF + 12)
#include "stu_val.h"
using namespace opensmt;
using namespace stu;

constexpr int NV = 5, NB = 2;                 // uninterpreted variables (values 0..3) / Boolean variables
constexpr int F0 = NV + NB + 1;               // first formula node (node NV+NB is `true`)
constexpr uint32_t SYM_IMPL = 13, SYM_TRUE = 14;
constexpr int MAXFACTS = 4;

union RawLogic { ArithLogic l; RawLogic() {} ~RawLogic() {} };
static RawLogic rawLogic;

static int n_impl, n_true_antecedent, harness_overflow;
static PTRef last_antecedent;

extern "C" {
bool stub_isEquality(void *, PTRef t) {
    VASSERT(ref_ok(t), "isEquality asked about a term outside the table"); VASSUME(ref_ok(t));
    uint32_t s = nodes[t.x].pt->sym.x;
    return s == SYM_EQ || s == SYM_BEQ;
}
// (=> a b): appended node, value computed from the argument values (the real mkImpl builds (or (not a) b): C14)
PTRef stub_mkImpl(void *, vec<PTRef> * args) {
    VASSERT(args->size() == 2, "mkImpl is called with two arguments"); VASSUME(args->size() == 2);
    PTRef a = (*args)[0], b = (*args)[1];
    VASSERT(ref_ok(a) && ref_ok(b), "mkImpl over known terms"); VASSUME(ref_ok(a) && ref_ok(b));
    VASSERT(isBool[a.x] && isBool[b.x], "mkImpl over Boolean terms");
    n_impl++; last_antecedent = a;
    if (val[a.x]) n_true_antecedent++;
    return mkv(K_OTHER, SYM_IMPL, 2, !val[a.x] || val[b.x], true, a, b);
}
// conjunction of the learnt facts (1..MAXFACTS arguments; the node keeps the first three as children, its value is the full conjunction)
PTRef stub_mkAndFacts(void *, vec<PTRef> * args) {
    int n = args->size();
    VASSERT(n >= 1 && n <= MAXFACTS, "harness bound: at most 4 learnt facts"); VASSUME(n >= 1 && n <= MAXFACTS);
    int32_t v = 1;
    for (int i = 0; i < MAXFACTS; i++) if (i < n) {
        PTRef a = (*args)[i];
        VASSERT(ref_ok(a) && isBool[a.x], "mkAnd over known Boolean terms"); VASSUME(ref_ok(a));
        if (!val[a.x]) v = 0;
    }
    PTRef a0 = (*args)[0], a1 = n > 1 ? (*args)[1] : PTRef_Undef, a2 = n > 2 ? (*args)[2] : PTRef_Undef;
    if (n == 1) return mkv(K_AND, SYM_AND, 1, v, true, a0);
    if (n == 2) return mkv(K_AND, SYM_AND, 2, v, true, a0, a1);
    return mkv(K_AND, SYM_AND, 3, v, true, a0, a1, a2);
}
// minisat vec<PTRef>::capacity (DFS stack, list of implications, argument vectors): fixed 40-element buffer, never reallocated
// (a symbolic-size realloc makes the encoding explode); a request beyond it is flagged and asserted not to happen
#define VCAP 40
void stub_cap_ptref(vec<PTRef> * v, int min_cap) {
    if (v->cap >= min_cap) return;
    VASSERT(min_cap <= VCAP, "harness bound: a PTRef vector (DFS stack) never needs more than 40 slots"); VASSUME(min_cap <= VCAP);
    if (v->data == nullptr) v->data = (PTRef *)malloc(VCAP * sizeof(PTRef));
    v->cap = VCAP;
}
// bucket vectors of the real minisat Map `processed` (31 buckets, keys < 31: one key per bucket): fixed 2-slot allocation
typedef Map<PTRef, bool, PTRefHash> PMap;
void stub_cap_pair(vec<PMap::Pair> * v, int min_cap) {
    if (v->cap >= min_cap) return;
    VASSERT(min_cap <= 2, "harness bound: at most 2 keys per hash bucket"); VASSUME(min_cap <= 2);
    if (v->data == nullptr) v->data = (PMap::Pair *)malloc(2 * sizeof(PMap::Pair));
    v->cap = 2;
}
#ifdef SET_MODEL
// alternative (-DSET_MODEL): the `processed` map as a plain bitmap
static bool proc_bits[STU_MAXN];
bool stub_procHas(void *, PTRef const * k) { VASSERT(ref_ok(*k), "processed.has on a known term"); VASSUME(ref_ok(*k)); return proc_bits[k->x]; }
void stub_procInsert(void *, PTRef const * k, bool const *) { VASSERT(ref_ok(*k) && !proc_bits[k->x], "processed.insert: key must not exist"); VASSUME(ref_ok(*k)); proc_bits[k->x] = true; }
#endif
}

static uint32_t pick(uint32_t lo, uint32_t hi) { uint32_t c = nondet_u8(); VASSUME(c >= lo && c < hi); return c; }

// node of symbolic kind with exact-size Pterm (2 or 3 arguments); children: any earlier nodes of the right sort
static Pterm * alloc23(bool three) { return static_cast<Pterm *>(three ? malloc(sizeof(Pterm) + 12) : malloc(sizeof(Pterm) + 8)); }
static bool is_andor[STU_MAXN];
static void formula_node(int i) {
    uint32_t kind = pick(0, 4);     // 0: (= u v) over uninterpreted variables  1: (= p q) over Boolean terms  2: and  3: or
    bool three = kind >= 2 && nondet_bool();
    uint32_t a, b, c = 0;
    if (kind == 0) { a = pick(0, NV); b = pick(0, NV); }
    else { a = pick(NV, i); b = pick(NV, i); if (three) c = pick(NV, i); }
    int32_t v;
    uint32_t sym; Kind k;
    switch (kind) {
    case 0: v = val[a] == val[b]; sym = SYM_EQ; k = K_EQ; break;
    case 1: v = val[a] == val[b]; sym = SYM_BEQ; k = K_EQ; break;
    case 2: v = val[a] && val[b] && (!three || val[c]); sym = SYM_AND; k = K_AND; break;
    default: v = val[a] || val[b] || (three && val[c]); sym = SYM_OR; k = K_OR; break;
    }
    Node & n = nodes[i];
    n.kind = k; n.nargs = three ? 3 : 2; n.num = nullptr; n.cval = 0;
    n.pt = alloc23(three);
    n.pt->header.type = 0; n.pt->header.has_extra = 0; n.pt->header.reloced = 0; n.pt->header.noscoping = 0; n.pt->header.size = three ? 3 : 2;
    n.pt->id.x = i; n.pt->sym = SymRef{sym};
    n.pt->args[0] = PTRef{a}; n.pt->args[1] = PTRef{b};
    if (three) n.pt->args[2] = PTRef{c};
    val[i] = v; isBool[i] = true; is_andor[i] = kind >= 2;
    nnodes = i + 1;
}

static void build_and_run() {
    init_valued(&rawLogic.l);
    rawLogic.l.sym_AND = SymRef{SYM_AND}; rawLogic.l.sym_OR = SymRef{SYM_OR};
    for (int i = 0; i < NV; i++) vVar(i, 0, 3);
    for (int i = 0; i < NB; i++) mkv(K_BVAR, SYM_VAR0 + 8 + i, 0, nondet_bool(), true);
    PTRef tru = mkv(K_OTHER, SYM_TRUE, 0, 1, true);
    rawLogic.l.term_TRUE = tru;
    for (int i = F0; i < F0 + NF; i++) formula_node(i);
    PTRef root{(uint32_t)(F0 + NF - 1)};
    VASSUME(is_andor[root.x]);
    n_impl = 0; n_true_antecedent = 0; harness_overflow = 0; last_antecedent = PTRef_Undef;

    PTRef res = rawLogic.l.learnEqTransitivity(root);

    VASSERT(!harness_overflow, "harness: fixed vector capacities suffice");
    VASSERT(ref_ok(res) && isBool[res.x], "the result is a formula of the table"); VASSUME(ref_ok(res));
    VASSERT(val[res.x] == 1, "every learnt transitivity fact holds under every valuation (it is a valid consequence, conjoining it preserves the models)");
    if (n_impl == 0) {
        VASSERT(res == tru, "without a recognised diamond the result is true");
        VWITNESS("no-fact-learnt");
    } else {
        VASSERT(res != tru && nodes[res.x].kind == K_AND, "with a recognised diamond the result is the conjunction of the learnt implications");
        VWITNESS("diamond-recognised-fact-learnt");
        if (n_true_antecedent > 0) { VWITNESS("fact-with-true-antecedent"); }
        if (n_impl >= 2) { VWITNESS("two-facts-learnt"); }
        if (ref_ok(last_antecedent) && nodes[last_antecedent.x].kind == K_OR && last_antecedent != root) { VWITNESS("diamond-below-the-root"); }
    }
    if (nodes[root.x].nargs == 3 && nodes[root.x].kind == K_OR) { VWITNESS("ternary-or-root"); }
}
extern "C" void h_eqtrans() { build_and_run(); }

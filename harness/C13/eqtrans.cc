// C13: the learnt transitivity facts.  The REAL Logic::learnEqTransitivity(PTRef) (its own DFS with the vec<PTRef> stack and the `processed`
// set, the diamond pattern match, the bridging-variable / end-point comparison) is executed over a valued symbolic term table: a formula
// whose node LABELS (and/or, equality-or-Boolean-variable leaves, the variables compared by each equality) are symbolic and whose every node
// carries its truth value under ONE symbolic valuation.  Obligation: the returned term (true, or the conjunction of the learnt implications
// D -> (= x z)) is TRUE under every valuation, i.e. every learnt fact is a valid formula, so conjoining it to the frame formula (UFTheory::
// preprocessBeforeSubstitutions) neither removes nor adds models.
//
// Formula family (one entry per arity triple RA, A0, A1 in {2,3}):
//     root = (and F (p x0 x1 x2) (q x3 x4))          p, q: opaque Boolean atoms mentioning every variable (arbitrary truth values)
//     F    = (and|or  N0 N1 [L6])                    RA children
//     Nk   = (and|or  L L [L])                       A0 / A1 children, own leaves L0..L2 / L3..L5
//     Li   = (= u v)  |  an opaque Boolean atom (r_i u v);   u, v symbolic among the variables x0..x4 (u = v allowed)
//            (leaf symbol: concrete id, symbolically an equality symbol or an uninterpreted predicate)
// The tree positions are concrete (so that the DFS control flow is concrete for the symbolic executor: a DFS over a term DAG of fully
// symbolic topology did not finish, see CLAIM.json); everything the pattern match looks at is symbolic.
#define STU_MAXN 24
#include "stu_val.h"
using namespace opensmt;
using namespace stu;

constexpr int NV = 5;                                   // uninterpreted variables x0..x4, values 0..3
constexpr uint32_t SYM_IMPL = 13, SYM_TRUE = 14, SYM_P = 40, SYM_Q = 41, SYM_LEAF0 = 48;
enum : uint32_t { N_TRUE = 5, N_L0 = 6, N_L6 = 12, N_N0 = 13, N_N1 = 14, N_F = 15, N_P = 16, N_Q = 17, N_ROOT = 18, N_FIRST_NEW = 19 };
constexpr int MAXFACTS = 2;
#define VCAP 16

union RawLogic { ArithLogic l; RawLogic() {} ~RawLogic() {} };
static RawLogic rawLogic;

static int n_impl, n_true_antecedent;
static PTRef last_antecedent;

// Term table: plain typed arrays (symbol, arity, arguments, value); PTRef.x == node index.  Logic::getPterm / PtStore::operator[] answer
// with an opaque handle (never dereferenced) and the Pterm accessors the function uses -- Pterm::size(), Pterm::symb(),
// Pterm::operator[](int) -- answer from the table (an argument index beyond the arity is reported).
static uint32_t n_sym[STU_MAXN], n_sz[STU_MAXN], n_arg[STU_MAXN][3];
static void put(int i, uint32_t sym, int n, int32_t v, bool b, uint32_t a0 = 0, uint32_t a1 = 0, uint32_t a2 = 0) {
    n_sym[i] = sym; n_sz[i] = n; n_arg[i][0] = a0; n_arg[i][1] = a1; n_arg[i][2] = a2;
    val[i] = v; isBool[i] = b;
}
static PTRef append(uint32_t sym, int n, int32_t v, bool b, PTRef a0 = PTRef{0}, PTRef a1 = PTRef{0}, PTRef a2 = PTRef{0}) {
    VASSERT(nnodes < STU_MAXN, "harness bound: term table full"); VASSUME(nnodes < STU_MAXN);
    put(nnodes, sym, n, v, b, a0.x, a1.x, a2.x);
    return PTRef{(uint32_t)nnodes++};
}
constexpr uintptr_t HANDLE0 = 0x100;
static uint32_t nodeOf(Pterm const * p) {
    uintptr_t h = reinterpret_cast<uintptr_t>(p) - HANDLE0;
    VASSERT(h < (uintptr_t)nnodes, "Pterm accessor applied to a handle of the table"); VASSUME(h < (uintptr_t)nnodes);
    return (uint32_t)h;
}

static PTRef vbig[2][VCAP], vsmall[MAXFACTS + 1][2];
static int n_big, n_small;

// the `processed` set of the DFS (minisat Map<PTRef,bool>; the real Map is checked in C28) as a bitmap over the table
static bool proc_bits[STU_MAXN];
static bool leaf_is_eq[7];
static bool arg_is_var; static uint32_t arg_var;        // the last Pterm::operator[] answer was a variable argument of an equality leaf

extern "C" {
Pterm * stub_pterm(void *, PTRef r) {
    VASSERT(ref_ok(r), "term reference outside the term table (undefined or garbage PTRef dereferenced)"); VASSUME(ref_ok(r));
    return reinterpret_cast<Pterm *>(HANDLE0 + r.x);
}
int stub_ptSize(Pterm const * p) { return (int)n_sz[nodeOf(p)]; }
SymRef stub_ptSymb(Pterm const * p) { return SymRef{n_sym[nodeOf(p)]}; }
PTRef stub_ptArg(Pterm const * p, int i) {
    uint32_t n = nodeOf(p);
    VASSERT(i >= 0 && (uint32_t)i < n_sz[n], "Pterm::operator[]: argument index beyond the arity of the term"); VASSUME(i >= 0 && (uint32_t)i < n_sz[n]);
    uint32_t a = n_arg[n][i];
    arg_is_var = n >= N_L0 && n <= N_L6; arg_var = a;
    return PTRef{a};
}
bool stub_isEquality(void *, PTRef t) {
    VASSERT(ref_ok(t), "isEquality asked about a term outside the table"); VASSUME(ref_ok(t));
    uint32_t s = n_sym[t.x];
    if (s >= SYM_LEAF0 && s < SYM_LEAF0 + 7) return leaf_is_eq[s - SYM_LEAF0];
    return s == SYM_EQ || s == SYM_BEQ;
}
// set membership.  Device that keeps the DFS control flow concrete: the (symbolic) variable argument of an equality leaf is answered `true`
// without an array read once all variables are in the set -- exact, because it is asserted that the key IS that variable (index < NV) and
// all NV variable bits are set (they are: the atoms p, q are visited first).
bool stub_procHas(void *, PTRef const * k) {
    VASSERT(ref_ok(*k), "processed.has on a known term"); VASSUME(ref_ok(*k));
    bool isvar = arg_is_var;          // set by the immediately preceding Pterm::operator[] on a leaf, cleared by has()/insert()
    arg_is_var = false;
    if (isvar && proc_bits[0] && proc_bits[1] && proc_bits[2] && proc_bits[3] && proc_bits[4]) {
        VASSERT(k->x == arg_var && k->x < NV, "harness: the key is the variable argument of a leaf just fetched");
        VASSUME(k->x == arg_var && k->x < NV);
        return true;
    }
    return proc_bits[k->x];
}
void stub_procInsert(void *, PTRef const * k, bool const *) {
    VASSERT(ref_ok(*k) && !proc_bits[k->x], "processed.insert precondition: the key is not yet in the map"); VASSUME(ref_ok(*k));
    proc_bits[k->x] = true; arg_is_var = false;
}
// (= a b): appended node, value computed from the argument values (virtual mkBinaryEq slot)
PTRef stub_mkBinaryEq(void *, PTRef a, PTRef b) {
    VASSERT(ref_ok(a) && ref_ok(b) && isBool[a.x] == isBool[b.x], "mkEq over two known terms of one sort"); VASSUME(ref_ok(a) && ref_ok(b));
    return append(isBool[a.x] ? SYM_BEQ : SYM_EQ, 2, val[a.x] == val[b.x], true, a, b);
}
// (=> a b): appended node, value computed from the argument values (the real mkImpl builds (or (not a) b): C14)
PTRef stub_mkImpl(void *, vec<PTRef> * args) {
    VASSERT(args->size() == 2, "mkImpl is called with two arguments"); VASSUME(args->size() == 2);
    PTRef a = (*args)[0], b = (*args)[1];
    VASSERT(ref_ok(a) && ref_ok(b), "mkImpl over known terms"); VASSUME(ref_ok(a) && ref_ok(b));
    VASSERT(isBool[a.x] && isBool[b.x], "mkImpl over Boolean terms");
    n_impl++; last_antecedent = a;
    if (val[a.x]) n_true_antecedent++;
    return append(SYM_IMPL, 2, !val[a.x] || val[b.x], true, a, b);
}
// conjunction of the learnt facts (1..MAXFACTS arguments), value = conjunction of the argument values
PTRef stub_mkAndFacts(void *, vec<PTRef> * args) {
    int n = args->size();
    VASSERT(n >= 1 && n <= MAXFACTS, "harness bound: number of learnt facts"); VASSUME(n >= 1 && n <= MAXFACTS);
    int32_t v = 1;
    for (int i = 0; i < MAXFACTS; i++) if (i < n) {
        PTRef a = (*args)[i];
        VASSERT(ref_ok(a) && isBool[a.x], "mkAnd over known Boolean terms"); VASSUME(ref_ok(a));
        if (!val[a.x]) v = 0;
    }
    return append(SYM_AND, n, v, true, (*args)[0], n > 1 ? (*args)[1] : PTRef{0});
}
// minisat vec<PTRef>::capacity: typed static buffers, never reallocated (a symbolic-size realloc makes the encoding explode).  The DFS stack
// and the list of implications (first request: push, min_cap 1) get VCAP slots each; the two-element argument vectors of mkImpl({a,b})
// (first request: growTo(2)) get 2 slots.  A request beyond that is asserted not to happen.  vec::clear(true) (destructor) does not free.
void stub_cap_ptref(vec<PTRef> * v, int min_cap) {
    if (v->cap >= min_cap) return;
    if (v->data == nullptr && min_cap == 2) {
        VASSERT(n_small <= MAXFACTS, "harness bound: number of two-element argument vectors"); VASSUME(n_small <= MAXFACTS);
        v->data = vsmall[n_small++]; v->cap = 2; return;
    }
    VASSERT(v->data == nullptr && min_cap == 1 && n_big < 2, "harness bound: a PTRef vector (DFS stack, implications) never needs more than 16 slots");
    VASSUME(v->data == nullptr && min_cap == 1 && n_big < 2);
    v->data = vbig[n_big++]; v->cap = VCAP;
}
void stub_clear_ptref(vec<PTRef> * v, bool) { v->sz = 0; }
}

static uint32_t pick(uint32_t lo, uint32_t hi) { uint32_t c = nondet_u8(); VASSUME(c >= lo && c < hi); return c; }

// leaf i: an atom (s_i u v) over two symbolically chosen variables whose symbol s_i is EITHER an equality symbol (then its value is u == v)
// OR an uninterpreted predicate (arbitrary truth value).  The symbol id itself is concrete per leaf (the function only compares it with
// sym_AND / sym_OR); which of the two it is, is symbolic and answered by the isEquality cut point.  (Arity 2 in both cases and a concrete id:
// CBMC's symbolic executor does not fold comparisons on an if-then-else of constants, a symbolic id or arity makes the DFS control flow symbolic.)
static void leaf(int i) {
    uint32_t u = pick(0, NV), v = pick(0, NV);
    bool eq = nondet_bool();
    leaf_is_eq[i - N_L0] = eq;
    put(i, SYM_LEAF0 + (i - N_L0), 2, eq ? (int32_t)(val[u] == val[v]) : (int32_t)nondet_bool(), true, u, v);
}
static void inner(int i, int arity, uint32_t a, uint32_t b, uint32_t c) {     // and / or over concrete children
    bool isAnd = nondet_bool();
    int32_t v = isAnd ? (val[a] && val[b] && (arity < 3 || val[c])) : (val[a] || val[b] || (arity == 3 && val[c]));
    put(i, isAnd ? SYM_AND : SYM_OR, arity, v, true, a, b, arity == 3 ? c : 0);
}

template <int RA, int A0, int A1> static void run() {
    init_logic(&rawLogic.l);
    // Logic::mkEq(PTRef,PTRef) dispatches to the virtual mkBinaryEq: the raw logic object gets a vtable whose only filled slot is that one
    fake_logic_vt[vslot(&Logic::mkBinaryEq)] = (void *)&stub_mkBinaryEq;
    *reinterpret_cast<void ***>(L) = fake_logic_vt;
    rawLogic.l.sym_AND = SymRef{SYM_AND}; rawLogic.l.sym_OR = SymRef{SYM_OR}; rawLogic.l.term_TRUE = PTRef{N_TRUE};
    for (int i = 0; i < NV; i++) { int32_t v = nondet_u8(); VASSUME(v >= 0 && v <= 3); put(i, SYM_VAR0 + i, 0, v, false); }
    put(N_TRUE, SYM_TRUE, 0, 1, true);
    for (int i = N_L0; i <= N_L6; i++) leaf(i);
    inner(N_N0, A0, N_L0, N_L0 + 1, N_L0 + 2);
    inner(N_N1, A1, N_L0 + 3, N_L0 + 4, N_L0 + 5);
    inner(N_F, RA, N_N0, N_N1, N_L6);
    put(N_P, SYM_P, 3, nondet_bool(), true, 0, 1, 2);
    put(N_Q, SYM_Q, 2, nondet_bool(), true, 3, 4);
    put(N_ROOT, SYM_AND, 3, val[N_F] && val[N_P] && val[N_Q], true, N_F, N_P, N_Q);
    nnodes = N_FIRST_NEW;
    n_impl = 0; n_true_antecedent = 0; n_big = 0; n_small = 0; last_antecedent = PTRef_Undef; arg_is_var = false;

    PTRef res = rawLogic.l.learnEqTransitivity(PTRef{N_ROOT});

    VASSERT(ref_ok(res) && isBool[res.x], "the result is a formula of the table"); VASSUME(ref_ok(res));
    VASSERT(val[res.x] == 1, "every learnt transitivity fact holds under every valuation (it is a valid consequence, conjoining it preserves the models)");
    if (n_impl == 0) {
        VASSERT(res.x == N_TRUE, "without a recognised diamond the result is true");
        VWITNESS("no-fact-learnt");
        if (n_sym[N_F] == SYM_OR && n_sym[N_N0] == SYM_AND && n_sym[N_N1] == SYM_AND) { VWITNESS("no-fact-learnt-from-an-or-of-ands"); }
    } else {
        VASSERT(res.x >= N_FIRST_NEW && n_sym[res.x] == SYM_AND, "with a recognised diamond the result is the conjunction of the learnt implications");
        VASSERT(last_antecedent.x == N_F, "the antecedent of the learnt implication is the disjunction itself");
        if constexpr (RA == 2) {       // (on the unchanged tree a three-argument disjunction never yields a fact)
            VWITNESS("diamond-recognised-fact-learnt");
            if (n_true_antecedent > 0) { VWITNESS("fact-with-true-antecedent"); }
        }
    }
}
extern "C" void h_eqtrans_222() { run<2, 2, 2>(); }
extern "C" void h_eqtrans_223() { run<2, 2, 3>(); }
extern "C" void h_eqtrans_232() { run<2, 3, 2>(); }
extern "C" void h_eqtrans_233() { run<2, 3, 3>(); }
extern "C" void h_eqtrans_322() { run<3, 2, 2>(); }
extern "C" void h_eqtrans_323() { run<3, 2, 3>(); }
extern "C" void h_eqtrans_332() { run<3, 3, 2>(); }
extern "C" void h_eqtrans_333() { run<3, 3, 3>(); }

// C03: concrete LRA model values: real Simplex::computeDelta + LASolver::computeModel/computeConcreteModel + Simplex::getValuation
// over real Delta / FastRational arithmetic (word fast paths; GMP model behind).  N variables with symbolic delta-rational
// values and bounds that satisfy lb <= val <= ub in the delta order; the concrete values R + D*delta must satisfy every bound in
// its real reading with a strictly positive delta.
#include "verif.h"
#include "tsolvers/lasolver/LASolver.h"
using namespace opensmt;

union RawLA { LASolver s; RawLA() {} ~RawLA() {} };
static RawLA raw;
static LAVarStore * theVars;
static Delta * vals[2]; static Delta * lbs[2]; static Delta * ubs[2]; static bool hasL[2], hasU[2];

extern "C" LAVarStore const * stub_getVarStore(LABoundStore const *) { return theVars; }
extern "C" Delta const * stub_read(LRAModel const *, LVRef const * v) { return vals[v->x]; }
extern "C" bool stub_hasLBound(LRAModel const *, LVRef v) { return hasL[v.x]; }
extern "C" bool stub_hasUBound(LRAModel const *, LVRef v) { return hasU[v.x]; }
extern "C" Delta const * stub_Lb(LRAModel const *, LVRef v) { return lbs[v.x]; }
extern "C" Delta const * stub_Ub(LRAModel const *, LVRef v) { return ubs[v.x]; }
extern "C" bool stub_isQuasiBasic(Tableau const *, LVRef) { return false; }
// basic / non-basic status of a variable: arbitrary but fixed per variable (a change of the code under test may start to consult it;
// the value chosen for a variable must respect its bounds whatever its tableau status)
static bool tab_status_set[4], tab_nonbasic[4];
static bool tab_is_nonbasic(LVRef v) { unsigned i = v.x & 3; if (!tab_status_set[i]) { tab_nonbasic[i] = nondet_bool(); tab_status_set[i] = true; } return tab_nonbasic[i]; }
extern "C" bool stub_isNonBasic(Tableau const *, LVRef v) { return tab_is_nonbasic(v); }
extern "C" bool stub_isBasic(Tableau const *, LVRef v) { return !tab_is_nonbasic(v); }

static int32_t small(int lo, int hi) { int32_t v = (int8_t)nondet_u8(); VASSUME(v >= lo && v <= hi); return v; }
// x * y for |x| small and 0 <= y <= 7 without a multiplier circuit
static int32_t mul3(int32_t x, int32_t y) { return ((y & 1) ? x : 0) + ((y & 2) ? x + x : 0) + ((y & 4) ? 4 * x : 0); }
static bool getfrac(Real const & r, int32_t & n, int32_t & d) { auto nd = r.tryGetNumDen(); if (!nd) return false; n = nd->first; d = (int32_t)nd->second; return true; }

template <int N, int RR, int DD> static void delta_model() {   // values R in [-RR,RR], D in [-DD,DD]
    int32_t R[2], D[2], lR[2], lD[2], uR[2], uD[2];
    LASolver & s = raw.s;
    new (&s.laVarStore) LAVarStore();
    new (&s.concrete_model) std::vector<Real>();
    theVars = &s.laVarStore;
    for (int i = 0; i < N; i++) {
        R[i] = small(-RR, RR); D[i] = small(-DD, DD);
        lR[i] = small(-RR, RR); lD[i] = small(0, 1);          // lower bounds: x >= c is (c,0), x > c is (c,+1)
        uR[i] = small(-RR, RR); uD[i] = small(-1, 0);         // upper bounds: x <= c is (c,0), x < c is (c,-1)
        hasL[i] = nondet_bool(); hasU[i] = nondet_bool();
        // the model is inside its bounds in the delta order (invariant of a SAT state of the simplex)
        if (hasL[i]) VASSUME(lR[i] < R[i] || (lR[i] == R[i] && lD[i] <= D[i]));
        if (hasU[i]) VASSUME(R[i] < uR[i] || (R[i] == uR[i] && D[i] <= uD[i]));
        vals[i] = new Delta(Real(R[i]), Real(D[i]));
        lbs[i] = new Delta(Real(lR[i]), Real(lD[i]));
        ubs[i] = new Delta(Real(uR[i]), Real(uD[i]));
        s.laVarStore.lavars.push_back(LVRef{(uint32_t)i});
    }
    s.LASolver::computeModel();
    Real delta = s.simplex.computeDelta();      // deterministic: the same value computeModel used
    int32_t p, q;
    bool okd = getfrac(delta, p, q);
    VASSERT(okd && p > 0 && q > 0, "delta is a positive rational");
    VASSUME(okd && p > 0 && q > 0 && p <= 7 && q <= 7);
    VASSERT(p <= q, "delta is at most 1");
    VASSERT((int)s.concrete_model.size() == N, "one concrete value per variable");
    bool tight = false;
    for (int i = 0; i < N; i++) {
        int32_t a, b;
        bool ok = getfrac(s.concrete_model[i], a, b);
        VASSERT(ok && b > 0 && b <= 7, "concrete value is a small rational"); VASSUME(ok && b > 0 && b <= 7);
        // x = R + D*delta, scaled by q > 0:  x*q = R*q + D*p
        int32_t xq = mul3(R[i], q) + mul3(D[i], p);
        VASSERT(mul3(a, q) == mul3(xq, b), "concrete value equals R + D*delta");
        if (hasL[i]) {
            VASSERT(mul3(lR[i], q) + mul3(lD[i], p) <= xq, "lower bound holds for the concrete delta: lR + lD*delta <= x");
            VASSERT(lD[i] == 0 ? mul3(lR[i], q) <= xq : mul3(lR[i], q) < xq, "real reading of the lower bound (>= / >) holds for the concrete value");
        }
        if (hasU[i]) {
            VASSERT(xq <= mul3(uR[i], q) + mul3(uD[i], p), "upper bound holds for the concrete delta: x <= uR + uD*delta");
            VASSERT(uD[i] == 0 ? xq <= mul3(uR[i], q) : xq < mul3(uR[i], q), "real reading of the upper bound (<= / <) holds for the concrete value");
        }
        if (hasL[i] && lD[i] == 1 && D[i] < 1 && lR[i] < R[i]) tight = true;
        if (hasU[i] && uD[i] == -1 && D[i] > -1 && R[i] < uR[i]) tight = true;
    }
    VWITNESS("model");
    if (tight) { VWITNESS("delta-constrained-by-a-strict-bound"); }
    if (p < q) { VWITNESS("delta-below-one"); }
    if (DD > 1) { if (q > 2) { VWITNESS("delta-with-denominator-above-two"); } }
}
extern "C" void h_delta_model_1() { delta_model<1, 3, 2>(); }

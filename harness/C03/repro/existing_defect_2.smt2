; EXISTING DEFECT 2 (unmodified code, HEAD 20bb98f): in UF+arithmetic logics, get-model / get-value fail with an
; error as soon as an uninterpreted function with a Bool argument occurs in an arithmetic atom.
;   /tmp/seed_C07/_build/opensmt existing_defect_2.smt2
; observed:  sat
;            (error "Incorrect valuation for symbol: argument and valuation size do not match")
;            (error "Incorrect valuation for symbol: argument and valuation size do not match")
; expected:  a model with definitions for x, p and h under which (> (h x p) 3) is true, and the value of (h x p).
; The same happens in QF_UFLRA (replace Int by Real), and when the Bool argument is an arithmetic atom,
; e.g. (> (h x (< y 0)) 0).  The exception is thrown by ModelBuilder::addToTheoryFunction (called from
; EgraphModelBuilder::addTheoryFunctionEvaluation): the enode of (h x p) has fewer children than h has arguments.
(set-option :produce-models true)
(set-logic QF_UFLIA)
(declare-fun x () Int)
(declare-fun p () Bool)
(declare-fun h (Int Bool) Int)
(assert (> (h x p) 3))
(check-sat)
(get-model)
(get-value ((h x p)))

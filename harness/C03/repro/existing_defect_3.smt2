; EXISTING DEFECT 3 (unmodified code, HEAD 20bb98f): with SAT-level preprocessing enabled (non-incremental mode)
; the returned model falsifies the only assertion.
;   /tmp/seed_C07/_build/opensmt existing_defect_3.smt2
; observed:  sat
;            x = 0, y = 0, q = false
;            (((xor q (> y x)) false))
; expected:  any model in which exactly one of q, (> y x) is true (without the :incremental option opensmt
;            returns x = 0, y = 0, q = true, which is fine).
; Presumed cause: q is eliminated by SimpSMTSolver (variable elimination); afterwards no clause mentions the
; theory atom (<= y x) any more, so its SAT value and the LRA values of x,y (never told about the atom) disagree;
; extendModel reconstructs q from the SAT value of the atom, get-model reports the LRA values.
(set-option :produce-models true)
(set-option :incremental 0)
(set-logic QF_LRA)
(declare-fun x () Real)
(declare-fun y () Real)
(declare-fun q () Bool)
(assert (xor q (> y x)))
(check-sat)
(get-model)
(get-value ((xor q (> y x))))

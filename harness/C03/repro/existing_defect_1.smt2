; EXISTING DEFECT 1 (unmodified code, HEAD 20bb98f): (get-assignment) reports "unknown" for named Boolean terms
; that are rewritten before CNF conversion (=>, distinct, ...), although the property requires the truth value
; the term has in the model.
;   /tmp/seed_C07/_build/opensmt existing_defect_1.smt2
; observed:  sat
;            ((lt true) (np true) (imp unknown) (dx unknown))
; expected:  ((lt true) (np true) (imp true) (dx true))      (both are asserted, hence true in every model)
; Cause: MainSolver::getTermValue returns l_Undef when term_mapper->hasLit(tr) is false; the named PTRef
; (=> q p) / (distinct x 5) never gets a literal because simplification replaces it by another term
; ((or (not q) p), (not (= x 5))); Interpret::getAssignment prints l_Undef as "unknown".
(set-option :produce-models true)
(set-option :produce-assignments true)
(set-logic QF_LRA)
(declare-fun x () Real)
(declare-fun y () Real)
(declare-fun p () Bool)
(declare-fun q () Bool)
(assert (! (< x y) :named lt))
(assert (! (not p) :named np))
(assert (! (=> q p) :named imp))
(assert (! (distinct x 5) :named dx))
(check-sat)
(get-assignment)
(get-model)

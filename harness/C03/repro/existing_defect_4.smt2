; EXISTING DEFECT 4 (unmodified code, HEAD 20bb98f): in UF+arithmetic logics a Bool argument of an uninterpreted
; function is given an "abstract value" of sort Bool, (as @8 Bool), in the function table.  The printed model is
; not a model (no Boolean equals @8), and the assertion is false under it.
;   /tmp/seed_C07/_build/opensmt existing_defect_4.smt2
; observed:  sat
;            ... (define-fun h ((x2 Int) (x3 Bool)) Int (ite (= (- 3) x2) (ite (= x3 (as @8 Bool)) 1 0) 0)) ...
;            (((g (f c)) (as @4 U))((g (h x p)) (as @d4 U))((h x p) 0))
;            i.e. the asserted equality (= (g (f c)) (g (h x p))) evaluates to false via get-value.
; expected:  h's table keyed on true/false for its Bool argument (as opensmt does in QF_UF) and both sides equal.
; Related to existing_defect_2 (same kind of term, there get-model aborts with an error instead); which of the two
; happens depends on whether the Boolean argument got an enode.
(set-option :produce-models true)
(set-logic QF_UFLIA)
(declare-sort U 0)
(declare-fun x () Int)
(declare-fun y () Int)
(declare-fun p () Bool)
(declare-fun c () U)
(declare-fun f (U) Int)
(declare-fun h (Int Bool) Int)
(declare-fun g (Int) U)
(assert (xor p (distinct x (+ (- 3) y))))
(assert (= (g (f c)) (g (h x p))))
(check-sat)
(get-model)
(get-value ((g (f c)) (g (h x p)) (h x p)))

/* Storage for the SimpSMTSolver object of elim_model.cc: only DECLARED in the C++ harness (no constructor runs, the IR keeps the
 * real class type); defined here with the generated struct type for CBMC, plain zeroed storage natively. */
#ifdef __CPROVER__
#ifdef IR2C_NEEDG_em_solver_obj
__typeof__(em_solver_obj) em_solver_obj;
#endif
#else
__attribute__((aligned(64))) char em_solver_obj[8192];
#endif

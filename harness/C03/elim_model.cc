// C03 (models satisfy the assertions): model-extension bookkeeping of SAT variable elimination (SatELite contract).
// REAL SimpSMTSolver::eliminateVar(v) (with the real static mkElimClause overloads) records the clauses of the smaller
// polarity of v plus a default unit in `elimclauses`; for EVERY assignment of the remaining variables that satisfies all
// non-tautological resolvents on v, the REAL SimpSMTSolver::extendModel() must yield a model that satisfies every original
// clause containing v or ~v.
#include "verif.h"
#include <cstdlib>
#include "smtsolvers/SimpSMTSolver.h"
using namespace opensmt;

#ifndef E_NV
#define E_NV 4            // variables
#endif
#ifndef E_NC
#define E_NC 4            // clauses containing v or ~v (the occurrence list of v)
#endif
#ifndef E_ML
#define E_ML 3            // literals per clause
#endif
enum { STRIDE = E_ML + 2, ECAP = E_NC * (E_ML + 1) + 2 };

extern "C" { extern opensmt::SimpSMTSolver em_solver_obj; }
static_assert(sizeof(SimpSMTSolver) <= 8192, "native replay storage in elim_model_rt.c too small");
static SimpSMTSolver * const S = &em_solver_obj;

static uint32_t ca_mem[E_NC * STRIDE];
static inline CRef cref_of(int k) { return (CRef)(k * STRIDE); }
static inline Clause & clause_at(int k) { return *reinterpret_cast<Clause *>(&ca_mem[k * STRIDE]); }
static inline int lvar(int l) { return l >> 1; }

static int g_v, g_n, g_csz[E_NC], g_clit[E_NC][E_ML];
static int g_removed, g_added, g_setdec, g_bwd;

template<class T> static void prealloc(vec<T> & v, T * buf, int cap, int size) { v.data = buf; v.cap = cap; v.sz = size; }
static vec<CRef> cls_vec;
static CRef occ_buf[E_NC];
static uint32_t buf_elim[ECAP];
static char buf_eliminated[E_NV];
static lbool buf_model[E_NV];
static CRef pool_buf[2][E_NC];
static int pool_k;
alignas(16) static unsigned char watch_mem[64];

// ---- stubs
extern "C" vec<CRef> * stub_occLookup(void * self, int const * v) {
    VASSERT(self == (void *)&S->occurs, "the occurrence lists of the solver under test");
    VASSERT(*v == g_v, "only the occurrence list of the eliminated variable is used");
    return &cls_vec;
}
extern "C" void * stub_watchList(void * self, Lit const * p) {
    VASSERT(var(*p) == g_v, "only the watch lists of the eliminated variable are touched");
    return (void *)watch_mem;               // an empty vec<Watcher> (watch lists are not part of this state)
}
// vec<CRef>/vec<uint32_t> growth: elimclauses is preallocated; the two local lists pos/neg get a fixed buffer each
extern "C" void stub_vec_capacity(vec<uint32_t> * v, int min_cap) {
    if (v->cap >= min_cap) return;
    VASSERT(v->data == nullptr && pool_k < 2 && min_cap <= E_NC, "harness preallocated enough vec capacity (no realloc in the kernel)");
    v->data = pool_buf[pool_k & 1]; v->cap = E_NC; pool_k++;
}
extern "C" void stub_vec_clear(vec<uint32_t> * v, bool dealloc) { v->sz = 0; if (dealloc) { v->data = nullptr; v->cap = 0; } }
extern "C" bool stub_merge_size(SimpSMTSolver *, Clause const *, Clause const *, Var v, int * size) {
    VASSERT(v == g_v, "merge on the eliminated variable");
    *size = nondet_u8() & 7; return nondet_bool();
}
extern "C" bool stub_merge_clause(SimpSMTSolver *, Clause const *, Clause const *, Var v, vec<Lit> *) {
    VASSERT(v == g_v, "merge on the eliminated variable");
    return nondet_bool();
}
extern "C" bool stub_addClause(SimpSMTSolver *, vec<Lit> *, void *) { g_added++; return true; }
extern "C" void stub_removeClause(SimpSMTSolver *, CRef) { g_removed++; }
extern "C" void stub_setDecisionVar(CoreSMTSolver *, Var v, bool b) { if (v == g_v && !b) g_setdec++; }
extern "C" bool stub_bwdsub(SimpSMTSolver *, bool) { g_bwd++; return true; }

static uint32_t g_sigma;   // bit u set: variable u true
static inline bool lit_true(int l) { return (((g_sigma >> (l >> 1)) ^ (uint32_t)l) & 1u) != 0; }

static void build() {
    g_v = nondet_u8(); VASSUME(g_v >= 0 && g_v < E_NV);
    g_n = nondet_u8(); VASSUME(g_n >= 0 && g_n <= E_NC);
    S->ca.memory = ca_mem; S->ca.sz = E_NC * STRIDE; S->ca.cap = E_NC * STRIDE; S->ca.wasted_ = 0; S->ca.extra_clause_field = true;
    for (int k = 0; k < E_NC; k++) {
        g_csz[k] = nondet_u8(); VASSUME(g_csz[k] >= 1 && g_csz[k] <= E_ML);
        Clause & c = clause_at(k);
        c.header.mark = 0; c.header.learnt = 0; c.header.has_extra = 1; c.header.reloced = 0; c.header.glue = 0; c.header.size = (unsigned)g_csz[k];
        bool has = false;
        for (int j = 0; j < E_ML; j++) {
            int l = nondet_u8(); VASSUME(l >= 0 && l < 2 * E_NV); g_clit[k][j] = l;
            if (j < g_csz[k]) {
                if (lvar(l) == g_v) has = true;
                for (int i = 0; i < j; i++) VASSUME(lvar(g_clit[k][i]) != lvar(l));   // stored clauses: duplicate-free, no tautologies
            }
            c.data[j].lit = toLit(l);
        }
        VASSUME(has);                       // the occurrence list of v holds exactly the clauses containing v or ~v
        occ_buf[k] = cref_of(k);
    }
    prealloc(cls_vec, occ_buf, E_NC, g_n);
    prealloc(S->elimclauses, buf_elim, (int)ECAP, 0);
    prealloc(S->eliminated, buf_eliminated, E_NV, E_NV);
    prealloc(S->model, buf_model, E_NV, E_NV);
    int gr = nondet_u8(); VASSUME(gr >= 0 && gr <= 16);
    S->grow = gr;
    S->clause_lim = nondet_bool() ? -1 : 3;
    S->eliminated_vars = 0;
    pool_k = 0; g_removed = g_added = g_setdec = g_bwd = 0;
}
static void reset_lists() { cls_vec.data = nullptr; cls_vec.sz = 0; cls_vec.cap = 0; S->elimclauses.data = nullptr; S->eliminated.data = nullptr; S->model.data = nullptr; }

extern "C" void h_elim_model() {
    build();
    int v = g_v;
    int npos = 0, nneg = 0;
    for (int k = 0; k < E_NC; k++) if (k < g_n) {
        bool p = false;
        for (int j = 0; j < E_ML; j++) if (j < g_csz[k] && g_clit[k][j] == 2 * v) p = true;
        if (p) npos++; else nneg++;
    }

    bool res = S->eliminateVar(v);

    if (!buf_eliminated[v]) {
        VASSERT(res, "eliminateVar gives up (too many resolvents) with true");
        VASSERT(S->elimclauses.size() == 0, "nothing is recorded when the variable is kept");
        VWITNESS("elim-given-up");
        reset_lists();
        return;
    }
    VASSERT(res && g_setdec == 1 && g_removed == g_n && g_bwd == 1, "eliminated: v is no decision variable, all its clauses removed");
    if (npos > nneg) { VWITNESS("elim-pos-gt-neg-branch"); } else { VWITNESS("elim-pos-le-neg-branch"); }

    // an arbitrary model of the remaining variables (v itself: unassigned, it is no decision variable any more)
    g_sigma = nondet_u8(); VASSUME(g_sigma < (1u << E_NV));
    bool v_undef = nondet_bool();
    for (int u = 0; u < E_NV; u++) buf_model[u] = (u == v && v_undef) ? l_Undef : lbool(((g_sigma >> u) & 1u) != 0);
    // ... that satisfies every non-tautological resolvent on v of the original clauses
    for (int a = 0; a < E_NC; a++) for (int b = 0; b < E_NC; b++) if (a < g_n && b < g_n) {
        bool apos = false, bneg = false, taut = false, sat = false;
        for (int i = 0; i < E_ML; i++) if (i < g_csz[a]) {
            int l = g_clit[a][i];
            if (l == 2 * v) apos = true; else if (lit_true(l)) sat = true;
            for (int j = 0; j < E_ML; j++) if (j < g_csz[b] && lvar(l) != v && l == (g_clit[b][j] ^ 1)) taut = true;
        }
        for (int j = 0; j < E_ML; j++) if (j < g_csz[b]) {
            int l = g_clit[b][j];
            if (l == 2 * v + 1) bneg = true; else if (lit_true(l)) sat = true;
        }
        if (apos && bneg && !taut) VASSUME(sat);
    }

    S->extendModel();

    VASSERT(S->model[v] != l_Undef, "extendModel assigns the eliminated variable");
    for (int u = 0; u < E_NV; u++) if (u != v) VASSERT(toInt(buf_model[u]) == (((g_sigma >> u) & 1u) ^ 1u), "extendModel changes only the eliminated variable");
    g_sigma = (g_sigma & ~(1u << v)) | ((toInt(buf_model[v]) == 0 ? 1u : 0u) << v);
    for (int k = 0; k < E_NC; k++) if (k < g_n) {
        bool sat = false;
        for (int j = 0; j < E_ML; j++) if (j < g_csz[k] && lit_true(g_clit[k][j])) sat = true;
        VASSERT(sat, "extended model satisfies every original clause of the eliminated variable");
    }
    bool deflt_true = npos > nneg;
    bool now_true = toInt(buf_model[v]) == 0;
    if (now_true != deflt_true) { VWITNESS("extend-flipped-default"); } else { VWITNESS("extend-kept-default"); }
    VWITNESS("elim-model-end");
    reset_lists();
}

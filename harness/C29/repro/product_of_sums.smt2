; NOT one of the seeded changes: the UNMODIFIED worktree (HEAD 27a89c9) already violates C29 here.
; SimplifyConstTimes::constSimplify keeps only the LAST sum factor (`plus = tr` overwrites), so with a constant factor
; present (* 2 (+ x 1) (+ y 1)) is silently simplified to 2*(y+1) instead of raising LANonLinearException.
; x = 5, y = 1: real value 2*6*2 = 24 != 4, so the script is unsatisfiable; unmodified opensmt prints "sat".
(set-logic QF_LRA)
(declare-fun x () Real)
(declare-fun y () Real)
(assert (= (* 2 (+ x 1) (+ y 1)) 4))
(assert (= y 1))
(assert (= x 5))
(check-sat)

// C29 (logic table): the table QFLogicToProperties (src/logics/LogicFactory.h) decides what every logic accepts:
// Logic::hasIntegers()/hasReals() are `QFLogicToProperties.at(logicType).arithProperty.*`, and ArithLogic::mkConst(char const*)
// refuses a decimal literal in an integer-only logic only because of these flags. The table object is built by its REAL dynamic
// initialiser (26 std::pair<const Logic_t, LogicProperty> temporaries with real std::string names); only the
// std::unordered_map container is replaced: its initializer_list constructor records the entries, `at` answers from the record.
#include "verif.h"
#include "logics/LogicFactory.h"
#include "logics/ArithLogic.h"
#include "common/ApiException.h"
using namespace opensmt;

using Entry = std::pair<const Logic_t, LogicProperty>;
using PropMap = std::unordered_map<Logic_t, LogicProperty>;

// ---- bounded primitives of std::string (every name fits the 15-character SSO buffer)
#define SB 16
extern "C" char * stub_ct_copy(char * d, const char * s, size_t n) {
    VASSERT(n <= SB, "bound: strings inside the SSO buffer");
    for (size_t i = 0; i < SB; i++) if (i < n) d[i] = s[i];
    return d;
}
extern "C" size_t stub_ct_length(const char * s) {
    for (size_t i = 0; i < 96; i++) if (s[i] == 0) return i;
    VASSERT(false, "bound: C strings shorter than 96");
    return 0;
}
extern "C" char * stub_str_create(std::string *, size_t &, size_t) { VASSERT(false, "bound: no heap-allocated string (SSO only)"); return nullptr; }
extern "C" void stub_str_destroy(std::string *, size_t) { VASSERT(false, "bound: no heap-allocated string to free (SSO only)"); }

// ---- the record of the table: one row per element of the initializer_list handed to the map's constructor (the backing
// array is a temporary of the initialiser, so its contents are copied out while it is alive)
#define MAXROWS 32
#define MAXNAME 12
struct Row {
    int key;
    char name[MAXNAME + 1];
    int len;
    bool hasInts, hasReals;
    int arithType;
    bool hasArrays, hasUF, hasDiff, hasBV;
};
static Row rows[MAXROWS];
static int nrows = -1;                  // -1: the constructor never ran
static bool rows_overflow, name_overflow;
static PropMap const * recorded_map;

extern "C" void stub_map_ctor(PropMap * self, Entry const * first, size_t len, size_t, void const *, void const *, void const *) {
    recorded_map = self;
    nrows = 0;
    for (size_t i = 0; i < MAXROWS; i++) {
        if (i >= len) break;
        Entry const & e = first[i];
        Row & r = rows[i];
        r.key = static_cast<int>(e.first);
        size_t n = e.second.name.size();
        char const * p = e.second.name.data();
        if (n > MAXNAME) { name_overflow = true; n = MAXNAME; }
        for (size_t k = 0; k < MAXNAME; k++) r.name[k] = k < n ? p[k] : '\0';
        r.name[MAXNAME] = '\0';
        r.len = (int)n;
        r.hasInts = e.second.arithProperty.hasInts;
        r.hasReals = e.second.arithProperty.hasReals;
        r.arithType = static_cast<int>(e.second.arithProperty.arithType);
        r.hasArrays = e.second.ufProperty.hasArrays;
        r.hasUF = e.second.ufProperty.hasUF;
        r.hasDiff = e.second.ufProperty.hasDiff;
        r.hasBV = e.second.bvProperty.hasBV;
        nrows = (int)i + 1;
    }
    if (len > MAXROWS) rows_overflow = true;
}

// ---- what the NAME of a logic says (SMT-LIB naming): substring tests on the recorded name
static bool has_sub(Row const & r, char const * pat, int plen) {
    bool found = false;
    for (int s = 0; s + plen <= MAXNAME; s++) {
        bool m = true;
        for (int k = 0; k < plen; k++) m = m && (r.name[s + k] == pat[k]);
        found = found || m;
    }
    return found;
}
#define SUB(r, lit) has_sub(r, lit, (int)sizeof(lit) - 1)

static bool name_is(Row const & r, char const * lit) {
    int i = 0;
    for (; i < MAXNAME && lit[i] != 0; i++) if (r.name[i] != lit[i]) return false;
    return r.name[i] == 0 && lit[i] == 0;
}

extern "C" void h_logic_table_names_vs_flags() {
    // the use of the table makes its dynamic initialiser run before this entry
    PropMap const * m = &QFLogicToProperties;
    VASSERT(nrows >= 0 && recorded_map == m, "the dynamic initialiser of QFLogicToProperties ran and handed its entries to the map constructor");
    VASSERT(!rows_overflow && !name_overflow, "bound: at most 32 entries, names of at most 12 characters");
    VASSERT(nrows >= 1, "the table is not empty");
    int i = nondet_u8();
    VASSUME(i >= 0 && i < nrows && i < MAXROWS);
    Row const & r = rows[i];

    bool nameInts = SUB(r, "IDL") || SUB(r, "LIA") || SUB(r, "NIA") || SUB(r, "IRA");
    bool nameReals = SUB(r, "RDL") || SUB(r, "LRA") || SUB(r, "NRA") || SUB(r, "IRA");
    bool nameDiff = SUB(r, "DL");
    bool nameLin = SUB(r, "LIA") || SUB(r, "LRA") || SUB(r, "LIRA");
    bool nameNonlin = SUB(r, "NIA") || SUB(r, "NRA") || SUB(r, "NIRA");

    VASSERT(r.hasInts == nameInts, "hasInts iff the logic's name has an integer-arithmetic marker (IDL, LIA, NIA, IRA)");
    VASSERT(r.hasReals == nameReals, "hasReals iff the logic's name has a real-arithmetic marker (RDL, LRA, NRA, IRA)");
    VASSERT((r.arithType == (int)Arithmetic_t::Difference) == nameDiff, "arithmetic type Difference iff the name contains DL");
    VASSERT((r.arithType == (int)Arithmetic_t::Linear) == nameLin, "arithmetic type Linear iff the name contains LIA, LRA or LIRA");
    VASSERT((r.arithType == (int)Arithmetic_t::Nonlinear) == nameNonlin, "arithmetic type Nonlinear iff the name contains NIA, NRA or NIRA");
    VASSERT((r.arithType == (int)Arithmetic_t::None) == (!r.hasInts && !r.hasReals), "no arithmetic type iff neither integers nor reals");
    VASSERT(r.arithType >= (int)Arithmetic_t::None && r.arithType <= (int)Arithmetic_t::Nonlinear, "arithmetic type is one of the four enumerators");
    if (name_is(r, "undef") || name_is(r, "empty") || name_is(r, "QF_UF") || name_is(r, "QF_AX") || name_is(r, "QF_AXDIFF") || name_is(r, "QF_BV") ||
        name_is(r, "QF_UFBV") || name_is(r, "QF_AUFBV") || name_is(r, "QF_BOOL")) {
        VASSERT(!r.hasInts && !r.hasReals && r.arithType == (int)Arithmetic_t::None, "QF_UF / QF_AX / QF_BV / QF_BOOL-like logics have no arithmetic at all");
        VWITNESS("non-arithmetic-logic");
    }
    // every key occurs once (a duplicate key would be dropped silently by the real map)
    int j = nondet_u8();
    VASSUME(j >= 0 && j < nrows && j < MAXROWS && j != i);
    VASSERT(rows[j].key != r.key, "no Logic_t key occurs twice in the table");
    if (r.hasInts && r.hasReals) { VWITNESS("mixed-arithmetic-logic"); }
    if (r.arithType == (int)Arithmetic_t::Difference && r.hasInts) { VWITNESS("integer-difference-logic"); }
    if (name_is(r, "QF_IDL")) { VWITNESS("QF_IDL"); }
    VWITNESS("table-entry-checked");
}

// ---- second entry: the real ArithLogic::mkConst(char const*) on top of the recorded table. Logic::hasIntegers()/hasReals() are
// real code (`QFLogicToProperties.at(logicType).arithProperty.*`); `at` is answered from the recorded rows.
struct FakeArith { bool hasInts, hasReals; int arithType; };
struct alignas(8) FakeProp { char name[sizeof(std::string)]; FakeArith arith; bool hasArrays, hasUF, hasDiff; bool hasBV; };
static_assert(sizeof(FakeProp) == sizeof(LogicProperty) && __builtin_offsetof(FakeProp, arith) == __builtin_offsetof(LogicProperty, arithProperty) &&
              __builtin_offsetof(FakeProp, hasArrays) == __builtin_offsetof(LogicProperty, ufProperty) &&
              __builtin_offsetof(FakeProp, hasBV) == __builtin_offsetof(LogicProperty, bvProperty), "layout of the answer of at()");
static FakeProp at_answer;
static bool at_unknown_key;
extern "C" LogicProperty const * stub_map_at(PropMap const *, Logic_t const & k) {
    bool found = false;
    for (int i = 0; i < MAXROWS; i++) {
        if (i < nrows && rows[i].key == (int)k && !found) {
            found = true;
            at_answer.arith.hasInts = rows[i].hasInts; at_answer.arith.hasReals = rows[i].hasReals; at_answer.arith.arithType = rows[i].arithType;
            at_answer.hasArrays = rows[i].hasArrays; at_answer.hasUF = rows[i].hasUF; at_answer.hasDiff = rows[i].hasDiff; at_answer.hasBV = rows[i].hasBV;
        }
    }
    if (!found) at_unknown_key = true;
    return reinterpret_cast<LogicProperty const *>(&at_answer);
}
static int sorted_calls, base_calls; static uint32_t sorted_sort;
extern "C" PTRef stub_mkConst_sorted(ArithLogic *, SRef s, char const *) { sorted_calls++; sorted_sort = s.x; return PTRef{11}; }
extern "C" PTRef stub_mkConst_base(Logic *, char const *) { base_calls++; return PTRef{12}; }

#define V8 (void *)&stub_mkConst_sorted, (void *)&stub_mkConst_sorted, (void *)&stub_mkConst_sorted, (void *)&stub_mkConst_sorted, (void *)&stub_mkConst_sorted, (void *)&stub_mkConst_sorted, (void *)&stub_mkConst_sorted, (void *)&stub_mkConst_sorted,
static void * fake_vt[96] = { V8 V8 V8 V8 V8 V8 V8 V8 V8 V8 V8 V8 };
union RawLogic { ArithLogic l; RawLogic() {} ~RawLogic() {} };
enum LitClass { LIT_INT, LIT_DEC, LIT_OTHER };
static const char lits[][8] = { "0.5", "1/2", "-1.5", "10.25", "-3/4", "3", "-7", "0", "x", "-", "1.", "1/" };
static const int lit_class[] = { LIT_DEC, LIT_DEC, LIT_DEC, LIT_DEC, LIT_DEC, LIT_INT, LIT_INT, LIT_INT, LIT_OTHER, LIT_OTHER, LIT_OTHER, LIT_OTHER };
#define NLITS (int)(sizeof(lits) / sizeof(lits[0]))

extern "C" void h_mkconst_literal_sort() {
    VASSERT(nrows >= 1 && !rows_overflow && !name_overflow, "the table was recorded");
    int i = nondet_u8();
    VASSUME(i >= 0 && i < nrows && i < MAXROWS);
    Row const & r = rows[i];
    // what the NAME promises
    bool nameInts = SUB(r, "IDL") || SUB(r, "LIA") || SUB(r, "NIA") || SUB(r, "IRA");
    bool nameReals = SUB(r, "RDL") || SUB(r, "LRA") || SUB(r, "NRA") || SUB(r, "IRA");
    VASSUME(nameInts || nameReals);                     // ArithLogic objects exist for arithmetic logics only
    int w = nondet_u8();
    VASSUME(w >= 0 && w < NLITS);
    char text[8]; int cls = LIT_OTHER;
    for (int k = 0; k < NLITS; k++) if (k == w) { for (int c = 0; c < 8; c++) text[c] = lits[k][c]; cls = lit_class[k]; }
    text[7] = '\0';
    static RawLogic raw;
    // mkConst(SRef, char const*) is a virtual call: every slot of the fake table leads to the recorder
    *reinterpret_cast<void **>(&raw.l) = (void *)fake_vt;
    *const_cast<Logic_t *>(&raw.l.logicType) = static_cast<Logic_t>(r.key);
    raw.l.sort_INT = SRef{7}; raw.l.sort_REAL = SRef{8};
    bool api_exc = false;
    PTRef res{0};
    try { res = raw.l.mkConst(text); } catch (ApiException const &) { api_exc = true; }
    VASSERT(!at_unknown_key, "hasIntegers/hasReals looked up a key of the table");
    VASSERT(sorted_calls + base_calls + (api_exc ? 1 : 0) == 1, "mkConst(text) ends in exactly one of: sorted constant, Logic::mkConst, ApiException");
    if (nameInts && !nameReals) {
        if (cls == LIT_DEC) {
            VASSERT(api_exc, "a literal with a decimal point or a fraction is rejected (ApiException) in an integer-only logic");
            VWITNESS("decimal-in-integer-logic");
        }
        if (cls == LIT_INT) VASSERT(sorted_calls == 1 && sorted_sort == 7, "an integer literal is an Int constant in an integer-only logic");
    } else if (nameReals && !nameInts) {
        if (cls != LIT_OTHER) {
            VASSERT(sorted_calls == 1 && sorted_sort == 8, "a numeric literal is a Real constant in a reals-only logic");
            VWITNESS("numeric-in-real-logic");
        }
    } else {
        if (cls == LIT_INT) VASSERT(sorted_calls == 1 && sorted_sort == 7, "an integer literal is an Int constant in a mixed logic");
        if (cls == LIT_DEC) { VASSERT(sorted_calls == 1 && sorted_sort == 8, "a decimal literal is a Real constant in a mixed logic"); VWITNESS("decimal-in-mixed-logic"); }
    }
    if (cls == LIT_OTHER) VASSERT(sorted_calls == 0, "a non-numeric text never becomes a numeric constant");
    if (name_is(r, "QF_IDL") && cls == LIT_DEC) { VWITNESS("QF_IDL-decimal"); }
    VWITNESS("mkconst-done");
}

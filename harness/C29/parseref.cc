// C29: STPSolver<SafeInt>::parseRef either parses a genuine difference constraint exactly or rejects the atom.
#include "stu_arith.h"
#include "common/ApiException.h"
#include "tsolvers/stpsolver/IDLSolver.h"
#include "tsolvers/stpsolver/STPSolver_implementations.hpp"
using namespace opensmt;
using namespace stu;

// summand of the right-hand side: a variable, (k * variable) or a constant, chosen symbolically
struct Summand { int kind; int var; int32_t coef; PTRef ref; };
static Summand summand(int nvars) {
    Summand s; s.kind = nondet_u8(); s.var = nondet_u8(); s.coef = (int8_t)nondet_u8();
    VASSUME(s.kind >= 0 && s.kind <= 3 && s.var >= 0 && s.var < nvars && s.coef >= -2 && s.coef <= 2);
    if (s.kind == 0) { s.ref = mkVar(s.var); s.coef = 1; }                                  // x
    else if (s.kind == 1) { PTRef c = mkConst(s.coef); s.ref = mk(K_TIMES, SYM_TIMES, 2, c, mkVar(s.var)); }   // (* k x)
    else if (s.kind == 2) { s.ref = mkConst(s.coef); }                                       // a constant summand
    else { PTRef c = mkConst(s.coef); s.ref = mk(K_TIMES, SYM_TIMES, 2, mkVar(s.var), c); }  // (* x k): arguments swapped
    return s;
}

alignas(ArithLogic) static unsigned char rawLogic[sizeof(ArithLogic)];
#define R4 (void *)rawLogic, (void *)rawLogic, (void *)rawLogic, (void *)rawLogic,
#define R16 R4 R4 R4 R4
alignas(16) static void * rawSolver[96] = {R16 R16 R16 R16 R16 R16};

extern "C" void h_parse_ref() {
    // raw solver object: parseRef reads only the `logic` reference; every pointer-sized slot refers to the raw logic
    static_assert(sizeof(IDLSolver) <= 96 * sizeof(void *));
    init_logic(rawLogic);
    auto * solver = reinterpret_cast<STPSolver<SafeInt> *>(rawSolver);

    int32_t c0 = (int8_t)nondet_u8(); VASSUME(c0 >= -4 && c0 <= 4);
    PTRef lhs = mkConst(c0);
    int n = nondet_u8(); VASSUME(n >= 1 && n <= 3);
    Summand s0 = summand(2), s1, s2;
    PTRef rhs = s0.ref;
    if (n >= 2) s1 = summand(2);
    if (n >= 3) s2 = summand(2);
    if (n == 2) rhs = mk(K_PLUS, SYM_PLUS, 2, s0.ref, s1.ref);
    if (n == 3) rhs = mk(K_PLUS, SYM_PLUS, 3, s0.ref, s1.ref, s2.ref);
    PTRef atom = mk(K_LEQ, SYM_LEQ, 2, lhs, rhs);            // c0 <= rhs

    // is it a difference constraint in the normal form the solver documents:  c0 <= x | (-1*y) | x + (-1*y) ?
    auto isPosVar = [](Summand const & s) { return s.kind == 0; };
    auto isNegVar = [](Summand const & s) { return s.kind == 1 && s.coef == -1; };
    bool dl = false; int ex = -1, ey = -1;       // expected x / y variable numbers (-1: absent)
    if (n == 1 && isPosVar(s0)) { dl = true; ex = s0.var; }
    if (n == 1 && isNegVar(s0)) { dl = true; ey = s0.var; }
    if (n == 2 && isPosVar(s0) && isNegVar(s1)) { dl = true; ex = s0.var; ey = s1.var; }
    if (n == 2 && isNegVar(s0) && isPosVar(s1)) { dl = true; ex = s1.var; ey = s0.var; }

    bool rejected = false;
    STPSolver<SafeInt>::ParsedPTRef p{PTRef_Undef, PTRef_Undef, SafeInt(0)};
    try { p = solver->parseRef(atom); } catch (ApiException const &) { rejected = true; }
    if (dl) {
        VWITNESS("difference-constraint");
        VASSERT(!rejected, "a genuine difference constraint is accepted");
        VASSERT((ex < 0 ? p.x == PTRef_Undef : (p.x.x < (uint32_t)nnodes && nodes[p.x.x].kind == K_VAR && nodes[p.x.x].pt->sym.x == SYM_VAR0 + ex)), "positive variable parsed exactly");
        VASSERT((ey < 0 ? p.y == PTRef_Undef : (p.y.x < (uint32_t)nnodes && nodes[p.y.x].kind == K_VAR && nodes[p.y.x].pt->sym.x == SYM_VAR0 + ey)), "negative variable parsed exactly");
        VASSERT(p.c.value() == -(ptrdiff_t)c0, "constant parsed exactly (y <= x + c with c = -c0)");
    } else {
        VWITNESS("not-a-difference-constraint");
        VASSERT(rejected, "an atom that is not a difference constraint is rejected, never silently mis-parsed");
    }
}

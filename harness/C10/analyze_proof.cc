// C10: CoreSMTSolver::analyze (real code) with proof logging ON and a recording stub for ResolutionProof: replaying the
// recorded chain (start clause, premises, pivots) by resolution yields exactly the learnt clause.
#define SS_PROOF 1
#define SS_DISTINCT_VARS 1
#include "satstate.h"
using namespace opensmt;
using namespace ss;

enum { MAXSTEP = 2 * SS_NV - 2 };
static bool begun, bad_record;
static CRef start_cref;
static int nsteps;
static CRef step_cref[MAXSTEP];
static int step_var[MAXSTEP];
static int ntheory;
static CRef theory_cref[NEWCL];
alignas(16) static unsigned char fake_proof[64];     // never dereferenced: every ResolutionProof method reached is a stub

extern "C" void c10_beginChain(ResolutionProof *, CRef c) { if (begun) bad_record = true; begun = true; start_cref = c; nsteps = 0; }
extern "C" void c10_addResolutionStep(ResolutionProof *, CRef c, Var v) {
    if (!begun || nsteps >= MAXSTEP) { bad_record = true; return; }
    step_cref[nsteps] = c; step_var[nsteps] = v; nsteps++;
}
extern "C" void c10_newLeafClause(ResolutionProof *, CRef c, clause_type t) {
    if (t != clause_type::CLA_THEORY || ntheory >= NEWCL) { bad_record = true; return; }
    theory_cref[ntheory++] = c;
}

// literal set (bit l = literal l) of the clause a chain refers to: a DB slot (ghost copy of the slot contents; analyze does
// not modify literals) or the k-th registered theory clause (= the k-th reason handed out by the getReason stub; that
// the allocated clause holds exactly those literals is checked separately below)
static uint32_t lits_mask(const int * lits, int sz, int maxsz) { uint32_t m = 0; for (int j = 0; j < maxsz; j++) if (j < sz) m |= 1u << lits[j]; return m; }
static uint32_t clause_mask(CRef cr, bool & known) {
    known = false;
    uint32_t m = 0;
    for (int k = 0; k < SS_NC; k++) if (cr == cref_of(k)) { known = true; m = lits_mask(g_clit[k], g_csz[k], SS_ML); }
    for (int k = 0; k < NEWCL; k++) if (k < ntheory && k < g_nth && theory_cref[k] == cr) { known = true; m = lits_mask(g_thlit[k], g_thsz[k], SS_TL); }
    return m;
}
// the clause allocated for the k-th theory reason holds exactly the literals the theory returned
static bool theory_clauses_faithful() {
    bool ok = ntheory == g_nth;
    for (int k = 0; k < NEWCL; k++) if (k < ntheory && k < g_nth) {
        CRef cr = theory_cref[k];
        if (cr < (CRef)(SS_NC * STRIDE) || cr + 1 + SS_TL > (CRef)CA_CAP) { ok = false; continue; }
        Clause & c = S->ca[cr];
        if ((int)c.size() != g_thsz[k]) ok = false;
        for (int j = 0; j < SS_TL; j++) if (j < g_thsz[k] && c[j].x != g_thlit[k][j]) ok = false;
    }
    return ok;
}

extern "C" void h_analyze_proof() {
    build_state(1);
    const int ck = SS_NV;   // conflict clause slot
    bool has_cur = false;
    for (int j = 0; j < SS_ML; j++) if (j < g_csz[ck]) { int l = g_clit[ck][j]; VASSUME(lit_false_entry(l)); if (g_lev[lvar(l)] == g_nl) has_cur = true; }
    VASSUME(has_cur);
    g_sigma = 0;            // sigma is not used by this check
    materialize();
    int mode = nondet_u8(); VASSUME(mode == 0 || mode == 2);
    S->ccmin_mode = mode;
    *reinterpret_cast<void **>(&S->resolutionProof) = (void *)fake_proof;   // proof logging on
    begun = false; bad_record = false; nsteps = 0; ntheory = 0;

    vec<Lit> out; prealloc(out, buf_out, SS_NV + 2, 0);
    int bt = nondet_i32();
    S->analyze(cref_of(ck), out, bt);

    VASSERT(!g_bad_getreason, "getReason is asked only for trail literals whose reason is the theory");
    VASSERT(begun && !bad_record, "exactly one chain is begun, steps are recorded inside it, only theory leaves are registered");
    VASSERT(start_cref == cref_of(ck), "the chain starts with the conflict clause");
    int n = out.size();
    uint32_t learnt = 0; bool in_range = n >= 1 && n <= SS_NV;
    for (int i = 0; i < SS_NV; i++) if (i < n) { int l = out[i].x; if (lit_ok(l)) learnt |= 1u << l; else in_range = false; }
    VASSERT(in_range, "learnt literals are literals of the solver");
    bool known;
    uint32_t cur = clause_mask(start_cref, known);
    bool premises_known = known, pivots_ok = true;
    for (int s = 0; s < MAXSTEP; s++) if (s < nsteps) {
        uint32_t pm = clause_mask(step_cref[s], known);
        if (!known) premises_known = false;
        int v = step_var[s];
        if (v < 0 || v >= SS_NV) { pivots_ok = false; continue; }
        uint32_t pos = 1u << (2 * v), neg = 2u << (2 * v);
        bool a = (cur & pos) && !(cur & neg) && (pm & neg) && !(pm & pos);
        bool b = (cur & neg) && !(cur & pos) && (pm & pos) && !(pm & neg);
        if (!(a || b)) pivots_ok = false;
        cur = (cur | pm) & ~(pos | neg);
    }
#ifdef SS_WRONG
    VASSERT(nsteps <= 1, "DELIBERATELY WRONG: a chain never has more than one resolution step");
#endif
    VASSERT(theory_clauses_faithful(), "each registered theory clause is a fresh clause holding exactly the literals of the theory reason");
    VASSERT(premises_known, "every premise of the chain is a clause of the DB or a registered theory clause");
    VASSERT(pivots_ok, "every pivot occurs with opposite signs in the two clauses resolved (and only so)");
    VASSERT(cur == learnt, "resolving the start clause with the recorded premises on the recorded pivots yields exactly out_learnt");
    VASSERT(seen_clear(), "seen[] is clear on exit");
    int tcsz = S->analyze_toclear.size();
    VASSERT(tcsz == n, "no literal is removed by minimisation while a proof is logged");
    VWITNESS("analyze-proof-returns");
    if (nsteps == 0) { VWITNESS("trivial-chain"); }
    if (nsteps >= 3) { VWITNESS("three-steps"); }
    if (ntheory > 0) { VWITNESS("theory-premise"); }
    bool lev0 = false;
    for (int s = 0; s < MAXSTEP; s++) if (s < nsteps && step_var[s] >= 0 && step_var[s] < SS_NV && g_lev[step_var[s]] == 0) lev0 = true;
    if (lev0) { VWITNESS("level0-unit-resolved"); }
    out.data = nullptr; out.sz = 0; out.cap = 0;
}

// C10: CoreSMTSolver::analyzeFinal (real code) with proof logging ON and a recording stub for ResolutionProof, from an
// arbitrary valid proof-logging state at the point where search() finds a false assumption.  The chain analyzeFinal
// records (start = unit clause of the failing assumption, then one premise + pivot per step, closed with
// endChain(CRef_Undef), i.e. claimed to derive the EMPTY clause) is replayed by resolution on literal sets:
//   * replaying every step yields the empty clause;
//   * replaying only the steps whose premise is NOT an assumption unit yields exactly out_conflict \ {p}  (convention of
//     the code: out_conflict = {p} + negations of the assumption literals whose unit clauses the chain uses), so every
//     literal of a reason clause -- level-0 literals in particular -- is resolved away by a recorded step or is returned.
#define SS_ASSUMPTIONS 1
#define SS_PROOF 1
#include "satstate.h"
using namespace opensmt;
using namespace ss;

enum { MAXSTEP = SS_NV + 1, UNIT_BASE = 0x40000000 };   // assumption unit of literal l is the (never dereferenced) CRef UNIT_BASE + l
static bool begun, ended, bad_record, bad_unit_query;
static CRef start_cref, end_cref;
static int nsteps;
static CRef step_cref[MAXSTEP];
static int step_var[MAXSTEP];
static int ntheory;
static CRef theory_cref[SS_NV];
alignas(16) static unsigned char fake_proof[64];     // never dereferenced: every ResolutionProof method reached is a stub

extern "C" void c10_beginChain(ResolutionProof *, CRef c) { if (begun) bad_record = true; begun = true; start_cref = c; nsteps = 0; }
extern "C" void c10_addResolutionStep(ResolutionProof *, CRef c, Var v) {
    if (!begun || ended || nsteps >= MAXSTEP) { bad_record = true; return; }
    step_cref[nsteps] = c; step_var[nsteps] = v; nsteps++;
}
extern "C" void c10_endChain(ResolutionProof *, CRef c) { if (!begun || ended) bad_record = true; ended = true; end_cref = c; }
extern "C" void c10_newLeafClause(ResolutionProof *, CRef c, clause_type t) {
    if (t != clause_type::CLA_THEORY || ntheory >= SS_NV) { bad_record = true; return; }
    theory_cref[ntheory++] = c;
}
// ResolutionProof::getUnitForAssumptionLiteral(l): the real one looks l up in assumed_literals (= the current assumptions,
// setCurrentAssumptionLiterals) and dereferences the iterator unconditionally -> l must be a current assumption literal
extern "C" CRef c10_getUnit(ResolutionProof *, Lit l) {
    bool is_asm = false;
    for (int k = 0; k < SS_NA; k++) if (k < g_na && g_asm[k] == l.x) is_asm = true;
    if (!is_asm || !lit_ok(l.x)) { bad_unit_query = true; return (CRef)UNIT_BASE; }
    return (CRef)(UNIT_BASE + l.x);
}

static uint32_t lits_mask(const int * lits, int sz, int maxsz) { uint32_t m = 0; for (int j = 0; j < maxsz; j++) if (j < sz) m |= 1u << lits[j]; return m; }
// literal set (bit l = literal l) of the clause a chain refers to: a DB slot (ghost copy; analyzeFinal does not modify
// literals), the k-th registered theory clause (= k-th reason handed out by the getReason stub; checked to be faithful
// below) or the unit clause of an assumption literal
static uint32_t clause_mask(CRef cr, bool & known, bool & is_unit) {
    known = false; is_unit = false;
    uint32_t m = 0;
    for (int k = 0; k < SS_NC; k++) if (cr == cref_of(k)) { known = true; m = lits_mask(g_clit[k], g_csz[k], SS_ML); }
    for (int k = 0; k < SS_NV; k++) if (k < ntheory && k < g_nth && theory_cref[k] == cr) { known = true; m = lits_mask(g_thlit[k], g_thsz[k], SS_TL); }
    if (cr >= (CRef)UNIT_BASE && cr < (CRef)(UNIT_BASE + 2 * SS_NV)) { known = true; is_unit = true; m = 1u << (cr - (CRef)UNIT_BASE); }
    return m;
}
static bool theory_clauses_faithful() {
    bool ok = ntheory == g_nth;
    for (int k = 0; k < SS_NV; k++) if (k < ntheory && k < g_nth) {
        CRef cr = theory_cref[k];
        if (cr < (CRef)(SS_NC * STRIDE) || cr + 1 + SS_TL > (CRef)CA_CAP) { ok = false; continue; }
        Clause & c = S->ca[cr];
        if ((int)c.size() != g_thsz[k]) ok = false;
        for (int j = 0; j < SS_TL; j++) if (j < g_thsz[k] && c[j].x != g_thlit[k][j]) ok = false;
        if (S->vardata[g_thvar[k]].reason != cr) ok = false;
    }
    return ok;
}

extern "C" void h_final_chain() {
    build_state(0);
    assume_assumptions();
    g_sigma = 0;            // sigma is not used by this check
    materialize();
    materialize_assumptions();
    *reinterpret_cast<void **>(&S->resolutionProof) = (void *)fake_proof;   // proof logging on
    begun = ended = bad_record = bad_unit_query = false; nsteps = 0; ntheory = 0;
    const int a = g_asm[g_nl];          // the failing assumption (false under the trail)
    const int p = a ^ 1;                // search() calls analyzeFinal(~a, conflict)
    // pre-state shape needed for the level-0 case: a level-0 literal occurs (negated) in the clause reason of a literal of
    // an assumption level
    bool lev0_in_reason = false;
    for (int v = 0; v < SS_NV; v++) if (g_pos[v] >= 0 && g_lev[v] >= 1 && g_kind[v] == K_CLAUSE)
        for (int j = 1; j < SS_ML; j++) if (j < g_csz[v] && g_lev[lvar(g_clit[v][j])] == 0) lev0_in_reason = true;

    vec<Lit> out; prealloc(out, buf_out, SS_NV + 2, nondet_u8() % 3);   // analyzeFinal clears it
    S->analyzeFinal(toLit(p), out);

    VASSERT(!g_bad_getreason, "getReason is asked only for trail literals whose reason is the theory");
    VASSERT(!bad_unit_query, "getUnitForAssumptionLiteral is asked only for current assumption literals");
    VASSERT(begun && ended && !bad_record, "exactly one chain is begun and ended, steps are recorded inside it, only theory leaves are registered");
    VASSERT(end_cref == CRef_Undef, "the chain is stored as the derivation of the empty clause (CRef_Undef)");
    VASSERT(start_cref == (CRef)(UNIT_BASE + a), "the chain starts with the unit clause of the failing assumption");
    int n = out.size();
    uint32_t outm = 0; bool in_range = n >= 1 && n <= SS_NV + 1;
    for (int i = 0; i < SS_NV + 1; i++) if (i < n) { int l = out[i].x; if (lit_ok(l)) outm |= 1u << l; else in_range = false; }
    VASSERT(in_range, "out_conflict literals are literals of the solver");
    bool known, is_unit;
    uint32_t cur = clause_mask(start_cref, known, is_unit);    // replay of every step
    uint32_t cur2 = cur;                                       // replay of the steps whose premise is not an assumption unit
    uint32_t units_neg = 1u << (a ^ 1);                        // negations of the assumption literals whose units are used
    bool premises_known = known && is_unit, pivots_ok = true, lev0_step = false, asm_step = false;
    for (int s = 0; s < MAXSTEP; s++) if (s < nsteps) {
        uint32_t pm = clause_mask(step_cref[s], known, is_unit);
        if (!known) premises_known = false;
        int v = step_var[s];
        if (v < 0 || v >= SS_NV) { pivots_ok = false; continue; }
        uint32_t pos = 1u << (2 * v), neg = 2u << (2 * v);
        bool x = (cur & pos) && !(cur & neg) && (pm & neg) && !(pm & pos);
        bool y = (cur & neg) && !(cur & pos) && (pm & pos) && !(pm & neg);
        if (!(x || y)) pivots_ok = false;
        cur = (cur | pm) & ~(pos | neg);
        if (is_unit) { units_neg |= ((pm & pos) ? neg : pos); asm_step = true; }
        else cur2 = (cur2 | pm) & ~(pos | neg);
        if (g_lev[v] == 0 && g_pos[v] >= 0) lev0_step = true;
    }
#ifdef SS_WRONG
    VASSERT(nsteps <= 1, "DELIBERATELY WRONG: a final chain never has more than one resolution step");
#endif
    VASSERT(ntheory <= SS_NV && theory_clauses_faithful(), "each registered theory clause is a fresh clause holding exactly the literals of the theory reason, and becomes the reason of its variable");
    VASSERT(premises_known, "every premise of the chain is a clause of the DB, a registered theory clause or the unit clause of a current assumption literal");
    VASSERT(pivots_ok, "every pivot occurs with opposite signs in the two clauses resolved (and only so)");
    VASSERT(cur == 0, "resolving the start unit with the recorded premises on the recorded pivots yields the empty clause (what endChain(CRef_Undef) claims)");
    VASSERT((cur2 | (1u << p)) == outm, "resolving with the recorded non-assumption premises only yields exactly out_conflict minus p (no literal, level 0 included, is left unresolved)");
    VASSERT(units_neg == outm, "out_conflict is exactly the set of negated assumption literals whose unit clauses the chain uses");
    VASSERT(seen_clear(), "seen[] is clear on exit");
    VWITNESS("final-chain-returns");
    if (lev0_in_reason) { VWITNESS("state-has-level0-literal-in-reason-of-assumption-level-literal"); }
    if (lev0_step) { VWITNESS("level0-unit-resolved"); }
    if (lev0_step && asm_step && n >= 2) { VWITNESS("level0-unit-and-another-assumption"); }
    if (nsteps >= 4) { VWITNESS("four-steps"); }
    if (ntheory > 0) { VWITNESS("theory-premise"); }
    if (n == 1) { VWITNESS("assumption-false-by-itself"); }
    out.data = nullptr; out.sz = 0; out.cap = 0;
}

/* Storage for the objects of assumption_units.cc: only DECLARED (extern) in the C++ harness so that the IR keeps their real
 * class types; under CBMC defined here with exactly that generated struct type (typed, zero-initialised); in the native
 * replay build plain zeroed storage of sufficient size (static_assert in the harness).  Same trick as include/satstate_rt.c. */
#ifdef __CPROVER__
#ifdef IR2C_NEEDG_au_proof_obj
__typeof__(au_proof_obj) au_proof_obj;
#endif
#ifdef IR2C_NEEDG_au_ca_obj
__typeof__(au_ca_obj) au_ca_obj;
#endif
#else
__attribute__((aligned(64))) char au_proof_obj[512];
__attribute__((aligned(64))) char au_ca_obj[512];
#endif

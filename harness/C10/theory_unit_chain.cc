// C10: CoreSMTSolver::handleSat (real code, with the real deduceTheory and uncheckedEnqueue) at decision level 0 with proof
// logging ON: for every literal l the theory deduces, the recorded chain starts from the registered theory reason clause
// and resolves EVERY premise with its level-0 unit reason, so that replaying it by resolution yields exactly the unit {l},
// which is the clause the chain is stored for (endChain(unit)) and which becomes the reason of l.
#define SS_PROOF 1
#include "satstate.h"
using namespace opensmt;
using namespace ss;

#ifndef C10_NQ
#define C10_NQ 3
#endif
enum { ND = 2,                 // unassigned deductions per call (= chains)
       NQ = C10_NQ,            // answers of getDeduction before lit_Undef (assigned ones are skipped by deduceTheory)
       MAXSTEP = SS_TL };      // a chain has at most SS_TL-1 steps on the unchanged tree; one more is recorded to see an excess
static bool chain_open, bad_record, bad_query;
static int nch;
static CRef ch_start[ND], ch_end[ND];
static int ch_n[ND];
static CRef ch_cref[ND][MAXSTEP];
static int ch_var[ND][MAXSTEP];
static int ntheory;
static CRef theory_cref[ND];
alignas(16) static unsigned char fake_proof[64];     // never dereferenced: every ResolutionProof method reached is a stub

extern "C" void c10_beginChain(ResolutionProof *, CRef c) {
    if (chain_open || nch >= ND) { bad_record = true; return; }
    chain_open = true; ch_start[nch] = c; ch_n[nch] = 0;
}
extern "C" void c10_addResolutionStep(ResolutionProof *, CRef c, Var v) {
    if (!chain_open || nch >= ND || ch_n[nch] >= MAXSTEP) { bad_record = true; return; }
    ch_cref[nch][ch_n[nch]] = c; ch_var[nch][ch_n[nch]] = v; ch_n[nch]++;
}
extern "C" void c10_endChain(ResolutionProof *, CRef c) {
    if (!chain_open || nch >= ND) { bad_record = true; return; }
    chain_open = false; ch_end[nch] = c; nch++;
}
extern "C" void c10_newLeafClause(ResolutionProof *, CRef c, clause_type t) {
    if (t != clause_type::CLA_THEORY || ntheory >= ND) { bad_record = true; return; }
    theory_cref[ntheory++] = c;
}

// ---- theory side ---------------------------------------------------------------------------------------------------
static int q_n, q_i, q_lit[NQ];
static int d_n, d_lit[ND];                 // the unassigned deductions in order = what handleSat must enqueue
static inline uint8_t cur_val(int v) { return S->assigns[v].value; }               // 0 true, 1 false, 2.. undef
static inline bool cur_false(int l) { return cur_val(lvar(l)) == (uint8_t)((l & 1) ^ 1); }
extern "C" Lit c10_getDeduction(THandler *) { if (q_i < q_n && q_i < NQ) return toLit(q_lit[q_i++]); return lit_Undef; }
extern "C" void c10_getNewSplits(std::vector<vec<Lit>> * ret, THandler *) { new (ret) std::vector<vec<Lit>>(); }
// THandler::getReason(p, r) for a deduced, not yet enqueued literal p: r[0] = p, followed by 0..SS_TL-1 premises over
// pairwise distinct variables, each FALSE in the current solver state (hence assigned at level 0)
extern "C" void c10_getReason(THandler *, Lit p, vec<Lit> & r) {
    bool ok = g_nth < ND && g_nth < d_n && p.x == d_lit[g_nth] && cur_val(lvar(p.x)) >= 2;
    if (!ok) { bad_query = true; prealloc(r, buf_r[0], 1, 1); r[0] = p; return; }
    int m = nondet_u8();
    VASSUME(m >= 1 && m <= SS_TL);
    prealloc(r, buf_r[g_nth], SS_TL, m);
    r[0] = p;
    g_thlit[g_nth][0] = p.x;
    for (int j = 1; j < SS_TL; j++) {
        int l = nondet_u8();
        VASSUME(lit_ok(l));
        if (j < m) {
            VASSUME(cur_false(l));
            for (int i = 0; i < j; i++) VASSUME(lvar(g_thlit[g_nth][i]) != lvar(l));
        }
        r[j] = toLit(l);
        g_thlit[g_nth][j] = l;
    }
    g_thvar[g_nth] = lvar(p.x); g_thsz[g_nth] = m; g_nth++;
}
// growth of the two local vectors of handleSat (deds; the temporary vec<Lit>{l}): fixed typed buffers
static LitLev buf_deds[NQ + 1];
static Lit buf_tmp[ND + 1][2];
static int n_tmp;
extern "C" void c10_cap_litlev(vec<LitLev> * v, int min_cap) {
    if (v->cap >= min_cap) return;
    VASSERT(v->data == nullptr && min_cap <= NQ + 1, "harness buffer for deds is large enough");
    v->data = buf_deds; v->cap = NQ + 1;
}
extern "C" void c10_cap_lit(vec<Lit> * v, int min_cap) {
    if (v->cap >= min_cap) return;
    VASSERT(v->data == nullptr && min_cap <= 2 && n_tmp <= ND, "harness buffer for a temporary literal vector is large enough");
    v->data = buf_tmp[n_tmp <= ND ? n_tmp : 0]; v->cap = 2; n_tmp++;
}

static bool in_new_region(CRef cr, int words) { return cr >= (CRef)(SS_NC * STRIDE) && cr + (CRef)words <= (CRef)CA_CAP; }

extern "C" void h_theory_unit_chain() {
    build_state(0);
    VASSUME(g_nl == 0);     // decision level 0: every trail literal is a level-0 fact with a unit reason clause (SS_PROOF)
    g_sigma = 0;
    materialize();
    *reinterpret_cast<void **>(&S->resolutionProof) = (void *)fake_proof;   // proof logging on
    chain_open = bad_record = bad_query = false; nch = 0; ntheory = 0; n_tmp = 0;
    // the theory's deductions: literals of the solver; the unassigned ones are over pairwise distinct variables
    q_n = nondet_u8(); VASSUME(q_n >= 0 && q_n <= NQ); q_i = 0; d_n = 0;
    for (int i = 0; i < NQ; i++) {
        int l = nondet_u8(); VASSUME(lit_ok(l)); q_lit[i] = l;
        if (i < q_n && g_pos[lvar(l)] < 0) {
            for (int k = 0; k < ND; k++) if (k < d_n) VASSUME(lvar(d_lit[k]) != lvar(l));
            VASSUME(d_n < ND);
            d_lit[d_n++] = l;
        }
    }

    TPropRes res = S->handleSat();

    VASSERT(!bad_query, "getReason is asked exactly for the unassigned deductions, in order, before they are enqueued");
    VASSERT(!bad_record && !chain_open, "chains are begun/ended properly nested, steps are recorded inside a chain, only theory leaves are registered");
    VASSERT(nch == d_n && ntheory == d_n && g_nth == d_n, "one theory reason, one registered theory clause and one chain per enqueued deduction");
    VASSERT((res == TPropRes::Propagate) == (d_n > 0) && (res == TPropRes::Decide) == (d_n == 0), "Propagate iff something was deduced");
    VASSERT(S->trail.size() == g_n + d_n && S->trail_lim.size() == 0, "exactly the unassigned deductions are enqueued at level 0");
    bool max_premises = false, uses_new_unit = false, multi = false;
    for (int d = 0; d < ND; d++) if (d < nch && d < ntheory && d < g_nth && d < d_n) {
        const int l = d_lit[d];
        // the registered theory clause: fresh, holds exactly the theory reason, starts the chain
        CRef tc = theory_cref[d];
        bool tc_ok = in_new_region(tc, 1 + SS_TL);
        VASSERT(tc_ok, "the theory clause is freshly allocated");
        if (!tc_ok) continue;
        Clause & tcl = S->ca[tc];
        bool faithful = (int)tcl.size() == g_thsz[d];
        for (int j = 0; j < SS_TL; j++) if (j < g_thsz[d] && tcl[j].x != g_thlit[d][j]) faithful = false;
        VASSERT(faithful, "the registered theory clause holds exactly the literals of the theory reason");
        VASSERT(ch_start[d] == tc, "the chain starts with the registered theory clause");
        // the conclusion: a fresh unit clause {l}
        CRef uc = ch_end[d];
        bool uc_ok = in_new_region(uc, 2) && uc != tc;
        VASSERT(uc_ok, "the conclusion is a freshly allocated clause");
        if (!uc_ok) continue;
        Clause & ucl = S->ca[uc];
        VASSERT(ucl.size() == 1 && ucl[0].x == l, "the conclusion of the chain is the unit clause {l}");
        // replay
        uint32_t cur = 0;
        for (int j = 0; j < SS_TL; j++) if (j < g_thsz[d]) cur |= 1u << g_thlit[d][j];
        bool premises_known = true, pivots_ok = true;
        for (int s = 0; s < MAXSTEP; s++) if (s < ch_n[d]) {
            CRef pc = ch_cref[d][s];
            // premise: the unit reason of an entry-trail variable (slot v) or the unit derived by an earlier chain of this call
            bool known = false; uint32_t pm = 0;
            for (int v = 0; v < SS_NV; v++) if (pc == cref_of(v) && g_pos[v] >= 0) { known = true; pm = 1u << g_trail[g_pos[v]]; }
            for (int e = 0; e < ND; e++) if (e < d && pc == ch_end[e]) { known = true; pm = 1u << d_lit[e]; uses_new_unit = true; }
            if (!known) premises_known = false;
            int v = ch_var[d][s];
            if (v < 0 || v >= SS_NV) { pivots_ok = false; continue; }
            uint32_t pos = 1u << (2 * v), neg = 2u << (2 * v);
            bool x = (cur & pos) && !(cur & neg) && (pm & neg) && !(pm & pos);
            bool y = (cur & neg) && !(cur & pos) && (pm & pos) && !(pm & neg);
            if (!(x || y)) pivots_ok = false;
            cur = (cur | pm) & ~(pos | neg);
        }
        VASSERT(premises_known, "every premise of the chain is the unit reason clause of a level-0 literal");
        VASSERT(pivots_ok, "every pivot occurs with opposite signs in the two clauses resolved (and only so)");
        VASSERT(cur == (1u << l), "resolving the theory reason with the recorded unit premises on the recorded pivots yields exactly the unit {l}");
        // l is enqueued at level 0 with the derived unit as its reason (the invariant 'level-0 literals have unit reasons')
        int v = lvar(l);
        VASSERT(S->trail[g_n + d].x == l && cur_val(v) == (uint8_t)(l & 1) && S->vardata[v].level == 0 && S->vardata[v].reason == uc,
                "l is enqueued at level 0 and its reason is the derived unit clause");
        if (g_thsz[d] == SS_TL) max_premises = true;
        if (g_thsz[d] >= 3) multi = true;
    }
#ifdef SS_WRONG
    VASSERT(d_n <= 1, "DELIBERATELY WRONG: never two deductions in one call");
#endif
    VWITNESS("handleSat-returns");
    if (d_n == 0) { VWITNESS("nothing-deduced"); }
    if (d_n == ND) { VWITNESS("two-deductions"); }
    if (multi) { VWITNESS("reason-with-two-or-more-premises"); }
    if (max_premises) { VWITNESS("reason-with-three-premises"); }
    if (uses_new_unit) { VWITNESS("premise-is-a-unit-derived-earlier-in-this-call"); }
    if (d_n > 0 && q_n > d_n) { VWITNESS("assigned-deduction-skipped"); }
}

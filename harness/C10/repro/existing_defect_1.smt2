; EXISTING DEFECT 1 (unmodified code, HEAD a134439): the printed proof references an unbound clause name.
; ResolutionProof::printSMT2 binds the empty clause to "cls_<CRef_Undef>" = cls_4294967295
;   (let (cls_4294967295 (res ...)))
; but prints the hard-coded body "cls_0" (ResolutionProof.cc:247), a name that is never bound.
; So "every referenced clause name is bound" is violated by every printed proof.
; Run: /tmp/seed_C16/_build/opensmt existing_defect_1.smt2
; Output (unmodified):
;   unsat
;   (proof
;   ...
;   ; -
;   (let (cls_4294967295 (res (res cls_13 cls_28 b) cls_25 a))
;   cls_0            <-- unbound (no "(let (cls_0 ...)" anywhere)
(set-option :produce-proofs true)
(set-logic QF_UF)
(declare-fun a () Bool)
(declare-fun b () Bool)
(assert (or a b))
(assert (or a (not b)))
(assert (or (not a) b))
(assert (or (not a) (not b)))
(check-sat)
(get-proof)

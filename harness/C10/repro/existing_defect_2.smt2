; EXISTING DEFECT 2 (unmodified code, HEAD a134439, RelWithDebInfo i.e. -DNDEBUG):
; after a pop, get-proof prints the STALE proof of the popped assertion set.
; History: frame 1 is refuted via its assumption literal (empty-clause derivation D1 stored under CRef_Undef).
; (pop 1) does not touch the proof; the stale D1 is only erased by
; ResolutionProof::setCurrentAssumptionLiterals, i.e. at the NEXT SAT-solver call (CoreSMTSolver::setAssumptions).
; Here the new level-0 assertions b, (not b) are refuted already while the clauses are ADDED
; (CoreSMTSolver::addOriginalClause_ -> endChain(CRef_Undef)), before any solve; endChain uses
; clause_to_proof_der.emplace(CRef_Undef, ...) which does not overwrite the existing D1
; (the assert in front of it is compiled out), so the new derivation is dropped and D1 survives.
; MainSolver::check() then returns unsat from simplifyFormulas() without solving.
; Second (get-proof) prints (unmodified code):
;   (let (cls_9 (or a .frame1 ))
;   (let (cls_13 (or (not a) .frame1 ))
;   (let (cls_20 (res cls_13 cls_9 a))
;   (let (cls_17 (not .frame1) )
;   (let (cls_4294967295 (res cls_17 cls_20 .frame1))
; i.e. a refutation of the popped assertions a, (not a) of the no-longer-active frame 1, instead of b, (not b).
; Check: /tmp/seed_C16/_build/opensmt existing_defect_2.smt2 > out.txt; python3 check_proof.py existing_defect_2.smt2 out.txt
;   -> proof #2 REJECTED: leaf ... mentions frame 1 which is not active (popped)
(set-option :produce-proofs true)
(set-logic QF_UF)
(declare-fun a () Bool)
(declare-fun b () Bool)
(push 1)
(assert a)
(assert (not a))
(check-sat)
(get-proof)
(pop 1)
(assert b)
(assert (not b))
(check-sat)
(get-proof)

// C10: ResolutionProof::setCurrentAssumptionLiterals + cleanAssumedLiteral (real code) on a symbolic proof store.
// Contract checked (read from the function and its only caller CoreSMTSolver::setAssumptions, which passes the assumption
// vector of the next solve):  O = assumption literals before the call, N = literals passed in.  After the call
//   (1) assumed_literals has exactly the keys N; literals of O&N keep their unit clause, literals of N\O get a fresh unit
//       clause {l} registered as a CLA_ASSUMPTION leaf;
//   (2) for every l in O\N the leaf entry of its unit clause is gone from the proof and the unit is freed;
//   (3) NO derivation left in the proof mentions the unit clause of a literal of O\N -- in particular the stored derivation
//       of the empty clause (key CRef_Undef, the chain analyzeFinal records) is erased when it depends on a removed unit;
//   (4) nothing else changes (other leaves / derivations, an empty-clause derivation that depends on kept units only).
// The two std::unordered_map members (and the local `replacement`) are array models behind their member functions (nodes
// are real libstdc++ node objects so iterators, it->second and range-for work); ClauseAllocator is real on a bump region.
#include "verif.h"
#include "smtsolvers/ResolutionProof.h"
#include <new>
using namespace opensmt;

#ifndef AU_NV
#define AU_NV 3             // assumption variables (frames)
#endif
#define NLIT (2 * AU_NV)
#define NCH 3               // length of the stored empty-clause chain (clauses)
// entries of clause_to_proof_der (fixed slot layout of the model): slot l < NLIT = leaf of the old unit of literal l, slot NLIT =
// one other clause, slot NLIT+1 = the empty clause (CRef_Undef), slots NLIT+2.. = entries added by the function (<= AU_NV new units)
#define D_OTHER NLIT
#define D_EMPTY (NLIT + 1)
#define D_NEW (NLIT + 2)
#define DCAP (NLIT + 2 + AU_NV)


// ---------------------------------------------------------------- clause memory
enum { CA_WORDS = 64 };
static uint32_t ca_mem[CA_WORDS];
extern "C" uint32_t au_region_alloc(RegionAllocator<uint32_t> * ra, int size) {
    uint32_t prev = ra->sz;
    VASSERT(size > 0 && prev + (uint32_t)size <= ra->cap, "harness preallocated enough clause memory");
    ra->sz = prev + (uint32_t)size;
    return prev;
}
static Lit tmp_buf[AU_NV + 1][2]; static int n_tmp;
extern "C" void au_cap_lit(vec<Lit> * v, int min_cap) {
    if (v->cap >= min_cap) return;
    VASSERT(v->data == nullptr && min_cap <= 2 && n_tmp <= AU_NV, "harness buffer for vec<Lit>{lit} is large enough");
    v->data = tmp_buf[n_tmp <= AU_NV ? n_tmp : 0]; v->cap = 2; n_tmp++;
}

// ---------------------------------------------------------------- model of assumed_literals / replacement
using AMap = decltype(ResolutionProof::assumed_literals);
using ANode = std::remove_pointer_t<decltype(std::declval<AMap::iterator>()._M_cur)>;
static ANode anodes[2][NLIT]; static bool apresent[2][NLIT];   // one slot per literal; instance 0 = the member, 1 = the local
static AMap * member_map;
static bool foreign_lit;
static int ainst(AMap const * m) { return m == member_map ? 0 : 1; }
static int aidx(Lit l) { if (l.x >= 0 && l.x < NLIT) return l.x; foreign_lit = true; return 0; }
extern "C" AMap::iterator au_a_find(AMap * m, Lit const & k) { int t = ainst(m), i = aidx(k); return AMap::iterator(apresent[t][i] ? &anodes[t][i] : nullptr); }
extern "C" AMap::iterator au_a_end(AMap *) { return AMap::iterator(nullptr); }
extern "C" AMap::iterator au_a_begin(AMap * m) {
    int t = ainst(m);
    ANode * next = nullptr;
    for (int i = NLIT - 1; i >= 0; i--) if (apresent[t][i]) { anodes[t][i]._M_nxt = next; next = &anodes[t][i]; }   // iteration order = slot order
    return AMap::iterator(next);
}
static std::pair<AMap::iterator, bool> a_insert(AMap * m, Lit k, CRef v) {
    int t = ainst(m), i = aidx(k);
    if (apresent[t][i]) return {AMap::iterator(&anodes[t][i]), false};
    ::new ((void *)anodes[t][i]._M_valptr()) AMap::value_type(k, v);
    apresent[t][i] = true;
    return {AMap::iterator(&anodes[t][i]), true};
}
extern "C" std::pair<AMap::iterator, bool> au_a_insert_copy(AMap * m, AMap::value_type const & kv) { return a_insert(m, kv.first, kv.second); }
extern "C" std::pair<AMap::iterator, bool> au_a_insert_pair(AMap * m, std::pair<Lit, CRef> & kv) { return a_insert(m, kv.first, kv.second); }
extern "C" CRef & au_a_at(AMap * m, Lit const & k) {
    int t = ainst(m), i = aidx(k);
    VASSERT(apresent[t][i], "assumed_literals.at() only on a known literal (otherwise std::out_of_range)");
    return anodes[t][i]._M_valptr()->second;
}
extern "C" void au_a_swap(AMap & a, AMap & b) {
    int s = ainst(&a), t = ainst(&b);
    for (int i = 0; i < NLIT; i++) {
        bool p = apresent[s][i]; apresent[s][i] = apresent[t][i]; apresent[t][i] = p;
        CRef x = anodes[s][i]._M_valptr()->second, y = anodes[t][i]._M_valptr()->second;
        ::new ((void *)anodes[s][i]._M_valptr()) AMap::value_type(toLit(i), y);
        ::new ((void *)anodes[t][i]._M_valptr()) AMap::value_type(toLit(i), x);
    }
}
extern "C" void au_a_dtor(AMap * m) { int t = ainst(m); for (int i = 0; i < NLIT; i++) apresent[t][i] = false; }

// ---------------------------------------------------------------- model of clause_to_proof_der
using DMap = std::unordered_map<CRef, ResolutionProofDer>;
using DNode = std::remove_pointer_t<decltype(std::declval<DMap::iterator>()._M_cur)>;
static DNode dnodes[DCAP]; static bool dpresent[DCAP];
static bool d_overflow, d_bad_erase;
static int dfind(CRef k) { int r = -1; for (int i = 0; i < DCAP; i++) if (dpresent[i] && dnodes[i]._M_valptr()->first == k) r = i; return r; }
extern "C" DMap::iterator au_d_find(DMap *, CRef const & k) { int i = dfind(k); return DMap::iterator(i >= 0 ? &dnodes[i] : nullptr); }
extern "C" DMap::iterator au_d_end(DMap *) { return DMap::iterator(nullptr); }
static int d_put_at(int f, CRef k, clause_type ty, bool present) {
    DNode & n = dnodes[f];
    const_cast<CRef &>(n._M_valptr()->first) = k;
    ResolutionProofDer & d = n._M_valptr()->second;          // empty chain vectors
    d.chain_cla._M_impl._M_start = d.chain_cla._M_impl._M_finish = d.chain_cla._M_impl._M_end_of_storage = nullptr;
    d.chain_var._M_impl._M_start = d.chain_var._M_impl._M_finish = d.chain_var._M_impl._M_end_of_storage = nullptr;
    d.ref = 0; d.type = ty;
    dpresent[f] = present;
    return f;
}
static int d_put(CRef k, clause_type ty) {
    int f = -1;
    for (int i = DCAP - 1; i >= D_NEW; i--) if (!dpresent[i]) f = i;
    if (f < 0) { d_overflow = true; return D_NEW; }
    return d_put_at(f, k, ty, true);
}
// emplace(CRef&, ResolutionProofDer&&): only ever given a fresh leaf (empty chains) by the function under test
extern "C" std::pair<DMap::iterator, bool> au_d_emplace(DMap *, CRef & k, ResolutionProofDer & v) {
    int i = dfind(k);
    if (i >= 0) return {DMap::iterator(&dnodes[i]), false};
    VASSERT(v.chain_cla.empty() && v.chain_var.empty(), "model: only leaves are emplaced here");
    i = d_put(k, v.type);
    return {DMap::iterator(&dnodes[i]), true};
}
static void d_erase_slot(int i) { dpresent[i] = false; }     // the map destroys the value: the model forgets the (static) chain buffers
extern "C" DMap::iterator au_d_erase_it(DMap *, DMap::iterator it) {
    bool hit = false;
    for (int i = 0; i < DCAP; i++) if (it._M_cur == &dnodes[i]) { if (!dpresent[i]) d_bad_erase = true; d_erase_slot(i); hit = true; }
    if (!hit) d_bad_erase = true;                            // erase(end()) / dangling iterator: undefined behaviour
    return DMap::iterator(nullptr);
}
extern "C" size_t au_d_erase_key(DMap *, CRef const & k) { int i = dfind(k); if (i < 0) return 0; d_erase_slot(i); return 1; }

// ---------------------------------------------------------------- the proof object
// typed storage without construction: only declared here, defined in assumption_units_rt.c (c_include / native_c)
extern "C" { extern ResolutionProof au_proof_obj; extern ClauseAllocator au_ca_obj; }
static_assert(sizeof(ResolutionProof) <= 512 && sizeof(ClauseAllocator) <= 512, "native replay storage in assumption_units_rt.c too small");
static CRef chain_buf[NCH]; static Var pivot_buf[NCH];

// extra = ClauseAllocator::extra_clause_field (case split by entry: constant for symex)
static void au_body(const bool extra) {
    ClauseAllocator & ca = au_ca_obj;
    ca.memory = ca_mem; ca.sz = 0; ca.cap = CA_WORDS; ca.wasted_ = 0; ca.extra_clause_field = extra;
    ResolutionProof & P = *::new ((void *)&au_proof_obj) ResolutionProof(ca);     // real constructor: empty maps, no open chain
    member_map = &P.assumed_literals;
    n_tmp = 0; foreign_lit = d_overflow = d_bad_erase = false;

    // ---- pre-state: O = old assumption literals, one per variable at most (a frame has ONE literal: enabled ~f / disabled f).
    // A unit clause {l} is allocated for every literal (those of literals outside O are just further clauses of the allocator).
    bool inO[NLIT], inN[NLIT]; CRef uO[NLIT];
    for (int l = 0; l < NLIT; l++) { inO[l] = nondet_bool(); inN[l] = false; }
    for (int v = 0; v < AU_NV; v++) VASSUME(!(inO[2 * v] && inO[2 * v + 1]));
    for (int l = 0; l < NLIT; l++) {
        vec<Lit> ps; ps.data = tmp_buf[AU_NV]; ps.cap = 2; ps.sz = 1; ps[0] = toLit(l);
        CRef u = ca.alloc(ps);                                  // the unit clause {l}
        ps.data = nullptr; ps.sz = ps.cap = 0;
        uO[l] = u;
        ::new ((void *)anodes[0][l]._M_valptr()) AMap::value_type(toLit(l), u);
        apresent[0][l] = inO[l];
        d_put_at(l, u, clause_type::CLA_ASSUMPTION, inO[l]);
    }
    // some other clause of the proof (an original clause), never touched
    vec<Lit> qs; qs.data = tmp_buf[AU_NV]; qs.cap = 2; qs.sz = 2; qs[0] = toLit(0); qs[1] = toLit(3);
    CRef other = ca.alloc(qs); qs.data = nullptr; qs.sz = qs.cap = 0;
    const int other_slot = d_put_at(D_OTHER, other, clause_type::CLA_ORIG, true);
    // optional stored derivation of the empty clause: chain of 1..NCH clauses; every entry is `other` or the unit of an O literal
    bool has_empty = nondet_bool();
    int nchain = nondet_u8(); VASSUME(nchain >= 1 && nchain <= NCH);
    int chain_lit[NCH];                                         // -1: `other`, else the literal whose unit it is
    {
        d_put_at(D_EMPTY, CRef_Undef, clause_type::CLA_LEARNT, has_empty);
        ResolutionProofDer & d = dnodes[D_EMPTY]._M_valptr()->second;
        for (int i = 0; i < NCH; i++) {
            int c = nondet_u8(); VASSUME(c < NLIT + 1);
            chain_lit[i] = c == NLIT ? -1 : c;
            if (i < nchain && c < NLIT) VASSUME(inO[c]);
            CRef cr = other;
            for (int l = 0; l < NLIT; l++) if (i < nchain && c == l) cr = uO[l];
            chain_buf[i] = cr;
            pivot_buf[i] = c < NLIT ? c >> 1 : 0;
        }
        d.chain_cla._M_impl._M_start = chain_buf; d.chain_cla._M_impl._M_finish = d.chain_cla._M_impl._M_end_of_storage = chain_buf + nchain;
        d.chain_var._M_impl._M_start = pivot_buf; d.chain_var._M_impl._M_finish = d.chain_var._M_impl._M_end_of_storage = pivot_buf + (nchain - 1);
    }
    // ---- the new assumption vector: one literal per variable at most, any order
    Lit newv[AU_NV]; int nn = nondet_u8(); VASSUME(nn >= 0 && nn <= AU_NV);
    for (int i = 0; i < AU_NV; i++) {
        int l = nondet_u8(); VASSUME(l < NLIT); newv[i] = toLit(l);
        if (i < nn) { VASSUME(!inN[l] && !inN[l ^ 1]); inN[l] = true; }
    }
    // caller-side fact (how analyzeFinal builds the chain and how MainSolver pops frames top-down): the chain starts with
    // the unit of the failing assumption, which belongs to the innermost frame involved -> whenever the unit of some chain
    // entry is removed, the unit the chain STARTS with is removed as well
    bool depends_removed = false, start_removed = false;
    if (has_empty) {
        for (int i = 0; i < NCH; i++) if (i < nchain && chain_lit[i] >= 0 && !inN[chain_lit[i]]) depends_removed = true;
        start_removed = chain_lit[0] >= 0 && !inN[chain_lit[0]];
        VASSUME(!depends_removed || start_removed);
    }
    const uint32_t sz_before = ca.sz;

    P.setCurrentAssumptionLiterals(&newv[0], &newv[0] + nn);

    VASSERT(!foreign_lit && !d_overflow, "the maps are only asked about literals of the harness and stay within the model's capacity");
    VASSERT(!d_bad_erase, "clause_to_proof_der.erase(it) is only given an iterator to a live element");
    int removed = 0, added = 0;
    for (int l = 0; l < NLIT; l++) {
        VASSERT(apresent[0][l] == inN[l], "(1) assumed_literals holds exactly the new assumption literals");
        if (inN[l] && apresent[0][l]) {
            CRef u = anodes[0][l]._M_valptr()->second;
            int s = dfind(u);
            VASSERT(s >= 0 && dnodes[s >= 0 ? s : 0]._M_valptr()->second.type == clause_type::CLA_ASSUMPTION && dnodes[s >= 0 ? s : 0]._M_valptr()->second.chain_cla.empty(),
                    "(1) the unit of a current assumption literal is registered as an assumption leaf");
            if (inO[l]) VASSERT(u == uO[l], "(1) a literal that stays keeps its unit clause");
            else {
                bool fresh = u >= sz_before && u + 2 <= ca.sz;
                VASSERT(fresh, "(1) a new literal gets a freshly allocated clause");
                if (fresh) VASSERT(ca[u].size() == 1 && ca[u][0].x == l, "(1) the fresh clause is the unit {l}");
                added++;
            }
        }
        if (inO[l] && !inN[l]) {
            VASSERT(dfind(uO[l]) < 0, "(2) the unit clause of a removed assumption literal is erased from the proof");
            removed++;
        }
    }
    VASSERT(ca.wasted_ == (uint32_t)removed * (extra ? 3u : 2u), "(2) exactly the units of the removed literals are freed");
    int es = dfind(CRef_Undef);
    if (has_empty) {
        VASSERT((es >= 0) == !depends_removed, "(3)/(4) the stored empty-clause derivation is erased iff it depends on a removed assumption unit");
        if (es >= 0) {
            ResolutionProofDer & d = dnodes[es]._M_valptr()->second;
            bool same = d.chain_cla._M_impl._M_start == chain_buf && d.chain_cla._M_impl._M_finish == chain_buf + nchain;
            bool stale = false;
            for (int i = 0; i < NCH; i++) if (i < nchain) for (int l = 0; l < NLIT; l++) if (inO[l] && !inN[l] && chain_buf[i] == uO[l]) stale = true;
            VASSERT(same, "(4) a surviving empty-clause derivation is unchanged");
            VASSERT(!stale, "(3) no surviving derivation mentions the unit clause of a removed assumption literal");
        }
    } else VASSERT(es < 0, "(4) no empty-clause derivation appears");
    VASSERT(dpresent[other_slot] && dnodes[other_slot]._M_valptr()->first == other, "(4) other clauses of the proof are untouched");
    VASSERT(!apresent[1][0] && !apresent[1][1], "model: the local map is gone");
    VWITNESS("set-assumptions-returns");
    if (removed >= 2) { VWITNESS("two-literals-removed-at-once"); }
    if (removed >= 2 && has_empty && depends_removed && chain_lit[0] >= 2) { VWITNESS("stale-derivation-starts-from-a-removed-unit-that-is-not-the-first-visited"); }
    if (has_empty && es >= 0 && nchain >= 2 && chain_lit[0] >= 0) { VWITNESS("derivation-on-kept-units-survives"); }
    if (added >= 1 && removed >= 1) { VWITNESS("literal-flipped"); }
    if (added == 0 && removed == 0 && nn >= 2) { VWITNESS("nothing-changes"); }
}
extern "C" void h_assumption_units_x0() { au_body(false); }
extern "C" void h_assumption_units_x1() { au_body(true); }

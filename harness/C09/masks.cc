// C09: cumulative A-masks. The real group loop of Interpret::getInterpolants and the real
// InterpolationContext::getPathInterpolants, between a stubbed name/term lookup on one side and a recording
// stub for getSingleInterpolant on the other: K groups over NA current assertions must be answered by K-1 single
// interpolation calls on ONE interpolation context, in order, the i-th with mask = union of the partition bits of the
// assertions in groups 0..i.
#include "verif.h"
#include "api/Interpret.h"
#include "api/MainSolver.h"
#include "proof/InterpolationContext.h"
#include <new>
#include <cstdlib>
using namespace opensmt;

#ifndef NA
#define NA 5            // at most NA current assertions
#endif
#define MAXK 4
#ifndef MAXAND
#define MAXAND 3        // a conjunction group names at most MAXAND assertions
#endif

// term universe: assertion i is the term 10+i; group g given as a conjunction is the term 100+g; 50 = some other term
static PTRef group_term[MAXK];
static int group_kind[MAXK];                 // 0 single assertion, 1 conjunction of assertions, 2 conjunction with a non-assertion, 3 other term
static int group_n[MAXK]; static int group_arg[MAXK][MAXAND];
static Pterm * group_pterm[MAXK];
static bool bad_use;

union ASTSlot { ASTNode n[MAXK + 1]; ASTSlot() {} ~ASTSlot() {} };
static ASTSlot ast;

extern "C" PTRef stub_parseTerm(Interpret *, ASTNode const * c, LetRecords *) {
    for (int g = 0; g < MAXK; g++) if (c == &ast.n[g + 1]) return group_term[g];
    bad_use = true; return PTRef_Undef;
}
extern "C" bool stub_isAnd(Logic const *, PTRef t) { return t.x >= 100 && t.x < 100 + MAXK && (group_kind[t.x - 100] == 1 || group_kind[t.x - 100] == 2); }
extern "C" Pterm * stub_getPterm(Logic *, PTRef t) {
    if (!(t.x >= 100 && t.x < 100 + MAXK) || group_pterm[t.x - 100] == nullptr) { bad_use = true; return group_pterm[0]; }
    return group_pterm[t.x - 100];
}
static bool cfg_inter; static int status_val;
static int g_level;                          // ghost assertion level of the solver (DUP_TERMS mode)
extern "C" int stub_isIncremental(SMTConfig const *) { return 1; }
extern "C" std::size_t stub_getAssertionLevel(MainSolver const *) { return (std::size_t)g_level; }
extern "C" bool stub_solver_pop(MainSolver *) { if (g_level == 0) return false; g_level--; return true; }
extern "C" bool stub_produce_inter(SMTConfig const *) { return cfg_inter; }
extern "C" int stub_certify_inter(SMTConfig const *) { return 0; }
extern "C" sstat stub_getStatus(MainSolver const *) { return status_val == 0 ? s_False : status_val == 1 ? s_True : s_Undef; }

// recording oracle for the interpolation context
static int nctx; static InterpolationContext * the_ctx;
static int ncalls; static uint64_t rec_mask[MAXK]; static bool rec_small[MAXK]; static InterpolationContext * rec_this[MAXK];
static int nprinted; static uint32_t printed[MAXK];
static unsigned char fake_config[8], fake_logic[8];
union MSSlot { MainSolver m; MSSlot() {} ~MSSlot() {} };
static MSSlot fake_solver;
extern "C" void stub_getInterpolationContext(std::unique_ptr<InterpolationContext> * out, MainSolver *) {
    the_ctx = static_cast<InterpolationContext *>(::operator new(sizeof(InterpolationContext)));
    *reinterpret_cast<void **>(reinterpret_cast<char *>(the_ctx) + __builtin_offsetof(InterpolationContext, config)) = fake_config;
    *reinterpret_cast<void **>(reinterpret_cast<char *>(the_ctx) + __builtin_offsetof(InterpolationContext, logic)) = fake_logic;
    nctx++;
    new (out) std::unique_ptr<InterpolationContext>(the_ctx);
}
extern "C" void stub_getSingleInterpolant(InterpolationContext * self, vec<PTRef> * out, ipartitions_t const * mask) {
    if (ncalls >= MAXK) { bad_use = true; return; }
    rec_small[ncalls] = mpz_fits_ulong_p(mask->get_mpz_t()) != 0 && mpz_sgn(mask->get_mpz_t()) >= 0;
    rec_mask[ncalls] = mpz_get_ui(mask->get_mpz_t());
    rec_this[ncalls] = self;
    out->push(PTRef{200u + (uint32_t)ncalls});
    ncalls++;
}
extern "C" void stub_termToString(std::string * out, Logic const *, PTRef t) {
    if (nprinted < MAXK) printed[nprinted] = t.x;
    nprinted++;
    new (out) std::string();
}
static mpq_t keep_mpq_type;   // rt/gmp_model.c also models mpq functions and needs the struct type in the module

union ISlot { Interpret i; ISlot() {} ~ISlot() {} };

// partition bits of every CURRENT assertion whose term is the term of slot a (the same formula may be asserted more than once)
static uint64_t same_term(int const * tid, bool const * live, int na, int a) {
    uint64_t m = 0;
    for (int j = 0; j < NA; j++) if (j < na && live[j] && tid[j] == tid[a]) m |= (uint64_t)1 << j;
    return m;
}
template <int K> static void path_masks() {
    mpq_init(keep_mpq_type);
    static ISlot raw; Interpret * I = &raw.i;
    // na <= NA assertions executed so far; the i-th one got partition index i from MainSolver::insertFormula
    int na = nondet_u8(); VASSUME(na >= 1 && na <= NA);
    I->assertions.data = static_cast<PTRef *>(malloc(NA * sizeof(PTRef))); I->assertions.sz = na; I->assertions.cap = NA;
    // tid[i] = term of the i-th (assert ...) ever executed, live[i] = it has not been popped since
    int tid[NA]; bool live[NA];
    for (int i = 0; i < NA; i++) { tid[i] = i; live[i] = true; }
    I->assertionLevels.data = static_cast<std::size_t *>(malloc(NA * sizeof(std::size_t))); I->assertionLevels.sz = na; I->assertionLevels.cap = NA;
    for (int i = 0; i < NA; i++) { I->assertions.data[i] = PTRef{10u + (uint32_t)i}; I->assertionLevels.data[i] = 0; }
    *reinterpret_cast<void **>(reinterpret_cast<char *>(I) + __builtin_offsetof(Interpret, config)) = fake_config;
    new (&I->logic) std::unique_ptr<Logic>(reinterpret_cast<Logic *>(fake_logic));
    new (&I->main_solver) std::unique_ptr<MainSolver>(&fake_solver.m);
    // termNames of the raw solver object: no named terms (names are resolved by the parseTerm stub)
    new (&fake_solver.m.termNames.scopedNamesAndTerms) TermNames::ScopedNamesAndTerms();
#ifdef DUP_TERMS
    // incremental use. History: n1 assertions at nondecreasing assertion levels <= g_level, then the REAL Interpret::pop(k)
    // (MainSolver::pop / getAssertionLevel are the ghost level counter), then na - n1 further assertions at the current
    // level. Any assertion may repeat the term of an earlier one, popped or still current (tid[i] = first slot with that term).
    // New entries are appended to assertions / assertionLevels as the t_assert case of Interpret::interp does after insertFormula.
    {
        for (int i = 0; i < NA; i++) {
            tid[i] = nondet_u8(); VASSUME(tid[i] <= i && tid[tid[i]] == tid[i]);
#ifdef KF_C08_ASSERTION_INDEX_FIRST_MATCH
            VASSUME(tid[i] == i);      // (repaired in /repo) get_assertion_index returned the first, possibly popped, assertion with the same term
#endif
            I->assertions.data[i] = PTRef{10u + (uint32_t)tid[i]};
        }
        int n1 = nondet_u8(); VASSUME(n1 <= na);
        g_level = nondet_u8(); VASSUME(g_level <= 2);
        std::size_t lvl[NA];
        for (int i = 0; i < NA; i++) {
            lvl[i] = nondet_u8(); VASSUME(lvl[i] <= (std::size_t)g_level);
            if (i > 0) VASSUME(lvl[i - 1] <= lvl[i]);
            I->assertionLevels.data[i] = lvl[i];
        }
        I->assertions.sz = n1; I->assertionLevels.sz = n1;
        int k = nondet_u8(); VASSUME(k <= 2);
        int before = g_level;
        I->pop(k);
        VASSERT(g_level == (k <= before ? before - k : before), "pop(k) pops k levels or nothing");
        for (int i = 0; i < NA; i++) live[i] = i >= n1 || lvl[i] <= (std::size_t)g_level;
        for (int i = 0; i < NA; i++) if (i >= n1 && i < na) {
            I->assertions.push(PTRef{10u + (uint32_t)tid[i]}); I->assertionLevels.push((std::size_t)g_level);
        }
        if (k >= 1 && k <= before && n1 >= 1 && !live[n1 - 1]) VWITNESS("assertion-popped");
        if (na >= 2 && tid[na - 1] != na - 1) VWITNESS("term-re-asserted");
        if (na >= 2 && tid[na - 1] != na - 1 && live[tid[na - 1]]) VWITNESS("term-asserted-twice-both-current");
    }
#endif
    cfg_inter = nondet_bool(); status_val = nondet_u8() % 3;
    nctx = ncalls = nprinted = 0; bad_use = false; the_ctx = nullptr;
    // the K groups
    uint64_t expect[MAXK]; uint64_t acc = 0; bool all_valid = true;
    for (int g = 0; g < MAXK; g++) { group_pterm[g] = nullptr; group_kind[g] = 3; group_term[g] = PTRef{50}; }
    for (int g = 0; g < K; g++) {
        int kind = nondet_u8(); VASSUME(kind <= 3);
        group_kind[g] = kind;
        if (kind == 0) {
            int a = nondet_u8(); VASSUME(a < na && live[a]);
            group_term[g] = PTRef{10u + (uint32_t)tid[a]}; acc |= same_term(tid, live, na, a);
        } else if (kind == 1 || kind == 2) {
            int m = nondet_u8(); VASSUME(m >= 2 && m <= MAXAND);
            Pterm * pt = static_cast<Pterm *>(malloc(sizeof(Pterm) + 4 * MAXAND));
            pt->header.type = 0; pt->header.has_extra = 0; pt->header.reloced = 0; pt->header.noscoping = 0; pt->header.size = m;
            pt->id.x = 100 + g; pt->sym = SymRef{1};
            for (int j = 0; j < MAXAND; j++) {
                int a = nondet_u8(); VASSUME(a < na && live[a]);
                bool foreign = kind == 2 && nondet_bool();
                pt->args[j] = foreign ? PTRef{50} : PTRef{10u + (uint32_t)tid[a]};
                if (j < m) { if (foreign) { if (g < K - 1) all_valid = false; } else acc |= same_term(tid, live, na, a); }
            }
            group_pterm[g] = pt; group_term[g] = PTRef{100u + (uint32_t)g};
        } else {
            if (g < K - 1) all_valid = false;
        }
        expect[g] = acc;
    }
    // the argument list: K child nodes in fixed storage (no vector growth in the harness itself)
    static ASTNode * child_arr[MAXK];
    static union CVSlot { std::vector<ASTNode *> v; CVSlot() {} ~CVSlot() {} } cvs;
    std::vector<ASTNode *> & children = cvs.v;
    for (int g = 0; g < K; g++) child_arr[g] = &ast.n[g + 1];
    children._M_impl._M_start = child_arr; children._M_impl._M_finish = child_arr + K; children._M_impl._M_end_of_storage = child_arr + K;
    ast.n[0].children = &children;

    bool threw = false;
    try { I->getInterpolants(ast.n[0]); } catch (...) { threw = true; }

    VASSERT(!bad_use, "harness: stubs used with known arguments only");
    bool go = cfg_inter && all_valid && status_val == 0;
    if (!go) {
        VASSERT(ncalls == 0, "no interpolant is computed for a rejected request");
        if (!cfg_inter) { VASSERT(threw, "request without produce-interpolants is rejected"); VWITNESS("rejected-no-option"); }
        else if (!all_valid) { VASSERT(!threw, "invalid group is reported, not thrown"); VWITNESS("rejected-invalid-group"); }
        else VWITNESS("rejected-not-unsat");
    } else {
        VASSERT(!threw, "valid request is not rejected");
        VASSERT(nctx == 1, "one interpolation context (one proof) per request");
        VASSERT(ncalls == K - 1, "k groups are answered by k-1 single interpolation calls");
        for (int i = 0; i < K - 1; i++) {
            VASSERT(rec_this[i] == the_ctx, "every mask is answered on the same interpolation context");
            VASSERT(rec_small[i] && rec_mask[i] == expect[i], "mask i is the union of the partition bits of all current assertions whose term is named in groups 0..i");
            if (i > 0) VASSERT((rec_mask[i - 1] & ~rec_mask[i]) == 0, "masks are nested");
        }
        VASSERT(nprinted == K - 1, "k-1 interpolants are printed");
        for (int i = 0; i < K - 1; i++) VASSERT(printed[i] == 200u + (uint32_t)i, "interpolants are printed in the order of the masks");
        VWITNESS("path");
        if (group_kind[0] == 1) VWITNESS("conjunction-group");
    }
}
extern "C" void h_path_masks_2() { path_masks<2>(); }
extern "C" void h_path_masks_3() { path_masks<3>(); }
extern "C" void h_path_masks_4() { path_masks<4>(); }

; EXISTING DEFECT (unmodified code, HEAD a134439), found while seeding C09.
; QF_UF + a Boolean labelling that colours shared atoms "ab" (Pudlak = 1, also PSW = 4 / PSS = 5
; when the proof-sensitive function picks ab): as soon as a UF theory lemma contains an equality
; atom that occurs in both the A and the B part, UFInterpolator::colorEdgesFrom() throws
;     InternalException("Error in coloring information")
; which is not caught: the process prints "unsat", then terminates (SIGABRT) and no interpolants
; are returned at all.  So "under all interpolation algorithms" the property cannot even be
; evaluated for such inputs.  Expected: a sequence of 2 interpolants (algorithm 0 gives
; ((= x y) (and (= x y) (= y z))) ).
; Run:  /tmp/seed_C07/_build/opensmt existing_defect_1.smt2
; With :interpolation-bool-algorithm 0 or 2 the same script works.
(set-option :produce-interpolants 1)
(set-option :interpolation-bool-algorithm 1)
(set-logic QF_UF)
(declare-sort U 0)
(declare-fun x () U)
(declare-fun y () U)
(declare-fun z () U)
(declare-fun q () Bool)
(assert (! (= x y) :named g1))
(assert (! (= y z) :named g2))
(assert (! (and (not (= x z)) (or (= x y) q)) :named g3))
(check-sat)
(get-interpolants g1 g2 g3)

; EXISTING DEFECT (unmodified code, HEAD a134439), found while seeding C09 -- minor, no wrong formula.
; A group written as (and n1 n2 ...) is parsed as a TERM; Logic::mkAnd simplifies it.  If the named
; assertions of a group are complementary (or the conjunction otherwise collapses to a non-"and"
; term that is not itself an assertion), Interpret::getInterpolants answers
;     (error "Invalid arguments of get-interpolants command")
; although the script is unsat and the partition into ordered groups is perfectly legal
; (here the A-part is inconsistent already, the expected answer is e.g. (false false)).
; Run:  /tmp/seed_C07/_build/opensmt existing_defect_2.smt2
(set-option :produce-interpolants 1)
(set-logic QF_UF)
(declare-fun b () Bool)
(declare-fun c () Bool)
(assert (! b :named a1))
(assert (! (not b) :named a2))
(assert (! (or b c) :named a3))
(assert (! (not c) :named a4))
(check-sat)
(get-interpolants (and a1 a2) a3 a4)

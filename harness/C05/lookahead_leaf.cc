// C05 (lookahead engines answer like CDCL): the REAL LookaheadSMTSolver::laPropagateWrapper() -- the propagation/theory
// fixpoint every lookahead probe and every leaf of the lookahead tree relies on.  It may report "consistent" (l_True) only if
// the LAST consultation of the theory was a COMPLETE check (checkTheory(true), the one that examines integrality, runs
// branch-and-bound etc.) that answered Decide, with no Boolean propagation pending after it; "unsat" (l_False) only from a
// level-0 Boolean conflict or from the theory answering Unsat; "give up" (l_Undef) only under a conflict quota.
// Every callee is a havoc stub with ghost bookkeeping (as harness/C25/stop_search.cc); the object lives in raw storage.
// Second entry: the REAL LookaheadSMTSolver::lookaheadLoop() (with the real wrapper inside): every return of la_sat (picky heap
// empty / leaf test inside the scan / all variables set after the scan) happens right after a complete theory check that
// answered Decide with nothing pending.  There the stubs keep a small faithful assignment state (NVARS variables with value and
// level; propagation / theory propagation assign arbitrary further variables, backtracking unassigns by level) so that the leaf
// criterion trail.size() == dec_vars means what it means in the solver.
#include "verif.h"
#include "smtsolvers/LookaheadSMTSolver.h"
#include <new>
#include <cstdlib>
using namespace opensmt;

#ifndef EVENTS
#define EVENTS 5         // at most EVENTS calls of propagate() and at most EVENTS calls of checkTheory()
#endif
#define NVARS 3
#ifndef MAXIT
#define MAXIT 1          // loop entry: at most MAXIT variables are scanned
#endif
#ifndef EVENTS_LOOP
#define EVENTS_LOOP 4    // loop entry: at most EVENTS_LOOP calls of propagate() and of checkTheory() in total
#endif

static int g_level, g_props, g_checks, g_events = EVENTS;
static int g_complete_decide;   // the last state-relevant event was a complete theory check that answered Decide
static int g_pending;           // literals were enqueued (probe literal, learnt unit, asserting literal, theory propagation) and not yet propagated
static int g_conf0;             // the last propagate() reported a conflict while at decision level 0
static int g_theory_unsat;      // the last checkTheory() answered Unsat
static int g_loop;              // loop entry: the stubs maintain the assignment model below
static uint8_t asg[NVARS]; static int lvl[NVARS]; static char decis[NVARS];   // 0 unassigned, 1 true, 2 false
static LookaheadSMTSolver * LS;

template <class F> static int vslot(F pmf) {
    union { F f; struct { intptr_t ptr; intptr_t adj; } r; } u;
    u.f = pmf;
    return (int)((u.r.ptr - 1) / 8);
}
static void disturb() { g_complete_decide = 0; g_conf0 = 0; g_theory_unsat = 0; }
static void sync_trail() { if (!g_loop) return; int n = 0; for (int v = 0; v < NVARS; v++) if (asg[v]) n++; LS->trail.sz = n; }
static void assign_some() {           // unit / theory propagation assigns arbitrary further (decision) variables at the current level
    if (!g_loop) return;
    for (int v = 0; v < NVARS; v++) if (!asg[v] && decis[v] && nondet_bool()) { asg[v] = 1 + (nondet_u8() & 1); lvl[v] = g_level; }
    sync_trail();
}
static void backtrack(int l) {
    if (l >= g_level) return;
    g_level = l;
    if (g_loop) { for (int v = 0; v < NVARS; v++) if (asg[v] && lvl[v] > l) asg[v] = 0; sync_trail(); }
}

static void fill(vec<Lit> * out, int n) {      // fixed-capacity buffer, <= 2 literals
    if (out->data == nullptr) { out->data = (Lit *)malloc(4 * sizeof(Lit)); out->cap = 4; }
    for (int i = 0; i < 2; i++) out->data[i].x = nondet_u8() & 7;
    out->sz = n;
}
extern "C" CRef stub_propagate(CoreSMTSolver *) {
    g_props++; VASSUME(g_props <= g_events);
    disturb();
    CRef c = nondet_bool() ? CRef_Undef : (CRef)(nondet_u8() & 15);
    if (c == CRef_Undef) { g_pending = 0; assign_some(); } else if (g_level == 0) g_conf0 = 1;
    return c;
}
extern "C" int stub_checkTheory(CoreSMTSolver *, bool complete, int * conflictC) {
    g_checks++; VASSUME(g_checks <= g_events);
    disturb();
    int r = nondet_bool() ? -1 : (nondet_bool() ? 0 : 1);     // Unsat / Propagate / Decide
    if (nondet_bool()) *conflictC = (int)nondet_u8();           // (the one-argument overload passes an uninitialised counter)
    if (r == -1) g_theory_unsat = 1;
    if (r == 0) {   // theory-propagated literals, or a theory conflict was analysed: backjump + asserting literal
        g_pending = 1;
        if (nondet_bool() && g_level > 0) { int l = nondet_u8() & 3; VASSUME(l < g_level); backtrack(l); }
        assign_some();
    }
    if (r == 1 && complete) g_complete_decide = 1;
    return r;
}
extern "C" void stub_analyze(CoreSMTSolver *, CRef, vec<Lit> * out, int * bt) {
    disturb();
    fill(out, 1 + (nondet_u8() & 1));
    int l = nondet_u8(); VASSUME(l >= 0 && l < g_level); *bt = l;
}
extern "C" void stub_cancelUntil(CoreSMTSolver *, int l) { if (l < g_level) { backtrack(l); disturb(); } }
extern "C" void stub_newDecisionLevel(CoreSMTSolver *) { g_level++; }
extern "C" void stub_attachClause(CoreSMTSolver *, CRef) {}
extern "C" void stub_uncheckedEnqueue(CoreSMTSolver *, Lit p, CRef) {
    disturb(); g_pending = 1;
    if (g_loop) {     // the probe literal / the asserting literal of a learnt clause is over an unassigned decision variable
        int v = var(p); VASSUME(v >= 0 && v < NVARS);
        VASSUME(!asg[v] && decis[v]);
        asg[v] = sign(p) ? 2 : 1; lvl[v] = g_level; sync_trail();
    }
}
extern "C" int stub_decisionLevel(CoreSMTSolver const *) { return g_level; }
extern "C" CRef stub_alloc(ClauseAllocator *, vec<Lit> const *, bool, unsigned) { return (CRef)(nondet_u8() & 15); }
extern "C" uint32_t stub_computeGlue(CoreSMTSolver *, vec<Lit> const *) { return nondet_u8() & 3; }
extern "C" void stub_pushCRef(vec<CRef> *, CRef const *) {}

static void * fake_vt[96];
union RawSolver { LookaheadSMTSolver s; RawSolver() {} ~RawSolver() {} };
static RawSolver raw;

static LookaheadSMTSolver * build() {
    LookaheadSMTSolver * s = &raw.s; LS = s;
    fake_vt[vslot(&CoreSMTSolver::cancelUntil)] = (void *)&stub_cancelUntil;
    fake_vt[vslot(&CoreSMTSolver::attachClause)] = (void *)&stub_attachClause;
    fake_vt[vslot(&CoreSMTSolver::newDecisionLevel)] = (void *)&stub_newDecisionLevel;
    *reinterpret_cast<void ***>(s) = fake_vt;
    new (&s->learnts) vec<CRef>();
    static unsigned char fake_proof[8];
    *reinterpret_cast<void **>(&s->resolutionProof) = nondet_bool() ? (void *)fake_proof : nullptr;
    g_props = g_checks = 0; g_complete_decide = 0; g_conf0 = 0; g_theory_unsat = 0;
    g_pending = 1;                                  // the caller has just enqueued a probe literal (or restored a path)
    return s;
}

extern "C" void h_la_propagate() {
    g_loop = 0;
    LookaheadSMTSolver * s = build();
    bool unlimited = nondet_bool();
    int quota = (int)(nondet_u8() & 3);
    if (unlimited) new (&s->confl_quota) ConflQuota(); else new (&s->confl_quota) ConflQuota(quota);
    g_level = nondet_u8() & 3; VASSUME(g_level <= 2);
    int level0 = g_level;

    lbool res = s->laPropagateWrapper();

    if (res == l_True) {
        VASSERT(g_complete_decide, "lookahead reports a consistent state only if the last theory consultation was a COMPLETE check that answered Decide");
        VASSERT(!g_pending, "lookahead reports a consistent state only with no Boolean propagation pending");
        VWITNESS("la-consistent");
        if (g_level < level0) { VWITNESS("la-consistent-after-backjump"); }
        if (g_checks >= 2) { VWITNESS("la-consistent-after-theory-propagation"); }
    } else if (res == l_False) {
        VASSERT(g_conf0 || g_theory_unsat, "lookahead reports unsat only from a level-0 Boolean conflict or from the theory answering Unsat");
        if (g_conf0) { VWITNESS("la-unsat-level0"); }
        if (g_theory_unsat) { VWITNESS("la-unsat-theory"); }
    } else {
        VASSERT(res == l_Undef, "a proper lbool is returned");
        VASSERT(!unlimited, "the propagation wrapper gives up only under a conflict quota");
        VWITNESS("la-quota");
    }
    VWITNESS("la-end");
}

// ------------------------------------------------------------------ lookaheadLoop
static int g_iter, g_picky, g_heap, g_probes;
extern "C" uint8_t stub_valueVar(CoreSMTSolver const *, Var v) {
    VASSERT(v >= 0 && v < NVARS, "value of an existing variable");
    if (!(v >= 0 && v < NVARS)) return 2;
    uint8_t a = asg[v]; return a == 1 ? 0 : a == 2 ? 1 : 2;          // lbool encoding: 0 true, 1 false, 2 undef
}
extern "C" uint8_t stub_valueLit(CoreSMTSolver const * s, Lit p) { uint8_t r = stub_valueVar(s, var(p)); return r == 2 ? 2 : (uint8_t)(r ^ (uint8_t)sign(p)); }
extern "C" int stub_nVars(CoreSMTSolver const *) { return NVARS; }
extern "C" int stub_pickyW(SMTConfig const *) { int w = 1 + (nondet_u8() & 3); return w; }       // >= 1
extern "C" int stub_picky(SMTConfig const *) { return g_picky; }
extern "C" bool stub_hints(SMTConfig const *) { return nondet_bool(); }
extern "C" int stub_heapSize(void const *) { return g_heap; }
extern "C" int stub_heapIndex(void const *, int) { int v = nondet_u8() & 3; VASSUME(v < NVARS); return v; }
extern "C" void stub_heapRemove(void *, int) { if (g_heap > 0) g_heap--; }
// LookaheadScore (abstract): a fake object whose virtual slots are havoc stubs
static void * score_vt[16];
alignas(8) static unsigned char fake_score[64];
extern "C" bool stub_isAlreadyChecked(void const *, Var) { g_iter++; if (g_iter > MAXIT) return true; return nondet_bool(); }
extern "C" void stub_setChecked(void *, Var) {}
extern "C" Lit stub_getBest(void *) { Lit l; l.x = nondet_bool() ? lit_Undef.x : (int)(nondet_u8() & 7); VASSUME(l == lit_Undef || var(l) < NVARS); return l; }
extern "C" bool stub_safeToSkip(void const *, Var, Lit) { return nondet_bool(); }
extern "C" double stub_getSolverScore(void *, void const *) { g_probes++; return 1.0; }
extern "C" void stub_updateSolverScore(void *, double *, void const *) {}
extern "C" void stub_setLAValue(void *, Var, int, int) {}
extern "C" void stub_updateLABest(void *, Var) {}

extern "C" void h_la_loop() {
    g_loop = 1; g_events = EVENTS_LOOP;
    LookaheadSMTSolver * s = build();
    score_vt[vslot(&LookaheadScore::isAlreadyChecked)] = (void *)&stub_isAlreadyChecked;
    score_vt[vslot(&LookaheadScore::setChecked)] = (void *)&stub_setChecked;
    score_vt[vslot(&LookaheadScore::getBest)] = (void *)&stub_getBest;
    score_vt[vslot(&LookaheadScore::safeToSkip)] = (void *)&stub_safeToSkip;
    score_vt[vslot(&LookaheadScore::getSolverScore)] = (void *)&stub_getSolverScore;
    score_vt[vslot(&LookaheadScore::updateSolverScore)] = (void *)&stub_updateSolverScore;
    score_vt[vslot(&LookaheadScore::setLAValue)] = (void *)&stub_setLAValue;
    score_vt[vslot(&LookaheadScore::updateLABest)] = (void *)&stub_updateLABest;
    *reinterpret_cast<void ***>(fake_score) = score_vt;
    *reinterpret_cast<void **>(&s->score) = (void *)fake_score;
    new (&s->confl_quota) ConflQuota();
    // the assignment state the path to the current node left: level 0..1, any partial assignment over the decision variables
    g_level = nondet_u8() & 1;
    int ndec = 0;
    for (int v = 0; v < NVARS; v++) {
        decis[v] = nondet_bool(); if (decis[v]) ndec++;
        asg[v] = nondet_u8() & 3; VASSUME(asg[v] <= 2 && (decis[v] || asg[v] == 0));
        lvl[v] = nondet_u8() & 1; VASSUME(lvl[v] <= g_level);
    }
    new (&s->decision) vec<char>(); s->decision.data = decis; s->decision.sz = NVARS; s->decision.cap = NVARS;
    new (&s->trail) vec<Lit>(); sync_trail();
    s->dec_vars = (uint64_t)ndec;
    s->idx = nondet_u8() & 3; VASSUME(s->idx < NVARS);
    s->unadvised_splits = 0;
    g_picky = nondet_bool(); g_heap = nondet_u8() & 3; VASSUME(g_heap <= 2);
    g_iter = 0; g_probes = 0;

    auto res = s->lookaheadLoop();

    if (res.first == LookaheadSMTSolver::laresult::la_sat) {
        VASSERT(g_complete_decide, "the lookahead loop reports sat only if the last theory consultation was a COMPLETE check that answered Decide");
        VASSERT(!g_pending, "the lookahead loop reports sat only with no Boolean propagation pending");
        VWITNESS("loop-sat");
        if (g_probes > 0) { VWITNESS("loop-sat-after-probing"); }
        if (g_checks >= 2 && g_probes == 0) { VWITNESS("loop-sat-leaf-test"); }
    }
    if (res.first == LookaheadSMTSolver::laresult::la_ok) { VWITNESS("loop-ok"); }
    if (res.first == LookaheadSMTSolver::laresult::la_tl_unsat) { VWITNESS("loop-unsat"); }
    VWITNESS("loop-end");
}

; EXISTING DEFECT 3 (unmodified code): stating a QF_UF problem in a more expressive logic changes the answer.
; Run:  opensmt existing_defect_3.smt2        -> prints "sat"   (WRONG)
; Replace QF_UFLRA by QF_UF in the set-logic line -> prints "unsat" (correct).  QF_UFLIA / QF_AUFLIA behave like QF_UFLRA.
; The argument of the first f is (not false) = true after simplification of the unsatisfiable conjunction, so the assertion says
; f(true) != f(true).  Boolean terms nested in uninterpreted functions are only handled by UFTheory
; (AppearsInUfVisitor in UFTheory::preprocessAfterSubstitutions); UFLATheory::preprocessAfterSubstitutions has no counterpart.
; Taken from test/regression/base/QF_UF/mixed_uf_bool1.smt2 (same for mixed_uf_bool2/4, uf_bool_test_unsat, issue226,
; and two hwbench QF_UF files in test/regression/base/QF_UF).
(set-logic QF_UFLRA)
(declare-fun c () Bool)
(declare-fun d () Bool)
(declare-sort U 0)
(declare-fun f (Bool) U)
(assert
  (not (=
   (f (not (and (or c d) (or c (not d)) (or (not c) d) (or (not c) (not d)))))
   (f true))))
(check-sat)

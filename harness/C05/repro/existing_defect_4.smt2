; EXISTING DEFECT 4 (unmodified code): with :incremental false a second (check-sat) after further assertions (no push/pop
; involved, so nothing is rejected) silently gives a different definitive answer than with :incremental true.
; Run:  opensmt existing_defect_4.smt2        -> prints "sat sat"    (2nd answer WRONG)
; Remove the first line (default :incremental true) -> prints "sat unsat" (correct: a|b, and each of a, b implies both c and
; not c).
; SatELite runs at the first check-sat (MainSolver::solve_ passes do_simp = !isIncremental) and eliminates the pure literals
; a, b, c, d, which are not frozen; the clauses over a, b, c added afterwards are never resolved against the removed clause
; (or a b), which only lives in elimclauses.  The solver neither refuses the second check-sat nor answers unknown.
(set-option :incremental false)
(set-logic QF_UF)
(declare-fun a () Bool)
(declare-fun b () Bool)
(declare-fun c () Bool)
(declare-fun d () Bool)
(assert (or a b))
(assert (or c d))
(check-sat)
(assert (or (not a) c))
(assert (or (not b) c))
(assert (or (not a) (not c)))
(assert (or (not b) (not c)))
(check-sat)

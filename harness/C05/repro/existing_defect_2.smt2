; EXISTING DEFECT 2 (unmodified code): incremental mode off (SatELite preprocessing active) contradicts incremental mode on,
; on a script with a single check-sat.
; Run:  opensmt existing_defect_2.smt2        -> prints "sat"   (WRONG)
; Remove the first line (default :incremental true) -> prints "unsat" (correct).
; x and z are Boolean variables that occur only as arguments of the uninterpreted function uf6, never in a clause.
; SimpSMTSolver freezes variables only in addOriginalSMTClause; such variables are merely added by MainSolver::solve()
; (loop over logic.propFormulasAppearingInUF -> addVar), so SatELite eliminates them (no occurrences), they stop being decision
; variables, the Egraph is never told their truth value, and the case split x=z / x=(not z) that refutes the input is lost.
; Taken from test/regression/base/QF_UF/issue226.smt2 (same for issue226b.smt2).
(set-option :incremental false)
(set-logic QF_UF)
(declare-fun uf6 (Bool) Bool)
(declare-fun x () Bool)
(declare-fun z () Bool)
(assert (uf6 x))
(assert (not (uf6 z)))
(assert (not (uf6 (not z))))
(check-sat)

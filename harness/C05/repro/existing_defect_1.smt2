; EXISTING DEFECT 1 (unmodified code, worktree HEAD ce45400): engine "ghost variables" contradicts all other engines.
; Run:  opensmt existing_defect_1.smt2        -> prints "sat"   (WRONG)
; Remove the first line (set-option :ghost-vars true) -> prints "unsat" (correct; also unsat with :pure-lookahead, :picky,
; :incremental false, :produce-unsat-cores, ... and when restated in QF_UFLRA).
; x7 = ite(x8=0, x8, 0) forces x7 = 0, contradicting (not (= x7 0)).
; Taken from test/regression/base/QF_LRA/ite_with_equalities.smt2.  The same sat-vs-unsat contradiction with :ghost-vars true
; shows on QF_LIA/check/bignum_lia1.smt2, QF_LIA/rings/ring_2exp10_3vars_0ite_unsat.smt2, QF_UF/NEQ004_size4.smt2,
; QF_UF/dead_dnd007.smt2, QF_UF/issue226.smt2, QF_UF/uf_bool_test_unsat.smt2, QF_LRA/clocksynchro_2clocks.worst_case_skew.induct.smt2.
(set-option :ghost-vars true)
(set-logic QF_LRA)
(declare-fun x8 () Real)
(declare-fun x7 () Real)
(assert (and
	(= x7 (ite (= x8 0) x8 0))
	(not (= x7 0))
))
(check-sat)

// C05 (QF_IDL/QF_RDL answer like QF_LIA/QF_LRA): the difference-logic solver has no separate negative-cycle test; it is complete
// only if the label-correcting search STPGraphManager<T>::dfsSearch computes EXACT shortest distances (findConsequences marks an
// atom as implied iff its bound is >= the distance; a too large distance loses an implied atom and later a conflict: sat instead
// of unsat).  Real: STPGraphManager<SafeInt>::dfsSearch(VertexRef, bool) with STPStore::getEdge/vertexNum, STPMapper::edgesOf,
// Converter<SafeInt>::getValue, SafeInt + (with its overflow test) and >, the libstdc++ code of std::vector<bool> /
// std::vector<SafeInt> (fill constructors, operator[], bit references, moves into DFSResult) and of the adjacency vectors.
//
// A full symbolic run against Bellman-Ford (4 vertices, <= 4 edges, costs -1..1, <= 6 pops) did not finish in 600 s, so the
// obligation is decided by INDUCTION over the search loop, driven from the stack model (the loop state - visited bits, lengths,
// stack - lives in buffers the harness owns, the only loop-carried local is the `total` heuristic):
//   h_stp_dfs_step_{f,b}<k>: (base) the state at the first loop test satisfies Inv; (step) from an ARBITRARY state satisfying Inv with a
//                   non-empty stack, ONE iteration of the real loop (the vertex taken from the stack is an arbitrary member:
//                   covers LIFO and any other order) re-establishes Inv;
//   h_stp_dfs_exit: from an arbitrary state satisfying Inv with an EMPTY stack the real function returns visited = reachable
//                   set and distance = exact shortest distance;
//   h_stp_dfs_demo: a complete run (real LIFO order) on the diamond-with-tail shape s->c, s->b, c->b, b->d with symbolic costs.
// Inv (d/reach = the true shortest distances/reachable set from the start, given as a checked certificate):
//   I0 start visited with length <= 0;  I1 visited v: reach[v] and length[v] >= d[v];  I3 stacked vertices are visited;
//   I2 every asserted edge u->v with u visited and u NOT on the stack: v visited and length[v] <= length[u] + cost.
// Models (container members that explode in CBMC, cf. harness/C11/stp_explain.cc): std::stack<VertexRef> (a std::deque) behind
// its constructor/push/top/pop/empty/destructor: a multiset with arbitrary top (step/exit) or a fixed-capacity LIFO array (demo);
// the allocations of the two local vectors hand out static typed buffers.
// Graph shape: every vertex v owns KOUT edge slots v*KOUT..v*KOUT+KOUT-1 = its scan list in this order (outgoing list for a
// forward search, incoming list for a backward search); the first cnt[v] of them are asserted edges with symbolic other end/cost.
#include "verif.h"
#include "tsolvers/stpsolver/IDLSolver.h"
#include <new>
using namespace opensmt;
using GM = STPGraphManager<SafeInt>;

#ifndef NV
#define NV 4
#endif
#ifndef KOUT
#define KOUT 2
#endif
#ifndef CMAX
#define CMAX 8          // costs in -CMAX..CMAX
#endif
#define NE (NV * KOUT)
#define SCAP 8
#ifndef LENMAX
#define LENMAX (1L << 40)
#endif

static unsigned cnt[NV], e_own[NE], e_other[NE], g_init;
static int e_cost[NE];
static bool e_present[NE];
static long d_ref[NV]; static bool reach_ref[NV];      // certificate: true shortest distances / reachable set
static unsigned long visited_words[1]; static SafeInt length_buf[NV];

// ---------------------------------------------------------------- the invariant
#define CL(c, msg) do { if (assume_mode) VASSUME(c); else VASSERT(c, msg); } while (0)
static unsigned mstk[NV];            // multiset stack: occurrences of each vertex
static bool vis(unsigned v) { return (visited_words[0] >> v) & 1; }
static long len(unsigned v) { return (long)length_buf[v].value(); }
static void invariant(bool assume_mode) {
    CL(vis(g_init) && len(g_init) <= 0, "Inv: the start vertex is visited with length <= 0");
    for (unsigned v = 0; v < NV; v++) {
        CL(!vis(v) || (reach_ref[v] && len(v) >= d_ref[v]), "Inv: a visited vertex is reachable and its length is the length of some path (>= shortest distance)");
        CL(mstk[v] == 0 || vis(v), "Inv: stacked vertices are visited");
    }
    for (unsigned i = 0; i < NE; i++) if (e_present[i] && vis(e_own[i]) && mstk[e_own[i]] == 0)
        CL(vis(e_other[i]) && len(e_other[i]) <= len(e_own[i]) + e_cost[i], "Inv: every edge out of a visited vertex that is not waiting on the stack is relaxed (a vertex whose distance improved is scheduled again)");
}

// ---------------------------------------------------------------- std::stack<VertexRef> models
using Stack = std::stack<VertexRef>;
enum { M_STEP, M_EXIT, M_LIFO };
static int g_force_top = -1;
static int g_mode, g_empty_calls, g_step_done, g_repush, stack_live;
static unsigned long pre_words; static unsigned last_top; static VertexRef topcell;
static VertexRef stk[SCAP]; static int sp;
extern "C" void stub_stack_ctor(Stack *) { VASSERT(stack_live == 0, "bound: one stack at a time"); stack_live = 1; sp = 0; for (unsigned v = 0; v < NV; v++) mstk[v] = 0; }
extern "C" void stub_stack_dtor(Stack *) { stack_live = 0; }
extern "C" void stub_stack_push(Stack *, VertexRef const & v) {
    VASSERT(v.x < NV, "only vertices of the store are scheduled");
    if (g_mode == M_LIFO) { VASSERT(sp < SCAP, "bound: stack depth within the model's capacity"); if (sp < SCAP) { stk[sp] = v; sp++; } return; }
    if (v.x < NV) { mstk[v.x]++; if ((pre_words >> v.x) & 1) g_repush = 1; }
}
extern "C" VertexRef & stub_stack_top(Stack *) {
    if (g_mode == M_LIFO) { VASSERT(sp > 0, "top() on a non-empty stack"); return stk[sp > 0 ? sp - 1 : 0]; }
    unsigned t = nondet_u8(); VASSUME(t < NV && mstk[t] > 0);       // any waiting vertex
    if (g_force_top >= 0) VASSUME(t == (unsigned)g_force_top);
    last_top = t; topcell = VertexRef{t};
    return topcell;
}
extern "C" void stub_stack_pop(Stack *) {
    if (g_mode == M_LIFO) { VASSERT(sp > 0, "pop() on a non-empty stack"); if (sp > 0) sp--; return; }
    VASSERT(mstk[last_top] > 0, "pop() follows top()"); mstk[last_top]--;
}
extern "C" bool stub_stack_empty(Stack const *) {
    if (g_mode == M_LIFO) return sp == 0;
    g_empty_calls++;
    if (g_empty_calls == 1) {
        invariant(false);                                           // base case: the state the real prologue leaves
        // an arbitrary loop state satisfying Inv
        visited_words[0] = nondet_u8() & ((1u << NV) - 1);
        for (unsigned v = 0; v < NV; v++) {
            long l = nondet_i64(); VASSUME(l > -LENMAX && l < LENMAX); length_buf[v] = SafeInt((ptrdiff_t)l);
            mstk[v] = nondet_u8() & 3; VASSUME(mstk[v] <= 2);
        }
        invariant(true);
        pre_words = visited_words[0];
        bool empty = true; for (unsigned v = 0; v < NV; v++) if (mstk[v] != 0) empty = false;
        VASSUME(empty == (g_mode == M_EXIT));
        return empty;
    }
    invariant(false);                                               // step: Inv after one iteration of the real loop
    g_step_done = 1;
    return true;                                                    // leave the loop; the result of this run is not used
}

// ---------------------------------------------------------------- allocation of the two local vectors: static typed buffers
extern "C" unsigned long * stub_alloc_words(void *, size_t n, void const *) { VASSERT(n == 1, "visited fits one word"); return visited_words; }
extern "C" SafeInt * stub_alloc_safeint(void *, size_t n, void const *) { VASSERT(n == NV, "length has one slot per vertex"); return length_buf; }
extern "C" void stub_dealloc(void *, void *, size_t) {}

// ---------------------------------------------------------------- the solver state
union RawStore { STPStore<SafeInt> s; RawStore() {} ~RawStore() {} };
union RawMapper { STPMapper<SafeInt> m; RawMapper() {} ~RawMapper() {} };
union RawMgr { GM g; RawMgr() {} ~RawMgr() {} };
union RawAdj { std::vector<EdgeRef> v[NV]; RawAdj() {} ~RawAdj() {} };
static RawStore S; static RawMapper M; static RawMgr G; static RawAdj adj, reg;
static Edge<SafeInt> edge_buf[NE];
static EdgeRef out_buf[NV][KOUT];
static EdgeRef reg_buf[4];
static long dummy_logic;

static void install(bool forward) {
    new (&S.s) STPStore<SafeInt>();
    new (&M.m) STPMapper<SafeInt>(*reinterpret_cast<ArithLogic const *>(&dummy_logic), S.s);
    new (&G.g) GM(S.s, M.m);
    S.s.vertices = NV;
    for (unsigned i = 0; i < NE; i++) {
        e_own[i] = i / KOUT; e_present[i] = (i % KOUT) < cnt[i / KOUT];
        edge_buf[i].from = VertexRef{forward ? e_own[i] : e_other[i]}; edge_buf[i].to = VertexRef{forward ? e_other[i] : e_own[i]};
        edge_buf[i].neg = EdgeRef_Undef; edge_buf[i].cost = SafeInt((ptrdiff_t)e_cost[i]); edge_buf[i].setTime = e_present[i] ? 1 + i : 0;
    }
    auto & ev = S.s.edges; ev._M_impl._M_start = edge_buf; ev._M_impl._M_finish = ev._M_impl._M_end_of_storage = edge_buf + NE;
    for (unsigned v = 0; v < NV; v++) {
        for (unsigned k = 0; k < KOUT; k++) out_buf[v][k] = EdgeRef{v * KOUT + k};
        auto & ov = adj.v[v]; ov._M_impl._M_start = out_buf[v]; ov._M_impl._M_finish = out_buf[v] + cnt[v]; ov._M_impl._M_end_of_storage = out_buf[v] + KOUT;
        // edgesOf(v) (all registered atoms with v as an end point) only feeds the `total` heuristic: 0..3 entries per vertex
        unsigned r = nondet_u8() & 3;
        auto & rv = reg.v[v]; rv._M_impl._M_start = reg_buf; rv._M_impl._M_finish = reg_buf + r; rv._M_impl._M_end_of_storage = reg_buf + 4;
    }
    // only the list of the search direction is read
    auto & og = forward ? G.g.graph.outgoing : G.g.graph.incoming;
    og._M_impl._M_start = adj.v; og._M_impl._M_finish = og._M_impl._M_end_of_storage = adj.v + NV;
    auto & cv = M.m.edgesContainingVert; cv._M_impl._M_start = reg.v; cv._M_impl._M_finish = cv._M_impl._M_end_of_storage = reg.v + NV;
}

// symbolic graph + start vertex + certificate of the shortest distances from it
static void choose_graph() {
    for (unsigned v = 0; v < NV; v++) { cnt[v] = nondet_u8(); VASSUME(cnt[v] <= KOUT); }
    for (unsigned i = 0; i < NE; i++) {
        e_own[i] = i / KOUT; e_present[i] = (i % KOUT) < cnt[i / KOUT];
        e_other[i] = nondet_u8(); VASSUME(e_other[i] < NV && e_other[i] != e_own[i]);   // an atom x - y <= c relates two different vertices
        unsigned cu = nondet_u8(); VASSUME(cu <= 2 * CMAX);
        e_cost[i] = (int)cu - CMAX;
    }
    g_init = nondet_u8(); VASSUME(g_init < NV);
    // certificate.  Feasibility (d[start] = 0, d[v] <= d[u] + c along every edge out of a reachable vertex) exists iff no negative
    // cycle is reachable from the start (the solver reports a conflict before an edge closing one is added) and gives d <= shortest
    // distance; a tight parent edge of strictly smaller rank for every other reachable vertex gives d >= shortest distance and
    // reach <= reachable set.
    unsigned rank[NV], par[NV];
    for (unsigned v = 0; v < NV; v++) {
        unsigned du = nondet_u8(); VASSUME(du <= 2 * (NV - 1) * CMAX); d_ref[v] = (long)du - (NV - 1) * CMAX;
        reach_ref[v] = nondet_bool(); rank[v] = nondet_u8() & 3; par[v] = nondet_u8() & 7; VASSUME(par[v] < NE);
    }
    VASSUME(reach_ref[g_init] && d_ref[g_init] == 0);
    for (unsigned i = 0; i < NE; i++) if (e_present[i] && reach_ref[e_own[i]])
        VASSUME(reach_ref[e_other[i]] && d_ref[e_other[i]] <= d_ref[e_own[i]] + e_cost[i]);
    for (unsigned v = 0; v < NV; v++) if (reach_ref[v] && v != g_init) {
        unsigned p = par[v];
        VASSUME(e_present[p] && e_other[p] == v && reach_ref[e_own[p]] && rank[e_own[p]] < rank[v] && d_ref[v] == d_ref[e_own[p]] + e_cost[p]);
    }
}

// the step is decided separately for each search direction and each vertex the iteration may take from the stack (one query per
// case; a single query over all cases did not finish in 290 s, one per vertex with symbolic direction only for some vertices)
static void step(int top, bool forward);
extern "C" void h_stp_dfs_step_f0() { step(0, true); }
extern "C" void h_stp_dfs_step_f1() { step(1, true); }
extern "C" void h_stp_dfs_step_f2() { step(2, true); }
extern "C" void h_stp_dfs_step_f3() { step(3, true); }
extern "C" void h_stp_dfs_step_b0() { step(0, false); }
extern "C" void h_stp_dfs_step_b1() { step(1, false); }
extern "C" void h_stp_dfs_step_b2() { step(2, false); }
extern "C" void h_stp_dfs_step_b3() { step(3, false); }
static void step(int top, bool forward) {
    g_force_top = top;
    choose_graph();
    install(forward);
    g_mode = M_STEP; g_empty_calls = 0; g_step_done = 0; g_repush = 0;
    auto res = G.g.dfsSearch(VertexRef{g_init}, forward);
    VASSERT(g_step_done, "harness: base case and one loop iteration were executed");
    if (g_repush) { VWITNESS("shorter-path-to-visited-vertex-scheduled-again"); }
    if (visited_words[0] != pre_words) { VWITNESS("new-vertex-discovered"); }
    VWITNESS("step-end");
}

extern "C" void h_stp_dfs_exit() {
    bool forward = nondet_bool();
    choose_graph();
    install(forward);
    g_mode = M_EXIT; g_empty_calls = 0;
    auto res = G.g.dfsSearch(VertexRef{g_init}, forward);
    VASSERT(g_empty_calls == 1, "harness: the loop was left at the first test");
    unsigned nreach = 0;
    for (unsigned v = 0; v < NV; v++) {
        bool vs = res.visited[v];
        VASSERT(vs == reach_ref[v], "the search marks exactly the vertices reachable from the start in the search direction");
        if (vs) { VASSERT((long)res.distance[v].value() == d_ref[v], "the distance reported for every reached vertex is the shortest path length"); nreach++; }
    }
    if (nreach == NV) { VWITNESS("all-reached"); }
    if (nreach == 2) { VWITNESS("two-reached"); }
    VWITNESS("exit-end");
}

// complete run, real LIFO order, on the shape s->c, s->b (listed in this order), c->b, b->d with symbolic costs: the search expands b
// (via the direct edge) before c; if the path over c is shorter, b must be expanded again for d to get its exact distance
extern "C" void h_stp_dfs_demo() {
    for (unsigned v = 0; v < NV; v++) cnt[v] = 0;
    cnt[0] = 2; cnt[1] = 1; cnt[2] = 1;
    for (unsigned i = 0; i < NE; i++) { e_other[i] = (i / KOUT + 1) % NV; unsigned cu = nondet_u8(); VASSUME(cu <= 2 * CMAX); e_cost[i] = (int)cu - CMAX; }
    e_other[0] = 1; e_other[1] = 2;      // s->c, s->b
    e_other[2] = 2;                      // c->b
    e_other[4] = 3;                      // b->d
    install(true);
    g_mode = M_LIFO; g_init = 0;
    auto res = G.g.dfsSearch(VertexRef{0}, true);
    long sc = e_cost[0], sb = e_cost[1], cb = e_cost[2], bd = e_cost[4];
    long db = sb < sc + cb ? sb : sc + cb;
    VASSERT(res.visited[0] && res.visited[1] && res.visited[2] && res.visited[3], "all four vertices are reached");
    VASSERT((long)res.distance[0].value() == 0 && (long)res.distance[1].value() == sc, "distances of s and c");
    VASSERT((long)res.distance[2].value() == db, "distance of b is the shorter of the two paths");
    VASSERT((long)res.distance[3].value() == db + bd, "distance of d follows the final distance of b (no stale distance)");
    if (sc + cb < sb) { VWITNESS("demo-shorter-path-found-after-expansion"); }
    VWITNESS("demo-end");
}

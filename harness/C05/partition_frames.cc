// C05 (what reaches the SAT solver does not depend on the tracking configuration): the REAL MainSolver::simplifyFormulas()
// and the REAL MainSolver::trackPartitions() in per-partition mode (produce-proofs / -assignments / -unsat-cores /
// -interpolants) and in whole-frame mode, on <= 2 frames with <= 2 assertions each.  Theory preprocessing, substitutions,
// rewriteMaxArity and mkAnd are ORACLE stubs: every asserted formula f has one symbolic processed form P(f) that is `true`,
// `false` or a distinct other term; the processed form of the frame's conjunction is the conjunction of the P(f) (false if one
// of them is false, true if all are true, else a term standing for "all non-true P(f) of this frame").  The CNF-izer
// (giveToSolver) is a recording stub.  The fixture follows harness/C04/ms_frames.cc.
// Second part: the REAL MainSolver::solve(): every term of logic.propFormulasAppearingInUF is announced (addVar) and frozen
// (setFrozen(v,true)) before solve_ is called.
#include "verif.h"
#include "api/MainSolver.h"
#include <new>
#include <cstdlib>
using namespace opensmt;

#define NFR 2            // at most NFR frames (base + one pushed)
#define NF 2             // at most NF formulas per frame

template <class F> static int vslot(F pmf) {
    union { F f; struct { intptr_t ptr; intptr_t adj; } r; } u;
    u.f = pmf;
    return (int)((u.r.ptr - 1) / 8);
}

// terms: 1 true, 2 false, 10+2i+k the k-th assertion of frame i, 20+2i+k its processed form when that is neither true nor false,
// 100+i the conjunction of frame i, 200+i its processed form when neither true nor false, +40 the max-arity rewriting of a term
enum { C_TRUE = 0, C_FALSE = 1, C_OTHER = 2 };

// ------------------------------------------------------------------ ghost state
static int g_nfr;                      // live frames
static uint32_t g_id[NFR];             // id of live frame i
static int g_nform[NFR];               // assertions in frame i
static uint8_t g_cls[NFR][NF];         // ORACLE: class of the processed form of assertion (i,k)
static bool g_conf[NFR];               // ORACLE (deterministic mode): the clauses of frame i taken together conflict at level 0
static bool g_det;                     // deterministic conflict oracle (needed to compare two runs), else arbitrary per call
static bool g_opt[4];                  // configuration: proofs, assignments, unsat cores, interpolants
static int g_deliv[NFR][NF];           // how often the processed form of (i,k) was handed to the CNF-izer
static int g_true_given[NFR], g_false_given[NFR], g_sfalse_frame, g_calls;
static int g_bad, g_wrong_id, g_seen_and[NFR], g_after_calls[NFR], g_preA[NFR][NF], g_stage_bad;
static MainSolver * M;
static SimpSMTSolver * SS;

static int cur_frame() { return (int)M->firstNotSimplifiedFrame - 1; }   // frame being simplified
static bool tracking() { return g_opt[0] || g_opt[1] || g_opt[2] || g_opt[3]; }
static int n_nontrue(int i) { int n = 0; for (int k = 0; k < NF; k++) if (k < g_nform[i] && g_cls[i][k] != C_TRUE) n++; return n; }
static bool has_false(int i) { for (int k = 0; k < NF; k++) if (k < g_nform[i] && g_cls[i][k] == C_FALSE) return true; return false; }

// ------------------------------------------------------------------ stubs
extern "C" void stub_vecPTRefPush(vec<PTRef> * v, PTRef const * e) {   // minisat vec<PTRef>::push with fixed capacity 8
    if (v->data == nullptr) { v->data = (PTRef *)malloc(8 * sizeof(PTRef)); v->cap = 8; v->sz = 0; }
    if (v->sz >= 8) { g_bad = 1; return; }
    v->data[v->sz++] = *e;
}
extern "C" PTRef stub_true(Logic const *) { return PTRef{1}; }
extern "C" PTRef stub_false(Logic const *) { return PTRef{2}; }
extern "C" bool stub_isFalse(Logic const *, PTRef t) { return t.x == 2; }
extern "C" bool stub_isBoolOp(Logic const *, PTRef t) { return t.x != 1 && t.x != 2 && nondet_bool(); }
extern "C" bool stub_optAssign(SMTConfig const *) { return g_opt[1]; }
extern "C" bool stub_optCores(SMTConfig const *) { return g_opt[2]; }
extern "C" bool stub_optInter(SMTConfig const *) { return g_opt[3]; }
extern "C" int stub_getPartitionIndex(PartitionManager const *, PTRef) { return 0; }
extern "C" PTRef stub_rewriteMaxArity(MainSolver *, PTRef t) { return PTRef{t.x + 40u}; }

extern "C" PTRef stub_mkAnd(Logic *, vec<PTRef> const * args) {
    int i = cur_frame();
    if (i < 0 || i >= g_nfr) { g_bad = 1; return PTRef{1}; }
    g_seen_and[i]++;
    if (args->size() != g_nform[i]) g_stage_bad = 1;
    for (int k = 0; k < NF; k++) if (k < args->size() && (*args)[k].x != 10u + 2 * i + k) g_stage_bad = 1;
    return PTRef{100u + (uint32_t)i};
}
// whole-frame mode: the earlier stages keep the conjunction, the last stage yields its processed form
extern "C" PTRef stub_applyLearntSubstitutions(MainSolver *, PTRef t) { int i = cur_frame(); if (i <= 0 || t.x != 100u + i) g_stage_bad = 1; return t; }
extern "C" PTRef stub_preprocessBefore(Theory *, PTRef t, PreprocessingContext const * ctx) {
    int i = cur_frame(); if ((int)ctx->frameCount != i || ctx->perPartition || t.x != 100u + i) g_stage_bad = 1; return t;
}
extern "C" PTRef stub_substitutionPass(MainSolver *, PTRef t, PreprocessingContext const * ctx) {
    int i = cur_frame(); if ((int)ctx->frameCount != i || t.x != 100u + i) g_stage_bad = 1; return t;
}
extern "C" PTRef stub_preprocessAfter(Theory *, PTRef t, PreprocessingContext const * ctx) {
    int i = cur_frame();
    if (i < 0 || i >= g_nfr || (int)ctx->frameCount != i) { g_bad = 1; return t; }
    if (ctx->perPartition != tracking()) g_stage_bad = 1;
    if (ctx->perPartition) {
        for (int k = 0; k < NF; k++) if (t.x == 10u + 2 * i + k && k < g_nform[i]) {
            g_preA[i][k]++;
            return g_cls[i][k] == C_TRUE ? PTRef{1} : g_cls[i][k] == C_FALSE ? PTRef{2} : PTRef{20u + 2 * i + k};
        }
        g_bad = 1; return t;
    }
    if (t.x != 100u + i) { g_stage_bad = 1; return t; }
    if (has_false(i)) return PTRef{2};
    if (n_nontrue(i) == 0) return PTRef{1};
    return PTRef{200u + (uint32_t)i};
}
extern "C" void stub_afterPreprocessing(Theory *, PTRef const *, uint32_t) { int i = cur_frame(); if (i >= 0 && i < g_nfr) g_after_calls[i]++; }

// the CNF-izer + clause insertion.  `false` always yields a level-0 conflict (Cnfizer::cnfize adds the unit clause {false}
// next to the unit {not false} of MainSolver::initialize); other formulas according to the conflict oracle.
extern "C" sstat stub_giveToSolver(MainSolver *, PTRef t, uint32_t push_id) {
    int i = cur_frame();
    g_calls++;
    if (i < 0 || i >= g_nfr) { g_bad = 1; return s_Undef; }
    if (g_id[i] != push_id) g_wrong_id = 1;
    uint32_t x = t.x;
    if (x == 1) { g_true_given[i]++; return s_Undef; }
    if (x == 2) { g_false_given[i]++; SS->ok = false; g_sfalse_frame = i; return s_False; }
    if (x >= 60 && x < 60 + 2 * NFR) x -= 40;
    if (x >= 240 && x < 240 + NFR) x -= 40;
    bool complete = false;
    if (x >= 20 && x < 20 + 2 * NFR) {
        int fi = (int)(x - 20) / 2, k = (int)(x - 20) % 2;
        if (fi != i || k >= g_nform[i] || g_cls[i][k] != C_OTHER) { g_bad = 1; return s_Undef; }
        g_deliv[i][k]++;
        int done = 0; for (int j = 0; j < NF; j++) if (j < g_nform[i] && g_cls[i][j] == C_OTHER && g_deliv[i][j] > 0) done++;
        complete = (done == n_nontrue(i));
    } else if (x == 200u + i) {
        for (int k = 0; k < NF; k++) if (k < g_nform[i] && g_cls[i][k] == C_OTHER) g_deliv[i][k]++;
        complete = true;
    } else { g_bad = 1; return s_Undef; }
    bool confl = g_det ? (complete && g_conf[i]) : nondet_bool();
    if (confl) { SS->ok = false; g_sfalse_frame = i; return s_False; }
    return s_Undef;
}

// ---- second part (solve): recording stubs
#define NPROP 2
static int g_added[8], g_frozen[8], g_unfrozen_call, g_solve_calls, g_announce_ok;
static uint32_t g_prop[NPROP]; static int g_nprop;
extern "C" Lit stub_getOrCreateLit(TermMapper *, PTRef t) { Lit l; l.x = (int)((t.x & 7) * 2); return l; }
extern "C" void stub_addVar(CoreSMTSolver *, Var v) { g_added[v & 7]++; }
extern "C" void stub_setFrozen(SimpSMTSolver *, Var v, bool b) { if (b) g_frozen[v & 7]++; else g_unfrozen_call++; }
extern "C" void stub_clearSearch(CoreSMTSolver *) {}
extern "C" void stub_computeModel(THandler *) {}
extern "C" bool stub_produceModels(SMTConfig const *) { return nondet_bool(); }
extern "C" sstat stub_solve_(MainSolver *, vec<uint32_t> const * enabled) {
    g_solve_calls++;
    g_announce_ok = 1;
    for (int j = 0; j < NPROP; j++) if (j < g_nprop) { int v = g_prop[j] & 7; if (g_added[v] == 0 || g_frozen[v] == 0) g_announce_ok = 0; }
    if (enabled->size() != g_nfr) g_bad = 1;
    uint8_t r = nondet_u8(); VASSUME(r <= 2); return sstat(lbool(r));
}

// ------------------------------------------------------------------ fixture (as harness/C04/ms_frames.cc)
static void * ms_vt[16];
static void * th_vt[16];
union RawMS { MainSolver m; RawMS() {} ~RawMS() {} };
union RawSS { SimpSMTSolver s; RawSS() {} ~RawSS() {} };
union RawLogic { Logic l; RawLogic() {} ~RawLogic() {} };
static RawMS rawms;
static RawSS rawss;
static RawLogic rawlogic;
static void * fake_theory[2];
alignas(8) static unsigned char fake_config[8], fake_tmap[8], fake_thandler[8], fake_proof[8];
#define fake_logic (&rawlogic.l)
static void * after(void * p, std::size_t sz) { return (void *)((char *)p + sz); }

// (re)builds the solver with g_nfr frames holding g_nform[i] assertions; frames below `fnsf` count as simplified
static void build(int fnsf) {
    MainSolver * m = &rawms.m; M = m; SS = &rawss.s;
    ms_vt[vslot(&MainSolver::solve_)] = (void *)&stub_solve_;
    *reinterpret_cast<void ***>(m) = ms_vt;
    th_vt[vslot(&Theory::preprocessBeforeSubstitutions)] = (void *)&stub_preprocessBefore;
    th_vt[vslot(&Theory::preprocessAfterSubstitutions)] = (void *)&stub_preprocessAfter;
    th_vt[vslot(&Theory::afterPreprocessing)] = (void *)&stub_afterPreprocessing;
    fake_theory[0] = (void *)th_vt;
    *reinterpret_cast<void **>(&m->theory) = (void *)fake_theory;
    *reinterpret_cast<void **>(&m->term_mapper) = (void *)fake_tmap;
    *reinterpret_cast<void **>(&m->thandler) = (void *)fake_thandler;
    *reinterpret_cast<void **>(&m->smt_solver) = (void *)SS;
    *reinterpret_cast<void **>(after(&m->termNames, sizeof(TermNames))) = (void *)fake_logic;
    *reinterpret_cast<void **>(after(&m->pmanager, sizeof(PartitionManager))) = (void *)fake_config;
    VASSERT((void *)&m->logic == (void *)fake_logic && (void *)&m->config == (void *)fake_config, "harness: reference members located");
    new (&rawlogic.l.propFormulasAppearingInUF) vec<PTRef>();
    new (&m->frames) MainSolver::AssertionStack();
    m->frames.frames.reserve(NFR);
    new (&m->frameTerms) vec<PTRef>();
    new (&m->preprocessor) MainSolver::Preprocessor();
    m->preprocessor.substitutions.perFrameSubst.reserve(NFR);
    m->preprocessor.preprocessedFormulas.elements.reserve(16);
    m->preprocessor.preprocessedFormulas.limits.reserve(NFR);
    m->status = sstat((int)(nondet_u8() & 3) - 1); m->check_called = 0; m->insertedFormulasCount = 0;
    SS->ok = true; SS->conflict_frame = 0;
    *reinterpret_cast<void **>(&SS->resolutionProof) = g_opt[0] ? (void *)fake_proof : nullptr;
    // what initialize() / push() / insertFormula() do to the frame bookkeeping (real container operations)
    m->frames.push();
    m->preprocessor.initialize();
    if (g_nfr == 2) { m->frames.push(); m->preprocessor.push(); }
    for (int i = 0; i < NFR; i++) if (i < g_nfr) {
        m->frames.frames[i].id = g_id[i];
        for (int k = 0; k < NF; k++) if (k < g_nform[i]) m->frames.frames[i].formulas.push(PTRef{10u + 2 * i + k});
    }
    // frames below fnsf were simplified by an earlier check-sat: their preprocessor scopes exist
    m->firstNotSimplifiedFrame = 0;
    for (int i = 0; i < NFR; i++) if (i < fnsf) { m->preprocessor.prepareForProcessingFrame(i); m->firstNotSimplifiedFrame = i + 1; }
    for (int i = 0; i < NFR; i++) {
        g_true_given[i] = g_false_given[i] = g_seen_and[i] = g_after_calls[i] = 0;
        for (int k = 0; k < NF; k++) { g_deliv[i][k] = 0; g_preA[i][k] = 0; }
    }
    g_sfalse_frame = -1; g_calls = 0; g_bad = 0; g_wrong_id = 0; g_stage_bad = 0;
}

static void choose_problem() {
    g_nfr = 1 + (nondet_u8() & 1);
    g_id[0] = 0; g_id[1] = 1 + (nondet_u8() & 3);           // the pushed frame has any later id
    for (int i = 0; i < NFR; i++) {
        g_nform[i] = nondet_u8() & 3; VASSUME(g_nform[i] <= NF);
        g_conf[i] = nondet_bool();
        for (int k = 0; k < NF; k++) { g_cls[i][k] = nondet_u8() & 3; VASSUME(g_cls[i][k] <= 2); }
    }
}

struct Outcome { int r; bool unsat[NFR]; std::size_t fnsf; int deliv[NFR][NF]; };
static Outcome run_and_check(int f0) {
    MainSolver * m = M;
    sstat r = m->MainSolver::simplifyFormulas();
    bool trk = tracking();
    VASSERT(!g_bad, "the CNF-izer and the preprocessing steps only see terms of the frame being simplified");
    VASSERT(!g_wrong_id, "every formula is handed to the CNF-izer with the id of its own frame");
    VASSERT(!g_stage_bad, "whole-frame mode: the conjunction of exactly the frame's assertions runs through substitutions and theory preprocessing in order");
    VASSERT(r == s_False || r == s_Undef, "simplifyFormulas answers unsat or undetermined");
    // reference: frames f0.. are processed in order until one of them produces a contradiction
    int stop = -1;
    for (int i = 0; i < NFR; i++) if (i < g_nfr) {
        bool processed = i >= f0 && stop < 0;
        if (!processed) {
            VASSERT(g_true_given[i] == 0 && g_false_given[i] == 0 && g_deliv[i][0] == 0 && g_deliv[i][1] == 0 && g_after_calls[i] == 0,
                    "frames already simplified, and frames above a contradictory frame, are not handed over (again)");
            continue;
        }
        if (g_sfalse_frame == i) stop = i;
        for (int k = 0; k < NF; k++) if (k < g_nform[i]) {
            if (trk) VASSERT(g_preA[i][k] == 1, "per-partition mode: every assertion of a frame being simplified is preprocessed exactly once");
            if (g_cls[i][k] == C_OTHER) {
                VASSERT(g_deliv[i][k] <= 1, "no processed formula is handed to the CNF-izer twice");
                if (stop != i) VASSERT(g_deliv[i][k] == 1, "every processed formula other than `true` of a frame being simplified reaches the CNF-izer exactly once (a frame is skipped only if ALL its formulas are true)");
            } else VASSERT(g_deliv[i][k] == 0, "harness: only non-constant processed formulas are counted");
        }
        if (has_false(i)) {
            VASSERT(stop == i && g_false_given[i] <= 1, "a frame with a `false` processed formula is found contradictory and the simplification stops there");
            if (!trk) VASSERT(g_false_given[i] == 1, "whole-frame mode: `false` is handed to the solver for a contradictory frame");
        } else VASSERT(g_false_given[i] == 0, "`false` is handed over only if a processed formula of the frame is false");
        if (trk) VASSERT(g_true_given[i] == 0, "per-partition mode: `true` formulas are not handed over");
        if (!trk) VASSERT(g_seen_and[i] == 1, "whole-frame mode: one conjunction per frame");
    }
    Outcome o;
    o.r = r == s_False ? 0 : 1; o.fnsf = m->firstNotSimplifiedFrame;
    if (stop >= 0) {
        VASSERT(r == s_False, "a contradiction found while handing a frame over makes simplifyFormulas answer unsat");
        VASSERT(m->firstNotSimplifiedFrame == (std::size_t)stop + 1, "simplification stops at the contradictory frame");
        if (has_false(stop)) { VWITNESS("frame-false"); } else { VWITNESS("frame-conflict-in-solver"); }
    } else {
        VASSERT(r == s_Undef, "without a contradiction the answer is left to the search");
        VASSERT(m->firstNotSimplifiedFrame == (std::size_t)g_nfr, "all frames are simplified");
    }
    for (int i = 0; i < NFR; i++) {
        o.unsat[i] = i < g_nfr && m->frames[i].unsat;
        if (i < g_nfr) VASSERT(m->frames[i].unsat == (stop >= 0 && i >= stop), "exactly the contradictory frame and the frames above it are remembered as unsat");
        for (int k = 0; k < NF; k++) o.deliv[i][k] = g_deliv[i][k];
    }
    return o;
}

// (1) one run in a symbolic configuration against the reference
extern "C" void h_partition() {
    choose_problem();
    for (int j = 0; j < 4; j++) g_opt[j] = nondet_bool();
    g_det = false;
    int f0 = nondet_u8() & 3; VASSUME(f0 <= g_nfr);
    build(f0);
    VASSERT(M->trackPartitions() == tracking(), "partitions are tracked iff proofs, assignments, unsat cores or interpolants are requested");
    Outcome o = run_and_check(f0);
    bool trk = tracking();
    if (trk && f0 == 0 && g_nform[0] == 2 && g_cls[0][0] == C_TRUE && g_cls[0][1] == C_OTHER && o.r == 1) { VWITNESS("partition-true-and-other"); }
    if (trk && g_nfr == 2 && f0 == 0 && n_nontrue(0) == 0 && n_nontrue(1) == 2 && o.r == 1) { VWITNESS("partition-skip-base-deliver-pushed"); }
    if (!trk && g_nfr == 2 && f0 == 1 && g_nform[1] == 2 && o.r == 1) { VWITNESS("whole-frame-incremental"); }
    if (trk && g_nform[0] == 2 && f0 == 0 && g_cls[0][0] == C_OTHER && g_deliv[0][0] == 1 && g_deliv[0][1] == 0 && g_cls[0][1] == C_OTHER) { VWITNESS("partition-conflict-at-first-formula"); }
    if (g_opt[2] && !g_opt[0] && !g_opt[1] && !g_opt[3]) { VWITNESS("only-unsat-cores"); }
    VWITNESS("partition-end");
}

// (2) the same assertions and the same oracle answers in whole-frame mode and in a tracking mode: same verdict, same frames
// remembered unsat, same resume point, and the same formulas delivered for every frame that is not contradictory
extern "C" void h_modes_agree() {
    choose_problem();
    g_det = true;
    int f0 = nondet_u8() & 3; VASSUME(f0 <= g_nfr);
    for (int j = 0; j < 4; j++) g_opt[j] = false;
    build(f0);
    Outcome a = run_and_check(f0);
    for (int j = 0; j < 4; j++) g_opt[j] = nondet_bool();
    VASSUME(tracking());
    build(f0);
    Outcome b = run_and_check(f0);
    VASSERT(a.r == b.r, "whole-frame and per-partition preprocessing give the same verdict for the same assertions");
    VASSERT(a.fnsf == b.fnsf, "both modes stop at the same frame");
    for (int i = 0; i < NFR; i++) {
        VASSERT(a.unsat[i] == b.unsat[i], "both modes remember the same frames as unsat");
        for (int k = 0; k < NF; k++) if (!a.unsat[i]) VASSERT(a.deliv[i][k] == b.deliv[i][k], "both modes deliver the same processed formulas of every consistent frame to the SAT solver");
    }
    if (a.r == 1 && g_nfr == 2 && n_nontrue(0) == 1 && n_nontrue(1) == 1) { VWITNESS("modes-both-frames-delivered"); }
    if (a.r == 0) { VWITNESS("modes-unsat"); }
    VWITNESS("modes-end");
}

// (3) real MainSolver::solve(): Boolean terms occurring under uninterpreted functions are announced and frozen before solve_
extern "C" void h_solve_freeze() {
    g_nfr = 1 + (nondet_u8() & 1); g_id[0] = 0; g_id[1] = 1; g_nform[0] = g_nform[1] = 0;
    for (int j = 0; j < 4; j++) g_opt[j] = false;
    build(g_nfr);
    g_nprop = nondet_u8() & 3; VASSUME(g_nprop <= NPROP);
    vec<PTRef> & pf = rawlogic.l.propFormulasAppearingInUF;
    pf.data = (PTRef *)malloc(NPROP * sizeof(PTRef)); pf.cap = NPROP; pf.sz = g_nprop;
    g_prop[0] = 3; g_prop[1] = 5;
    for (int j = 0; j < NPROP; j++) pf.data[j] = PTRef{g_prop[j]};
    SS->ok = nondet_bool();
    sstat r = M->MainSolver::solve();
    VASSERT(!g_bad, "solve enables every live frame");
    if (!SS->ok) { VASSERT(r == s_False && g_solve_calls == 0, "an inconsistent clause database answers unsat without search"); VWITNESS("solve-not-ok"); }
    else {
        VASSERT(g_solve_calls == 1, "the engine is asked once");
        VASSERT(g_announce_ok, "every Boolean term occurring under an uninterpreted function is announced to the SAT solver and frozen before the engine runs");
        VASSERT(g_unfrozen_call == 0, "solve never unfreezes a variable");
        if (g_nprop == 2) { VWITNESS("solve-two-uf-bools"); }
    }
    VWITNESS("solve-end");
}

// C05: SimpSMTSolver::solve_(bool do_simp, bool turn_off_simp) -- the gate around SatELite-style elimination.
// Real body; eliminate / CoreSMTSolver::solve_ (virtual) / extendModel / verifyModel (virtual) are stubs with ghost
// bookkeeping. All configurations (do_simp, turn_off_simp, use_simplification, sat_preprocess_theory) symbolic.
#include "verif.h"
#include "smtsolvers/SimpSMTSolver.h"
#include "common/ApiException.h"
#include <new>
#include <cstdlib>
using namespace opensmt;

#define NV 4          // variables
#ifndef NA
#define NA 3          // assumptions
#endif

template <class F> static int vslot(F pmf) {
    union { F f; struct { intptr_t ptr; intptr_t adj; } r; } u;
    u.f = pmf;
    return (int)((u.r.ptr - 1) / 8);
}

static int g_elim_calls, g_solve_calls, g_extend_calls, g_verify_calls, g_order, g_elim_at, g_solve_at, g_extend_at;
static bool g_elim_arg, g_elim_res, g_assumps_frozen_at_elim, g_elim_turns_off;
static uint8_t g_inner;
static int g_heap_updates;
static SimpSMTSolver * S;

extern "C" bool stub_eliminate(SimpSMTSolver * s, bool turn_off) {
    g_elim_calls++; g_elim_at = ++g_order; g_elim_arg = turn_off;
    g_assumps_frozen_at_elim = true;
    for (int i = 0; i < NA; i++) if (i < s->assumptions.size() && !s->frozen[var(s->assumptions[i])]) g_assumps_frozen_at_elim = false;
    if (turn_off) s->use_simplification = false;       // what the real eliminate(true) does in its clean-up
    g_elim_res = nondet_bool();
    if (!g_elim_res) s->ok = false;
    return g_elim_res;
}
extern "C" lbool stub_coreSolve(CoreSMTSolver *) { g_solve_calls++; g_solve_at = ++g_order; uint8_t r = nondet_u8(); VASSUME(r <= 2); g_inner = r; return lbool(r); }
extern "C" void stub_extendModel(SimpSMTSolver *) { g_extend_calls++; g_extend_at = ++g_order; }
extern "C" void stub_verifyModel(CoreSMTSolver *) { g_verify_calls++; }
extern "C" void stub_updateElimHeap(SimpSMTSolver *, Var) { g_heap_updates++; }
extern "C" void stub_vecIntPush(vec<int> * v, int const * e) {
    if (v->data == nullptr) { v->data = (int *)malloc(4 * sizeof(int)); v->cap = 4; v->sz = 0; }
    VASSERT(v->sz < 4, "harness: extra_frozen capacity");
    v->data[v->sz++] = *e;
}

static void * fake_vt[64];
struct RawS { union { SimpSMTSolver s; }; RawS() {} ~RawS() {} };
union RawCfg { SMTConfig c; RawCfg() {} ~RawCfg() {} };
static RawS raw;
static RawCfg rawc;

extern "C" void h_simp_gate() {
    SimpSMTSolver * s = &raw.s; S = s;
    fake_vt[vslot(&CoreSMTSolver::solve_)] = (void *)&stub_coreSolve;
    fake_vt[vslot(&CoreSMTSolver::verifyModel)] = (void *)&stub_verifyModel;
    *reinterpret_cast<void ***>(s) = fake_vt;
    struct Head { void * vptr; SMTConfig * config; THandler * th; };
    reinterpret_cast<Head *>(s)->config = &rawc.c;
    VASSERT(&s->config == &rawc.c, "harness: layout of the reference member config as expected");
    int spt = nondet_bool(); rawc.c.sat_preprocess_theory = spt;
    bool use_simp0 = nondet_bool(); s->use_simplification = use_simp0;
    s->ok = true;
    new (&s->assumptions) vec<Lit>();
    new (&s->frozen) vec<char>();
    int na = nondet_u8() & 3; VASSUME(na <= NA);
    s->assumptions.data = (Lit *)malloc(NA * sizeof(Lit)); s->assumptions.cap = NA; s->assumptions.sz = na;
    for (int i = 0; i < NA; i++) { Lit l; l.x = nondet_u8() & 7; s->assumptions.data[i] = l; }      // vars 0..3, either sign (repeats allowed)
    s->frozen.data = (char *)malloc(NV); s->frozen.cap = NV; s->frozen.sz = NV;
    char fr0[NV];
    for (int v = 0; v < NV; v++) { fr0[v] = nondet_bool(); s->frozen.data[v] = fr0[v]; }
    g_elim_calls = g_solve_calls = g_extend_calls = g_verify_calls = g_order = g_elim_at = g_solve_at = g_extend_at = 0; g_heap_updates = 0;
    bool do_simp = nondet_bool(), turn_off = nondet_bool();

    bool threw = false; lbool res = l_Undef;
    try { res = s->solve_(do_simp, turn_off); } catch (ApiException const &) { threw = true; }

    if (spt) {
        VASSERT(threw && g_elim_calls + g_solve_calls + g_extend_calls == 0, "theory preprocessing request is refused before anything runs");
        VWITNESS("refused");
        return;
    }
    VASSERT(!threw, "no exception otherwise");
    bool gate = do_simp && use_simp0;
    VASSERT(g_elim_calls == (gate ? 1 : 0), "elimination runs iff requested (non-incremental) and simplification is still enabled");
    if (gate) {
        VASSERT(g_elim_arg == turn_off, "turn_off_simp is passed on unchanged");
        VASSERT(g_assumps_frozen_at_elim, "every assumption variable is frozen while elimination runs");
        VWITNESS("eliminate-ran");
    }
    if (gate && !g_elim_res) {
        VASSERT(res == l_False && g_solve_calls == 0 && g_extend_calls == 0, "a contradiction found by elimination is unsat; no search, no model extension");
        VWITNESS("eliminate-unsat");
    } else {
        VASSERT(g_solve_calls == 1 && toInt(res) == g_inner, "the answer is the one of the inner solve_()");
        VASSERT(!gate || g_elim_at < g_solve_at, "elimination precedes the search");
    }
    VASSERT(g_extend_calls == (res == l_True ? 1 : 0) && g_verify_calls == g_extend_calls, "the model is extended iff the answer is sat");
    if (res == l_True) { VASSERT(g_solve_at < g_extend_at, "model extension follows the search"); VWITNESS("sat-extended"); }
    // frozen flags: restored for the temporarily frozen assumption variables, unless simplification was switched off for good
    for (int v = 0; v < NV; v++) {
        bool is_assump = false;
        for (int i = 0; i < NA; i++) if (i < na && var(s->assumptions.data[i]) == v) is_assump = true;
        if (!is_assump || !gate) VASSERT(s->frozen.data[v] == fr0[v], "frozen flags of other variables are untouched");
        else if (s->use_simplification) VASSERT(s->frozen.data[v] == fr0[v], "temporarily frozen assumption variables are unfrozen again");
    }
    if (gate && turn_off) { VASSERT(!s->use_simplification, "simplification switched off after the last elimination"); VWITNESS("turned-off"); }
    if (res == l_Undef) { VWITNESS("unknown-passed-through"); }
    VWITNESS("end");
}

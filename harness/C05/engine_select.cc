// C05: MainSolver::createInnerSolver -- engine selection is total on all flag vectors and matches the reference table.
// The three engine constructors are stubs that only record which engine was requested.
#include "verif.h"
#include "api/MainSolver.h"
#include "smtsolvers/LookaheadSMTSolver.h"
#include "smtsolvers/GhostSMTSolver.h"
using namespace opensmt;

static int g_ctor_calls, g_engine;      // 1 = SimpSMTSolver (CDCL), 2 = LookaheadSMTSolver, 3 = GhostSMTSolver
static void * g_obj;
static int f_pure, f_picky; static bool f_ghost;
static SMTConfig * g_cfg_seen; static THandler * g_th_seen;

extern "C" void stub_ctorSimp(SimpSMTSolver * p, SMTConfig * c, THandler * t) { g_ctor_calls++; g_engine = 1; g_obj = p; g_cfg_seen = c; g_th_seen = t; }
extern "C" void stub_ctorLA(LookaheadSMTSolver * p, SMTConfig * c, THandler * t) { g_ctor_calls++; g_engine = 2; g_obj = p; g_cfg_seen = c; g_th_seen = t; }
extern "C" void stub_ctorGhost(GhostSMTSolver * p, SMTConfig * c, THandler * t) { g_ctor_calls++; g_engine = 3; g_obj = p; g_cfg_seen = c; g_th_seen = t; }
extern "C" int stub_pure(SMTConfig const *) { return f_pure; }
extern "C" int stub_picky(SMTConfig const *) { return f_picky; }
extern "C" bool stub_ghost(SMTConfig const *) { return f_ghost; }

alignas(8) static unsigned char fake_cfg[8], fake_th[8];

extern "C" void h_engine_select() {
    f_pure = nondet_i32(); f_picky = nondet_i32(); f_ghost = nondet_bool();
    g_ctor_calls = 0; g_engine = 0; g_obj = nullptr;
    SMTConfig & cfg = *reinterpret_cast<SMTConfig *>(fake_cfg);
    THandler & th = *reinterpret_cast<THandler *>(fake_th);
    std::unique_ptr<SimpSMTSolver> up = MainSolver::createInnerSolver(cfg, th);
    SimpSMTSolver * p = up.release();      // no destructor of the (unconstructed) engine is run
    int expect = f_pure != 0 ? 2 : (f_ghost ? 3 : (f_picky != 0 ? 2 : 1));     // reference table (documented precedence)
    VASSERT(g_ctor_calls == 1, "exactly one engine is constructed for every flag vector");
    VASSERT(g_engine == expect, "engine matches the reference table: pure lookahead > ghost variables > picky lookahead > CDCL");
    VASSERT(p != nullptr && (void *)p == g_obj, "the constructed engine is the one returned");
    VASSERT(g_cfg_seen == &cfg && g_th_seen == &th, "the engine is built on the given configuration and theory handler");
    if (g_engine == 1) { VWITNESS("cdcl"); }
    if (g_engine == 2 && f_pure == 0) { VWITNESS("picky-lookahead"); }
    if (g_engine == 2 && f_pure != 0 && f_ghost) { VWITNESS("pure-lookahead-beats-ghost"); }
    if (g_engine == 3) { VWITNESS("ghost"); }
}

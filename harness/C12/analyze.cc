// C12: CoreSMTSolver::analyze + litRedundant (real code) from an arbitrary valid CDCL state: the learnt clause is implied
// by the clause DB and the theory reasons used, is asserting, and the back-jump level is right.
#include "satstate.h"
using namespace opensmt;
using namespace ss;

template<int fixed_mode> static void run_analyze() {
    build_state(1);
    // the conflict: a DB clause, all literals false, at least one literal of the current decision level
    const int ck = SS_NV;   // the conflict clause lives in the first non-reason slot
    bool has_cur = false;
    for (int j = 0; j < SS_ML; j++) if (j < g_csz[ck]) { int l = g_clit[ck][j]; VASSUME(lit_false_entry(l)); if (g_lev[lvar(l)] == g_nl) has_cur = true; }
    VASSUME(has_cur);
    assume_sigma_models_db();
    materialize();
    int mode = fixed_mode;
    if (fixed_mode < 0) { mode = nondet_u8(); VASSUME(mode == 0 || mode == 2); }
    S->ccmin_mode = mode;
    // proof logging off: resolutionProof == nullptr (zero storage)

    vec<Lit> out; prealloc(out, buf_out, SS_NV + 2, 0);
    int bt = nondet_i32();
    S->analyze(cref_of(ck), out, bt);

    VASSERT(!g_bad_getreason, "getReason is asked only for trail literals whose reason is the theory, at most once each");
    int n = out.size();
    VASSERT(n >= 1 && n <= SS_NV, "learnt clause is non-empty");
    bool sat = false, all_false = true, in_range = true, rest_lower = true;
    int maxlev = 0;
    for (int i = 0; i < SS_NV; i++) if (i < n) {
        int l = out[i].x;
        if (!lit_ok(l)) { in_range = false; continue; }
        if (!lit_false_entry(l)) all_false = false;
        if (sig(l)) sat = true;
        if (i >= 1) { if (g_lev[lvar(l)] >= g_nl) rest_lower = false; if (g_lev[lvar(l)] > maxlev) maxlev = g_lev[lvar(l)]; }
    }
#ifdef SS_WRONG
    VASSERT(n < 1 || !lit_ok(out[0].x) || g_lev[lvar(out[0].x)] != g_nl, "DELIBERATELY WRONG: the learnt clause has no literal of the current level");
#endif
    VASSERT(in_range, "learnt literals are literals of the solver");
    VASSERT(all_false, "every literal of the learnt clause is false under the trail");
    VASSERT(sat, "sigma satisfies DB and theory reasons => sigma satisfies the learnt clause");
    if (in_range) {
        VASSERT(g_lev[lvar(out[0].x)] == g_nl, "out_learnt[0] is of the current decision level");
        VASSERT(rest_lower, "out_learnt[0] is the only literal of the current decision level");
        VASSERT(bt == maxlev, "out_btlevel is the maximum level of the remaining literals (0 for a unit)");
        if (n >= 2) VASSERT(g_lev[lvar(out[1].x)] == bt, "out_learnt[1] has the back-jump level");
    }
    VASSERT(seen_clear(), "seen[] is clear on exit");
    int tcsz = S->analyze_toclear.size(), trsz = S->trail.size();
    out.data = nullptr; out.sz = 0; out.cap = 0;   // static buffer: nothing to free
    VWITNESS("analyze-returns");
    if (n == 1) { VWITNESS("unit-learnt"); }
#if defined(SS_NO_THEORY) && SS_NV <= 3
    if constexpr (fixed_mode != 2) { if (n >= 3) { VWITNESS("learnt-3-literals"); } }   // with 3 variables, no theory reasons and minimisation the third literal is always redundant
#else
    if (n >= 3) { VWITNESS("learnt-3-literals"); }
#endif
#if !defined(SS_NO_THEORY) && !defined(SS_SHAPE_LIMS)
    if (g_nth > 0) { VWITNESS("resolved-with-theory-reason"); }
    if (trsz < g_n) { VWITNESS("trail-backtracked-for-theory-reason"); }
#endif
    if constexpr (fixed_mode != 0) { if (tcsz > n) { VWITNESS("minimisation-removed-a-literal"); } }
#if SS_NV >= 4 && !defined(SS_NO_THEORY) && !defined(SS_SHAPE_LIMS)
    if constexpr (fixed_mode != 0) { if (tcsz > n && g_nth > 0) { VWITNESS("minimisation-and-theory-reason"); } }   // needs >= 4 variables
#endif
#if defined(SS_SHAPE_LIMS) && SS_NL >= 3
    // three decision levels: a literal was minimised away and two literals of lower levels remain, so the back-jump literal has to be found among them
    if constexpr (fixed_mode != 0) { if (tcsz > n && n >= 3) { VWITNESS("minimised-clause-keeps-two-lower-level-literals"); } }
#endif
#if defined(SS_SHAPE_LIMS) && !defined(SS_NO_THEORY)
    {   // a theory-propagated literal of a lower level occurs (negated) in the reason of a literal of the un-minimised clause
        bool fake_behind = false;
        for (int i = 1; i <= SS_NV; i++) if (i < tcsz) { int q = lvar(S->analyze_toclear[i].x); if (q >= 0 && q < SS_NV && g_kind[q] == K_CLAUSE) for (int j = 1; j < SS_ML; j++) if (j < g_csz[q] && g_kind[lvar(g_clit[q][j])] == K_FAKE) fake_behind = true; }
        if (fake_behind) { VWITNESS("theory-propagated-literal-behind-a-learnt-literal"); if (tcsz > n) { VWITNESS("minimised-next-to-a-theory-propagated-literal"); } }
    }
#endif
}

extern "C" void h_analyze() { run_analyze<-1>(); }        // ccmin_mode symbolic in {0,2}
extern "C" void h_analyze_m0() { run_analyze<0>(); }      // ccmin_mode = 0 (litRedundant not reached)
extern "C" void h_analyze_m2() { run_analyze<2>(); }      // ccmin_mode = 2

#ifdef SS_DEBUG_ENTRIES
extern "C" void h_state_only() {
    build_state(1);
    assume_sigma_models_db();
    materialize();
    VWITNESS("state");
}
#endif

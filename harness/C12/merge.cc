// C12: SimpSMTSolver::merge (both overloads, real code): the resolvent on v is implied by the two premises, contains no
// literal of v, and `false` is returned exactly for tautological resolvents.
#include "verif.h"
#include "smtsolvers/SimpSMTSolver.h"
using namespace opensmt;

#ifndef MG_NV
#define MG_NV 4
#endif
#ifndef MG_ML
#define MG_ML 4
#endif

enum { STRIDE = MG_ML + 2 };
static uint32_t cmem[2 * STRIDE];                         // two clauses: header word, literals, extra word
static Lit out_buf[2 * MG_ML];
alignas(16) static unsigned char simp_mem[sizeof(SimpSMTSolver)];   // only the statistics counter `merges` is touched
static int csz[2], clit[2][MG_ML];

extern "C" void mg_vec_capacity(vec<int> * v, int min_cap) { VASSERT(v->cap >= min_cap, "harness preallocated enough vec capacity"); }

static bool sig(uint32_t sigma, int l) { return (((sigma >> (l >> 1)) & 1u) != 0) != ((l & 1) != 0); }

// symbolic clause k containing the literal `pivot`; no two literals over the same variable (clauses are stored
// duplicate-free and non-tautological: addOriginalClause_/strengthen keep them so)
static void symbolic_clause(int k, int pivot) {
    csz[k] = nondet_u8(); VASSUME(csz[k] >= 1 && csz[k] <= MG_ML);
    bool has = false;
    for (int j = 0; j < MG_ML; j++) {
        int l = nondet_u8(); VASSUME(l >= 0 && l < 2 * MG_NV);
        clit[k][j] = l;
        if (j < csz[k]) {
            if (l == pivot) has = true;
            for (int i = 0; i < j; i++) VASSUME((clit[k][i] >> 1) != (l >> 1));
        }
    }
    VASSUME(has);
    Clause & c = *reinterpret_cast<Clause *>(&cmem[k * STRIDE]);
    c.header.mark = 0; c.header.learnt = 0; c.header.has_extra = 1; c.header.reloced = 0; c.header.glue = 0; c.header.size = (unsigned)csz[k];
    for (int j = 0; j < MG_ML; j++) c.data[j].lit = toLit(clit[k][j]);
}

static bool tautology(int v) {
    bool t = false;
    for (int i = 0; i < MG_ML; i++) for (int j = 0; j < MG_ML; j++)
        if (i < csz[0] && j < csz[1] && (clit[0][i] >> 1) != v && clit[0][i] == (clit[1][j] ^ 1)) t = true;
    return t;
}

static void setup(int & v) {
    v = nondet_u8(); VASSUME(v >= 0 && v < MG_NV);
    symbolic_clause(0, 2 * v);        // _ps: from the positive occurrences of v
    symbolic_clause(1, 2 * v + 1);    // _qs: from the negative occurrences
}

extern "C" void h_merge_clause() {
    int v; setup(v);
    uint32_t sigma = nondet_u32(); VASSUME(sigma < (1u << MG_NV));
    SimpSMTSolver * S = reinterpret_cast<SimpSMTSolver *>(simp_mem);
    vec<Lit> out; out.data = out_buf; out.cap = 2 * MG_ML; out.sz = nondet_u8() % 3;   // merge clears it
    const Clause & ps = *reinterpret_cast<Clause *>(&cmem[0]);
    const Clause & qs = *reinterpret_cast<Clause *>(&cmem[STRIDE]);
    bool swap = nondet_bool();        // eliminateVar always passes (pos, neg); be liberal
    bool r = swap ? S->merge(qs, ps, v, out) : S->merge(ps, qs, v, out);
    VASSERT(r == !tautology(v), "merge returns false exactly when the resolvent is a tautology");
    if (r) {
        int n = out.size();
        VASSERT(n >= 0 && n <= 2 * MG_ML - 2, "resolvent size within |ps|+|qs|-2");
        bool sat = false, pivot_absent = true, from_premises = true;
        for (int i = 0; i < 2 * MG_ML; i++) if (i < n) {
            int l = out[i].x;
            if ((l >> 1) == v) pivot_absent = false;
            bool found = false;
            for (int k = 0; k < 2; k++) for (int j = 0; j < MG_ML; j++) if (j < csz[k] && clit[k][j] == l) found = true;
            if (!found) from_premises = false;
            if (l >= 0 && l < 2 * MG_NV && sig(sigma, l)) sat = true;
        }
        VASSERT(pivot_absent, "the pivot variable does not occur in the resolvent");
        VASSERT(from_premises, "every literal of the resolvent comes from a premise");
        bool sp = false, sq = false;
        for (int j = 0; j < MG_ML; j++) { if (j < csz[0] && sig(sigma, clit[0][j])) sp = true; if (j < csz[1] && sig(sigma, clit[1][j])) sq = true; }
        VASSERT(!(sp && sq) || sat, "sigma satisfies both premises => sigma satisfies the resolvent");
        VWITNESS("merge-nontautological");
        if (n < csz[0] + csz[1] - 2) { VWITNESS("merge-duplicate-literal-dropped"); }
        if (n == 0) { VWITNESS("merge-empty-resolvent"); }
    } else {
        VWITNESS("merge-tautology");
    }
    out.data = nullptr; out.sz = 0; out.cap = 0;
}

extern "C" void h_merge_size() {
    int v; setup(v);
    SimpSMTSolver * S = reinterpret_cast<SimpSMTSolver *>(simp_mem);
    const Clause & ps = *reinterpret_cast<Clause *>(&cmem[0]);
    const Clause & qs = *reinterpret_cast<Clause *>(&cmem[STRIDE]);
    int size = nondet_i32();
    bool swap = nondet_bool();
    bool r = swap ? S->merge(qs, ps, v, size) : S->merge(ps, qs, v, size);
    VASSERT(r == !tautology(v), "merge(size) returns false exactly when the resolvent is a tautology");
    if (r) { VWITNESS("mergesize-nontautological"); } else { VWITNESS("mergesize-tautology"); }
}

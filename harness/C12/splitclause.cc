// C12: CoreSMTSolver::handleNewSplitClauses (real code, TheoryIF.cc) with one symbolic split clause from an arbitrary valid
// SAT-state: a literal is enqueued only if it is the single non-false literal of the clause, after backtracking exactly to
// the highest level of the false literals, with a reason clause that satisfies the reason invariant in the post-state.
#include "satstate.h"
#include <vector>
using namespace opensmt;
using namespace ss;

#ifndef SP_ML
#define SP_ML 3
#endif
// virtual slots of CoreSMTSolver reached by the kernel: cancelUntil (slot 10 after the two destructors, newVar, ...,
// newDecisionLevel) runs the REAL CoreSMTSolver::cancelUntil and records its argument; every other slot (attachClause)
// records the clause reference.  A changed vtable layout makes the recorded values inconsistent and the check fail.
static int n_cancel, cancel_level, n_attach;
static CRef attached;
extern "C" void sp_cancelUntil(CoreSMTSolver * s, int level) { n_cancel++; cancel_level = level; s->CoreSMTSolver::cancelUntil(level); }
extern "C" void sp_attach(CoreSMTSolver *, CRef cr) { n_attach++; attached = cr; }
#define SP_A (void *)&sp_attach,
static void * sp_vtable[24] = {SP_A SP_A SP_A SP_A SP_A SP_A SP_A SP_A SP_A SP_A (void *)&sp_cancelUntil, SP_A SP_A SP_A SP_A SP_A SP_A SP_A SP_A SP_A SP_A SP_A SP_A SP_A};
// addVar_: the split clause is over variables the solver already knows (new split variables are outside this check)
extern "C" void sp_addVar(CoreSMTSolver *, Var v) { VASSERT(v >= 0 && v < SS_NV, "split clause over known variables"); }

static Lit buf_split[SP_ML];
static CRef buf_clauses[4];
static bool buf_savedpol[SS_NV];
static char buf_decision[SS_NV];
static int c_lit[SP_ML], c_n;
static inline uint8_t val0(int l) { return g_val[lvar(l)] == 2 ? 2 : (uint8_t)(g_val[lvar(l)] ^ (l & 1)); }   // 0 true 1 false 2 undef (entry state)
static inline uint8_t val_now(int l) { uint8_t a = toInt(S->assigns[lvar(l)]); return a >= 2 ? 2 : (uint8_t)(a ^ (l & 1)); }

extern "C" void h_split_clause() {
    build_state(0);
    assume_sigma_models_db();
    materialize();
    *reinterpret_cast<void **>(S) = (void *)sp_vtable;
    prealloc(S->clauses, buf_clauses, 4, 0);
    prealloc(S->savedPolarity, buf_savedpol, SS_NV, SS_NV);
    prealloc(S->decision, buf_decision, SS_NV, SS_NV);
    S->longestTrail = nondet_u8() & 7;
    S->qhead = g_n;
    // the split clause: 1..SP_ML literals over distinct known variables, not falsified (the theory never hands out a
    // falsified split clause: asserted in the function)
    c_n = nondet_u8(); VASSUME(c_n >= 1 && c_n <= SP_ML);
    int n_true = 0, n_undef = 0, maxfalse = 0, implied = -1;
    for (int j = 0; j < SP_ML; j++) {
        int l = nondet_u8(); VASSUME(lit_ok(l)); c_lit[j] = l; buf_split[j] = toLit(l);
        if (j < c_n) {
            for (int i = 0; i < j; i++) VASSUME(lvar(c_lit[i]) != lvar(l));
            uint8_t v = val0(l);
            if (v == 0) n_true++; else if (v == 2) { n_undef++; implied = l; } else if (g_lev[lvar(l)] > maxfalse) maxfalse = g_lev[lvar(l)];
        }
    }
    VASSUME(n_true + n_undef >= 1);
    std::vector<vec<Lit>> splits;
    vec<Lit> cl; prealloc(cl, buf_split, SP_ML, c_n);
    splits._M_impl._M_start = &cl; splits._M_impl._M_finish = &cl + 1; splits._M_impl._M_end_of_storage = &cl + 1;   // one element, no allocation
    n_cancel = 0; n_attach = 0; attached = CRef_Undef; cancel_level = -1;
    const uint32_t ca_sz0 = S->ca.sz;

    TPropRes res = S->handleNewSplitClauses(splits);

    splits._M_impl._M_start = nullptr; splits._M_impl._M_finish = nullptr; splits._M_impl._M_end_of_storage = nullptr;
    cl.data = nullptr; cl.sz = 0; cl.cap = 0;
    int tsz = S->trail.size(), dl = S->trail_lim.size();
    bool propagate_case = n_true == 0 && n_undef == 1;
    if (propagate_case) {
        VASSERT(res == TPropRes::Propagate, "single non-false literal: the function reports a propagation");
        // backtracking: exactly to the highest level of the false literals, only if that is below the current level
        if (maxfalse < g_nl) VASSERT(n_cancel == 1 && cancel_level == maxfalse, "cancelUntil is called once, with the maximum level of the falsified literals");
        else VASSERT(n_cancel == 0, "no backtracking when a falsified literal is of the current level");
        VASSERT(dl == maxfalse, "the decision level after the call is the maximum level of the falsified literals");
        // trail: entry trail cut at that level, plus the implied literal
        int keep = maxfalse < g_nl ? g_lim[maxfalse] : g_n;
        VASSERT(tsz == keep + 1 && tsz >= 1 && tsz <= SS_NV && S->trail[tsz >= 1 && tsz <= SS_NV ? tsz - 1 : 0].x == implied, "exactly the implied literal is enqueued on top of the trail cut at that level");
        bool kept_same = true; for (int i = 0; i < SS_NV; i++) if (i < keep && S->trail[i].x != g_trail[i]) kept_same = false;
        VASSERT(kept_same, "lower levels of the trail are untouched");
        VASSERT(val_now(implied) == 0 && S->vardata[lvar(implied)].level == maxfalse, "the implied literal is true at that level");
        bool others_false = true;
        for (int j = 0; j < SP_ML; j++) if (j < c_n && c_lit[j] != implied) { if (val_now(c_lit[j]) != 1 || g_lev[lvar(c_lit[j])] > maxfalse) others_false = false; }
        VASSERT(others_false, "every other literal of the split clause is still false after backtracking (the enqueued literal is implied)");
        CRef r = S->vardata[lvar(implied)].reason;
        if (maxfalse == 0) {
            VASSERT(r == CRef_Undef && n_attach == 0 && S->clauses.size() == 0, "level 0 without proof: enqueued as a fact, no clause stored");
            VWITNESS("propagated-at-level-0");
        } else {
            VASSERT(r == (CRef)ca_sz0 && n_attach == 1 && attached == r && S->clauses.size() == 1 && S->clauses[0] == r, "the reason is the freshly allocated, attached and registered split clause");
            Clause & c = S->ca[r == (CRef)ca_sz0 ? r : 0];
            bool same_lits = r == (CRef)ca_sz0 && (int)c.size() == c_n && c[0].x == implied;
            for (int j = 0; j < SP_ML; j++) if (j < c_n) { bool f = false; for (int k = 0; k < SP_ML; k++) if (k < c_n && k < (int)c.size() && c[k].x == c_lit[j]) f = true; if (!f) same_lits = false; }
            VASSERT(same_lits, "the stored clause has the implied literal first and exactly the literals of the split clause");
            VWITNESS("propagated-with-reason-clause");
            if (n_cancel == 1) { VWITNESS("backtracked-then-propagated"); }
            if (n_cancel == 1 && c_n >= 2 && g_lev[lvar(c_lit[0])] == maxfalse && val0(c_lit[0]) == 1) { VWITNESS("highest-false-literal-at-position-0"); }
        }
    } else {
        VASSERT(n_cancel == 0 && tsz == g_n && dl == g_nl, "satisfied clause or two open literals: no backtracking, nothing enqueued");
        VASSERT(n_attach == 1 && S->clauses.size() == 1 && S->clauses[0] == (CRef)ca_sz0 && attached == (CRef)ca_sz0, "the split clause is stored and attached");
        Clause & c = S->ca[(CRef)ca_sz0];
        bool same_lits = (int)c.size() == c_n;
        for (int j = 0; j < SP_ML; j++) if (j < c_n) { bool f = false; for (int k = 0; k < SP_ML; k++) if (k < c_n && k < (int)c.size() && c[k].x == c_lit[j]) f = true; if (!f) same_lits = false; }
        VASSERT(same_lits, "the stored clause has exactly the literals of the split clause");
        VASSERT((int)c.size() >= 1 && val_now(c[0].x) != 1, "the first (watched) literal of the stored clause is not false");
        if (n_true == 0) { VASSERT(res == TPropRes::Decide, "no true literal, two open ones: Decide"); VWITNESS("two-open-literals"); }
        else { VWITNESS("satisfied-split-clause"); }
    }
#ifdef SS_WRONG
    VASSERT(n_cancel == 0, "DELIBERATELY WRONG: handleNewSplitClauses never backtracks");
#endif
}

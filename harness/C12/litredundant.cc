// C12: CoreSMTSolver::litRedundant (real code) called directly from an arbitrary mid-analyze state: arbitrary set of
// seen[] marks, arbitrary analyze_toclear prefix, arbitrary abstract_levels.  Its contract inside analyze:
//   false => seen[] and analyze_toclear are exactly as on entry (nothing half-explored stays marked);
//   true  => the new marks are exactly the literals appended to analyze_toclear, each is a clause-implied literal whose
//            reason's other literals are all marked or of level 0 (so it is implied by the marked ones), same for p.
#include "satstate.h"
using namespace opensmt;
using namespace ss;

static bool g_seen0[SS_NV];
static int g_tc0[SS_NV];

extern "C" void h_lit_redundant() {
    build_state(1);
    assume_sigma_models_db();
    materialize();
    // mid-analyze marks: any set of assigned variables of level >= 1; analyze_toclear: any prefix of `top` literals
    for (int v = 0; v < SS_NV; v++) {
        bool m = nondet_bool();
        if (m) VASSUME(g_pos[v] >= 0 && g_lev[v] >= 1);
        g_seen0[v] = m; S->seen[v] = m ? 1 : 0;
    }
    int top = nondet_u8(); VASSUME(top >= 0 && top <= SS_NV);
    for (int i = 0; i < SS_NV; i++) { int l = nondet_u8(); VASSUME(lit_ok(l)); g_tc0[i] = l; S->analyze_toclear[i] = toLit(l); }
    S->analyze_toclear.sz = top;
    // p: a literal of out_learnt[1..]: false under the trail, level >= 1, marked, has a reason (analyze tests that first)
    int p = nondet_u8(); VASSUME(lit_ok(p));
    int pv = lvar(p);
    VASSUME(lit_false_entry(p) && g_lev[pv] >= 1 && g_seen0[pv] && g_kind[pv] != K_UNDEF);
    uint32_t abs_levels = nondet_u32();
    // sigma agrees with the trail on every marked variable except p's
    for (int v = 0; v < SS_NV; v++) if (g_seen0[v] && v != pv) VASSUME(sig(g_trail[g_pos[v]]));

    bool r = S->litRedundant(toLit(p), abs_levels);

    int tsz = S->analyze_toclear.size();
    bool prefix_same = tsz >= top && tsz <= top + SS_NV;
    for (int i = 0; i < SS_NV; i++) if (i < top && i < tsz && S->analyze_toclear[i].x != g_tc0[i]) prefix_same = false;
    VASSERT(prefix_same, "the entry prefix of analyze_toclear is never touched");
    if (!r) {
        bool same = true;
        for (int v = 0; v < SS_NV; v++) if ((S->seen[v] != 0) != g_seen0[v]) same = false;
        VASSERT(same, "litRedundant == false: seen[] is exactly as on entry");
        VASSERT(tsz == top, "litRedundant == false: analyze_toclear is exactly as on entry");
        VWITNESS("not-redundant");
        if (g_kind[pv] == K_FAKE) { VWITNESS("gave-up-at-theory-reason-of-p"); }
        bool explored_fake = false;
        for (int v = 0; v < SS_NV; v++) if (g_pos[v] >= 0 && g_kind[v] == K_FAKE && !g_seen0[v] && v != pv && g_kind[pv] == K_CLAUSE)
            for (int j = 1; j < SS_ML; j++) if (j < g_csz[pv] && lvar(g_clit[pv][j]) == v && g_lev[v] >= 1) explored_fake = true;
        if (explored_fake) { VWITNESS("false-with-unmarked-theory-literal-in-reason-of-p"); }
    } else {
        bool marks_ok = true, closed = true, sigma_ok = true;
        int nnew = 0;
        for (int v = 0; v < SS_NV; v++) {
            bool now = S->seen[v] != 0;
            if (g_seen0[v] && !now) marks_ok = false;                       // marks only grow
            bool appended = false;
            for (int k = 0; k < SS_NV; k++) if (top + k < tsz && lvar(S->analyze_toclear[top + k].x) == v) appended = true;
            if ((now && !g_seen0[v]) != appended) marks_ok = false;         // new marks <=> appended to analyze_toclear
            if ((now && !g_seen0[v]) || v == pv) {
                if (now && !g_seen0[v]) nnew++;
                // closure: v is implied by a clause whose other literals are marked (now) or of level 0
                if (g_pos[v] < 0 || g_kind[v] != K_CLAUSE) closed = false;
                else for (int j = 1; j < SS_ML; j++) if (j < g_csz[v]) { int w = lvar(g_clit[v][j]); if (!(S->seen[w] != 0 || g_lev[w] == 0)) closed = false; }
                if (g_pos[v] >= 0 && !sig(g_trail[g_pos[v]])) sigma_ok = false;
            }
        }
        VASSERT(marks_ok, "litRedundant == true: marks only grow and the new marks are exactly the literals appended to analyze_toclear");
        VASSERT(closed, "litRedundant == true: p and every newly marked literal have a clause reason whose other literals are marked or of level 0");
        VASSERT(sigma_ok, "sigma satisfies the DB and agrees with the trail on the marked literals => it agrees on p and on every newly marked literal");
        VWITNESS("redundant");
        if (nnew >= 1) { VWITNESS("redundant-through-an-unmarked-literal"); }
    }
#ifdef SS_WRONG
    VASSERT(!r, "DELIBERATELY WRONG: litRedundant never returns true");
#endif
}

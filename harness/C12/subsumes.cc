// C12: Clause::subsumes (real, SolverTypes.h) on two symbolic stored clauses, and Clause::strengthen on top of it:
// what backwardSubsumptionCheck deletes (subsumed clause) or shortens (self-subsuming resolution) stays implied.
#include "verif.h"
#include "smtsolvers/SimpSMTSolver.h"
using namespace opensmt;

#ifndef SB_NV
#define SB_NV 4
#endif
#ifndef SB_ML
#define SB_ML 4
#endif
enum { STRIDE = SB_ML + 2 };
static uint32_t cmem[2 * STRIDE];          // clause 0 = c (this), clause 1 = d (other): header, literals, abstraction word
static int csz[2], clit[2][SB_ML];

static bool sig(uint32_t sigma, int l) { return (((sigma >> (l >> 1)) & 1u) != 0) != ((l & 1) != 0); }
static bool in_clause(int k, int l) { bool f = false; for (int j = 0; j < SB_ML; j++) if (j < csz[k] && clit[k][j] == l) f = true; return f; }
static bool sat_clause(uint32_t sigma, int k, int except) { bool s = false; for (int j = 0; j < SB_ML; j++) if (j < csz[k] && clit[k][j] != except && sig(sigma, clit[k][j])) s = true; return s; }

// a stored problem clause of SimpSMTSolver: not learnt, extra word = abstraction computed by the real calcAbstraction,
// pairwise distinct variables (addOriginalClause_ removes duplicates and tautologies; strengthening keeps that)
static Clause & symbolic_clause(int k) {
    csz[k] = nondet_u8(); VASSUME(csz[k] >= 1 && csz[k] <= SB_ML);
    for (int j = 0; j < SB_ML; j++) {
        int l = nondet_u8(); VASSUME(l >= 0 && l < 2 * SB_NV);
        clit[k][j] = l;
        if (j < csz[k]) for (int i = 0; i < j; i++) VASSUME((clit[k][i] >> 1) != (l >> 1));
    }
    Clause & c = *reinterpret_cast<Clause *>(&cmem[k * STRIDE]);
    c.header.mark = 0; c.header.learnt = 0; c.header.has_extra = 1; c.header.reloced = 0; c.header.glue = 0; c.header.size = (unsigned)csz[k];
    for (int j = 0; j < SB_ML; j++) c.data[j].lit = toLit(clit[k][j]);
    c.calcAbstraction();
    return c;
}

extern "C" void h_subsumes() {
    Clause & c = symbolic_clause(0);
    Clause & d = symbolic_clause(1);
    uint32_t sigma = nondet_u32(); VASSUME(sigma < (1u << SB_NV));
    Lit r = c.subsumes(d);
    bool c_in_d = true;
    for (int j = 0; j < SB_ML; j++) if (j < csz[0] && !in_clause(1, clit[0][j])) c_in_d = false;
    if (r == lit_Undef) {
        VASSERT(c_in_d, "subsumes == lit_Undef: every literal of c occurs in d");
        VASSERT(!sat_clause(sigma, 0, -1) || sat_clause(sigma, 1, -1), "subsumed clause d is implied by c (may be deleted)");
        VWITNESS("subsumed");
    } else if (r == lit_Error) {
        VASSERT(!c_in_d, "subsumes == lit_Error only if c is not contained in d");
        VWITNESS("no-subsumption");
        if (csz[0] <= csz[1]) { VWITNESS("no-subsumption-after-scan"); }
    } else {
        int l = r.x;
        VASSERT(l >= 0 && l < 2 * SB_NV && in_clause(0, l), "the returned literal is a literal of c");
        bool rest_in_d = true;
        for (int j = 0; j < SB_ML; j++) if (j < csz[0] && clit[0][j] != l && !in_clause(1, clit[0][j])) rest_in_d = false;
        VASSERT(rest_in_d, "subsumes == l: every other literal of c occurs in d");
        VASSERT(in_clause(1, l ^ 1), "subsumes == l: ~l occurs in d");
        VASSERT(!(sat_clause(sigma, 0, -1) && sat_clause(sigma, 1, -1)) || sat_clause(sigma, 1, l ^ 1), "sigma satisfies c and d => sigma satisfies d without ~l");
        VWITNESS("self-subsuming-resolution");
        // what backwardSubsumptionCheck -> strengthenClause does to d: the real Clause::strengthen(~l)
        d.strengthen(toLit(l ^ 1));
        int n = (int)d.size();
        VASSERT(n == csz[1] - 1, "strengthen removes exactly one literal");
        bool sat = false, from_d = true;
        for (int j = 0; j < SB_ML; j++) if (j < n) { int x = d[j].x; if (!in_clause(1, x) || x == (l ^ 1)) from_d = false; if (x >= 0 && x < 2 * SB_NV && sig(sigma, x)) sat = true; }
        VASSERT(from_d, "the strengthened clause is d without ~l");
        VASSERT(!(sat_clause(sigma, 0, -1) && sat_clause(sigma, 1, -1)) || sat, "sigma satisfies c and old d => sigma satisfies the strengthened d");
        uint32_t abs = 0; for (int j = 0; j < SB_ML; j++) if (j < n) abs |= 1u << ((d[j].x >> 1) & 31);
        VASSERT(d.abstraction() == abs, "abstraction of the strengthened clause is recomputed");
        if (n == 1) { VWITNESS("strengthened-to-unit"); }
    }
#ifdef SS_WRONG
    VASSERT(r == lit_Undef || r == lit_Error, "DELIBERATELY WRONG: subsumes never returns a literal");
#endif
}

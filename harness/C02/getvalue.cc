// C02: numeric constants of difference logic are converted exactly whatever their magnitude.
#include "vfr.h"
#include "tsolvers/stpsolver/IDLSolver.h"
using namespace opensmt;

extern "C" void h_getvalue_safeint() {
    int64_t x = nondet_i64();
#ifdef KF_C02_DOUBLE_ROUNDING
    // known finding: conversion through double; exact only while |x| <= 2^53
    VASSUME(x >= -(1ll << 53) && x <= (1ll << 53));
#endif
    FastRational v; vfr_make_int(&v, (uint64_t)x);
    bool rejected = false; ptrdiff_t r = 0;
    try { r = Converter<SafeInt>::getValue(v).value(); } catch (std::overflow_error const &) { rejected = true; }
    VASSERT(rejected || r == x, "an integer constant is converted to exactly its value (or rejected), never rounded");
    VASSERT(!rejected, "every constant that fits the solver's integer type is accepted");
    if (vfr_state(&v) & 4) { VWITNESS("constant-beyond-word-size"); } else { VWITNESS("constant-word-size"); }
}
extern "C" void h_getvalue_ptrdiff() {
    int64_t x = nondet_i64();
    VASSERT(Converter<SafeInt>::getValue((ptrdiff_t)x).value() == x, "ptrdiff_t constant converted exactly");
    VWITNESS("ptrdiff");
}

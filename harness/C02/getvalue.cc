// C02: numeric constants of difference logic are converted exactly whatever their magnitude.
#include "vfr.h"
#include "tsolvers/stpsolver/IDLSolver.h"
using namespace opensmt;

extern "C" void h_getvalue_safeint() {
    int64_t x = nondet_i64();
#ifdef KF_C02_DOUBLE_ROUNDING
    // known finding: conversion through double; exact only while |x| <= 2^53
    VASSUME(x >= -(1ll << 53) && x <= (1ll << 53));
#endif
    FastRational v; vfr_make_int(&v, (uint64_t)x);
    bool rejected = false; ptrdiff_t r = 0;
    try { r = Converter<SafeInt>::getValue(v).value(); } catch (std::overflow_error const &) { rejected = true; }
    VASSERT(rejected || r == x, "an integer constant is converted to exactly its value (or rejected), never rounded");
    VASSERT(!rejected, "every constant that fits the solver's integer type is accepted");
    if (vfr_state(&v) & 4) { VWITNESS("constant-beyond-word-size"); } else { VWITNESS("constant-word-size"); }
}
extern "C" void h_getvalue_ptrdiff() {
    int64_t x = nondet_i64();
    VASSERT(Converter<SafeInt>::getValue((ptrdiff_t)x).value() == x, "ptrdiff_t constant converted exactly");
    VWITNESS("ptrdiff");
}

// constants beyond the word size: a + b with arbitrary 64-bit a, b reaches every magnitude up to 2^64 (built with the real FastRational
// addition on the GMP model). A value that does not fit ptrdiff_t must be REJECTED, never truncated.
extern "C" void h_getvalue_beyond() {
    int64_t a = nondet_i64(), b = nondet_i64();
    VASSUME(a != INT64_MIN && b != INT64_MIN);      // the GMP model's product range check (|operand| < 2^63) excludes exactly this value
    FastRational va, vb; vfr_make_int(&va, (uint64_t)a); vfr_make_int(&vb, (uint64_t)b);
    FastRational v = va + vb;
    __int128 s = (__int128)a + (__int128)b;
    bool fits = s >= -((__int128)1 << 63) && s < ((__int128)1 << 63);
    bool rejected = false; ptrdiff_t r = 0;
    try { r = Converter<SafeInt>::getValue(v).value(); } catch (std::overflow_error const &) { rejected = true; }
    if (fits) { VASSERT(!rejected && (__int128)r == s, "a constant that fits the solver's integer type is converted to exactly its value"); }
    else { VASSERT(rejected, "a constant beyond the solver's integer type is rejected, never truncated"); }
    if (!fits && s > 0 && s < ((__int128)1 << 64)) { VWITNESS("magnitude-between-2^63-and-2^64-rejected"); }
    if (!fits && s < 0) { VWITNESS("negative-beyond-word-rejected"); }
    if (fits) { VWITNESS("sum-fits"); }
}

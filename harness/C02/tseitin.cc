// C02 (completeness) / C01 (soundness, -DTS_SOUND): the real Tseitin::cnfize{And,Or,Xor,Iff,Implies,Ifthenelse}
// emit, for the definition literal v of a term op(a_0..a_{n-1}), a clause set that is
//   SOUND    : sigma(v) == op(sigma(a_i))  ==>  every emitted clause is true under sigma      (C01 half)
//   COMPLETE : every emitted clause true under sigma  ==>  sigma(v) == op(sigma(a_i))         (C02 half)
// for ALL assignments sigma and ALL literal tables (arguments may repeat, be complementary, or share v's variable).
#include "verif.h"
#include "cnfizers/Tseitin.h"
using namespace opensmt;

#ifndef MAXAR
#define MAXAR 4
#endif
#ifndef NVARS
#define NVARS 5
#endif
#define TERM 100u          // PTRef of the term being cnfized; arguments are PTRef 10..10+MAXAR-1

static uint32_t pt_words[3 + MAXAR];     // raw Pterm: header | id | sym | args[]
static int      lit_of_term;             // literal of TERM
static int      lit_of_arg[MAXAR];       // literal of argument i (arbitrary: repeated / complementary allowed)
static uint32_t sigma;                   // bit v = value of SAT variable v
static int  n_clauses, n_lits; static bool all_true, bad_term, bad_lit;

static bool val(int lx) { return (((sigma >> (lx >> 1)) & 1u) != 0) != ((lx & 1) != 0); }   // Lit{x}: var = x>>1, sign = x&1

extern "C" Pterm & stub_getPterm(Logic *, PTRef t) { if (t.x != TERM) bad_term = true; return *reinterpret_cast<Pterm *>(pt_words); }
extern "C" Lit stub_getLit(Cnfizer *, PTRef t) {
    Lit l; l.x = 0;
    if (t.x == TERM) l.x = lit_of_term;
    else if (t.x >= 10 && t.x < 10 + MAXAR) l.x = lit_of_arg[t.x - 10];
    else bad_term = true;
    return l;
}
extern "C" void stub_addClause(Cnfizer *, vec<Lit> && c) {
    bool t = false;
    for (int i = 0; i < c.size(); i++) { int x = c[i].x; if (x < 0 || x >= 2 * NVARS) bad_lit = true; else if (val(x)) t = true; n_lits++; }
    if (!t) all_true = false;
    n_clauses++;
}

static Tseitin * setup(int lo, int hi, int & n) {
    n = nondet_u8(); VASSUME(n >= lo && n <= hi);
    pt_words[0] = (uint32_t)n << 6;      // header.size (type/has_extra/reloced/noscoping = 0)
    pt_words[1] = 7; pt_words[2] = 3;
    for (int i = 0; i < MAXAR; i++) { pt_words[3 + i] = 10u + i; int l = nondet_u8(); VASSUME(l >= 0 && l < 2 * NVARS); lit_of_arg[i] = l; }
    lit_of_term = nondet_u8(); VASSUME(lit_of_term >= 0 && lit_of_term < 2 * NVARS);
    sigma = nondet_u8(); VASSUME(sigma < (1u << NVARS));
    n_clauses = n_lits = 0; all_true = true; bad_term = bad_lit = false;
    // fake Tseitin object: only the reference member `logic` is read, and it is only passed to the getPterm stub
    static uint64_t obj[(sizeof(Tseitin) + 7) / 8]; static uint64_t fake_logic[1];
    Tseitin * ts = reinterpret_cast<Tseitin *>(obj);
    *reinterpret_cast<void **>(reinterpret_cast<char *>(ts) + __builtin_offsetof(Tseitin, logic)) = fake_logic;
    return ts;
}
static bool A(int i) { return val(lit_of_arg[i]); }
static void verdict(bool expected, int want_clauses) {
    bool v = val(lit_of_term);
    VASSERT(!bad_term && !bad_lit, "only the term, its arguments and their literals are used");
    (void)want_clauses;   // the clause count is not part of the property (an equivalent encoding may differ)
#ifdef TS_SOUND
    if (v == expected) { VASSERT(all_true, "soundness: definition holds => every emitted clause is true"); VWITNESS("definition-holds"); }
#else
    if (all_true) { VASSERT(v == expected, "completeness: all emitted clauses true => v == op(args)"); VWITNESS("all-clauses-true"); }
    else { VWITNESS("some-clause-false"); }
#endif
}
static void shape_witness(int n) {
    if (n >= 2 && lit_of_arg[0] == lit_of_arg[1]) { VWITNESS("repeated-argument"); }
    if (n >= 2 && lit_of_arg[0] == (lit_of_arg[1] ^ 1)) { VWITNESS("complementary-arguments"); }
    if (n >= 1 && (lit_of_arg[0] >> 1) == (lit_of_term >> 1)) { VWITNESS("argument-shares-definition-variable"); }
}

// and/or: the arity is made concrete per branch (a symbolic Pterm size makes vec::capacity(size + 1) a symbolic-size realloc)
template<int N> static void run_n(Tseitin * ts, bool is_and) { pt_words[0] = (uint32_t)N << 6; if (is_and) ts->cnfizeAnd(PTRef{TERM}); else ts->cnfizeOr(PTRef{TERM}); }
static void run_andor(Tseitin * ts, bool is_and, int n) {
    switch (n) { case 0: run_n<0>(ts, is_and); break; case 1: run_n<1>(ts, is_and); break; case 2: run_n<2>(ts, is_and); break; case 3: run_n<3>(ts, is_and); break;
#if MAXAR >= 5
    case 4: run_n<4>(ts, is_and); break; case 5: run_n<5>(ts, is_and); break;
#endif
    default: run_n<MAXAR>(ts, is_and); }
}
extern "C" void h_and() {
    int n; Tseitin * ts = setup(0, MAXAR, n);
    run_andor(ts, true, n);
    bool e = true; for (int i = 0; i < n; i++) e = e && A(i);
    verdict(e, n + 1); shape_witness(n); if (n == MAXAR) { VWITNESS("max-arity"); }
}
extern "C" void h_or() {
    int n; Tseitin * ts = setup(0, MAXAR, n);
    run_andor(ts, false, n);
    bool e = false; for (int i = 0; i < n; i++) e = e || A(i);
    verdict(e, n + 1); shape_witness(n); if (n == MAXAR) { VWITNESS("max-arity"); }
}
extern "C" void h_xor()     { int n; Tseitin * ts = setup(2, 2, n); ts->cnfizeXor(PTRef{TERM});     verdict(A(0) != A(1), 4); shape_witness(n); }
extern "C" void h_iff()     { int n; Tseitin * ts = setup(2, 2, n); ts->cnfizeIff(PTRef{TERM});     verdict(A(0) == A(1), 4); shape_witness(n); }
extern "C" void h_implies() { int n; Tseitin * ts = setup(2, 2, n); ts->cnfizeImplies(PTRef{TERM}); verdict(!A(0) || A(1), 3); shape_witness(n); }
extern "C" void h_ite()     { int n; Tseitin * ts = setup(3, 3, n); ts->cnfizeIfthenelse(PTRef{TERM}); verdict(A(0) ? A(1) : A(2), 4); shape_witness(n); }

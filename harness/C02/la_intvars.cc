// C02: the integer-variable bookkeeping of the LA solver.  LASolver::checkIntegersAndSplit() -- the check that lets the search finish with
// "sat" in LIA -- looks only at the variables listed in `int_vars`; markVarAsInt(v) adds v to that list unless `int_vars_map` already marks
// it, and clearSolver() (run at the start of every check-sat) must reset BOTH.  If the two get out of step (map still marks v, list does not
// hold it) the integrality check never looks at v and a fractional vertex is accepted as a model.
// Real code: LASolver::markVarAsInt, LASolver::clearSolver (the lines on int_vars / int_vars_map and the minisat vec clears; the resets of
// simplex / var store / bound store / TSolver base are cut), LASolver::isIntVar, LASolver::checkIntegersAndSplit up to the choice of the
// split variable, LASolver::setStatus, the real minisat Map<LVRef,bool,LVRefHash> (insert/has/rehash/clear) and vec<LVRef>.
#include "verif.h"
#include "tsolvers/lasolver/LASolver.h"
#include <cstdlib>
#include <new>
using namespace opensmt;

#ifndef NOPS
#define NOPS 3
#endif
#define NV 3

typedef Map<LVRef, bool, LVRefHash> IVMap;

// All storage the kernels allocate comes from typed static pools (bump allocation, never reused on a path): CBMC keeps typed static objects
// field-sensitive, malloc'ed buffers are byte arrays (the first version of this harness with malloc ran out of memory).
//  - the bucket array of the Map (operator new[] in Map::rehash: 8-byte element count + 31 vec<Pair>), operator delete[] / free are no-ops
//  - vec<Pair>::capacity / vec<LVRef>::capacity: fixed blocks of 4 / 8 slots that are never reallocated
struct TblObj { uint64_t count; vec<IVMap::Pair> b[31]; };
union TblBox { TblObj t; TblBox() {} ~TblBox() {} };        // never constructed: typed storage without a dynamic initialiser
#define NSTEP 6
static unsigned cur_step;                                   // set (to a constant) by the harness before every operation: one allocation slot per step
// separate small objects, not one array of them: a store through a pointer whose IR type differs from the declared type costs CBMC an
// update of the whole root object
static TblBox tbl0, tbl1, tbl2, tbl3, tbl4, tbl5; static bool tbl_used[NSTEP];
static IVMap::Pair bkt0[4], bkt1[4], bkt2[4], bkt3[4], bkt4[4], bkt5[4]; static bool bkt_used[NSTEP];
static TblObj * tbl_slot(unsigned i) { switch (i) { case 0: return &tbl0.t; case 1: return &tbl1.t; case 2: return &tbl2.t; case 3: return &tbl3.t; case 4: return &tbl4.t; default: return &tbl5.t; } }
static IVMap::Pair * bkt_slot(unsigned i) { switch (i) { case 0: return bkt0; case 1: return bkt1; case 2: return bkt2; case 3: return bkt3; case 4: return bkt4; default: return bkt5; } }
static LVRef lv_int[8], lv_fix[8];
union RawLA { LASolver s; RawLA() {} ~RawLA() {} };     // raw typed storage: only the members the kernels touch are constructed
static RawLA raw;
extern "C" void * stub_new_arr(size_t n) {
    VASSERT(n == sizeof(TblObj), "bound: the only array allocation is the 31-bucket table of int_vars_map");
    VASSERT(cur_step < NSTEP && !tbl_used[cur_step], "bound: one bucket table per operation");
    VASSUME(n == sizeof(TblObj) && cur_step < NSTEP && !tbl_used[cur_step]);
    tbl_used[cur_step] = true;
    return tbl_slot(cur_step);
}
extern "C" void stub_cap_pair(vec<IVMap::Pair> * v, int min_cap) {
    if (v->cap >= min_cap) return;
    VASSERT(min_cap <= 4, "bound: at most 4 entries per bucket of int_vars_map");
    VASSUME(min_cap <= 4);
    if (v->data == nullptr) {
        VASSERT(cur_step < NSTEP && !bkt_used[cur_step], "bound: one new bucket per operation");
        VASSUME(cur_step < NSTEP && !bkt_used[cur_step]);
        bkt_used[cur_step] = true;
        v->data = bkt_slot(cur_step);
    }
    v->cap = 4;
}
extern "C" void stub_cap_lv(vec<LVRef> * v, int min_cap) {
    if (v->cap >= min_cap) return;
    VASSERT(min_cap <= 8, "bound: at most 8 entries in a vec<LVRef>");
    VASSUME(min_cap <= 8);
    if (v->data == nullptr) v->data = (v == &raw.s.int_vars) ? lv_int : lv_fix;     // int_vars / the local candidate vector of checkIntegersAndSplit
    v->cap = 8;
}

// the three variables: LVRef ids restart from 0 in every check-sat; 1 and 32 share a bucket of the Map (index = id % 31).  Concrete ids and
// calls with constant arguments keep the bucket index concrete (a symbolic index into the malloc'ed bucket array does not scale)
static const uint32_t id[NV] = {0, 1, 32};
static bool frac[NV];                   // the simplex value of variable k is fractional
static bool asked[NV];                  // isModelInteger was consulted for variable k
static unsigned tofix[NV];              // occurrences of variable k among the split candidates
static bool split_reached, foreign_var;
static int idx(LVRef v) { for (int k = 0; k < NV; k++) if (v.x == id[k]) return k; foreign_var = true; return 0; }

extern "C" bool stub_isModelInteger(LASolver const *, LVRef v) { int k = idx(v); asked[k] = true; return !frac[k]; }
extern "C" bool stub_shouldTryCut(LASolver const *) { return false; }
// the choice of the split variable: the candidates are recorded and the rest of checkIntegersAndSplit (building the split clause through
// Simplex / FastRational / ArithLogic) is left by an exception
extern "C" LVRef stub_splitOnRandom(LASolver *, vec<LVRef> const * cand) {
    split_reached = true;
    for (int i = 0; i < 8; i++) if (i < cand->size()) tofix[idx((*cand)[i])]++;
    throw 1;
}

static unsigned count_in(LASolver & s, uint32_t x) {
    unsigned c = 0;
    for (int i = 0; i < 8; i++) if (i < s.int_vars.size() && s.int_vars[i].x == x) c++;
    return c;
}
// the state invariant: int_vars lists exactly the variables int_vars_map marks, each once; `in` is the reference set
static void check_inv(LASolver & s, bool const * in) {
    unsigned total = 0;
    for (int k = 0; k < NV; k++) {
        bool m = s.isIntVar(LVRef{id[k]});
        unsigned c = count_in(s, id[k]);
        VASSERT(m == in[k], "int_vars_map marks exactly the variables marked since the last clearSolver");
        VASSERT(c == (in[k] ? 1u : 0u), "int_vars lists every marked variable exactly once and no other variable");
        total += c;
    }
    VASSERT(s.int_vars.size() >= 0 && (unsigned)s.int_vars.size() == total, "int_vars holds nothing but the marked variables");
    VASSERT(s.int_vars_map.getSize() == s.int_vars.size(), "int_vars_map and int_vars have the same number of entries");
}

static void init_solver(LASolver & s) {
    new (&s.int_vars_map) IVMap();
    new (&s.int_vars) vec<LVRef>();
    new (&s.decision_trace) vec<PtAsgn>();
    new (&s.dec_limit) vec<int>();
    new (&s.int_decisions) vec<LASolver::DecEl>();
    new (&s.LABoundRefToLeqAsgn) vec<PtAsgn>();
    new (&s.LeqToLABoundRefPair) vec<LABoundRefPair>();
    s.status = LASolver::UNKNOWN;
}
static void after_mark(LASolver & s, uint32_t x) {
    VASSERT(count_in(s, x) >= 1, "after markVarAsInt(v) the variable is in int_vars (the integrality check will look at it)");
    VASSERT(s.isIntVar(LVRef{x}), "after markVarAsInt(v) isIntVar(v) holds");
}
static void mark(LASolver & s, unsigned k) {        // constant arguments on every branch
    switch (k) {
        case 0: s.markVarAsInt(LVRef{id[0]}); after_mark(s, id[0]); break;
        case 1: s.markVarAsInt(LVRef{id[1]}); after_mark(s, id[1]); break;
        default: s.markVarAsInt(LVRef{id[2]}); after_mark(s, id[2]); break;
    }
}
// the complete-check obligation: with the reference set `in` of integer variables and fractional values frac[], checkIntegersAndSplit
// may finish with SAT only if no integer variable has a fractional value; otherwise exactly those variables are the split candidates
static bool last_split;
static void check_phase(LASolver & s, bool const * in) {
    for (int k = 0; k < NV; k++) frac[k] = nondet_bool();
    bool any = false;
    for (int k = 0; k < NV; k++) any = any || (in[k] && frac[k]);
    bool returned = false; TRes r = TRes::UNDEF;
    try { r = s.checkIntegersAndSplit(); returned = true; } catch (int) {}
    VASSERT(!foreign_var, "only the three variables are ever looked at");
    for (int k = 0; k < NV; k++) VASSERT(asked[k] == in[k], "the integrality check looks at the value of exactly the integer variables");
    if (any) {
        VASSERT(!(returned && s.status == LASolver::SAT), "no final SAT from the integrality check while an integer variable has a fractional value");
        VASSERT(split_reached && !returned, "a split is requested when an integer variable has a fractional value");
        for (int k = 0; k < NV; k++) VASSERT(tofix[k] == ((in[k] && frac[k]) ? 1u : 0u), "the split candidates are exactly the integer variables with a fractional value");
        last_split = true;
    } else {
        VASSERT(returned && r == TRes::SAT && s.status == LASolver::SAT && !split_reached, "all integer variables integral: the check finishes with SAT");
        last_split = false;
    }
}

static void reset_recorders() { split_reached = false; foreign_var = false; for (int k = 0; k < NV; k++) { asked[k] = false; tofix[k] = 0; } }
template <bool CHECK> static void state_checks(LASolver & s, bool const * in, bool last) {
    check_inv(s, in);
    if (CHECK && last) { reset_recorders(); s.status = LASolver::UNKNOWN; check_phase(s, in); }
}
// One code path per sequence of operation KINDS (bit i of SHAPE: operation i is clearSolver, otherwise markVarAsInt of a symbolic variable);
// the invariant (and with CHECK the integrality check) is examined in the pre-state and after every operation, which covers the shorter
// histories.  Pre-state: the concrete set PRE of variables marked (a symbolic subset makes capacity and bucket-array pointer of the Map symbolic, and
// with them every bucket index: that did not finish in 200 s per sequence).
template <bool CHECK, unsigned SHAPE, unsigned PRE> static void run_shape() {
    LASolver & s = raw.s;
    init_solver(s);
    bool in[NV], cwm[NV] = {false, false, false};
    for (unsigned k = 0; k < NV; k++) {
        cur_step = k;
        in[k] = (PRE >> k & 1) != 0;
        if (in[k]) { s.int_vars_map.insert(LVRef{id[k]}, true); s.int_vars.push(LVRef{id[k]}); }
    }
    state_checks<CHECK>(s, in, false);
    bool remarked = false, known = false, cleared = false;
    for (unsigned step = 0; step < NOPS; step++) {
        cur_step = NV + step;
        if (SHAPE >> step & 1) {
            s.LASolver::clearSolver();
            VASSERT(s.int_vars.size() == 0, "after clearSolver int_vars is empty");
            VASSERT(s.int_vars_map.getSize() == 0, "after clearSolver int_vars_map is empty");
            for (int k = 0; k < NV; k++) {
                VASSERT(!s.isIntVar(LVRef{id[k]}), "after clearSolver no variable is marked as integer");
                if (in[k]) { cwm[k] = true; cleared = true; }
                in[k] = false;
            }
        } else {
            unsigned k = nondet_u8(); VASSUME(k < NV);
            for (unsigned c = 0; c < NV; c++) if (c == k) {
                if (in[c]) known = true; else if (cwm[c]) remarked = true;
                in[c] = true;
            }
            mark(s, k);
        }
        state_checks<CHECK>(s, in, step + 1 == NOPS);
    }
    VWITNESS("history-done");
    if (CHECK) { if (!(SHAPE & 4)) { if (last_split) { VWITNESS("split-requested"); } } if (!last_split) { VWITNESS("all-integral"); } }
    if (SHAPE == 2 || (PRE != 0 && (SHAPE == 1 || SHAPE == 3 || SHAPE == 5))) { if (remarked) { VWITNESS("re-marking-after-a-clear"); } }
    if (SHAPE == 0 || SHAPE == 1 || SHAPE == 4 || (PRE != 0 && (SHAPE == 2 || SHAPE == 6))) { if (known) { VWITNESS("marking-an-already-marked-variable"); } }
    if (SHAPE != 0 && (PRE != 0 || SHAPE == 2 || SHAPE == 4 || SHAPE == 5 || SHAPE == 6)) { if (cleared) { VWITNESS("clearSolver-on-marked-variables"); } }
}
// pre-state: nothing marked (after construction / clearSolver) or all three variables marked (built with the real Map::insert / vec::push)
template <unsigned SHAPE> static void both_pre() { if (nondet_bool()) { run_shape<true, SHAPE, 0>(); return; } run_shape<true, SHAPE, 7>(); }
// one entry per sequence of operation kinds (C = clearSolver, M = markVarAsInt of a symbolic variable), first operation leftmost
extern "C" void h_intvars_MMM() { both_pre<0>(); }
extern "C" void h_intvars_CMM() { both_pre<1>(); }
extern "C" void h_intvars_MCM() { both_pre<2>(); }
extern "C" void h_intvars_CCM() { both_pre<3>(); }
extern "C" void h_intvars_MMC() { both_pre<4>(); }
extern "C" void h_intvars_CMC() { both_pre<5>(); }
extern "C" void h_intvars_MCC() { both_pre<6>(); }
extern "C" void h_intvars_CCC() { both_pre<7>(); }

// the scenario of two check-sats on one solver: mark(v), clearSolver(), mark(v) -- v (fractional) must reach the split candidates
extern "C" void h_intvars_remark() {
    LASolver & s = raw.s;
    init_solver(s); 
    bool in[NV] = {false, false, false};
    unsigned k = nondet_u8(); VASSUME(k < NV);
    unsigned j = nondet_u8(); VASSUME(j < NV);
    cur_step = 0; mark(s, k);
    cur_step = 1; mark(s, j);
    cur_step = 2; s.LASolver::clearSolver();
    cur_step = 3; mark(s, k);
    for (unsigned c = 0; c < NV; c++) in[c] = (c == k);
    VASSERT(count_in(s, id[k]) == 1, "after mark(v), clearSolver(), mark(v) the variable is in int_vars exactly once");
    check_inv(s, in);
    check_phase(s, in);
    VWITNESS("re-marking-after-a-clear");
    if (last_split) { VWITNESS("split-requested"); } else { VWITNESS("all-integral"); }
    if (j != k) { VWITNESS("other-variable-forgotten-by-the-clear"); }
}

// C15: unary / comparison / integer operations of FastRational, scaled width, every valid representation.
#include "vfr.h"
using namespace opensmt;
using FR = FastRational;
#define WF(x, msg) VASSERT(vfr_wellformed(&(x)), msg)

extern "C" void h_unary_minus() {
    FR a; vfr_make(&a, ALLKINDS); vfr_snapshot(0, &a);
    FR r = -a;
    VASSERT(vfr_is_neg_of(&r, 0), "-a is the exact negation");
    WF(r, "-a well-formed, canonical, word iff it fits"); VASSERT(vfr_same_as(0, &a) && vfr_wellformed(&a), "operand unchanged");
    if (!(vfr_state(&a) & 1) && (vfr_state(&r) & 1)) { VWITNESS("negation-fits-word-again"); }
    VWITNESS("unary-minus");
}
extern "C" void h_negate_inplace() {
    FR a; vfr_make(&a, ALLKINDS); vfr_snapshot(0, &a);
    a.negate();
    VASSERT(vfr_is_neg_of(&a, 0), "negate() yields the exact negation");
    WF(a, "negate() result well-formed, canonical, word iff it fits");
    if (!(vfr_state(&a) & 1)) { VWITNESS("negate-leaves-word-range"); }
    VWITNESS("negate");
}
extern "C" void h_inverse() {
    FR a; vfr_make(&a, ALLKINDS); vfr_snapshot(0, &a);
    VASSUME(!vfr_slot_is_zero(0));
    FR r = a.inverse();
    VASSERT(vfr_is_inverse_of(&r, 0), "inverse() is exactly 1/a with positive denominator");
    WF(r, "inverse well-formed, canonical, word iff it fits"); VASSERT(vfr_same_as(0, &a) && vfr_wellformed(&a), "operand unchanged");
    if (!(vfr_state(&r) & 1)) { VWITNESS("inverse-leaves-word-range"); }
    VWITNESS("inverse");
}
extern "C" void h_compare() {
    FR a, b; vfr_make(&a, ALLKINDS); vfr_make(&b, ALLKINDS); vfr_snapshot(0, &a); vfr_snapshot(1, &b);
    int c = a.compare(b);
    VASSERT((c == 0) == (bool)vfr_slots_equal(0, 1), "compare() == 0 exactly for equal values");
    VASSERT((a == b) == (bool)vfr_slots_equal(0, 1), "operator== is value equality in every representation");
    VASSERT((a != b) != (a == b), "operator!= is the negation of ==");
    VASSERT(vfr_wellformed(&a) && vfr_wellformed(&b) && vfr_same_as(0, &a) && vfr_same_as(1, &b), "comparison leaves operands unchanged");
    if ((vfr_state(&a) & 1) != (vfr_state(&b) & 1)) { VWITNESS("mixed-representation-compare"); }
    VWITNESS("compare");
}
extern "C" void h_compare_order() {
    // word-part-valid operands: the order is computed by the real cross-multiplication; for GMP-only operands the
    // order is GMP's mpq_cmp (representation mixing is covered by h_compare)
    FR a, b; vfr_make(&a, (uint8_t)5); vfr_make(&b, (uint8_t)5); vfr_snapshot(0, &a); vfr_snapshot(1, &b);
    int c = a.compare(b);
    uint8_t sgn = vfr_cmp(0, 1);
    VASSERT(sgn == 2 ? c < 0 : (sgn == 1 ? c > 0 : c == 0), "compare() has the sign of a-b");
    VWITNESS("compare-order");
}
extern "C" void h_relational() {
    FR a, b; vfr_make(&a, (uint8_t)1); vfr_make(&b, (uint8_t)1);
    int c = a.compare(b);
    VASSERT((a < b) == (c < 0) && (a <= b) == (c <= 0) && (a > b) == (c > 0) && (a >= b) == (c >= 0), "relational operators agree with compare()");
    VWITNESS("relational");
}
extern "C" void h_sign_isinteger() {
    FR a; vfr_make(&a, ALLKINDS); vfr_snapshot(0, &a);
    int s = a.sign(); uint8_t ref = vfr_slot_sign(0);
    VASSERT(ref == 2 ? s < 0 : (ref == 1 ? s > 0 : s == 0), "sign() is the sign of the value");
    VASSERT(a.isInteger() == (bool)vfr_slot_is_integer(0), "isInteger() iff denominator 1");
    VASSERT(a.isZero() == (bool)vfr_slot_is_zero(0), "isZero() iff value 0");
    FR n = a.get_num(), d = a.get_den();
    VASSERT(vfr_is_num_of(&n, 0) && vfr_wellformed(&n), "get_num() is the canonical numerator");
    VASSERT(vfr_is_den_of(&d, 0) && vfr_wellformed(&d), "get_den() is the canonical denominator");
    if (!(vfr_state(&d) & 1)) { VWITNESS("denominator-beyond-word"); }
    VWITNESS("sign");
}
extern "C" void h_ceil_floor() {
    FR a; vfr_make(&a, ALLKINDS); vfr_snapshot(0, &a);
    FR c = a.ceil(), f = a.floor();
    VASSERT(vfr_is_ceil(&c, 0), "ceil() is the least integer >= a");
    VASSERT(vfr_is_floor(&f, 0), "floor() is the greatest integer <= a");
    WF(c, "ceil well-formed"); WF(f, "floor well-formed");
    if (!(vfr_state(&a) & 1)) { VWITNESS("rounding-in-gmp-form"); }
    VWITNESS("ceil-floor");
}
extern "C" void h_fdiv_q() {
    FR n, d; vfr_make_integer(&n, ALLKINDS); vfr_make_integer(&d, ALLKINDS); vfr_snapshot(0, &n); vfr_snapshot(1, &d);
    VASSUME(!vfr_slot_is_zero(1));
    FR q = fastrat_fdiv_q(n, d);
    VASSERT(vfr_is_fdiv(&q, 0, 1), "fastrat_fdiv_q(n,d) = floor(n/d)");
    WF(q, "quotient well-formed, word iff it fits");
    if (!(vfr_state(&q) & 1)) { VWITNESS("quotient-beyond-word"); }
    VWITNESS("fdiv");
}
extern "C" void h_divexact() {
    FR n, d; vfr_make_integer(&n, ALLKINDS); vfr_make_integer(&d, ALLKINDS); vfr_snapshot(0, &n); vfr_snapshot(1, &d);
    VASSUME(!vfr_slot_is_zero(1) && vfr_slot_divides(1, 0));
    FR q = divexact(n, d);
    VASSERT(vfr_is_exact_quotient(&q, 0, 1), "divexact(n,d) * d == n");
    WF(q, "quotient well-formed, word iff it fits");
    VWITNESS("divexact");
}
extern "C" void h_gcd_lcm() {
    FR a, b; vfr_make_integer(&a, ALLKINDS); vfr_make_integer(&b, ALLKINDS); vfr_snapshot(0, &a); vfr_snapshot(1, &b);
#ifdef KF_C15_GCD_SIGN
    VASSUME(vfr_slot_sign(0) != 2 && vfr_slot_sign(1) != 2);
#endif
    FR g = gcd(a, b);
    VASSERT(vfr_is_gcd(&g, 0, 1), "gcd(a,b) is the non-negative greatest common divisor");
    WF(g, "gcd well-formed");
    VWITNESS("gcd");
}
extern "C" void h_lcm() {
    FR a, b; vfr_make_integer(&a, ALLKINDS); vfr_make_integer(&b, ALLKINDS); vfr_snapshot(0, &a); vfr_snapshot(1, &b);
#ifdef KF_C15_GCD_SIGN
    VASSUME(vfr_slot_sign(0) != 2 && vfr_slot_sign(1) != 2);
#endif
    FR l = lcm(a, b);
    VASSERT(vfr_is_lcm(&l, 0, 1), "lcm(a,b) is the non-negative least common multiple");
    WF(l, "lcm well-formed");
    VWITNESS("lcm");
}
extern "C" void h_ctor_word_uword() {
    int32_t n = nondet_i32(); uint32_t d = nondet_u32();
    VASSUME(d != 0);
    FR r(n, d);
    VASSERT(vfr_is_canonical_of_raw(&r, (uint32_t)n, d), "FastRational(n,d) denotes n/d");
    WF(r, "FastRational(n,d) is canonical");
    VWITNESS("ctor");
}
extern "C" void h_ctor_uint32() {
    uint32_t v = nondet_u32();
    FR r(v);
    VASSERT(vfr_is_uint(&r, v), "FastRational(uint32_t v) denotes v");
    WF(r, "FastRational(uint32_t) well-formed, word iff it fits");
    if (!(vfr_state(&r) & 1)) { VWITNESS("uint-beyond-word"); }
    VWITNESS("ctor-uint");
}
// ---- representation management: copies, moves, reset (a stale part must never become "valid")
extern "C" void h_copy_assign() {
    FR a, b; vfr_make(&a, ALLKINDS); vfr_make(&b, ALLKINDS); vfr_snapshot(1, &b);
    a = b;
    VASSERT(vfr_same_as(1, &a), "a = b: a has b's value");
    WF(a, "a = b: target well-formed (no stale part marked valid), word iff it fits");
    VASSERT(vfr_same_as(1, &b) && vfr_wellformed(&b), "a = b: source unchanged");
    if ((vfr_state(&b) & 1) && !(vfr_state(&a) & 4)) { VWITNESS("word-value-assigned"); }
    VWITNESS("copy-assign");
}
extern "C" void h_move_and_copy_ctor() {
    FR b; vfr_make(&b, ALLKINDS); vfr_snapshot(1, &b);
    FR c(b);
    VASSERT(vfr_same_as(1, &c) && vfr_wellformed(&c), "copy constructor: same value, well-formed");
    VASSERT(vfr_same_as(1, &b) && vfr_wellformed(&b), "copy constructor: source unchanged");
    FR m(std::move(b));
    VASSERT(vfr_same_as(1, &m) && vfr_wellformed(&m), "move constructor: same value, well-formed");
    FR t; vfr_make(&t, ALLKINDS);
    t = std::move(m);
    VASSERT(vfr_same_as(1, &t) && vfr_wellformed(&t), "move assignment: same value, well-formed");
    VWITNESS("move-copy");
}
extern "C" void h_reset() {
    FR a; vfr_make(&a, ALLKINDS);
    a.reset();
    VASSERT(vfr_is_frac(&a, 0, 1) && vfr_wellformed(&a), "reset() yields a well-formed zero");
    VWITNESS("reset");
}

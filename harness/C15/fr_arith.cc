// C15: FastRational arithmetic is exact in both representations (scaled width, real code incl. Euclid loops)
#include "vfr.h"
using namespace opensmt;
using FR = FastRational;

#define BINOP(NAME, OPNUM, EXPR, PRE, KA, KB)                                                    \
    extern "C" void NAME() {                                                             \
        FR a, b;                                                                         \
        vfr_make(&a, KA); vfr_make(&b, KB);                                  \
        vfr_snapshot(0, &a); vfr_snapshot(1, &b);                                        \
        PRE;                                                                             \
        FR r = EXPR;                                                                     \
        VASSERT(vfr_is_result(&r, OPNUM, 0, 1), #NAME ": result is the exact rational"); \
        VASSERT(vfr_wellformed(&r), #NAME ": result well-formed, canonical, word iff it fits"); \
        VASSERT(vfr_same_as(0, &a) && vfr_same_as(1, &b), #NAME ": operands keep their value"); \
        VASSERT(vfr_wellformed(&a) && vfr_wellformed(&b), #NAME ": operands stay well-formed"); \
        if (vfr_state(&r) & 1) { VWITNESS(#NAME "-result-has-word-part"); }              \
        else { VWITNESS(#NAME "-result-only-in-gmp-form"); }                                 \
    }

#define ASSIGNOP(NAME, OPNUM, STMT, PRE, KA, KB)                                                 \
    extern "C" void NAME() {                                                             \
        FR a, b;                                                                         \
        vfr_make(&a, KA); vfr_make(&b, KB);                                  \
        vfr_snapshot(0, &a); vfr_snapshot(1, &b);                                        \
        PRE;                                                                             \
        STMT;                                                                            \
        VASSERT(vfr_is_result(&a, OPNUM, 0, 1), #NAME ": result is the exact rational"); \
        VASSERT(vfr_wellformed(&a), #NAME ": result well-formed, canonical, word iff it fits"); \
        VASSERT(vfr_same_as(1, &b) && vfr_wellformed(&b), #NAME ": right operand unchanged"); \
        if (vfr_state(&a) & 1) { VWITNESS(#NAME "-result-has-word-part"); }              \
        else { VWITNESS(#NAME "-result-only-in-gmp-form"); }                                 \
    }

#define KW ((uint8_t)5)   // word part valid: WORD_VALID, WORD_PLUS_MPQ_INITIALIZED, WORD_AND_MPQ
#define KM ((uint8_t)2)   // only the GMP part valid (value does not fit a word)
BINOP(h_add_ww, 0, a + b, (void)0, KW, KW)
BINOP(h_add_wm, 0, a + b, (void)0, KW, KM)
BINOP(h_add_mw, 0, a + b, (void)0, KM, KW)
BINOP(h_add_mm, 0, a + b, (void)0, KM, KM)
BINOP(h_sub_ww, 1, a - b, (void)0, KW, KW)
BINOP(h_sub_wm, 1, a - b, (void)0, KW, KM)
BINOP(h_sub_mw, 1, a - b, (void)0, KM, KW)
BINOP(h_sub_mm, 1, a - b, (void)0, KM, KM)
BINOP(h_mul_ww, 2, a * b, (void)0, KW, KW)
BINOP(h_mul_wm, 2, a * b, (void)0, KW, KM)
BINOP(h_mul_mw, 2, a * b, (void)0, KM, KW)
BINOP(h_mul_mm, 2, a * b, (void)0, KM, KM)
BINOP(h_div_ww, 3, a / b, VASSUME(!vfr_slot_is_zero(1)), KW, KW)
BINOP(h_div_wm, 3, a / b, VASSUME(!vfr_slot_is_zero(1)), KW, KM)
BINOP(h_div_mw, 3, a / b, VASSUME(!vfr_slot_is_zero(1)), KM, KW)
BINOP(h_div_mm, 3, a / b, VASSUME(!vfr_slot_is_zero(1)), KM, KM)
ASSIGNOP(h_add_assign_ww, 0, a += b, (void)0, KW, KW)
ASSIGNOP(h_add_assign_wm, 0, a += b, (void)0, KW, KM)
ASSIGNOP(h_add_assign_mw, 0, a += b, (void)0, KM, KW)
ASSIGNOP(h_add_assign_mm, 0, a += b, (void)0, KM, KM)
ASSIGNOP(h_sub_assign_ww, 1, a -= b, (void)0, KW, KW)
ASSIGNOP(h_sub_assign_wm, 1, a -= b, (void)0, KW, KM)
ASSIGNOP(h_sub_assign_mw, 1, a -= b, (void)0, KM, KW)
ASSIGNOP(h_sub_assign_mm, 1, a -= b, (void)0, KM, KM)
ASSIGNOP(h_mul_assign_ww, 2, a *= b, (void)0, KW, KW)
ASSIGNOP(h_mul_assign_wm, 2, a *= b, (void)0, KW, KM)
ASSIGNOP(h_mul_assign_mw, 2, a *= b, (void)0, KM, KW)
ASSIGNOP(h_mul_assign_mm, 2, a *= b, (void)0, KM, KM)
ASSIGNOP(h_div_assign_ww, 3, a /= b, VASSUME(!vfr_slot_is_zero(1)), KW, KW)
ASSIGNOP(h_div_assign_wm, 3, a /= b, VASSUME(!vfr_slot_is_zero(1)), KW, KM)
ASSIGNOP(h_div_assign_mw, 3, a /= b, VASSUME(!vfr_slot_is_zero(1)), KM, KW)
ASSIGNOP(h_div_assign_mm, 3, a /= b, VASSUME(!vfr_slot_is_zero(1)), KM, KM)

// multi-step: stale GMP part after assigning a word value (run with opaque GMP arithmetic)
extern "C" void h_copy_assign_then_use() {
    // the target once held a GMP value, gets a word value, and is then used in an operation that leaves the word path
    FR a, b, c; vfr_make(&a, (uint8_t)2); vfr_make(&b, (uint8_t)1); vfr_make(&c, (uint8_t)2);
    vfr_snapshot(1, &b); vfr_snapshot(2, &c);
    a = b;
    vfr_snapshot(0, &a);
    VASSERT(vfr_same_as(1, &a), "assignment took b's value");
    FR r = a * c;
    VASSERT(vfr_is_result(&r, 2, 0, 2), "the product uses the assigned value, not the target's former GMP value");
    VWITNESS("assign-then-use");
}

; EXISTING DEFECT (unmodified code, HEAD 8f83689): C06 violated.
; Current assertions at the 2nd check-sat: a: p, c: (not p); no unnamed assertions.
; The formula (not p) was also asserted (as b) in a frame that has been popped.
; Expected 2nd core: (a c). Actual: (a)  -- {p} alone is satisfiable.
; Cause (presumed): FlaPartitionMap::top_level_flas maps PTRef -> ONE partition index; re-asserting the same
; term overwrites the index, while clauses created earlier keep the old partition bit, which then maps to no assertion.
; Run: /tmp/seed_C07/_build/opensmt existing_defect_1.smt2
(set-option :produce-unsat-cores true)
(set-logic QF_UF)
(declare-fun p () Bool)
(declare-fun q () Bool)
(assert (! p :named a))
(push 1)
(assert (! (not p) :named b))
(check-sat)
(get-unsat-core)
(pop 1)
(assert (! (not p) :named c))
(check-sat)
(get-unsat-core)

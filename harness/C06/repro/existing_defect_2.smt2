; EXISTING DEFECT (unmodified code, HEAD 8f83689): C06 violated.
; a: p is asserted+checked at level 0; the same p is asserted unnamed in level 1 and popped.
; Then c: (not p). Current assertions: a: p, c: (not p); no unnamed ones.
; Expected core: (a c). Actual: (c) -- {(not p)} alone is satisfiable.
; Same cause as existing_defect_1 (partition index of a term overwritten by a later duplicate assert).
; Run: /tmp/seed_C07/_build/opensmt existing_defect_2.smt2
(set-option :produce-unsat-cores true)
(set-logic QF_UF)
(declare-fun p () Bool)
(declare-fun q () Bool)
(assert (! p :named a))
(check-sat)
(push 1)
(assert p)
(check-sat)
(pop 1)
(assert (! (not p) :named c))
(check-sat)
(get-unsat-core)

// C06 (unsat cores rest on the clause -> assertion masks): the REAL MainSolver::giveToSolver(root, push_id), including its local
// ClauseCallBack struct (reached through the real Cnfizer::setClauseCallBack and a virtual call from the CNF-izer stub), the real
// MainSolver::trackPartitions and the real opensmt::setbit on the GMP model.  The CNF-izer hands 1..2 symbolic clauses of 1..2
// literals to the installed call-back; the SAT solver (addOriginalSMTClause) and the partition manager (addClauseClassMask) are
// recording stubs.  Decided: in partition-tracking mode every clause whose input reference is defined gets the mask 2^index
// (EXACTLY the bit of the assertion's partition index, for every index 0..100, in particular >= 64); no mask otherwise; with
// push_id != 0 the frame literal is appended to every clause; s_False iff an addition reported inconsistency, nothing added after it.
#include "verif.h"
#include "api/MainSolver.h"
#include <new>
#include <cstdlib>
using namespace opensmt;

#define MAXC 2           // clauses produced by the CNF-izer stub
#define MAXL 2           // literals per produced clause
#define MAXIDX 100       // partition indices 0..MAXIDX (the GMP model holds exact integers below 2^120)
#define NIDS 6           // frame ids ever created

// ------------------------------------------------------------------ ghost state
static int g_n;                               // clauses the CNF-izer produces
static int g_len[MAXC]; static int g_lit[MAXC][MAXL];
static int g_index;                           // partition index of the assertion `root`
static bool g_opt[4];                         // resolution proof logged, produce-assignments, -unsat-cores, -interpolants
static bool g_res[MAXC]; static uint32_t g_in[MAXC], g_out[MAXC];   // ORACLE: answers of the SAT solver for the k-th addition
static uint32_t g_root, g_push;
static int g_bad;
static int g_cnf_calls, g_cb_null, g_cnf_args_bad, g_idx_calls, g_idx_arg_bad, g_lit_calls, g_lit_arg_bad;
static int g_nadd; static int g_add_sz[MAXC]; static int g_add_lit[MAXC][MAXL + 1];
static int g_nmask; static uint32_t g_mask_ref[MAXC]; static int g_mask_at[MAXC]; static bool g_mask_exact[MAXC], g_mask_bit[MAXC];
static mpz_t g_limit;                         // 2^(MAXIDX+2), built by multiplication (not by setbit)
static mpq_t keep_mpq_type;                   // rt/gmp_model.c also models mpq functions and needs the struct type in the module

static bool tracking() { return g_opt[0] || g_opt[1] || g_opt[2] || g_opt[3]; }
static PTRef frame_term(uint32_t id) { return PTRef{1000u + id}; }
static int frame_lit(uint32_t id) { return (int)((100u + id) * 2); }

// ------------------------------------------------------------------ stubs
// Cnfizer::cnfize(root, frame): delivers the clauses to the installed call-back (virtual call into the real local struct)
extern "C" void stub_cnfize(Cnfizer * self, PTRef root, uint32_t frame) {
    g_cnf_calls++;
    if (root.x != g_root || frame != g_push) g_cnf_args_bad = 1;
    if (self->clauseCallBack == nullptr) { g_cb_null = 1; return; }
    for (int k = 0; k < MAXC; k++) if (k < g_n) {
        vec<Lit> c;
        c.data = (Lit *)malloc(4 * sizeof(Lit)); c.cap = 4; c.sz = g_len[k];
        for (int j = 0; j < MAXL; j++) c.data[j].x = g_lit[k][j];
        (*self->clauseCallBack)(std::move(c));
    }
}
// storage of the call-back's std::vector<vec<Lit>>: libstdc++ asks for 1, then 2 elements; fixed typed buffers instead of a
// symbolic-size operator new (deallocation is a no-op)
union VPool { vec<Lit> v[MAXC]; VPool() {} ~VPool() {} };
static VPool g_pool[2]; static int g_nalloc;
extern "C" vec<Lit> * stub_vecAlloc(void *, unsigned long n, void const *) {
    if (n > MAXC || g_nalloc >= 2) { g_bad = 1; return g_pool[0].v; }
    return g_pool[g_nalloc++].v;
}
extern "C" bool stub_optAssign(SMTConfig const *) { return g_opt[1]; }
extern "C" bool stub_optCores(SMTConfig const *) { return g_opt[2]; }
extern "C" bool stub_optInter(SMTConfig const *) { return g_opt[3]; }
extern "C" int stub_getPartitionIndex(PartitionManager const *, PTRef t) {
    g_idx_calls++; if (t.x != g_root) g_idx_arg_bad = 1;
    return g_index;
}
extern "C" Lit stub_getOrCreateLit(TermMapper *, PTRef t) {
    g_lit_calls++;
    if (t.x != frame_term(g_push).x) g_lit_arg_bad = 1;
    Lit l; l.x = (int)((t.x - 900u) * 2); return l;
}
extern "C" bool stub_addOriginalSMTClause(SimpSMTSolver *, vec<Lit> * c, pair<CRef, CRef> * io) {
    if (g_nadd >= MAXC) { g_bad = 1; return true; }
    int k = g_nadd++;
    g_add_sz[k] = c->sz;
    for (int j = 0; j < MAXL + 1; j++) g_add_lit[k][j] = j < c->sz ? c->data[j].x : -1;
    if (io->first != CRef_Undef || io->second != CRef_Undef) g_bad = 1;
    io->first = g_in[k]; io->second = g_out[k];
    return g_res[k];
}
extern "C" void stub_addClauseClassMask(PartitionManager *, CRef ref, ipartitions_t const * mask) {
    if (g_nmask >= MAXC) { g_bad = 1; return; }
    int k = g_nmask++;
    g_mask_ref[k] = ref; g_mask_at[k] = g_nadd;
    mpz_srcptr z = mask->get_mpz_t();
    bool exact = mpz_sgn(z) > 0 && mpz_cmp(z, g_limit) < 0;
    for (unsigned i = 0; i <= MAXIDX + 1; i++) exact = exact && ((mpz_tstbit(z, i) != 0) == ((int)i == g_index));
    g_mask_exact[k] = exact;
    g_mask_bit[k] = tstbit(*mask, (unsigned)g_index) != 0;
}

// ------------------------------------------------------------------ fixture (as harness/C04/ms_frames.cc)
union RawMS { MainSolver m; RawMS() {} ~RawMS() {} };
union RawSS { SimpSMTSolver s; RawSS() {} ~RawSS() {} };
static RawMS rawms;
static RawSS rawss;
alignas(8) static unsigned char fake_config[8], fake_tmap[8], fake_proof[8], fake_logic[8];
static PTRef frame_terms[NIDS];
static void * after(void * p, std::size_t sz) { return (void *)((char *)p + sz); }

extern "C" void h_clause_masks() {
    mpq_init(keep_mpq_type);
    { mpz_init(g_limit); mpz_set_ui(g_limit, 1UL << ((MAXIDX + 2) / 2)); mpz_mul(g_limit, g_limit, g_limit); }
    MainSolver * m = &rawms.m; SimpSMTSolver * SS = &rawss.s;
    *reinterpret_cast<void **>(&m->term_mapper) = (void *)fake_tmap;
    *reinterpret_cast<void **>(&m->smt_solver) = (void *)SS;
    *reinterpret_cast<void **>(after(&m->termNames, sizeof(TermNames))) = (void *)fake_logic;
    *reinterpret_cast<void **>(after(&m->pmanager, sizeof(PartitionManager))) = (void *)fake_config;
    VASSERT((void *)&m->logic == (void *)fake_logic && (void *)&m->config == (void *)fake_config, "harness: reference members located");
    for (int j = 0; j < 4; j++) g_opt[j] = nondet_bool();
    *reinterpret_cast<void **>(&SS->resolutionProof) = g_opt[0] ? (void *)fake_proof : nullptr;
    // frame ids 0..nids-1 were created so far; frameTerms[id] is the activation term of frame id
    int nids = nondet_u8(); VASSUME(nids >= 1 && nids <= NIDS);
    for (int i = 0; i < NIDS; i++) frame_terms[i] = i == 0 ? PTRef{1} : frame_term((uint32_t)i);
    m->frameTerms.data = frame_terms; m->frameTerms.sz = nids; m->frameTerms.cap = NIDS;
    m->ts.clauseCallBack = nullptr;
    g_push = nondet_u8(); VASSUME(g_push < (uint32_t)nids);
    g_root = 10u + (nondet_u8() & 3);
    // the assertion's partition index: any value up to MAXIDX (MainSolver::insertFormula numbers the assertions 0,1,2,...)
    g_index = nondet_u8(); VASSUME(g_index >= 0 && g_index <= MAXIDX);
    // what the CNF-izer produces and what the SAT solver answers
    g_n = nondet_u8(); VASSUME(g_n >= 1 && g_n <= MAXC);
    for (int k = 0; k < MAXC; k++) {
        g_len[k] = nondet_u8(); VASSUME(g_len[k] >= 1 && g_len[k] <= MAXL);
        for (int j = 0; j < MAXL; j++) { g_lit[k][j] = nondet_u8(); VASSUME(g_lit[k][j] < 64); }
        g_res[k] = nondet_bool(); g_in[k] = nondet_u32(); g_out[k] = nondet_u32();
    }

    sstat r = m->MainSolver::giveToSolver(PTRef{g_root}, g_push);

    bool trk = tracking();
    VASSERT(m->trackPartitions() == trk, "partitions are tracked iff proofs, assignments, unsat cores or interpolants are requested");
    VASSERT(!g_bad, "harness: stubs called within their capacities, reference pair handed over undefined");
    VASSERT(g_cnf_calls == 1 && !g_cnf_args_bad && !g_cb_null, "the CNF-izer runs once on (root, push_id) with a clause call-back installed");
    // reference: clauses are added in order until one addition reports inconsistency
    int stop = -1;
    for (int k = 0; k < MAXC; k++) if (k < g_n && stop < 0 && !g_res[k]) stop = k;
    int expect_add = stop >= 0 ? stop + 1 : g_n;
    VASSERT(g_nadd == expect_add, "every clause is added in order, and none after an addition reported inconsistency");
    VASSERT((r == s_False) == (stop >= 0), "s_False is returned iff a clause addition reported inconsistency");
    VASSERT(r == s_False || r == s_Undef, "otherwise the verdict is left open (s_Undef)");
    for (int k = 0; k < MAXC; k++) if (k < g_nadd) {
        VASSERT(g_add_sz[k] == g_len[k] + (g_push != 0 ? 1 : 0), "a clause reaches the SAT solver with its own literals, plus the frame literal iff push_id != 0");
        for (int j = 0; j < MAXL; j++) if (j < g_len[k]) VASSERT(g_add_lit[k][j] == g_lit[k][j], "the literals of the clause are handed over unchanged and in order");
        if (g_push != 0) VASSERT(g_add_lit[k][g_len[k]] == frame_lit(g_push), "with push_id != 0 the literal of frameTerms[push_id] is appended to every clause");
    }
    if (g_push != 0) VASSERT(g_lit_calls >= 1 && !g_lit_arg_bad, "the frame literal is the literal of frameTerms[push_id]");
    else VASSERT(g_lit_calls == 0, "no frame literal is created for the base frame");
    // masks
    if (!trk) {
        VASSERT(g_nmask == 0, "no clause class mask is recorded when partitions are not tracked");
    } else {
        VASSERT(g_idx_calls == 1 && !g_idx_arg_bad, "the partition index is that of the assertion `root`");
        int mk = 0;
        for (int k = 0; k < MAXC; k++) if (k < g_nadd && g_in[k] != CRef_Undef) {
            VASSERT(mk < g_nmask, "every added clause with a defined input reference gets a class mask");
            if (mk < g_nmask) {
                VASSERT(g_mask_ref[mk] == g_in[k] && g_mask_at[mk] == k + 1, "the mask is recorded for the input reference of the clause just added");
                VASSERT(g_mask_bit[mk], "the mask of the clause has the bit of the assertion's partition index set");
                VASSERT(g_mask_exact[mk], "the mask of the clause is exactly 2^partitionIndex (no other bit among 0..101 set, value below 2^102)");
                if (g_index >= 64) { VWITNESS("mask-index-ge-64"); }
                if (g_index == MAXIDX) { VWITNESS("mask-index-max"); }
                if (g_index < 64) { VWITNESS("mask-index-lt-64"); }
            }
            mk++;
        }
        VASSERT(g_nmask == mk, "no mask is recorded for a clause without input reference (or twice)");
        if (g_nadd == 2 && g_in[0] == CRef_Undef && g_in[1] != CRef_Undef) { VWITNESS("mask-skipped-for-undefined-reference"); }
        if (g_nmask == 2) { VWITNESS("two-masks"); }
    }
    if (g_push != 0) { VWITNESS("pushed-frame"); }
    if (r == s_False && g_n == 2 && g_nadd == 1) { VWITNESS("early-s_False"); }
    if (r == s_False && trk && g_nmask == 1 && g_nadd == 1) { VWITNESS("mask-recorded-for-the-conflicting-clause"); }
    if (r == s_Undef && g_nadd == 2) { VWITNESS("two-clauses-added"); }
    VWITNESS("end");
}

// C26: the certificate that LASolver publishes for a conflict is the one the Simplex produced.  Simplex::assertBound (direct
// bound-vs-bound conflict) and Simplex::checkSimplex (row conflict) return pairs (bound, coefficient); LASolver stores the literals
// in `explanation` and the coefficients in `explanationCoefficients`, which getConflict / the Farkas interpolator read pairwise.
// Every conflict must REPLACE both lists: a coefficient left over from an earlier conflict is positive and plausible but does not
// cancel the variables.
// Real: LASolver::assertBound, LASolver::check_simplex, LASolver::storeExplanation, setStatus / getStatus, std::vector<Real>
// clear / push_back (capacity available) with the real FastRational copy constructor / destructor (word representation).
// Model: the Simplex answers with an arbitrary explanation of 0, 2 (assertBound) or 0..3 (checkSimplex) terms with arbitrary
// small positive integer coefficients; getAsgnByBound is an injective map.
#include "verif.h"
#include "tsolvers/lasolver/LASolver.h"
#include <new>
using namespace opensmt;

#define CAP 4
static bool g_overflow;
union RawLA { LASolver s; RawLA() {} ~RawLA() {} };
static RawLA raw;
union RealBuf { Real r[CAP]; RealBuf() {} ~RealBuf() {} };
static RealBuf coefBuf;
union TermBuf { Simplex::ExplTerm t[CAP]; TermBuf() {} ~TermBuf() {} };
static TermBuf termBuf;
static PtAsgn explBuf[CAP];
// operator new: the only allocation a (changed) LASolver may make here is a new buffer for explanationCoefficients: one spare typed
// buffer (malloc'ed memory is an untyped byte array for CBMC and makes the FastRational copies intractable)
union SpareBuf { Real r[8]; SpareBuf() {} ~SpareBuf() {} };
static SpareBuf spare; static unsigned n_new;
extern "C" void * stub_new(size_t n) { if (n > sizeof(spare) || n_new > 0) g_overflow = true; n_new++; return &spare.r[0]; }

static unsigned k_ret; static uint32_t ret_bound[CAP]; static int32_t ret_coef[CAP];
static unsigned n_calls;

template <class V, class T> static void point(V & v, T * buf, size_t n, size_t cap) {
    v._M_impl._M_start = buf; v._M_impl._M_finish = buf + n; v._M_impl._M_end_of_storage = buf + cap;
}
static void fill_answer(Simplex::Explanation * out) {
    for (unsigned i = 0; i < CAP; i++) if (i < k_ret) { termBuf.t[i].boundref = LABoundRef{ret_bound[i]}; new (&termBuf.t[i].coeff) Real(ret_coef[i]); }
    point(*out, termBuf.t, k_ret, CAP);
    n_calls++;
}
// sret: the explanation is built in static typed storage (operator delete is a no-op in this harness)
extern "C" void stub_simplexAssertBound(Simplex::Explanation * out, Simplex *, LABoundRef) { fill_answer(out); }
extern "C" void stub_checkSimplex(Simplex::Explanation * out, Simplex *) { fill_answer(out); }
extern "C" PtAsgn stub_getAsgnByBound(LASolver const *, LABoundRef r) { return PtAsgn(PTRef{r.x + 50}, (r.x & 1) ? l_False : l_True); }
extern "C" void stub_cap_asgn(vec<PtAsgn> * v, int c) { if (c > v->cap) g_overflow = true; }
static bool getint(Real const & r, int32_t & n) { auto nd = r.tryGetNumDen(); if (!nd || nd->second != 1) return false; n = nd->first; return true; }

template <bool DIRECT> static void run() {
    LASolver & s = raw.s;
    // pre-state: anything an earlier conflict may have left behind
    unsigned stale = nondet_u8() & 3; VASSUME(stale <= 3);
    for (unsigned i = 0; i < CAP; i++) if (i < stale) { int32_t c = nondet_u8() & 7; VASSUME(c >= 1); new (&coefBuf.r[i]) Real(c); explBuf[i] = PtAsgn(PTRef{nondet_u8()}, l_True); }
    point(s.explanationCoefficients, coefBuf.r, stale, CAP);
    s.explanation.data = explBuf; s.explanation.sz = (int)stale; s.explanation.cap = CAP;
    s.status = LASolver::SAT; s.has_explanation = false;
    s.generalTSolverStats.sat_calls = 0; s.generalTSolverStats.unsat_calls = 0;
    g_overflow = false; n_calls = 0; n_new = 0;
    k_ret = nondet_u8() & 3; if (DIRECT) VASSUME(k_ret == 0 || k_ret == 2); else VASSUME(k_ret <= 3);
    for (unsigned i = 0; i < CAP; i++) { ret_bound[i] = nondet_u8() & 15; ret_coef[i] = 1 + (nondet_u8() & 3); }
    bool res = DIRECT ? s.LASolver::assertBound(LABoundRef{7}) : s.LASolver::check_simplex(true);
    VASSERT(!g_overflow && n_calls == 1, "harness: one answer of the Simplex, capacities suffice");
    VASSERT(res == (k_ret == 0), "the call succeeds exactly when the Simplex reports no conflict");
    VASSERT((s.status == LASolver::UNSAT) == (k_ret > 0) && s.has_explanation == (k_ret > 0), "status and has_explanation reflect the conflict");
    if (k_ret > 0) {
        VASSERT(s.explanation.size() == (int)k_ret, "one explanation literal per conflicting bound");
        VASSERT(s.explanationCoefficients.size() == k_ret, "one Farkas coefficient per explanation literal");
        for (unsigned i = 0; i < CAP; i++) if (i < k_ret && (int)i < s.explanation.size() && i < s.explanationCoefficients.size()) {
            VASSERT(s.explanation[i].tr.x == ret_bound[i] + 50, "explanation literal i is the literal of conflicting bound i");
            int32_t c = 0; bool isint = getint(s.explanationCoefficients[i], c);
            VASSERT(isint && c == ret_coef[i], "Farkas coefficient i is the coefficient the Simplex computed for bound i (not a leftover of an earlier conflict)");
        }
        if (stale > 0) { VWITNESS("conflict-after-an-earlier-conflict"); }
        if (stale > k_ret) { VWITNESS("shorter-conflict-after-a-longer-one"); }
    } else {
        VASSERT(s.explanation.size() == 0, "no explanation without a conflict");
        VWITNESS("no-conflict");
    }
    VWITNESS("end");
}
extern "C" void h_assert_bound() { run<true>(); }
extern "C" void h_check_simplex() { run<false>(); }

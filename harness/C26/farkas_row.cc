// C26: Simplex::getConflictingBounds returns a valid Farkas certificate for a stuck row.
#include "verif.h"
#include "tsolvers/lasolver/Simplex.h"
using namespace opensmt;

// bound references are encoded as 2*var + (isUpper ? 1 : 0) + 2 by the model stub
extern "C" LABoundRef stub_readLBoundRef(LRAModel const *, LVRef v) { return LABoundRef{2 * v.x + 2}; }
extern "C" LABoundRef stub_readUBoundRef(LRAModel const *, LVRef v) { return LABoundRef{2 * v.x + 3}; }
static Tableau::Polynomial * the_row;
extern "C" Tableau::Polynomial const * stub_getRowPoly(Tableau const *, LVRef) { return the_row; }

static bool word_int(Real const & r, int & out) { auto nd = r.tryGetNumDen(); if (!nd || nd->second != 1) return false; out = nd->first; return true; }

template <int N> static void conflicting_bounds() {
    // the stuck basic variable x = 0 with row  x = c1*y1 + c2*y2 + c3*y3  (1..3 terms, non-zero small integer coefficients)
    const int n = N;    // concrete row length per entry: a symbolic-size allocation (reserve(row.size()+1)) is intractable
    int c[3];
    Tableau::Polynomial row;
    for (int i = 0; i < 3; i++) if (i < n) {
        c[i] = (int8_t)nondet_u8(); VASSUME(c[i] >= -3 && c[i] <= 3 && c[i] != 0);
        row.poly.emplace_back(LVRef{(uint32_t)(i + 1)}, Real(c[i]));
    }
    the_row = &row;
    bool onLower = nondet_bool();
    alignas(Simplex) static unsigned char raw[sizeof(Simplex)];
    Simplex * s = reinterpret_cast<Simplex *>(raw);
    Simplex::Explanation e = s->getConflictingBounds(LVRef{0}, onLower);

    VASSERT((int)e.size() == n + 1, "one bound for the basic variable and one per row term");
    // Farkas combination: write each bound as an inequality  dir*v <= dir*bound  (upper: dir=+1, lower: dir=-1), weight lambda.
    // With x replaced by its row, the variables must cancel:  lambda_0*dir_0*c_i + lambda_i*dir_i == 0  for every term i.
    int lam0 = 0; bool ok0 = word_int(e[0].coeff, lam0);
    uint32_t b0 = e[0].boundref.x;
    VASSERT(ok0 && lam0 > 0, "coefficient of the violated bound is positive");
    VASSERT(b0 == (onLower ? 2u : 3u), "the violated bound of the basic variable is the one named by the caller");
    int dir0 = (b0 & 1) ? 1 : -1;
    for (int i = 0; i < 3; i++) if (i < n) {
        int lam = 0; bool ok = word_int(e[i + 1].coeff, lam);
        uint32_t b = e[i + 1].boundref.x;
        VASSERT(ok && lam > 0, "every Farkas coefficient is positive");
        VASSERT((b - 2) / 2 == (uint32_t)(i + 1), "bound belongs to the row's variable");
        int dir = (b & 1) ? 1 : -1;
        // x's bound (dir0*x <= ..) with x := sum c_i y_i contributes lam0*dir0*c_i to y_i ; the row identity is x - sum c_i y_i = 0,
        // so the certificate must satisfy  lam*dir == -(lam0*dir0)*(-c_i)... written out:  lam0*dir0*c_i + lam*dir == 0 after moving the row to the left
        VASSERT(lam0 * dir0 * c[i] + lam * dir == 0, "weighted sum of the bounds cancels every variable of the row");
    }
    VWITNESS("farkas");
}
extern "C" void h_conflicting_bounds_1() { conflicting_bounds<1>(); }
extern "C" void h_conflicting_bounds_2() { conflicting_bounds<2>(); }
extern "C" void h_conflicting_bounds_3() { conflicting_bounds<3>(); }

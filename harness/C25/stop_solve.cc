// C25 (control path): CoreSMTSolver::solve_() restart loop + the REAL okContinue()/notifyStop()/notifyGlobalStop()/
// globallyStopped(): once a stop request (per-solver or global) is visible, solve_ starts no further search and
// returns the status it already had (l_Undef unless the last search had derived a definitive one).
// search() is a stub that obeys the contract established by stop_search.cc.
#include "verif.h"
#include "smtsolvers/CoreSMTSolver.h"
#include "api/GlobalStop.h"
#include <new>
#include <cstdlib>
using namespace opensmt;

#ifndef RESTARTS
#define RESTARTS 4
#endif

static int g_searches, g_search_after_stop, g_last_status, g_stop_requested, g_polls, g_poll_false;
static int g_declared, g_poll_mismatch;

template <class F> static int vslot(F pmf) {
    union { F f; struct { intptr_t ptr; intptr_t adj; } r; } u;
    u.f = pmf;
    return (int)((u.r.ptr - 1) / 8);
}

// "another thread": at any point where the solver can be preempted a stop request may arrive (requests only ever set the flags)
static void async_requests(CoreSMTSolver * s) {
    if (nondet_bool()) { s->notifyStop(); g_stop_requested = 1; }          // real CoreSMTSolver::notifyStop
    if (nondet_bool()) { notifyGlobalStop(); g_stop_requested = 1; }       // real GlobalStop.cc
}

// vtable slot of okContinue: lets requests arrive, then runs the REAL CoreSMTSolver::okContinue
extern "C" bool stub_okContinue(CoreSMTSolver * s) {
    async_requests(s);
    g_polls++;
    bool go = s->CoreSMTSolver::okContinue();
    if (go == (bool)g_stop_requested) g_poll_mismatch = 1;   // real okContinue must answer false iff a request was made
    if (!go) g_poll_false = 1;
    return go;
}
extern "C" uint8_t stub_search(CoreSMTSolver * s, int) {
    g_searches++;
    if (g_poll_false) g_search_after_stop++;
    async_requests(s);
    if (g_searches >= RESTARTS) { s->notifyStop(); g_stop_requested = 1; }   // bound on the number of restarts
    uint8_t r;
    if (g_stop_requested && nondet_bool()) r = 2;                // search saw the stop: l_Undef (stop_search.cc)
    else { r = nondet_u8(); VASSUME(r <= 2); }                    // or finished / hit its conflict budget before seeing it
    if (r == 1) s->ok = false;                                    // l_False comes with ok = false (zero-level handler)
    g_last_status = r;
    return r;
}
extern "C" void stub_addVar_(CoreSMTSolver *, Var) {}
extern "C" void stub_declareVars(CoreSMTSolver *) { g_declared++; }
extern "C" int stub_dump_only(SMTConfig const *) { return nondet_bool(); }
extern "C" int stub_dryrun(SMTConfig const *) { int d = nondet_bool(); if (d) g_stop_requested = 1; /* solve_ then calls notifyStop() itself */ return d; }
extern "C" int stub_seed(SMTConfig const *) { return (int)nondet_u32(); }
extern "C" int stub_verbosity(SMTConfig const *) { return 0; }
extern "C" int stub_restartNext(CoreSMTSolver *, int) { return (int)(nondet_u32() & 0xffff); }
extern "C" int stub_nVars(CoreSMTSolver const *) { return 2; }
extern "C" uint8_t stub_valueVar(CoreSMTSolver const *, Var v) { return (uint8_t)(v & 1); }

static void * fake_vt[64];
union RawSolver { CoreSMTSolver s; RawSolver() {} ~RawSolver() {} };
union RawConfig { SMTConfig c; RawConfig() {} ~RawConfig() {} };
static RawSolver raw;
static RawConfig rawc;

extern "C" void h_solve() {
    CoreSMTSolver * s = &raw.s;
    fake_vt[vslot(&CoreSMTSolver::okContinue)] = (void *)&stub_okContinue;
    *reinterpret_cast<void ***>(s) = fake_vt;
    // the reference members are the first fields after the vptr (checked right below)
    struct Head { void * vptr; SMTConfig * config; THandler * th; };
    reinterpret_cast<Head *>(s)->config = &rawc.c;
    VASSERT(&s->config == &rawc.c, "harness: layout of the reference member config as expected");
    rawc.c.sat_dump_cnf = 0;
    rawc.c.sat_use_luby_restart = nondet_bool();
    s->verbosity = false;
    s->stopFlag = false;
    resetGlobalStop();
    bool ok0 = nondet_bool();
    s->ok = ok0;
    s->solves = nondet_u32(); s->conflicts = nondet_u32();
    s->restart_first = 100; s->restart_inc = 1.1; s->learntsize_factor = 0.3;
    s->learntsize_adjust_start_confl = 0; s->learntsize_adjust_confl = 0;
    new (&s->clauses) vec<CRef>();
    new (&s->learnts) vec<CRef>();
    new (&s->model) vec<lbool>();
    new (&s->conflict) vec<Lit>();
    new (&s->assumptions) vec<Lit>();
    int na = nondet_u8(); VASSUME(na >= 0 && na <= 2);
    s->assumptions.data = (Lit *)malloc(2 * sizeof(Lit)); s->assumptions.cap = 2; s->assumptions.sz = na;
    s->assumptions.data[0].x = nondet_u8() & 7; s->assumptions.data[1].x = nondet_u8() & 7;
    // a stop request may already be pending when solve_ is entered
    g_stop_requested = 0; g_polls = g_poll_false = g_poll_mismatch = 0;
    async_requests(s);
    g_searches = g_search_after_stop = 0; g_last_status = 2; g_declared = 0;

    lbool res = s->CoreSMTSolver::solve_();
    int r = toInt(res);

    VASSERT(!g_poll_mismatch, "okContinue() answers false exactly when notifyStop or notifyGlobalStop was called before the poll");
    VASSERT(g_search_after_stop == 0, "no search is started after okContinue() answered stop");
    VASSERT(g_searches <= RESTARTS, "restart bound respected");
    if (g_searches == 0) {
        VASSERT(r == 2 || (r == 1 && !ok0), "without any search the answer is l_Undef, or l_False for a solver that was already inconsistent");
        if (r == 2 && g_poll_false) { VWITNESS("solve-stopped-before-first-search"); }
    } else {
        VASSERT(r == g_last_status, "the answer is the status derived by the last search");
        VASSERT(ok0, "an inconsistent solver does not search");
    }
    if (r != 2 && g_searches > 0) {
        // definitive answer: it was derived by a search that had been started before any poll answered stop
        VASSERT(g_search_after_stop == 0, "definitive status derived by a search started before the stop was observed");
        if (g_stop_requested) { VWITNESS("solve-definitive-although-stop-requested-late"); }
    }
    if (r == 0) { VASSERT(s->model.size() == 2, "model copied iff l_True"); VWITNESS("solve-sat"); }
    else { VASSERT(s->model.size() == 0, "no model unless l_True"); }
    if (r == 1) { VWITNESS("solve-unsat"); }
    if (r == 2 && g_searches >= 2) { VWITNESS("solve-stopped-after-restarts"); }
    VWITNESS("solve-end");
}

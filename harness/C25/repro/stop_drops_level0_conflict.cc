// EXISTING DEFECT in the UNMODIFIED code (worktree HEAD ce45400), found while seeding C25.
//
// CoreSMTSolver::search() polls the stop flags right after propagate()/runPeriodic() and BEFORE it handles the
// conflict returned by propagate():
//
//        CRef confl = propagate();
//        runPeriodic();
//        if (not okContinue()) { break; }      // <-- a pending conflict 'confl' is silently dropped here
//        if (confl != CRef_Undef) { ... if (decisionLevel() == 0) return zeroLevelConflictHandler(); ...
//
// If the stop request arrives while the solver is inside the propagate() call that finds the *level-0* conflict
// (the call that would have proved the instance unsat), the conflict is dropped: `ok` stays true, propagate() has
// already set qhead = trail.size(), and cancelUntil(0) is a no-op at level 0. The solver is left with a level-0
// trail that falsifies an original clause whose watches will never be visited again.
// The stopped check-sat itself correctly returns unknown. But the global stop is explicitly resettable
// (resetGlobalStop() in GlobalStop.h), and after the reset the NEXT check-sat on the same MainSolver returns SAT
// for an UNSATISFIABLE formula (verifyModel() even prints "unsatisfied clause: ..." on stderr, and returns sat anyway).
// The same happens inside one single check-sat if the requester calls notifyGlobalStop(); resetGlobalStop(); in quick
// succession: search() sees the flag and drops the conflict, CoreSMTSolver::solve_()'s loop condition polls the flag
// again, sees it cleared and re-enters search() on the corrupted state.
// So: an asynchronous (global) stop request issued at that moment makes the solver produce a wrong answer, although
// not in the very call that was stopped (strict reading of C25: "that call") -- hence reported separately.
//
// The interleaving is reproduced deterministically: the flag is a std::atomic<bool>, so a store by another thread
// "while propagate()/runPeriodic() runs" is equivalent to a store from the virtual hook runPeriodic(), which
// search() calls between propagate() and the poll. The program sweeps over all hook calls N of a pigeonhole
// instance PHP(5,4) (unsat): check-sat with the global stop issued at hook call N, then resetGlobalStop(), then
// a second check-sat. Expected for every N: second answer unsat. Observed: for N = last hook call the second
// answer is sat.
//
// build:
//   g++ -std=c++20 -O1 -g -I/tmp/seed_probe/src -I/tmp/seed_probe/_build/src existing_defect_1.cc -o existing_defect_1 \
//       /tmp/seed_probe/_build/lib/libopensmt.so -lgmpxx -lgmp -Wl,-rpath,/tmp/seed_probe/_build/lib
// run:  ./existing_defect_1        (exit status 1 and "WRONG ANSWER ..." on the unmodified library)
#include <api/GlobalStop.h>
#include <api/MainSolver.h>
#include <logics/Logic.h>
#include <smtsolvers/SimpSMTSolver.h>
#include <tsolvers/THandler.h>

#include <iostream>
#include <string>

using namespace opensmt;

static long g_trigger = -1, g_count = 0;

class HookSolver : public SimpSMTSolver {
public:
    using SimpSMTSolver::SimpSMTSolver;

protected:
    void runPeriodic() override {
        if (++g_count == g_trigger) notifyGlobalStop(); // "another thread" issues the global stop at this moment
    }
};

static char const * str(sstat s) {
    return s == s_True ? "sat" : s == s_False ? "unsat" : s == s_Undef ? "unknown" : "error";
}

// returns the answers of the two check-sats
static std::pair<sstat, sstat> run(long trigger) {
    resetGlobalStop();
    g_trigger = trigger;
    g_count = 0;
    constexpr int holes = 4, pigeons = 5;
    Logic logic{Logic_t::QF_UF};
    SMTConfig config;
    auto th = MainSolver::createTheory(logic, config);
    auto tm = std::make_unique<TermMapper>(logic);
    auto thandler = new THandler(*th, *tm);
    auto ss = std::make_unique<HookSolver>(config, *thandler);
    MainSolver solver(std::move(th), std::move(tm), std::unique_ptr<THandler>(thandler), std::move(ss), logic, config,
                      "hooked");
    PTRef x[pigeons][holes];
    for (int p = 0; p < pigeons; ++p)
        for (int h = 0; h < holes; ++h)
            x[p][h] = logic.mkBoolVar(("x_" + std::to_string(p) + "_" + std::to_string(h)).c_str());
    for (int p = 0; p < pigeons; ++p) {
        vec<PTRef> args;
        for (int h = 0; h < holes; ++h) args.push(x[p][h]);
        solver.addAssertion(logic.mkOr(std::move(args)));
    }
    for (int h = 0; h < holes; ++h)
        for (int p = 0; p < pigeons; ++p)
            for (int q = p + 1; q < pigeons; ++q)
                solver.addAssertion(logic.mkOr(logic.mkNot(x[p][h]), logic.mkNot(x[q][h])));
    sstat first = solver.check();
    resetGlobalStop(); // the requester withdraws the global stop after the stopped call has returned
    sstat second = solver.check();
    resetGlobalStop();
    return {first, second};
}

int main() {
    auto ref = run(-1);
    long total = g_count;
    std::cerr << "no stop: " << str(ref.first) << ", " << str(ref.second) << "  (hook calls: " << total << ")\n";
    int bad = 0;
    for (long n = 1; n <= total; ++n) {
        auto [a, b] = run(n);
        bool ok = (a == s_Undef or a == s_False) and (b == s_Undef or b == s_False);
        if (not ok) {
            ++bad;
            std::cerr << "WRONG ANSWER: global stop at hook call " << n << ": first check-sat " << str(a)
                      << ", after resetGlobalStop() second check-sat " << str(b) << " (formula is unsat)\n";
        }
    }
    std::cerr << (bad ? "FAIL" : "PASS") << "\n";
    return bad ? 1 : 0;
}

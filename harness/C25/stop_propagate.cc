// C25 (callee contract): the REAL CoreSMTSolver::propagate() (+ uncheckedEnqueue) on a symbolic two-watched-literal state.
// search() polls the stop flags right after propagate(), but the lookahead solver (laPropagateWrapper) and the preprocessor take
// "propagate() returned CRef_Undef" as "the trail is closed under unit propagation and conflict free" without any poll.  So, for
// every stop schedule:  CRef_Undef  =>  qhead == trail.size() and no clause of the DB is falsified or unit under the trail;
// a returned clause is a DB clause falsified by the trail.
// okContinue() is a stub behind the fake vtable; a stop request may be issued before the call and at every poll.
#include "satstate.h"
using namespace opensmt;
using namespace ss;

#ifndef P_NC
#define P_NC 3            // clauses in the DB (all attached, 2..SS_ML literals over distinct variables)
#endif
static_assert(P_NC <= SS_NC, "clause region too small");

typedef CoreSMTSolver::Watcher Watcher;

static int g_polls, g_stop;
static int g_q;                       // qhead at entry
static int g_blk[P_NC][2];            // blocker of the watcher of c[i]: index of a clause literal other than i

template <class F> static int vslot(F pmf) {
    union { F f; struct { intptr_t ptr; intptr_t adj; } r; } u;
    u.f = pmf;
    return (int)((u.r.ptr - 1) / 8);
}
static void env_step() { if (nondet_bool()) g_stop = 1; }
extern "C" bool stub_okContinue(CoreSMTSolver const *) { env_step(); g_polls++; return !g_stop; }

// Clause::operator[](int): the same address as &data[i].lit, computed on the clause region's word array instead of through the
// zero-length flexible array member (which the back end can only treat as an unbounded array) - an encoding aid
static inline Lit * clause_lit(Clause * c, int i) { return reinterpret_cast<Lit *>(reinterpret_cast<uint32_t *>(c) + 1 + i); }
extern "C" Lit * stub_clauseIndex(Clause * c, int i) { return clause_lit(c, i); }
extern "C" Lit stub_clauseIndexConst(Clause const * c, int i) { return *clause_lit(const_cast<Clause *>(c), i); }
static_assert(sizeof(Clause) == 4 && sizeof(Lit) == 4, "clause layout: one header word, then the literals");

// The watch lists: one vec<Watcher> OBJECT per literal (not an array of vecs: the back end's points-to sets do not distinguish array
// elements, and the null data pointer written by the vec constructor would make every watcher access a possible wild access).
// std::vector<vec<Watcher>>::operator[] (the only way OccLists reaches its lists) is replaced by the case split below - the same
// list as occs[i] - so the std::vector header of `watches.occs` itself is never read.
#define P_LISTS(X) X(0) X(1) X(2) X(3) X(4) X(5) X(6) X(7) X(8) X(9)
#define P_DECL(n) static vec<Watcher> wl##n;
P_LISTS(P_DECL)
static_assert(2 * SS_NV <= 10, "at most 10 watch lists");
// watcher storage: only declared here (no constructor loop runs, the IR keeps the element type), defined in stop_propagate_rt.c
extern "C" { extern CoreSMTSolver::Watcher sp_occ_buf[2 * SS_NV][P_NC]; }
static_assert(sizeof(Watcher) * 2 * SS_NV * P_NC <= 4096, "native replay storage in stop_propagate_rt.c too small");
static char buf_dirty[2 * SS_NV];
extern "C" vec<Watcher> * stub_watchList(void * self, unsigned long l) {
    VASSERT(l < 2 * SS_NV, "watch list index is a literal of the solver");
    VASSERT(self == (void *)&S->watches.occs, "the watch lists of the solver under test");
#define P_CASE(n) if (2 * SS_NV > n && l == n) return &wl##n;
    P_LISTS(P_CASE)
    return &wl0;
}
static void reset_lists() {   // static buffers: nothing for the vec destructors to free at exit (native replay)
#define P_RESET(n) wl##n.data = nullptr; wl##n.sz = 0; wl##n.cap = 0;
    P_LISTS(P_RESET)
}

static inline uint8_t val_of(int l, const uint8_t * val) { uint8_t v = val[lvar(l)]; return v == 2 ? 2 : (uint8_t)(v ^ (l & 1)); }   // 0 true, 1 false, 2 undef

// fixed_n / fixed_q >= 0: scenario with that trail size / queue head (constants shrink the encoding considerably)
static void build(int fixed_n, int fixed_q) {
    // trail: g_n literals over distinct variables, every trail literal true, every other variable unassigned
    if (fixed_n >= 0) g_n = fixed_n; else { g_n = nondet_u8(); VASSUME(g_n >= 0 && g_n <= SS_NV); }
    for (int v = 0; v < SS_NV; v++) { g_pos[v] = -1; g_val[v] = 2; }
    for (int i = 0; i < SS_NV; i++) {
#if SS_CANON
#if SS_CANON >= 2
        int l = 2 * i;                              // ... and the trail literals are the positive ones (flipping a variable's polarity everywhere is a symmetry too)
#else
        int l = 2 * i + (nondet_u8() & 1);          // variables are numbered in trail order (a renaming of the variables)
#endif
#else
        int l = nondet_u8(); VASSUME(lit_ok(l));
#endif
        g_trail[i] = l;
        if (i < g_n) { int v = lvar(l); VASSUME(g_pos[v] == -1); g_pos[v] = i; g_val[v] = (uint8_t)(l & 1); }
    }
    if (fixed_q >= 0) g_q = fixed_q; else { g_q = nondet_u8(); VASSUME(g_q >= 0 && g_q <= g_n); }
    g_nl = nondet_u8(); VASSUME(g_nl >= 0 && g_nl <= SS_NL);
    for (int k = 0; k < SS_NL; k++) { g_lim[k] = nondet_u8(); VASSUME(g_lim[k] >= 0 && g_lim[k] <= g_n); if (k > 0 && k < g_nl) VASSUME(g_lim[k - 1] <= g_lim[k]); }
    // clause DB: P_NC attached clauses
    for (int k = 0; k < P_NC; k++) {
#if SS_ML == 2
        g_csz[k] = 2;
#else
        g_csz[k] = nondet_u8(); VASSUME(g_csz[k] >= 2 && g_csz[k] <= SS_ML);
#endif
        for (int j = 0; j < SS_ML; j++) {
            int l = nondet_u8(); VASSUME(lit_ok(l)); g_clit[k][j] = l;
            if (j < g_csz[k]) for (int i = 0; i < j; i++) VASSUME(lvar(g_clit[k][i]) != lvar(l));   // attached clauses are duplicate-free and non-tautological
        }
        for (int i = 0; i < 2; i++) { int b = nondet_u8(); VASSUME(b >= 0 && b < g_csz[k] && b != i); g_blk[k][i] = b; }
        // two-watched-literal invariant: a watched literal that is false and already taken from the queue (trail position < qhead)
        // has been processed by an earlier propagate(): that left the clause with a true literal (blocker / other watch / implied literal)
        bool has_true = false;
        for (int j = 0; j < SS_ML; j++) if (j < g_csz[k] && lit_true_entry(g_clit[k][j])) has_true = true;
        for (int i = 0; i < 2; i++) { int l = g_clit[k][i]; if (lit_false_entry(l) && g_pos[lvar(l)] < g_q) VASSUME(has_true); }
    }
}

static void materialize_prop() {
    void ** raw = reinterpret_cast<void **>(S);
    fake_vtable[vslot(&CoreSMTSolver::okContinue)] = (void *)&stub_okContinue;
    raw[0] = (void *)fake_vtable; raw[1] = (void *)CFG; raw[2] = (void *)thandler_mem;
    prealloc(S->trail, buf_trail, SS_NV, g_n);
    for (int i = 0; i < SS_NV; i++) S->trail[i] = toLit(g_trail[i]);
    prealloc(S->trail_lim, buf_lim, SS_NL, g_nl);
    for (int k = 0; k < SS_NL; k++) S->trail_lim[k] = g_lim[k];
    prealloc(S->vardata, buf_vardata, SS_NV, SS_NV);
    prealloc(S->assigns, buf_assigns, SS_NV, SS_NV);
    for (int v = 0; v < SS_NV; v++) { S->vardata[v].reason = CRef_Undef; S->vardata[v].level = 0; S->assigns[v] = lbool(g_val[v]); }
    S->qhead = g_q;
    S->propagations = nondet_u8(); S->simpDB_props = (int64_t)nondet_u8();
    S->ca.memory = ca_mem; S->ca.sz = P_NC * STRIDE; S->ca.cap = CA_CAP; S->ca.wasted_ = 0; S->ca.extra_clause_field = false;
    for (int k = 0; k < P_NC; k++) {
        Clause & c = *reinterpret_cast<Clause *>(&ca_mem[k * STRIDE]);
        c.header.mark = 0; c.header.learnt = nondet_bool(); c.header.has_extra = c.header.learnt; c.header.reloced = 0; c.header.glue = 0; c.header.size = (unsigned)g_csz[k];
        for (int j = 0; j < SS_ML; j++) *clause_lit(&c, j) = toLit(g_clit[k][j]);
    }
    // watches: clause k is watched by c[0] and c[1], i.e. it sits in the lists of ~c[0] and ~c[1] (once each), blocker = another literal of it
    static int cnt[2 * SS_NV];
    for (int l = 0; l < 2 * SS_NV; l++) cnt[l] = 0;
    for (int k = 0; k < P_NC; k++) for (int i = 0; i < 2; i++) {
        int nl = g_clit[k][i] ^ 1;
        Watcher & w = sp_occ_buf[nl][cnt[nl]];
        w.cref = cref_of(k); w.blocker = toLit(g_clit[k][g_blk[k][i]]); cnt[nl]++;
    }
#define P_PRE(n) if (2 * SS_NV > n) prealloc(wl##n, sp_occ_buf[n < 2 * SS_NV ? n : 0], P_NC, cnt[n < 2 * SS_NV ? n : 0]);
    P_LISTS(P_PRE)
    prealloc(S->watches.dirty, buf_dirty, 2 * SS_NV, 2 * SS_NV);   // nothing smudged: no detached clause waits for lazy removal
    S->watches.dirties.data = nullptr; S->watches.dirties.sz = 0; S->watches.dirties.cap = 0;
    // proof logging off: resolutionProof == nullptr (zero storage)
}

template<int fixed_n, int fixed_q> static void run_propagate() {
    build(fixed_n, fixed_q);
    materialize_prop();
    g_polls = 0; g_stop = 0;
    env_step();                                   // a request issued before the call

    CRef confl = S->propagate();

    // ---- post-state
    int n1 = S->trail.size();
    VASSERT(n1 >= g_n && n1 <= SS_NV, "the trail only grows");
    uint8_t val[SS_NV];
    bool prefix_same = true, assigns_ok = true;
    for (int v = 0; v < SS_NV; v++) val[v] = 2;
    for (int i = 0; i < SS_NV; i++) if (i < n1) {
        int l = S->trail[i].x;
        if (i < g_n && l != g_trail[i]) prefix_same = false;
        if (!lit_ok(l)) { assigns_ok = false; continue; }
        if (val[lvar(l)] != 2) assigns_ok = false;
        val[lvar(l)] = (uint8_t)(l & 1);
    }
    for (int v = 0; v < SS_NV; v++) if (toInt(S->assigns[v]) != val[v]) assigns_ok = false;
    VASSERT(prefix_same, "the literals already on the trail stay where they are");
    VASSERT(assigns_ok, "assigns = the literals of the trail (distinct variables, every trail literal true)");
    if (!assigns_ok) { reset_lists(); return; }
    // the clauses in memory are still the DB clauses (propagate only permutes literals)
    bool db_same = true;
    for (int k = 0; k < P_NC; k++) {
        Clause & c = *reinterpret_cast<Clause *>(&ca_mem[k * STRIDE]);
        if ((int)c.size() != g_csz[k]) db_same = false;
        for (int j = 0; j < SS_ML; j++) if (j < g_csz[k]) { bool found = false; for (int m = 0; m < SS_ML; m++) if (m < g_csz[k] && clause_lit(&c, m)->x == g_clit[k][j]) found = true; if (!found) db_same = false; }
    }
    VASSERT(db_same, "propagate only permutes the literals of a clause");
    // every new trail literal is implied: its reason is a DB clause with that literal first and all other literals false
    bool implied = true;
    for (int i = 0; i < SS_NV; i++) if (i >= g_n && i < n1) {
        int l = S->trail[i].x; CRef r = S->vardata[lvar(l)].reason;
        bool okr = false;
        for (int k = 0; k < P_NC; k++) if (r == cref_of(k)) {
            Clause & c = *reinterpret_cast<Clause *>(&ca_mem[k * STRIDE]);
            okr = clause_lit(&c, 0)->x == l;
            for (int m = 1; m < SS_ML; m++) if (m < g_csz[k] && val_of(clause_lit(&c, m)->x, val) != 1) okr = false;
        }
        if (!okr) implied = false;
    }
    VASSERT(implied, "every literal propagate() enqueues is the only non-false literal of its reason clause");

    int n_false = 0, n_unit = 0;
    for (int k = 0; k < P_NC; k++) {
        int t = 0, u = 0;
        for (int j = 0; j < SS_ML; j++) if (j < g_csz[k]) { uint8_t x = val_of(g_clit[k][j], val); if (x == 0) t++; else if (x == 2) u++; }
        if (t == 0 && u == 0) n_false++;
        if (t == 0 && u == 1) n_unit++;
    }
    if (confl == CRef_Undef) {
        VASSERT(S->qhead == n1, "CRef_Undef: the propagation queue is empty (qhead == trail.size())");
        VASSERT(n_false == 0, "CRef_Undef: no clause of the DB is falsified by the trail");
        VASSERT(n_unit == 0, "CRef_Undef: no clause of the DB is unit under the trail with its literal unpropagated (propagation fixpoint)");
        VWITNESS("propagate-fixpoint");
        if (g_stop) { VWITNESS("propagate-fixpoint-under-stop"); }
        if constexpr (fixed_n < SS_NV) { if (n1 > g_n) { VWITNESS("propagate-enqueued-a-literal"); } }
        if constexpr (fixed_n < 0 || SS_NV - fixed_n >= 2) { if (n1 >= g_n + 2) { VWITNESS("propagate-enqueued-a-chain"); } }
        if (g_q < g_n && n1 == g_n) { VWITNESS("propagate-queue-emptied-nothing-implied"); }
    } else {
        bool is_db = false, falsified = false;
        for (int k = 0; k < P_NC; k++) if (confl == cref_of(k)) {
            is_db = true; falsified = true;
            for (int j = 0; j < SS_ML; j++) if (j < g_csz[k] && val_of(g_clit[k][j], val) != 1) falsified = false;
        }
        VASSERT(is_db && falsified, "a returned conflict is a clause of the DB with every literal false under the trail");
        VASSERT(S->qhead == n1, "conflict: the propagation queue is emptied");
        VWITNESS("propagate-conflict");
        if (g_stop) { VWITNESS("propagate-conflict-under-stop"); }
        if constexpr (fixed_n < SS_NV) { if (n1 > g_n) { VWITNESS("propagate-conflict-after-enqueue"); } }
    }
    VWITNESS("propagate-returns");
    reset_lists();   // static buffers: nothing for the destructors to free
}

extern "C" void h_propagate() { run_propagate<-1, -1>(); }          // trail size and queue head symbolic
extern "C" void h_propagate_n1q0() { run_propagate<1, 0>(); }
extern "C" void h_propagate_n2q1() { run_propagate<2, 1>(); }
extern "C" void h_propagate_n2q0() { run_propagate<2, 0>(); }
extern "C" void h_propagate_n3q1() { run_propagate<3, 1>(); }

#ifdef P_DEBUG_ENTRIES
extern "C" void h_dbg_state() { build(1, 0); materialize_prop(); VWITNESS("state"); }
extern "C" void h_dbg_call() { build(1, 0); materialize_prop(); g_stop = 0; CRef c = S->propagate(); VASSERT(c == CRef_Undef || c == 0, "dbg"); VWITNESS("call"); }
#endif

/* Storage for the SimpSMTSolver / SMTConfig objects of stop_subsumption.cc: only DECLARED in the C++ harness (no constructor runs,
 * the IR keeps the real class types); defined here with the generated struct type for CBMC, plain zeroed storage natively. */
#ifdef __CPROVER__
#ifdef IR2C_NEEDG_sb_solver_obj
__typeof__(sb_solver_obj) sb_solver_obj;
#endif
#ifdef IR2C_NEEDG_sb_config_obj
__typeof__(sb_config_obj) sb_config_obj;
#endif
#else
__attribute__((aligned(64))) char sb_solver_obj[8192];
__attribute__((aligned(64))) char sb_config_obj[4096];
#endif

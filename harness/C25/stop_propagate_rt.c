/* Storage for the watcher buffers of stop_propagate.cc (see harness/include/satstate_rt.c for the idea). */
#ifdef __CPROVER__
#ifdef IR2C_NEEDG_sp_occ_buf
__typeof__(sp_occ_buf) sp_occ_buf;
#endif
#else
__attribute__((aligned(64))) char sp_occ_buf[4096];
#endif

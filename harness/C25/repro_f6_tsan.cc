// F6 reproducer (not part of any check): data race on opensmt::globalStopFlag, real src/api/GlobalStop.cc.
// g++ -std=c++20 -O1 -g -fsanitize=thread /repo/src/api/GlobalStop.cc harness/C25/repro_f6_tsan.cc -o /tmp/race -lpthread && /tmp/race
// -> 'WARNING: ThreadSanitizer: data race ... Write of size 1 by notifyGlobalStop() GlobalStop.cc:15 / previous read ... global opensmt::(anonymous namespace)::globalStopFlag'
// CoreSMTSolver::stopFlag (CoreSMTSolver.h:85, plain bool; notifyStop() writes, stopped() reads) has the same pattern.
// two threads: one requests a global stop, the other polls, exactly as CoreSMTSolver::okContinue does
#include <thread>
#include <cstdio>
namespace opensmt { void notifyGlobalStop(); bool globallyStopped(); }
int main() {
    long polls = 0;
    std::thread poller([&] { while (!opensmt::globallyStopped()) { ++polls; if (polls > 200000000) break; } });
    std::thread stopper([] { opensmt::notifyGlobalStop(); });
    stopper.join(); poller.join();
    std::printf("polls=%ld\n", polls);
}

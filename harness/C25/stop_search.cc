// C25 (control path): CoreSMTSolver::search -- once a poll of okContinue() has answered "stop", the real
// search loop does no further work and returns l_Undef; l_True / l_False are only returned on the paths
// that derive them (model found after a complete theory check / zero-level conflict handler).
// Every callee is a havoc stub with ghost bookkeeping; the object lives in raw storage (no constructor).
#include "verif.h"
#include "smtsolvers/CoreSMTSolver.h"
#include <new>
#include <cstdlib>
using namespace opensmt;

#ifndef POLLS
#define POLLS 5
#endif
#ifndef NASSUM
#define NASSUM 2
#endif

// ------------------------------------------------------------------ ghost state
static int g_polls, g_stop_seen, g_work_after_stop, g_cancel0_after_stop, g_end_after_stop, g_end_calls;
static int g_level, g_zero_calls, g_zero_after_stop, g_complete_ok, g_last_pick_undef, g_confl_pending;
static int g_ok_at_stop, g_bt0, g_pending0_at_stop;
static CoreSMTSolver * S;

static void work() { if (g_stop_seen) g_work_after_stop++; }
static void disturb() { g_complete_ok = 0; g_last_pick_undef = 0; }

template <class F> static int vslot(F pmf) {
    union { F f; struct { intptr_t ptr; intptr_t adj; } r; } u;
    u.f = pmf;
    return (int)((u.r.ptr - 1) / 8);
}

// ------------------------------------------------------------------ stubs (virtual ones are reached through the fake vtable)
extern "C" bool stub_okContinue(CoreSMTSolver const * s) {
    g_polls++;
    bool go = nondet_bool();
    if (g_polls >= POLLS) go = false;      // bound: the stop request arrives at the latest at poll number POLLS
    if (!go && !g_stop_seen) { g_stop_seen = 1; g_ok_at_stop = s->ok; g_pending0_at_stop = (g_confl_pending && g_level == 0); }
    return go;                              // after a stop the flag may even be reset again (resetGlobalStop): still arbitrary
}
extern "C" void stub_runPeriodic(CoreSMTSolver *) { /* allowed between the two polls */ }
extern "C" void stub_notifyEnd(CoreSMTSolver *) { g_end_calls++; if (g_stop_seen) g_end_after_stop++; }
extern "C" int stub_notifyConsistency(CoreSMTSolver *) { work(); int a = nondet_u8(); VASSUME(a >= 0 && a <= 3); if (a == 0) { disturb(); g_bt0 = 1; } return a; }
extern "C" uint8_t stub_zeroLevel(CoreSMTSolver * s) {
    g_zero_calls++; if (g_stop_seen) g_zero_after_stop++;
    lbool r = s->CoreSMTSolver::zeroLevelConflictHandler();   // the real body (sets ok = false)
    return toInt(r);
}
extern "C" void stub_cancelUntil(CoreSMTSolver *, int l) {
    if (g_stop_seen) { if (l == 0) g_cancel0_after_stop++; else g_work_after_stop++; }
    if (l < g_level) g_level = l;
    disturb();
}
extern "C" void stub_attachClause(CoreSMTSolver *, CRef) { work(); }
extern "C" void stub_newDecisionLevel(CoreSMTSolver *) { work(); g_level++; disturb(); }
extern "C" Lit stub_pickBranchLit(CoreSMTSolver *) {
    work();
    Lit l; l.x = nondet_bool() ? lit_Undef.x : (int)(nondet_u8() & 7);
    g_last_pick_undef = (l == lit_Undef);
    return l;
}
// non-virtual callees (redirected by the spec)
// vectors written by stubs get a fixed-capacity heap buffer (no symbolic-size realloc): <= 2 literals
static void fill(vec<Lit> * out, int n) {
    if (out->data == nullptr) { out->data = (Lit *)malloc(4 * sizeof(Lit)); out->cap = 4; }
    for (int i = 0; i < 2; i++) out->data[i].x = nondet_u8() & 7;
    out->sz = n;
}
extern "C" int stub_checkTheory(CoreSMTSolver *, bool complete, int * conflictC) {
    work();
    int r = nondet_bool() ? -1 : (nondet_bool() ? 0 : 1);     // Unsat / Propagate / Decide
    if (nondet_bool()) *conflictC += 1;
    disturb();
    if (complete && r == 1) g_complete_ok = 1;
    return r;
}
extern "C" CRef stub_propagate(CoreSMTSolver *) { work(); disturb(); CRef c = nondet_bool() ? CRef_Undef : (CRef)(nondet_u8() & 15); g_confl_pending = (c != CRef_Undef); return c; }
extern "C" void stub_analyze(CoreSMTSolver *, CRef, vec<Lit> * out, int * bt) {
    work(); g_confl_pending = 0;
    fill(out, 1 + (nondet_u8() & 1));
    int l = nondet_u8(); VASSUME(l >= 0 && l < g_level); *bt = l;
}
// final conflict over the assumptions: recorded, so that the frame computed from it can be checked (C01/C04)
static int g_final_calls, g_final_n; static Lit g_final[2];
extern "C" void stub_analyzeFinal(CoreSMTSolver *, Lit, vec<Lit> * out) {
    work();
    int n = nondet_u8() & 3; VASSUME(n <= 2);
    fill(out, n);
    g_final_calls++; g_final_n = n;
    for (int i = 0; i < 2; i++) g_final[i] = out->data[i];
}
extern "C" void stub_uncheckedEnqueue(CoreSMTSolver *, Lit, CRef) { work(); disturb(); }
extern "C" bool stub_simplify(CoreSMTSolver *) { work(); disturb(); return nondet_bool(); }
extern "C" void stub_reduceDB(CoreSMTSolver *) { work(); }
extern "C" bool stub_withinBudget(CoreSMTSolver const *) { return nondet_bool(); }
extern "C" double stub_progressEstimate(CoreSMTSolver const *) { return 0.5; }
extern "C" int stub_decisionLevel(CoreSMTSolver const *) { return g_level; }
extern "C" uint8_t stub_value(CoreSMTSolver const *, Lit) { uint8_t v = nondet_u8(); VASSUME(v <= 2); return v; }
extern "C" CRef stub_alloc(ClauseAllocator *, vec<Lit> const *, bool, unsigned) { work(); return (CRef)(nondet_u8() & 15); }
static uint32_t dummy_clause[8];
extern "C" Clause * stub_caIndex(ClauseAllocator *, CRef) { return reinterpret_cast<Clause *>(dummy_clause); }
extern "C" uint32_t stub_computeGlue(CoreSMTSolver *, vec<Lit> const *) { return nondet_u8() & 3; }
extern "C" void stub_pushCRef(vec<CRef> *, CRef const *) { work(); }
// assumptions_order: one fixed (symbolic) frame index per variable, as MainSolver::solve_ fills it
static int order_cell; static uint8_t g_order[8]; static bool g_order_set[8];
extern "C" int * stub_orderIndex(void *, Var const * v) {
    int i = *v & 7;
    if (!g_order_set[i]) { g_order[i] = nondet_u8() & 3; g_order_set[i] = true; }
    order_cell = g_order[i]; return &order_cell;
}

static void * fake_vt[64];
// raw, typed storage: no constructor or destructor of the solver ever runs
union RawSolver { CoreSMTSolver s; RawSolver() {} ~RawSolver() {} };
static RawSolver raw;

extern "C" void h_search() {
    CoreSMTSolver * s = &raw.s;
    S = s;
    fake_vt[vslot(&CoreSMTSolver::okContinue)] = (void *)&stub_okContinue;
    fake_vt[vslot(&CoreSMTSolver::runPeriodic)] = (void *)&stub_runPeriodic;
    fake_vt[vslot(&CoreSMTSolver::notifyEnd)] = (void *)&stub_notifyEnd;
    fake_vt[vslot(&CoreSMTSolver::notifyConsistency)] = (void *)&stub_notifyConsistency;
    fake_vt[vslot(&CoreSMTSolver::zeroLevelConflictHandler)] = (void *)&stub_zeroLevel;
    fake_vt[vslot(&CoreSMTSolver::cancelUntil)] = (void *)&stub_cancelUntil;
    fake_vt[vslot(&CoreSMTSolver::attachClause)] = (void *)&stub_attachClause;
    fake_vt[vslot(&CoreSMTSolver::newDecisionLevel)] = (void *)&stub_newDecisionLevel;
    fake_vt[vslot(&CoreSMTSolver::pickBranchLit)] = (void *)&stub_pickBranchLit;
    *reinterpret_cast<void ***>(s) = fake_vt;

    s->verbosity = false;
    s->search_counter = 0;
    s->stopFlag = false;
    s->ok = true;
    s->conflict_frame = 0;
    s->starts = nondet_u32(); s->conflicts = nondet_u32(); s->decisions = nondet_u32();
    s->conflictsUntilFlip = nondet_u32(); s->flipIncrement = 10000; s->flipState = nondet_bool();
    s->learnts_size = nondet_u32(); s->all_learnts = nondet_u32();
    s->nof_learnts = (int)(nondet_u8()) - 1; s->nofLearntsIncrement = 1.1;
    s->learntsize_adjust_cnt = 1000; s->progress_estimate = 0;
    new (&s->learnts) vec<CRef>();
    new (&s->conflict) vec<Lit>();
    new (&s->assumptions) vec<Lit>();
    int na = nondet_u8(); VASSUME(na >= 0 && na <= NASSUM);
    fill(&s->assumptions, na);
    // resolution proof logging on or off: the pointer is only tested and handed to stubs
    static unsigned char fake_proof[8];
    *reinterpret_cast<void **>(&s->resolutionProof) = nondet_bool() ? (void *)fake_proof : nullptr;

    g_polls = g_stop_seen = g_work_after_stop = g_cancel0_after_stop = g_end_after_stop = g_end_calls = 0;
    g_final_calls = g_final_n = 0;      // g_order_set starts all-false (static storage, one call per run)
    g_level = 0; g_zero_calls = g_zero_after_stop = 0; g_complete_ok = 0; g_last_pick_undef = 0; g_confl_pending = 0; g_ok_at_stop = 1; g_bt0 = 0; g_pending0_at_stop = 0;

    int nof_conflicts = (int)(nondet_u8() & 3) - 1;
    lbool res = s->search(nof_conflicts);

    if (g_stop_seen) {
#ifdef MUT_WRONG
        VASSERT(res == l_True, "deliberately wrong: stopped search returns l_True");
#endif
        VASSERT(g_work_after_stop == 0, "after okContinue() answered stop, no propagation/analysis/decision/theory call is made");
        if (g_pending0_at_stop) {
            // propagate() had just returned a conflict at decision level 0: the instance is unsatisfiable, and the conflict cannot be
            // found again (the propagation queue is empty) - it must not be dropped
            VASSERT(res == l_False && g_zero_calls == 1 && !s->ok, "a level-0 conflict found right before the stop was observed is not dropped: l_False");
            VWITNESS("search-stopped-with-level0-conflict");
        } else {
            VASSERT(res == l_Undef, "after okContinue() answered stop, search returns l_Undef");
            VASSERT(g_zero_after_stop == 0 && s->ok == (bool)g_ok_at_stop, "a stop never marks the solver inconsistent");
            VASSERT(g_cancel0_after_stop == 1 && g_end_after_stop == 1, "a stopped search backtracks to level 0 and notifies the end exactly once");
        }
        VASSERT(g_polls <= POLLS, "no poll after the stop was observed beyond the bound");
        VWITNESS("search-stopped");
        if (g_polls >= 3 && g_level == 0) { VWITNESS("search-stopped-late"); }
    } else {
        VASSERT(g_end_calls == 0, "notifyEnd only on the stop path");
    }
    if (g_final_calls > 0) {
        // MainSolver::solve_ assumes the NEGATED activation literal of every live frame (C04 h_assumptions), analyzeFinal returns
        // negations of assumptions (C01 analyze_final): the live frames taking part in the conflict are its POSITIVE literals.
        // The frame reported unsat must be the one right above the deepest of them (0 + 1 if none takes part).
        int deepest = 0; bool all_read = true;
#define FINAL_LIT(i) if (g_final_n > i && !sign(g_final[i])) { int v = var(g_final[i]) & 7; if (!g_order_set[v]) all_read = false; else if (g_order[v] > deepest) deepest = g_order[v]; }
        FINAL_LIT(0) FINAL_LIT(1)
        VASSERT(g_final_calls == 1 && res == l_False, "a falsified assumption ends the search with l_False after one final-conflict analysis");
        VASSERT(s->conflict_frame == deepest + 1, "conflict_frame = 1 + deepest live frame whose activation literal occurs in the final conflict");
        VASSERT(all_read, "the frame of every live activation literal of the final conflict is taken into account");
        if (g_final_n == 2 && !sign(g_final[0]) && sign(g_final[1]) && deepest > 0) { VWITNESS("final-conflict-mixed-polarity"); }
    } else {
        VASSERT(s->conflict_frame == 0, "conflict_frame is only set from a final conflict over the assumptions");
    }
    if (res == l_False) {
        VASSERT(g_zero_calls == 1 && !s->ok && (!g_stop_seen || g_pending0_at_stop), "l_False only through the zero-level conflict handler, after a stop only for an already found level-0 conflict");
        VWITNESS("search-unsat");
    } else {
        VASSERT(g_zero_calls == 0 && s->ok, "ok stays true unless l_False is returned");
    }
    if (res == l_True) {
        VASSERT(!g_stop_seen, "l_True is never returned once a stop was observed");
        VASSERT(g_complete_ok && g_last_pick_undef && !g_confl_pending, "l_True only right after a complete theory check answered Decide and no branching literal is left");
        if (!g_bt0) VASSERT(g_level >= s->assumptions.size(), "l_True only with every assumption decided (unless a splitter hook backtracked to level 0)");
        VWITNESS("search-sat");
    }
    if (res == l_Undef && !g_stop_seen) { VWITNESS("search-restart-or-undef"); }
    VWITNESS("search-end");
}

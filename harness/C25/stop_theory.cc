// C25 (callee contract): CoreSMTSolver::checkTheory(bool complete, int & conflictC) and the checkTheory(bool) wrapper.
// search() returns l_True right after checkTheory(true, ..) answered Decide, and the lookahead solver does the same, with no poll
// of the stop flags in between.  So, whatever okContinue() answers at whatever moment:  Decide for a COMPLETE call is returned
// only if the theory was really asked (assertLits on the solver's trail, then check(true)) and did not answer unsat; an unsat
// answer is never turned into Decide.
// The theory handler is a set of stubs with ghost bookkeeping; okContinue() is a nondeterministic stub behind a fake vtable.
// Variant THEORY_REAL_SAT: CoreSMTSolver::handleSat and deduceTheory are the real bodies as well (splits / deductions stubbed).
#include "verif.h"
#include "smtsolvers/CoreSMTSolver.h"
#include "tsolvers/THandler.h"
#include <new>
#include <cstdlib>
using namespace opensmt;

#ifndef NTRAIL
#define NTRAIL 3
#endif
#ifndef NDED
#define NDED 2
#endif

// ------------------------------------------------------------------ ghost state
static int g_polls, g_stop_seen;
static int g_assert_calls, g_assert_res, g_assert_trail_ok, g_assert_before_check;
static int g_check_calls, g_check_complete, g_check_res, g_check_after_stop;
static int g_hsat_calls, g_hsat_res, g_hunsat_calls, g_hunsat_res;
static int g_splits_calls, g_splits_nonempty, g_hsplit_calls, g_hsplit_res, g_ded_calls, g_ded_handed, g_enq_calls;
static int g_trail_sz; static int g_trail_lits[NTRAIL];
static CoreSMTSolver * S;

template <class F> static int vslot(F pmf) {
    union { F f; struct { intptr_t ptr; intptr_t adj; } r; } u;
    u.f = pmf;
    return (int)((u.r.ptr - 1) / 8);
}

static bool trail_is_entry_trail(vec<Lit> const * t) {
    if (t != &S->trail || t->sz != g_trail_sz) return false;
    bool same = true;
    for (int i = 0; i < NTRAIL; i++) if (i < g_trail_sz && t->data[i].x != g_trail_lits[i]) same = false;
    return same;
}

// ------------------------------------------------------------------ stubs
// The other thread: a stop request (per-solver or global, okContinue() does not distinguish them) may be issued before the call and
// at every point where the function under test hands control to a stub (= between any two of its observable actions); requests
// only set the flag.  okContinue() (virtual, fake vtable) reports the flag.
static void env_step() { if (nondet_bool()) g_stop_seen = 1; }
extern "C" bool stub_okContinue(CoreSMTSolver const *) {
    env_step();
    g_polls++;
    return !g_stop_seen;
}

// THandler::assertLits(trail): pushes the new trail literals to the theory solvers; false = a literal was refuted on assertion
extern "C" bool stub_assertLits(THandler *, vec<Lit> const * trail) {
    env_step();
    g_assert_calls++;
    g_assert_trail_ok = trail_is_entry_trail(trail);
    g_assert_before_check = (g_check_calls == 0);
    g_assert_res = nondet_bool();
    return g_assert_res;
}
// THandler::check(complete): SAT / UNSAT / UNKNOWN (TRes)
extern "C" int stub_check(THandler *, bool complete) {
    env_step();
    g_check_calls++;
    g_check_complete = complete;
    if (g_stop_seen) g_check_after_stop = 1;
    env_step();                      // the request may also arrive while the theory is working
    int r = nondet_u8(); VASSUME(r >= 0 && r <= 2);
    g_check_res = r;
    return r;
}
#ifndef THEORY_REAL_SAT
// handleSat(): any of Unsat (level-0 conflict from a split clause cannot happen, but the type allows it: excluded) / Propagate / Decide
extern "C" int stub_handleSat(CoreSMTSolver *) {
    g_hsat_calls++;
    int r = nondet_bool() ? 0 : 1;
    g_hsat_res = r;
    return r;
}
#else
// ---- real handleSat(): the theory's new split clauses and deductions are stubs
static vec<Lit> split_store[1]; static Lit split_lits[2];
extern "C" void stub_getNewSplits(std::vector<vec<Lit>> * out, THandler *) {
    g_splits_calls++;
    // sret of a std::vector: three pointers (begin, end, end of storage); at most one clause, living in static storage
    void ** raw = reinterpret_cast<void **>(out);
    if (nondet_bool()) { raw[0] = raw[1] = raw[2] = nullptr; g_splits_nonempty = 0; }
    else {
        split_store[0].data = split_lits; split_store[0].sz = 2; split_store[0].cap = 2;
        split_lits[0].x = nondet_u8() & 7; split_lits[1].x = nondet_u8() & 7;
        raw[0] = (void *)&split_store[0]; raw[1] = raw[2] = (void *)(&split_store[0] + 1); g_splits_nonempty = 1;
    }
}
extern "C" void stub_splitVectorDtor(std::vector<vec<Lit>> *) {}     // static storage: nothing to free
extern "C" int stub_handleNewSplitClauses(CoreSMTSolver *, std::vector<vec<Lit>> *) {
    g_hsplit_calls++;
    int r = nondet_bool() ? 0 : 1;          // Propagate / Decide (handleNewSplitClauses never answers Unsat or Undef)
    g_hsplit_res = r;
    return r;
}
// getDeduction(): a literal or lit_Undef; at most NDED literals are handed out
extern "C" Lit stub_getDeduction(THandler *) {
    g_ded_calls++;
    Lit l = lit_Undef;
    if (g_ded_handed < NDED && nondet_bool()) { l.x = nondet_u8() & 7; g_ded_handed++; }
    return l;
}
static int g_unassigned_deds;
extern "C" uint8_t stub_valueLit(CoreSMTSolver const *, Lit) { uint8_t v = nondet_u8(); VASSUME(v <= 2); if (v == 2) g_unassigned_deds++; return v; }
extern "C" int stub_decisionLevel(CoreSMTSolver const *) { return nondet_u8() & 3; }
extern "C" void stub_uncheckedEnqueue(CoreSMTSolver *, Lit, CRef) { g_enq_calls++; }
static LitLev ded_buf[NDED + 1];
extern "C" void stub_pushLitLev(vec<LitLev> * v, LitLev const * e) {
    if (v->data == nullptr) { v->data = ded_buf; v->cap = NDED + 1; }
    VASSERT(v->sz < NDED + 1, "deduction buffer large enough");
    v->data[v->sz++] = *e;
}
extern "C" void stub_litlevDtor(vec<LitLev> *) {}
#endif
// handleUnsat(): its contract is Unsat (level-0 conflict) or Propagate (learnt a clause, backtracked); never Decide
extern "C" int stub_handleUnsat(CoreSMTSolver *) {
    g_hunsat_calls++;
    int r = nondet_bool() ? -1 : 0;
    g_hunsat_res = r;
    return r;
}

static void * fake_vt[64];
union RawSolver { CoreSMTSolver s; RawSolver() {} ~RawSolver() {} };
union RawConfig { SMTConfig c; RawConfig() {} ~RawConfig() {} };
static RawSolver raw;
static RawConfig rawcfg;
alignas(16) static unsigned char thandler_mem[64];
static Lit trail_buf[NTRAIL];

static CoreSMTSolver * setup() {
    CoreSMTSolver * s = &raw.s;
    S = s;
    fake_vt[vslot(&CoreSMTSolver::okContinue)] = (void *)&stub_okContinue;
    void ** rawp = reinterpret_cast<void **>(s);
    rawp[0] = (void *)fake_vt;            // vptr
    rawp[1] = (void *)&rawcfg.c;          // SMTConfig & config
    rawp[2] = (void *)thandler_mem;       // THandler & theory_handler: never dereferenced, all its methods are stubs
    VASSERT(&s->config == &rawcfg.c && (void *)&s->theory_handler == (void *)thandler_mem, "layout: config / theory_handler references are the second and third word");

    // trail: <= NTRAIL arbitrary literals (checkTheory only hands it to the theory handler)
    g_trail_sz = nondet_u8(); VASSUME(g_trail_sz >= 0 && g_trail_sz <= NTRAIL);
    for (int i = 0; i < NTRAIL; i++) { g_trail_lits[i] = nondet_u8() & 7; trail_buf[i].x = g_trail_lits[i]; }
    s->trail.data = trail_buf; s->trail.sz = g_trail_sz; s->trail.cap = NTRAIL;

    // the skipping heuristic of incomplete calls: small symbolic values (exactly representable)
    s->skip_step = (double)(nondet_u8() & 7);
    s->skipped_calls = (long)(nondet_u8() & 7);
    rawcfg.c.sat_initial_skip_step = (double)(nondet_u8() & 3);
    rawcfg.c.sat_skip_step_factor = (double)(1 + (nondet_u8() & 1));
    s->conflicts = nondet_u8();
    *reinterpret_cast<void **>(&s->resolutionProof) = nullptr;

    g_polls = g_stop_seen = 0;
    env_step();                      // a request issued before the call
    g_assert_calls = g_assert_res = g_assert_trail_ok = g_assert_before_check = 0;
    g_check_calls = g_check_complete = g_check_after_stop = 0; g_check_res = -1;
    g_hsat_calls = g_hunsat_calls = 0; g_hsat_res = g_hunsat_res = 99;
    g_splits_calls = g_splits_nonempty = g_hsplit_calls = g_ded_calls = g_ded_handed = g_enq_calls = 0; g_hsplit_res = 99;
    return s;
}

enum { T_SAT = 0, T_UNSAT = 1, T_UNKNOWN = 2 };

static void obligations(CoreSMTSolver * s, bool complete, TPropRes res, uint64_t conflicts0, bool have_cc, int cc0, int cc1) {
    bool theory_asked = g_assert_calls == 1 && g_assert_trail_ok && g_assert_before_check;
    bool theory_unsat = theory_asked && (!g_assert_res || (g_check_calls == 1 && g_check_res == T_UNSAT));
    bool theory_not_unsat = theory_asked && g_assert_res && g_check_calls == 1 && (g_check_res == T_SAT || g_check_res == T_UNKNOWN);

    VASSERT(res == TPropRes::Unsat || res == TPropRes::Propagate || res == TPropRes::Decide, "checkTheory answers Unsat, Propagate or Decide");
    VASSERT(g_assert_calls <= 1 && g_check_calls <= 1, "the theory is asked at most once per call");
    if (g_check_calls == 1) VASSERT(theory_asked && g_assert_res && g_check_complete == (int)complete, "check() is called after assertLits(trail) succeeded, with the caller's completeness flag");
    if (complete) {
        // the contract search() / the lookahead solver rely on: no stop schedule makes a complete call answer Decide without the theory's consent
        VASSERT(theory_asked, "a complete call always hands the solver's current trail to the theory (assertLits), whatever okContinue() answers");
        if (res == TPropRes::Decide) {
            VASSERT(theory_not_unsat, "Decide for a complete call only if check(true) was made on the current trail and did not answer unsat");
#ifdef THEORY_REAL_SAT
            VASSERT(g_check_res == T_UNKNOWN || (g_splits_calls == 1 && (g_splits_nonempty ? (g_hsplit_calls == 1 && g_hsplit_res == 1) : (g_hsplit_calls == 0 && g_enq_calls == 0 && g_unassigned_deds == 0))),
                    "Decide after a consistent complete check only if no new split clause forces a propagation and no unassigned deduction is left");
#else
            VASSERT(g_check_res == T_UNKNOWN || (g_hsat_calls == 1 && g_hsat_res == 1), "Decide after a consistent check is handleSat's answer");
#endif
            VWITNESS("complete-check-consistent-decide");
            if (g_stop_seen) { VWITNESS("complete-check-consistent-decide-under-stop"); }
            if (g_check_res == T_UNKNOWN) { VWITNESS("complete-check-unknown-decide"); }
        }
    } else if (res == TPropRes::Decide && g_assert_calls == 0) {
        VASSERT(g_check_calls == 0 && g_hsat_calls == 0 && g_hunsat_calls == 0, "a skipped incomplete call does nothing");
        VWITNESS("incomplete-call-skipped");
    }
    if (theory_unsat) {
        VASSERT(res != TPropRes::Decide, "an unsat answer of the theory is never turned into Decide");
        VASSERT(g_hunsat_calls == 1 && (int)res == g_hunsat_res && g_hsat_calls == 0, "an unsat answer goes through handleUnsat and its answer is returned");
        VASSERT(s->conflicts == conflicts0 + 1 && (!have_cc || cc1 == cc0 + 1), "an unsat answer is counted as a conflict");
        VWITNESS("theory-unsat");
        if (!g_assert_res) { VWITNESS("theory-unsat-on-assert"); }
        if (g_stop_seen) { VWITNESS("theory-unsat-under-stop"); }
    } else {
        VASSERT(g_hunsat_calls == 0 && s->conflicts == conflicts0 && (!have_cc || cc1 == cc0), "no conflict is handled or counted unless the theory answered unsat");
    }
    if (res == TPropRes::Unsat) VASSERT(theory_unsat, "Unsat only if the theory answered unsat");
    if (res == TPropRes::Propagate) { VWITNESS("theory-propagate"); }
    VWITNESS("checkTheory-returns");
}

#ifndef THEORY_WRAPPER
extern "C" void h_check_theory() {
    CoreSMTSolver * s = setup();
    bool complete = nondet_bool();
    int cc0 = nondet_u8(), cc = cc0;
    uint64_t conflicts0 = s->conflicts;
    TPropRes res = s->checkTheory(complete, cc);
    obligations(s, complete, res, conflicts0, true, cc0, cc);
}
#endif

#ifdef THEORY_WRAPPER
// The one-argument wrapper used by the lookahead solver (LookaheadSMTSolver.cc: checkTheory(true)), decided compositionally: it
// makes exactly one call of checkTheory(bool, int&) with the caller's flag and returns that call's answer, under every stop schedule.
// (Running it on top of the real two-argument body is not possible: the wrapper passes an UNINITIALISED 'int tmp' as conflictC and
//  the two-argument function increments it - an indeterminate read that the bit-precise model reports as a possible signed overflow.)
static int g_ct_calls, g_ct_complete, g_ct_res;
extern "C" int stub_checkTheory2(CoreSMTSolver *, bool complete, int *) {
    env_step();
    g_ct_calls++; g_ct_complete = complete;
    int r = nondet_bool() ? -1 : (nondet_bool() ? 0 : 1);
    g_ct_res = r;
    env_step();
    return r;
}
extern "C" void h_check_theory_wrapper() {
    CoreSMTSolver * s = setup();
    g_ct_calls = 0;
    bool complete = nondet_bool();
    TPropRes res = s->checkTheory(complete);
    VASSERT(g_ct_calls == 1 && g_ct_complete == (int)complete && (int)res == g_ct_res, "checkTheory(bool) = exactly one checkTheory(bool, int&) call with the same flag, answer handed through");
    if (g_stop_seen && res == TPropRes::Decide && complete) { VWITNESS("wrapper-decide-under-stop"); }
    VWITNESS("wrapper-returns");
}
#endif

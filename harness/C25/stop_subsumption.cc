// C25 (callee contract): the REAL SimpSMTSolver::backwardSubsumptionCheck(bool) (+ strengthenClause, SimpSMTSolver::removeClause,
// Clause::subsumes/strengthen, Queue, OccLists::lookup/clean) on a small symbolic preprocessor state.
// eliminate() / eliminateVar() read `false` as "the clause set is unsatisfiable" (ok = false -> check-sat answers unsat).  So, for
// every stop schedule:  false is returned only if a top-level conflict was really derived by strengthenClause (a clause was
// strengthened to a unit whose literal is false under the level-0 trail, or the propagation of that unit found a conflict) - never
// merely because okContinue() answered stop; once okContinue() answered stop the queue is cleared, bwdsub_assigns catches up with
// the trail, no clause is touched any more and true is returned.
#include "verif.h"
#include <cstdlib>
#include "options/SMTConfig.h"
#include "tsolvers/THandler.h"
#include "smtsolvers/SimpSMTSolver.h"
using namespace opensmt;

#ifndef B_NV
#define B_NV 4            // variables
#endif
#ifndef B_NC
#define B_NC 3            // problem clauses (2..B_ML literals, distinct variables), each possibly already removed (mark = 1)
#endif
#ifndef B_ML
#define B_ML 3
#endif
#ifndef B_NT
#define B_NT 1            // level-0 trail literals
#endif
#ifndef B_POLLS
#define B_POLLS 3         // the stop request arrives at the latest at poll number B_POLLS (bounds the main loop)
#endif
enum { STRIDE = B_ML + 2, TMPUNIT = B_NC, QCAP = 6 };   // slot B_NC = bwdsub_tmpunit (a unit clause)

extern "C" { extern opensmt::SimpSMTSolver sb_solver_obj; extern opensmt::SMTConfig sb_config_obj; }
static_assert(sizeof(SimpSMTSolver) <= 8192 && sizeof(SMTConfig) <= 4096, "native replay storage in stop_subsumption_rt.c too small");
static SimpSMTSolver * const S = &sb_solver_obj;
alignas(16) static unsigned char thandler_mem[64];

static uint32_t ca_mem[(B_NC + 1) * STRIDE];
static inline CRef cref_of(int k) { return (CRef)(k * STRIDE); }
static inline Clause & clause_at(int k) { return *reinterpret_cast<Clause *>(&ca_mem[k * STRIDE]); }
static inline int lvar(int l) { return l >> 1; }

// ---- ghost
static int g_polls, g_stop, g_stop_answered, g_work_after_stop;
static int g_prop_calls, g_prop_conflict, g_removed, g_strengthen_units;
static int g_csz[B_NC], g_clit[B_NC][B_ML], g_mark[B_NC];
static uint8_t g_val[B_NV];          // 0 true, 1 false, 2 undef
static int g_n, g_trail[B_NT];

template <class F> static int vslot(F pmf) {
    union { F f; struct { intptr_t ptr; intptr_t adj; } r; } u;
    u.f = pmf;
    return (int)((u.r.ptr - 1) / 8);
}
static void env_step() { if (nondet_bool()) g_stop = 1; }
static void work() { if (g_stop_answered) g_work_after_stop++; }
extern "C" bool stub_okContinue(CoreSMTSolver const *) {
    env_step();
    g_polls++;
    if (g_polls >= B_POLLS) g_stop = 1;      // bound: the request arrives at the latest at poll number B_POLLS
    if (g_stop) g_stop_answered = 1;
    return !g_stop;
}
// watch lists are not part of this state: attach/detach (virtual) are no-ops
extern "C" void stub_attachClause(CoreSMTSolver *, CRef) { work(); }
extern "C" void stub_detachClause(CoreSMTSolver *, CRef, bool) { work(); }
// CoreSMTSolver::removeClause: detaches, marks the clause deleted and frees its memory; here: the mark
extern "C" void stub_coreRemoveClause(CoreSMTSolver *, CRef cr) {
    work(); env_step();
    g_removed++;
    bool found = false;
    for (int k = 0; k < B_NC; k++) if (cr == cref_of(k)) { found = true; clause_at(k).header.mark = 1; }
    VASSERT(found, "only clauses of the DB are removed");
}
// CoreSMTSolver::propagate() after a clause was strengthened to a unit: arbitrary answer (its contract: stop_propagate)
extern "C" CRef stub_propagate(CoreSMTSolver *) {
    work(); env_step();
    g_prop_calls++;
    CRef c = nondet_bool() ? CRef_Undef : cref_of(nondet_u8() % B_NC);
    g_prop_conflict = (c != CRef_Undef);
    return c;
}
extern "C" void stub_updateElimHeap(SimpSMTSolver *, Var) {}
extern "C" int stub_verbosity(SMTConfig const *) { return 0; }
extern "C" void stub_vec_capacity(vec<int> * v, int min_cap) { VASSERT(v->cap >= min_cap, "harness preallocated enough vec capacity (no realloc in the kernel)"); }

extern "C" vec<CRef> * stub_occList(void * self, unsigned long v);
static void * fake_vt[64];
template<class T> static void prealloc(vec<T> & v, T * buf, int cap, int size) { v.data = buf; v.cap = cap; v.sz = size; }
static Lit buf_trail[B_NT + B_NC];
static lbool buf_assigns[B_NV];
static VarData buf_vardata[B_NV];
static int buf_lim[1];
// occurrence lists: one vec<CRef> OBJECT per variable (not an array of vecs: the back end's points-to sets do not distinguish array
// elements, and the null data pointer written by the vec constructor would make every list access a possible wild access);
// std::vector<vec<CRef>>::operator[] (the only way OccLists reaches its lists) is replaced by the case split below
#define B_LISTS(X) X(0) X(1) X(2) X(3) X(4)
#define B_DECL(n) static vec<CRef> ol##n;
B_LISTS(B_DECL)
static_assert(B_NV <= 5, "at most 5 occurrence lists");
static CRef occ_buf[B_NV][B_NC];
static char buf_dirty[B_NV];
static Var buf_dirties[2 * B_NV];
static int buf_nocc[2 * B_NV];
static CRef buf_queue[QCAP];

extern "C" vec<CRef> * stub_occList(void * self, unsigned long v) {
    VASSERT(v < B_NV, "occurrence list index is a variable of the solver");
    VASSERT(self == (void *)&S->occurs.occs, "the occurrence lists of the solver under test");
#define B_CASE(n) if (B_NV > n && v == n) return &ol##n;
    B_LISTS(B_CASE)
    return &ol0;
}
static void reset_lists() {   // static buffers: nothing for the vec destructors to free at exit (native replay)
#define B_RESET(n) ol##n.data = nullptr; ol##n.sz = 0; ol##n.cap = 0;
    B_LISTS(B_RESET)
}
static bool contains_var(int k, int v) { bool f = false; for (int j = 0; j < B_ML; j++) if (j < g_csz[k] && lvar(g_clit[k][j]) == v) f = true; return f; }
static uint8_t val_lit(int l) { uint8_t v = g_val[lvar(l)]; return v == 2 ? 2 : (uint8_t)(v ^ (l & 1)); }

static void build() {
    void ** raw = reinterpret_cast<void **>(S);
    fake_vt[vslot(&CoreSMTSolver::okContinue)] = (void *)&stub_okContinue;
    fake_vt[vslot(&CoreSMTSolver::attachClause)] = (void *)&stub_attachClause;
    fake_vt[vslot(&CoreSMTSolver::detachClause)] = (void *)&stub_detachClause;
    raw[0] = (void *)fake_vt; raw[1] = (void *)&sb_config_obj; raw[2] = (void *)thandler_mem;

    // level-0 trail: g_n literals over distinct variables; bwdsub_assigns of them have been turned into queue units already
    g_n = nondet_u8(); VASSUME(g_n >= 0 && g_n <= B_NT);
    for (int v = 0; v < B_NV; v++) g_val[v] = 2;
    for (int i = 0; i < B_NT; i++) {
        int l = nondet_u8(); VASSUME(l >= 0 && l < 2 * B_NV); g_trail[i] = l;
        if (i < g_n) { VASSUME(g_val[lvar(l)] == 2); g_val[lvar(l)] = (uint8_t)(l & 1); }
    }
    prealloc(S->trail, buf_trail, B_NT + B_NC, g_n);
    for (int i = 0; i < B_NT; i++) buf_trail[i] = toLit(g_trail[i]);
    prealloc(S->trail_lim, buf_lim, 1, 0);                 // decision level 0
    prealloc(S->assigns, buf_assigns, B_NV, B_NV);
    prealloc(S->vardata, buf_vardata, B_NV, B_NV);
    for (int v = 0; v < B_NV; v++) { buf_assigns[v] = lbool(g_val[v]); buf_vardata[v].reason = CRef_Undef; buf_vardata[v].level = 0; }
    int bw = nondet_u8(); VASSUME(bw >= 0 && bw <= g_n);
    S->bwdsub_assigns = bw;
    S->qhead = g_n;
    S->use_simplification = true;
    int lim = nondet_u8(); VASSUME(lim <= B_ML + 1);
    S->subsumption_lim = lim == 0 ? -1 : lim;             // -1 (no limit) or a small limit

    // clause DB: problem clauses (not learnt, abstraction word computed by the real calcAbstraction), some already removed
    S->ca.memory = ca_mem; S->ca.sz = (B_NC + 1) * STRIDE; S->ca.cap = (B_NC + 1) * STRIDE; S->ca.wasted_ = 0; S->ca.extra_clause_field = true;
    for (int k = 0; k < B_NC; k++) {
        g_csz[k] = nondet_u8(); VASSUME(g_csz[k] >= 2 && g_csz[k] <= B_ML);
        g_mark[k] = nondet_bool();
        Clause & c = clause_at(k);
        c.header.mark = g_mark[k]; c.header.learnt = 0; c.header.has_extra = 1; c.header.reloced = 0; c.header.glue = 0; c.header.size = (unsigned)g_csz[k];
        for (int j = 0; j < B_ML; j++) {
            int l = nondet_u8(); VASSUME(l >= 0 && l < 2 * B_NV); g_clit[k][j] = l;
            if (j < g_csz[k]) for (int i = 0; i < j; i++) VASSUME(lvar(g_clit[k][i]) != lvar(l));
            c.data[j].lit = toLit(l);
        }
        c.calcAbstraction();
    }
    {   Clause & u = clause_at(TMPUNIT);
        u.header.mark = 0; u.header.learnt = 0; u.header.has_extra = 1; u.header.reloced = 0; u.header.glue = 0; u.header.size = 1;
        u.data[0].lit = toLit(nondet_u8() & (2 * B_NV - 1)); u.data[1].abs = nondet_u32(); }
    S->bwdsub_tmpunit = cref_of(TMPUNIT);

    // occurrence lists: a live clause sits in the list of each of its variables; a removed clause may still sit in any list whose
    // variable is smudged (dirty) - lazy deletion, and strengthenClause shortens a removed binary clause after smudging
    int nd = 0;
    static int occ_n[B_NV];
    for (int v = 0; v < B_NV; v++) {
        buf_dirty[v] = nondet_bool();
        if (buf_dirty[v]) buf_dirties[nd++] = v;
        int n = 0;
        for (int k = 0; k < B_NC; k++) {
            bool in = g_mark[k] ? (buf_dirty[v] && nondet_bool()) : contains_var(k, v);
            if (in) occ_buf[v][n++] = cref_of(k);
        }
        occ_n[v] = n;
    }
#define B_PRE(n) if (B_NV > n) prealloc(ol##n, occ_buf[n < B_NV ? n : 0], B_NC, occ_n[n < B_NV ? n : 0]);
    B_LISTS(B_PRE)
    prealloc(S->occurs.dirty, buf_dirty, B_NV, B_NV);
    prealloc(S->occurs.dirties, buf_dirties, 2 * B_NV, nd);
    *reinterpret_cast<void const **>(&S->occurs.deleted) = (void const *)&S->ca;     // ClauseDeleted holds a reference to the allocator
    prealloc(S->n_occ, buf_nocc, 2 * B_NV, 2 * B_NV);
    for (int l = 0; l < 2 * B_NV; l++) buf_nocc[l] = nondet_u8() & 7;

    // subsumption queue: <= 2 clause references (live or removed clauses), ring buffer far from full
    int qn = nondet_u8(); VASSUME(qn >= 0 && qn <= 2);
    for (int i = 0; i < QCAP; i++) buf_queue[i] = CRef_Undef;
    for (int i = 0; i < 2; i++) { int k = nondet_u8(); VASSUME(k >= 0 && k < B_NC); buf_queue[i] = cref_of(k); }
    prealloc(S->subsumption_queue.buf, buf_queue, QCAP, QCAP);
    S->subsumption_queue.first = 0; S->subsumption_queue.end = qn;
    // proof logging off (resolutionProof == nullptr, zero storage)
    g_polls = g_stop = g_stop_answered = g_work_after_stop = 0;
    g_prop_calls = g_prop_conflict = g_removed = g_strengthen_units = 0;
}

extern "C" void h_bwdsub() {
    build();
    env_step();                                  // a request issued before the call
    bool verbose = nondet_bool();

    bool res = S->backwardSubsumptionCheck(verbose);

    // evidence of a derived top-level conflict: a clause of the DB was strengthened to a unit whose literal is false under the
    // level-0 assignment (enqueue failed), or the propagation of such a unit returned a conflict
    bool unit_false = false; int units = 0;
    for (int k = 0; k < B_NC; k++) {
        Clause & c = clause_at(k);
        if (c.size() == 1) {
            units++;
            int l = c.data[0].lit.x;
            if (l >= 0 && l < 2 * B_NV && toInt(S->assigns[lvar(l)]) == (uint8_t)((l & 1) ^ 1)) unit_false = true;
        }
    }
    if (!res) {
        VASSERT(g_prop_conflict || unit_false, "false only if strengthenClause derived a top-level conflict (unit literal false, or its propagation found a conflict) - never because of a stop");
        VASSERT(!g_stop_answered, "false is never returned once okContinue() answered stop");
        VWITNESS("bwdsub-conflict");
        if (g_prop_conflict) { VWITNESS("bwdsub-conflict-by-propagation"); }
        if (unit_false && !g_prop_conflict) { VWITNESS("bwdsub-conflict-unit-false"); }
        if (g_stop) { VWITNESS("bwdsub-conflict-with-stop-pending"); }
    } else {
        VASSERT(!g_prop_conflict, "a conflict found by the propagation of a derived unit is reported (false)");
        if (g_stop_answered) {
            VASSERT(S->subsumption_queue.size() == 0, "stop: the subsumption queue is cleared");
            VASSERT(S->bwdsub_assigns == S->trail.size(), "stop: bwdsub_assigns catches up with the trail");
            VASSERT(g_work_after_stop == 0, "stop: no clause is removed, strengthened or propagated after okContinue() answered stop");
            VWITNESS("bwdsub-stopped");
            if (g_removed > 0) { VWITNESS("bwdsub-stopped-after-removing-a-clause"); }
            if (units > 0) { VWITNESS("bwdsub-stopped-after-deriving-a-unit"); }
        } else {
            VASSERT(S->subsumption_queue.size() == 0 && S->bwdsub_assigns == S->trail.size(), "finished: queue empty and every level-0 literal was used");
            VWITNESS("bwdsub-finished");
            if (g_removed > 0) { VWITNESS("bwdsub-finished-subsumed-a-clause"); }
        }
    }
    VWITNESS("bwdsub-returns");
    reset_lists();
}

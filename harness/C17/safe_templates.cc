// C17 (model printing): the REAL NameClashResolver::getSafeTemplates (file-local class of src/api/Interpret.cc, included
// here). A function definition of the model whose formal arguments clash with user constants is printed with renamed
// formals; the printed (define-fun ...) must be closed: every formal that occurs in the body is one of the formals of the
// printed signature, and no formal of the printed signature is a user constant.
#include "verif.h"
#include <new>
#include "api/Interpret.cc"
using namespace opensmt;

// ---- bounded primitives of std::string (SSO only)
#define SB 16
extern "C" char * stub_ct_copy(char * d, const char * s, size_t n) {
    VASSERT(n <= SB, "bound: strings inside the SSO buffer");
    for (size_t i = 0; i < SB; i++) if (i < n) d[i] = s[i];
    return d;
}
extern "C" char * stub_ct_move(char * d, const char * s, size_t n) {
    VASSERT(n <= SB, "bound: strings inside the SSO buffer");
    char tmp[SB];
    for (size_t i = 0; i < SB; i++) if (i < n) tmp[i] = s[i];
    for (size_t i = 0; i < SB; i++) if (i < n) d[i] = tmp[i];
    return d;
}
extern "C" size_t stub_ct_length(const char * s) {
    for (size_t i = 0; i < SB; i++) if (s[i] == 0) return i;
    VASSERT(false, "bound: C strings shorter than 16");
    return 0;
}
extern "C" char * stub_str_create(std::string *, size_t &, size_t) { VASSERT(false, "bound: no heap-allocated string (SSO only)"); return nullptr; }
extern "C" void stub_str_destroy(std::string *, size_t) { VASSERT(false, "bound: no heap-allocated string to free (SSO only)"); }
static void sso_set(std::string * ret, const char * txt, int n) {
    ret->_M_dataplus._M_p = ret->_M_local_buf;
    for (int i = 0; i < 15; i++) ret->_M_local_buf[i] = i < n ? txt[i] : (char)0;
    ret->_M_local_buf[15] = 0;
    ret->_M_string_length = (size_t)n;
}
// std::to_string(unsigned) for values below 100
extern "C" void stub_to_string(std::string * ret, unsigned v) {
    VASSERT(v < 100, "bound: fewer than 100 fresh names");
    char t[2]; int n = 0;
    if (v >= 10) t[n++] = (char)('0' + (v / 10) % 10);
    t[n++] = (char)('0' + v % 10);
    sso_set(ret, t, n);
}

// ---- the universe: function symbol F with NARGS formals OLD0.., user constants = a symbolic subset of the old formals and
// of the fresh-name candidates. Terms: old formal i = 10 + i; the variable named "<p>!<k>" = 100 + k (p = x) / 200 + k (p = y)
#ifndef NARGS
#define NARGS 2
#endif
#define NCAND 6
static const uint32_t F_SYM = 7, BODY = 50, NEWBODY = 51, SORT = 3;
static bool forb_old[NARGS], forb_new[NCAND];
static bool foreign;
static bool is_forbidden(PTRef t) {
    for (int i = 0; i < NARGS; i++) if (t.x == 10u + i) return forb_old[i];
    for (int k = 0; k < NCAND; k++) if (t.x == 100u + k || t.x == 200u + k) return forb_new[k];
    foreign = true;
    return false;
}
using PSet = std::unordered_set<PTRef, PTRefHash>;
using SSet = std::unordered_set<SymRef, SymRefHash>;
using PNode = std::remove_pointer_t<decltype(std::declval<PSet::iterator>()._M_cur)>;
using SNode = std::remove_pointer_t<decltype(std::declval<SSet::iterator>()._M_cur)>;
static PNode pnode;            // any non-null node: find() != end()
static SNode snode;            // the one function to print (its _M_nxt is null: iteration ends after it)
extern "C" PSet::iterator stub_p_find(PSet *, PTRef const & k) { return PSet::iterator(is_forbidden(k) ? &pnode : nullptr); }
extern "C" PSet::iterator stub_p_end(PSet *) { return PSet::iterator(nullptr); }
extern "C" SSet::iterator stub_s_begin(SSet *) { return SSet::iterator(&snode); }
extern "C" SSet::iterator stub_s_end(SSet *) { return SSet::iterator(nullptr); }

static char fname[2];
extern "C" const char * stub_getName(void *, SymRef s) { if (s.x != F_SYM) foreign = true; return fname; }
extern "C" SRef stub_sortOfTerm(void *, PTRef) { return SRef{SORT}; }
extern "C" SRef stub_sortOfSym(void *, SymRef) { return SRef{SORT}; }
extern "C" bool stub_isVar(void *, PTRef) { return true; }
extern "C" void stub_protectName(std::string * ret, void *, std::string const *, bool) { sso_set(ret, fname, 1); }
extern "C" void stub_protectSym(std::string * ret, void *, SymRef s) { if (s.x != F_SYM) foreign = true; sso_set(ret, fname, 1); }
// Logic::mkVar(sort, name): the variable of that name (a function of the name)
static bool bad_name;
extern "C" PTRef stub_mkVar(void *, SRef, const char * nm, bool) {
    if (!((nm[0] == 'x' || nm[0] == 'y') && nm[1] == '!' && nm[2] >= '0' && nm[2] <= '9' && nm[3] == 0)) { bad_name = true; return PTRef{99}; }
    uint32_t k = (uint32_t)(nm[2] - '0');
    if (k >= NCAND) { bad_name = true; return PTRef{99}; }
    return PTRef{(nm[0] == 'x' ? 100u : 200u) + k};
}
// Model::getDefinition(F): (define-fun F (OLD0 .. OLDn-1) BODY)
extern "C" void stub_getDefinition(TemplateFunction * ret, void *, SymRef s) {
    if (s.x != F_SYM) foreign = true;
    vec<PTRef> args;
    for (int i = 0; i < NARGS; i++) args.push(PTRef{10u + i});
    std::string nm(fname, 1);
    ::new ((void *)ret) TemplateFunction(nm, args, SRef{SORT}, PTRef{BODY});
}
// the substitution handed to Substitutor: recorded pairs
static PTRef sub_from[NARGS + 1], sub_to[NARGS + 1]; static int nsub; static bool sub_overflow;
extern "C" void stub_subst_insert(void *, PTRef const & k, PTRef const & d) {
    if (nsub >= NARGS) { sub_overflow = true; return; }
    sub_from[nsub] = k; sub_to[nsub] = d; nsub++;
}
static int n_rewrite, nsub_at_rewrite; static PTRef rewritten;
extern "C" PTRef stub_rewrite(void *, PTRef body) { n_rewrite++; nsub_at_rewrite = nsub; rewritten = body; return PTRef{NEWBODY}; }

alignas(ArithLogic) static unsigned char rawLogic[sizeof(ArithLogic)];
alignas(Model) static unsigned char rawModel[sizeof(Model)];

extern "C" void h_safe_templates() {
    for (int i = 0; i < NARGS; i++) forb_old[i] = nondet_bool();
    for (int k = 0; k < NCAND; k++) forb_new[k] = nondet_bool();
    int nforb_new = 0; for (int k = 0; k < NCAND; k++) nforb_new += forb_new[k] ? 1 : 0;
    VASSUME(nforb_new <= 2);                                  // at most 2 user constants carry a fresh-candidate name
    bool occurs[NARGS]; for (int i = 0; i < NARGS; i++) occurs[i] = nondet_bool();      // which formals occur in the body
    fname[0] = nondet_bool() ? 'x' : 'f'; fname[1] = 0;
    ::new ((void *)snode._M_valptr()) SymRef{F_SYM};
    snode._M_nxt = nullptr;

    Logic & logic = *reinterpret_cast<Logic *>(rawLogic);
    Model const & model = *reinterpret_cast<Model const *>(rawModel);
    NameClashResolver resolver(logic);
    std::vector<TemplateFunction> res = resolver.getSafeTemplates(model);
    VASSERT(!foreign && !bad_name && !sub_overflow, "only the model's function, its formals and fresh names are looked up");
    VASSERT(res.size() == 1, "one printed definition per function");
    if (res.size() != 1) return;
    TemplateFunction const & tf = res[0];
    VASSERT(tf.getArgs().size() == NARGS, "the printed definition keeps its arity");
    if (tf.getArgs().size() != NARGS) return;
    bool clash = false; for (int i = 0; i < NARGS; i++) clash = clash || forb_old[i];
    if (!clash) {
        VWITNESS("no-clash");
        VASSERT(tf.getBody().x == BODY && n_rewrite == 0, "a definition without clash is printed as it is");
        for (int i = 0; i < NARGS; i++) VASSERT(tf.getArgs()[i].x == 10u + i, "a definition without clash keeps its formals");
        return;
    }
    VWITNESS("clash");
    VASSERT(n_rewrite == 1 && rewritten.x == BODY && tf.getBody().x == NEWBODY, "the printed body is the substituted body of the definition");
    for (int i = 0; i < NARGS; i++) {
        PTRef a = tf.getArgs()[i];
        VASSERT(!is_forbidden(a), "no formal of the printed definition is a user constant");
        for (int j = 0; j < NARGS; j++) if (j < i) VASSERT(tf.getArgs()[j].x != a.x, "the formals of the printed definition are distinct");
        // what the body holds in place of old formal i after the substitution
        PTRef img = PTRef{10u + i};
        for (int s = 0; s < NARGS; s++) if (s < nsub_at_rewrite && sub_from[s].x == 10u + i) img = sub_to[s];
        if (occurs[i]) {
            bool is_formal = false; for (int j = 0; j < NARGS; j++) if (tf.getArgs()[j].x == img.x) is_formal = true;
            VASSERT(is_formal, "every formal that occurs in the printed body is a formal of the printed signature (no free variable)");
            VASSERT(img.x == a.x, "formal i of the body becomes formal i of the printed signature");
        }
    }
    if (forb_old[0] && !forb_old[1] && occurs[1]) { VWITNESS("non-clashing-formal-in-body"); }
    if (forb_new[0]) { VWITNESS("fresh-name-taken"); }
}

/* C17 print_const: text interface of GMP and asprintf as bounded models (CBMC side only; the native replay build links the
 * real libgmp / libc functions). Appended after rt/gmp_model.c: uses its shadow-table accessors gz_get / gz_put. */
#define PC_CAP 24
#define PC_DIG 3
/* malloc / free of the code under test: every request gets a fresh object of the fixed size PC_CAP (a heap object of symbolic
 * size is intractable); requests above 22 bytes are outside the bound. free is a no-op. */
uint8_t *pc_malloc(uint64_t n) {
  __CPROVER_assert(n <= PC_CAP - 2, "bound: heap buffers of at most 22 bytes");
  uint8_t *b = (uint8_t *)malloc(PC_CAP);
  __CPROVER_assume(b != 0);
  return b;
}
void pc_free(uint8_t *p) { (void)p; }
/* between two printed constants: all mpz objects of the previous one are dead, their value slots are reused */
void pc_reset(void) { gmp_n = 1; }
static int pc_put_dec(uint8_t *b, int p, gz_t v) {
  __CPROVER_assert(v >= 0 && v <= 999, "bound: numerals printed by the GMP model are below 1000");
  __CPROVER_assume(v >= 0 && v <= 999);
  uint16_t w = (uint16_t)v;
  if (w >= 100) b[p++] = (uint8_t)('0' + w / 100);
  if (w >= 10) b[p++] = (uint8_t)('0' + (w / 10) % 10);
  b[p++] = (uint8_t)('0' + w % 10);
  return p;
}
/* mpq_set_str(q, s, 10):  [-]digits[/digits]  ->  0, anything else -> -1 (q unchanged). No canonicalisation, as in GMP. */
uint32_t __gmpq_set_str(mpq_m *q, uint8_t *s, uint32_t base) {
  __CPROVER_assert(base == 10, "mpq_set_str model: base 10 only");
  int i = 0, neg = 0, nd = 0;
  gz2_t n = 0, d = 1;
  if (s[i] == '-') { neg = 1; i++; }
  for (int k = 0; k < PC_DIG; k++) { if (s[i] >= '0' && s[i] <= '9') { n = n * 10 + (gz2_t)(s[i] - '0'); i++; nd++; } }
  if (nd == 0) return (uint32_t)-1;
  if (s[i] == '/') {
    i++; d = 0; nd = 0;
    for (int k = 0; k < PC_DIG; k++) { if (s[i] >= '0' && s[i] <= '9') { d = d * 10 + (gz2_t)(s[i] - '0'); i++; nd++; } }
    if (nd == 0) return (uint32_t)-1;
  }
  __CPROVER_assert(!(s[i] >= '0' && s[i] <= '9'), "bound: numerals read by the GMP model have at most 3 digits");
  if (s[i] != 0) return (uint32_t)-1;
  gz_put(&q->f0, neg ? -n : n);
  gz_put(&q->f1, d);
  return 0;
}
/* gmp_asprintf(&out, "%Qd", q):  "n" if the denominator is 1, else "n/d" */
uint32_t __gmp_asprintf(uint8_t **out, uint8_t *fmt, ...) {
  __CPROVER_assert(fmt[0] == '%' && fmt[1] == 'Q' && fmt[2] == 'd' && fmt[3] == 0, "gmp_asprintf model: format %Qd only");
  __builtin_va_list ap;
  __builtin_va_start(ap, fmt);
  mpq_m *q = __builtin_va_arg(ap, mpq_m *);
  __builtin_va_end(ap);
  gz_t n = gz_get(&q->f0), d = gz_get(&q->f1);
  uint8_t *b = pc_malloc(PC_CAP - 2);
  int p = 0;
  if (n < 0) { b[p++] = '-'; n = (gz_t)-n; }
  p = pc_put_dec(b, p, n);
  if (d != 1) { b[p++] = '/'; p = pc_put_dec(b, p, d); }
  b[p] = 0;
  *out = b;
  return (uint32_t)p;
}
/* asprintf(&out, fmt, ...): literal characters and %s conversions. The format may be a symbolic choice between string
 * literals (clang merges `c ? asprintf(&t, F1, a, b) : asprintf(&t, F2, a, b)` into one call), so both loops are short. */
#define PC_FMT 16
#define PC_ARG 5
uint32_t asprintf(uint8_t **out, uint8_t *fmt, ...) {
  __builtin_va_list ap;
  __builtin_va_start(ap, fmt);
  uint8_t *b = pc_malloc(PC_CAP - 2);
  int p = 0, i = 0;
  for (int k = 0; k < PC_FMT; k++) {
    uint8_t c = fmt[i];
    if (c == 0) break;
    i++;
    if (c == '%') {
      __CPROVER_assert(fmt[i] == 's', "asprintf model: %s conversions only");
      i++;
      uint8_t *s = __builtin_va_arg(ap, uint8_t *);
      int j = 0;
      for (; j < PC_ARG; j++) {
        if (s[j] == 0) break;
        b[p++] = s[j];
      }
      __CPROVER_assert(j < PC_ARG, "bound: asprintf string arguments shorter than 5 characters");
    } else {
      b[p++] = c;
    }
  }
  __CPROVER_assert(fmt[i] == 0, "bound: asprintf format shorter than 16 characters");
  __builtin_va_end(ap);
  __CPROVER_assert(p < PC_CAP - 2, "bound: asprintf output shorter than 22 characters");
  b[p] = 0;
  *out = b;
  return (uint32_t)p;
}

/* native (replay build) counterparts of the C-side helpers of print_const_rt.c; asprintf, gmp_asprintf and mpq_set_str are the real
 * library functions in the replay build */
#include <stdlib.h>
#include <stdint.h>
uint8_t *pc_malloc(uint64_t n) { return (uint8_t *)malloc(n); }
void pc_free(uint8_t *p) { (void)p; }
void pc_reset(void) {}

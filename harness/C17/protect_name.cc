// C17 (naming layer): the real Logic::protectName / hasQuotableChars / isReservedWord. The printed form of a user symbol
// must be lexically ONE symbol for OpenSMT's own lexer (smt2newlexer.ll) and must denote the original name.
#include "verif.h"
#include "logics/Logic.h"
#include "api/smt2tokens.h"
using namespace opensmt;

// one define for all three classes of names that protectName prints unquoted although the lexer does not read them as symbols
#ifdef KF_C17_UNQUOTED_NON_SYMBOLS
#define KF_C17_NUMBER_LIKE
#define KF_C17_BANG_UNDERSCORE
#define KF_C17_UPPERCASE_RESERVED
#endif

// ---- bounded primitives of std::string (every string here fits the 15-character SSO buffer)
#define SB 16
extern "C" char * stub_ct_copy(char * d, const char * s, size_t n) {
    VASSERT(n <= SB, "bound: strings inside the SSO buffer");
    for (size_t i = 0; i < SB; i++) if (i < n) d[i] = s[i];
    return d;
}
extern "C" char * stub_ct_move(char * d, const char * s, size_t n) {
    VASSERT(n <= SB, "bound: strings inside the SSO buffer");
    char tmp[SB];
    for (size_t i = 0; i < SB; i++) if (i < n) tmp[i] = s[i];
    for (size_t i = 0; i < SB; i++) if (i < n) d[i] = tmp[i];
    return d;
}
extern "C" int stub_ct_compare(const char * a, const char * b, size_t n) {
    VASSERT(n <= SB, "bound: strings inside the SSO buffer");
    for (size_t i = 0; i < SB; i++) if (i < n) { unsigned char x = (unsigned char)a[i], y = (unsigned char)b[i]; if (x != y) return x < y ? -1 : 1; }
    return 0;
}
extern "C" size_t stub_ct_length(const char * s) {
    for (size_t i = 0; i < 96; i++) if (s[i] == 0) return i;
    VASSERT(false, "bound: C strings shorter than 96");
    return 0;
}
extern "C" const char * stub_ct_find(const char * s, size_t n, const char & c) {
    VASSERT(n <= 96, "bound: character sets shorter than 96");
    for (size_t i = 0; i < 96; i++) { if (i >= n) break; if (s[i] == c) return s + i; }
    return nullptr;
}
extern "C" char * stub_str_create(std::string *, size_t &, size_t) { VASSERT(false, "bound: no heap-allocated string (SSO only)"); return nullptr; }
extern "C" void stub_str_destroy(std::string *, size_t) { VASSERT(false, "bound: no heap-allocated string to free (SSO only)"); }
extern "C" int stub_isdigit(int c) { return c >= '0' && c <= '9'; }

// ---- the candidate name, as a C array (the std::string handed to the code is built from it)
#define MAXN 16
static char nm[MAXN + 1]; static int nlen;
static bool streq(const char * a, int alen, const char * lit) { int i = 0; for (; i < alen; i++) { if (lit[i] == 0 || lit[i] != a[i]) return false; } return lit[i] == 0; }

// model of tokens::tokenNames (std::unordered_set<std::string>): find(name) != end() iff name is one of the words
// listed in src/api/smt2tokens.h
static const char token_names[][MAXN + 1] = { "none", "as", "decimal", "numeral", "par", "string", "exists", "forall", "assert", "check-sat",
    "declare-sort", "define-sort", "declare-fun", "declare-const", "define-fun", "exit", "get-assertions", "get-assignment", "get-info",
    "set-info", "get-option", "set-option", "get-proof", "get-unsat-core", "get-value", "get-model", "pop", "push", "set-logic",
    "get-interpolants", "theory", "write-state", "read-state", "simplify", "write-funs", "let", "echo" };
#define NTOK (int)(sizeof(token_names) / sizeof(token_names[0]))
using TokSet = std::unordered_set<std::string>;
static std::__detail::_Hash_node<std::string, true> dummy_node;
extern "C" TokSet::const_iterator stub_tok_find(TokSet const *, std::string const & k) {
    const char * p = k.data(); int n = (int)k.size();
    for (int w = 0; w < NTOK; w++) if (streq(p, n, token_names[w])) return TokSet::const_iterator(&dummy_node);
    return TokSet::const_iterator(nullptr);
}
extern "C" TokSet::const_iterator stub_tok_end(TokSet const *) { return TokSet::const_iterator(nullptr); }

// ---- OpenSMT's lexer (smt2newlexer.ll), as far as it decides whether a text is ONE symbol
static bool is_digit(char c) { return c >= '0' && c <= '9'; }
static bool is_sym_char(char c) {   // [a-zA-Z0-9~!@$%^&*_\-+=<>.?/']
    return (c >= 'a' && c <= 'z') || (c >= 'A' && c <= 'Z') || is_digit(c) || c == '~' || c == '!' || c == '@' || c == '$' || c == '%' || c == '^' ||
           c == '&' || c == '*' || c == '_' || c == '-' || c == '+' || c == '=' || c == '<' || c == '>' || c == '.' || c == '?' || c == '/' || c == '\'';
}
// words with their own token rule ahead of the symbol rule
static const char lexer_words[][MAXN + 1] = { "!", "_", "as", "DECIMAL", "exists", "forall", "let", "NUMERAL", "par", "STRING", "assert", "check-sat",
    "declare-sort", "declare-fun", "declare-const", "define-sort", "define-fun", "exit", "get-assertions", "get-assignment", "get-info", "get-option",
    "get-proof", "get-unsat-core", "get-value", "get-model", "pop", "push", "set-logic", "set-info", "set-option", "get-interpolants", "theory",
    "simplify", "echo" };
#define NLEX (int)(sizeof(lexer_words) / sizeof(lexer_words[0]))
// TK_NUM  0|-?[1-9][0-9]*(\/[1-9][0-9]*)?      TK_DEC  -?[0-9]+\.0*[0-9]+      (whole text)
static bool lex_is_num(const char * s, int n) {
    if (n == 1 && s[0] == '0') return true;
    int i = 0;
    if (i < n && s[i] == '-') i++;
    if (!(i < n && s[i] >= '1' && s[i] <= '9')) return false;
    while (i < n && is_digit(s[i])) i++;
    if (i == n) return true;
    if (s[i] != '/') return false;
    i++;
    if (!(i < n && s[i] >= '1' && s[i] <= '9')) return false;
    while (i < n && is_digit(s[i])) i++;
    return i == n;
}
static bool lex_is_dec(const char * s, int n) {
    int i = 0;
    if (i < n && s[i] == '-') i++;
    int d = 0; while (i < n && is_digit(s[i])) { i++; d++; }
    if (d == 0 || i >= n || s[i] != '.') return false;
    i++;
    d = 0; while (i < n && is_digit(s[i])) { i++; d++; }
    return d > 0 && i == n;
}
// text[0..n) is exactly one TK_SYM or one TK_QSYM; [*ds, *ds + *dl) is the name it denotes
static bool lex_one_symbol(const char * t, int n, int * ds, int * dl) {
    if (n >= 1 && t[0] == '|') {
        if (n < 2 || t[n - 1] != '|') return false;
        for (int i = 1; i < n - 1; i++) if (t[i] == '|' || t[i] == '\\') return false;
        *ds = 1; *dl = n - 2;
        return true;
    }
    if (n < 1 || is_digit(t[0])) return false;
    for (int i = 0; i < n; i++) if (!is_sym_char(t[i])) return false;
    if (lex_is_num(t, n) || lex_is_dec(t, n)) return false;
    for (int w = 0; w < NLEX; w++) if (streq(t, n, lexer_words[w])) return false;
    *ds = 0; *dl = n;
    return true;
}

static bool seen_quoted, seen_plain, seen_given_quoted;
static void check_name() {
    // legal names: what a script can declare (the parser strips the bars of |quoted| symbols: no '|' or '\' inside), or,
    // through the API, the same with its enclosing bars
    bool given_quoted = nlen >= 2 && nm[0] == '|' && nm[nlen - 1] == '|';
    int ns = given_quoted ? 1 : 0, nl = given_quoted ? nlen - 2 : nlen;
    for (int i = 0; i < MAXN; i++) if (i >= ns && i < ns + nl) VASSUME(nm[i] != '|' && nm[i] != '\\');
#ifdef KF_C17_NUMBER_LIKE
    VASSUME(!(lex_is_num(nm, nlen) || lex_is_dec(nm, nlen)));            // "-1", "-1/2", "-2.5" are printed unquoted
#endif
#ifdef KF_C17_BANG_UNDERSCORE
    VASSUME(!(nlen == 1 && (nm[0] == '!' || nm[0] == '_')));             // "!" and "_" are printed unquoted
#endif
#ifdef KF_C17_UPPERCASE_RESERVED
    VASSUME(!(streq(nm, nlen, "NUMERAL") || streq(nm, nlen, "DECIMAL") || streq(nm, nlen, "STRING")));
#endif
    nm[nlen] = 0;
    std::string name(nm, (size_t)nlen);
    unsigned char fake_logic[8];
    Logic const & logic = *reinterpret_cast<Logic const *>(fake_logic);  // the three functions read no member of Logic
    std::string out = logic.protectName(name, false);
    int olen = (int)out.size();
    VASSERT(olen <= MAXN + 2, "the printed form is the name, possibly with two bars");
    char o[MAXN + 3];
    for (int i = 0; i < MAXN + 2; i++) o[i] = i < olen ? out.data()[i] : 0;
    int ds = 0, dl = 0;
    bool one = lex_one_symbol(o, olen, &ds, &dl);
    VASSERT(one, "the printed form of a user symbol is lexically ONE symbol (TK_SYM or TK_QSYM) for OpenSMT's lexer");
    if (one) {
        VASSERT(dl == nl, "the printed symbol denotes a name of the original length");
        for (int i = 0; i < MAXN; i++) if (i < dl && i < nl) VASSERT(o[ds + i] == nm[ns + i], "the printed symbol denotes the original name");
        if (o[0] == '|' && !given_quoted) seen_quoted = true;
        if (o[0] != '|') seen_plain = true;
        if (given_quoted) seen_given_quoted = true;
    }
    // an interpreted (built-in) symbol is printed as it is
    std::string out2 = logic.protectName(name, true);
    VASSERT(out2.size() == name.size(), "an interpreted symbol is printed unchanged");
}

// every name of 1..3 characters over a 10-symbol alphabet
extern "C" void h_protect_short_names() {
    nlen = nondet_u8();
    VASSUME(nlen >= 1 && nlen <= 3);
    for (int i = 0; i < 3; i++) {
        char c = (char)nondet_u8();
        VASSUME(c == 'a' || c == '1' || c == '0' || c == '-' || c == '.' || c == '!' || c == '_' || c == ' ' || c == '|' || c == '\\');
        nm[i] = c;
    }
    check_name();
    VWITNESS("short-name-done");
    if (seen_quoted) { VWITNESS("quoted-by-protectName"); }
    if (seen_plain) { VWITNESS("printed-plain"); }
    if (seen_given_quoted) { VWITNESS("given-with-bars"); }
}

// the words of the lexer and of tokenNames (those of <= 13 characters: with two bars they still fit the SSO buffer), and
// number-like names longer than 3 characters
static const char words[][MAXN + 1] = { "!", "_", "as", "DECIMAL", "exists", "forall", "let", "NUMERAL", "par", "STRING", "assert", "check-sat",
    "declare-sort", "declare-fun", "declare-const", "define-sort", "define-fun", "exit", "get-info", "get-option",
    "get-proof", "get-value", "get-model", "pop", "push", "set-logic", "set-info", "set-option", "theory",
    "simplify", "echo", "none", "decimal", "numeral", "string", "write-state", "read-state", "write-funs",
    "-1.5", "-1/2", "-0.5", "-00.5", "-10", "-0", "-1a", "1.5", "0", "Numeral", "asx", "x!", "a_b", "+", "-", "a'b", "#b1", ":k", "a b" };
#define NWORDS (int)(sizeof(words) / sizeof(words[0]))
extern "C" void h_protect_words() {
    int w = nondet_u8();
    VASSUME(w >= 0 && w < NWORDS);
    nlen = 0;
    for (int k = 0; k < NWORDS; k++) if (k == w) { for (int i = 0; i < MAXN && words[k][i] != 0; i++) { nm[i] = words[k][i]; nlen = i + 1; } }
    check_name();
    VWITNESS("word-done");
    if (seen_quoted) { VWITNESS("quoted-by-protectName"); }
    if (seen_plain) { VWITNESS("printed-plain"); }
}

; EXISTING DEFECT 5 (unmodified code): get-unsat-core prints assertion names raw (NamedUnsatCore::printTerm,
; src/unsatcores/UnsatCore.cc:37), so names that need quoting come out as several tokens / reserved words:
;   (
;   a b
;   let
;   )
; Expected |a b| and |let|.
(set-option :produce-unsat-cores true)
(set-logic QF_LIA)
(declare-fun x () Int)
(assert (! (> x 1) :named |a b|))
(assert (! (< x 0) :named |let|))
(assert (! (< x 10) :named c))
(check-sat)
(get-unsat-core)

; EXISTING DEFECT 3 (unmodified code): Logic::dumpWithLets names its let-bound variables ?def0, ?def1, ... without checking
; that the formula does not use these (legal) symbols. A user constant called ?def0 is captured by the binder:
;   (let ((?def0 (or p q)))
;   (let ((?def1 (and ?def0 ?def0))) ?def1))
; One ?def0 in the conjunction was meant to be the user's constant, the other the let variable; read back, both denote the let
; variable, so the first dumped assertion is just (or p q). The original script is unsat, the dumped query (fed back to
; opensmt or any other solver) is sat.
(set-option :dump-query true)
(set-logic QF_UF)
(declare-fun ?def0 () Bool)
(declare-fun p () Bool)
(declare-fun q () Bool)
(assert (and ?def0 (or p q)))
(assert (not ?def0))
(check-sat)

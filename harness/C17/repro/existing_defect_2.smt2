; EXISTING DEFECT 2 (unmodified code): names of user sorts are never quoted (SStore::sortToString / Logic::dumpHeaderToFile
; print getSortSymName raw). Both the dumped query and the model are syntactically invalid:
;   (declare-sort my sort 0)      (declare-fun v () my sort)      (define-fun v () my sort (as @4 my sort))
; In the same dump the default element of every uninterpreted sort is "declared" as
;   (declare-const (as @d4 U) () U)       -- invalid: declare-const with an argument list and a qualified identifier
;   (declare-fun .uf-not (Bool ) Bool)   (declare-fun ite (Bool U U ) U)   -- internal / built-in symbols get declared too
(set-option :dump-query true)
(set-option :produce-models true)
(set-logic QF_UF)
(declare-sort U 0)
(declare-sort |my sort| 0)
(declare-fun u () U)
(declare-fun v () |my sort|)
(declare-fun w () |my sort|)
(assert (= v w))
(check-sat)
(get-model)

; EXISTING DEFECT 1 (unmodified code, HEAD 8f83689): get-model prints the definition of a function that the
; egraph never saw (Model::getDefinition, src/models/Model.cc:113, passes the raw symbol name to TemplateFunction
; instead of logic.protectName(sr) as ModelBuilder does) without quoting the name.
; Observed:   (define-fun f g ((x0 Int)) Int 0)        -- not valid SMT-LIB
; Expected:   (define-fun |f g| ((x0 Int)) Int 0)
; Also seen here: get-value echoes the queried terms without quotes (printAstTermNode in src/api/Interpret.cc prints
; the raw AST strings): prints  ((f g 3) (|f g| 3))(let 0)((+ a b 1) 1))  -- "(f g 3)", "let", "(+ a b 1)" are not the terms
; that were asked for; and the "value" of (|f g| 3) is the term itself, not a value.
(set-option :produce-models true)
(set-logic QF_UFLIA)
(declare-fun |f g| (Int) Int)
(declare-fun |let| () Int)
(declare-fun |a b| () Int)
(check-sat)
(get-model)
(get-value ((|f g| 3) |let| (+ |a b| 1)))

; EXISTING DEFECT 4 (unmodified code): an overloaded nullary symbol whose name needs quoting is not disambiguated.
; Logic::disambiguateName strips the bars into a std::string_view and PtStore::isAmbiguousNullarySymbolName
; (src/pterms/PtStore.cc:39) looks up name.data(), which is not terminated at the end of the view ("a b|"), so the lookup
; fails. Compare c (printed "(as c Int)" / "(as c Bool)") with |a b| (printed "|a b|" for both the Int and the Bool constant):
;   interpolant: ((<= 1 (+ |a b| (* (- 1) y))))        dump: (or |a b| (as c Bool) ?def0)
; The dumped header also contains  (declare-fun (as c Int) () Int)  which is not valid SMT-LIB.
; get-value on a qualified identifier prints "((" and then stops (logic_error "Unsupported term type" in printAstTermNode).
(set-option :produce-models true)
(set-option :produce-interpolants true)
(set-option :dump-query true)
(set-logic QF_LIA)
(declare-fun |a b| () Int)
(declare-fun |a b| () Bool)
(declare-fun c () Int)
(declare-fun c () Bool)
(declare-fun y () Int)
(assert (! (and (> (as |a b| Int) y) (> (as c Int) y)) :named A))
(assert (! (and (or (as |a b| Bool) (as c Bool)) (< (as |a b| Int) y)) :named B))
(check-sat)
(get-interpolants A B)

; EXISTING DEFECT 6 (unmodified code): the empty symbol || is legal SMT-LIB; it is printed as nothing:
;   (define-fun  () Int 4)
; (Logic::protectName calls name.front()/name[0] on the empty string; the assert is compiled out in release builds.)
(set-option :produce-models true)
(set-logic QF_LIA)
(declare-fun || () Int)
(assert (> || 3))
(check-sat)
(get-model)

// C17 (number printing): the REAL numeric-constant branch of ArithLogic::termToSMT2StringImpl. The symbol name of a numeric
// constant is the canonical text ArithLogic::mkConst stores ("n", "-n", "n/d", "-n/d"); what is printed for it must be
// an SMT-LIB constant term  N | (- N) | (/ N D) | (/ (- N) D)  (a negated divisor is read too) and must denote the SAME
// rational, sign included.
// Real: termToSMT2StringImpl, stringToRational, normalize, FastRational(const char*), sign/negate/get_str/print_, and the
// std::string code they use. Models: GMP (rt/gmp_model.c + text interface in print_const_rt.c), asprintf (print_const_rt.c),
// the iostream objects (append-to-buffer models below), malloc (fresh fixed-size buffers, print_const_rt.c).
#include "verif.h"
#include <new>
#include <sstream>
#include <string>
#include "logics/ArithLogic.h"
#include "common/StringConv.h"
using namespace opensmt;

// ---- bounded primitives of std::string (every string here fits the 15-character SSO buffer)
#define SB 16
extern "C" char * stub_ct_copy(char * d, const char * s, size_t n) {
    VASSERT(n <= SB, "bound: strings inside the SSO buffer");
    for (size_t i = 0; i < SB; i++) if (i < n) d[i] = s[i];
    return d;
}
extern "C" char * stub_ct_move(char * d, const char * s, size_t n) {
    VASSERT(n <= SB, "bound: strings inside the SSO buffer");
    char tmp[SB];
    for (size_t i = 0; i < SB; i++) if (i < n) tmp[i] = s[i];
    for (size_t i = 0; i < SB; i++) if (i < n) d[i] = tmp[i];
    return d;
}
extern "C" int stub_ct_compare(const char * a, const char * b, size_t n) {
    VASSERT(n <= SB, "bound: strings inside the SSO buffer");
    for (size_t i = 0; i < SB; i++) if (i < n) { unsigned char x = (unsigned char)a[i], y = (unsigned char)b[i]; if (x != y) return x < y ? -1 : 1; }
    return 0;
}
extern "C" size_t stub_ct_length(const char * s) {
    for (size_t i = 0; i < SB; i++) if (s[i] == 0) return i;
    VASSERT(false, "bound: C strings shorter than 16");
    return 0;
}
extern "C" const char * stub_ct_find(const char * s, size_t n, const char & c) {
    VASSERT(n <= SB, "bound: strings inside the SSO buffer");
    for (size_t i = 0; i < SB; i++) { if (i >= n) break; if (s[i] == c) return s + i; }
    return nullptr;
}
extern "C" char * stub_str_create(std::string *, size_t &, size_t) { VASSERT(false, "bound: no heap-allocated string (SSO only)"); return nullptr; }
extern "C" void stub_str_destroy(std::string *, size_t) { VASSERT(false, "bound: no heap-allocated string to free (SSO only)"); }

// ---- iostream objects: one append-only text buffer per live stream object, found through the address of its std::ostream part
#define NS 3
#define CAP 24
struct StreamModel { const void * os; int len; char buf[CAP]; };
static StreamModel streams[NS];
static bool stream_lost;
static StreamModel * stream_new(const void * os) {
    for (int k = 0; k < NS; k++) if (streams[k].os == nullptr) { streams[k].os = os; streams[k].len = 0; return &streams[k]; }
    VASSERT(false, "bound: at most 3 live stream objects");
    return &streams[0];
}
static StreamModel * stream_of(const void * os) {
    for (int k = 0; k < NS; k++) if (streams[k].os == os) return &streams[k];
    stream_lost = true;
    VASSERT(false, "stream model: output to a stream object that was not constructed through the modelled constructors");
    return &streams[0];
}
static void put(StreamModel * s, char c) {
    VASSERT(s->len < CAP - 1, "bound: stream contents shorter than 24 characters");
    if (s->len < CAP - 1) s->buf[s->len++] = c;
}
static void put_text(StreamModel * s, const char * p, long n) {
    VASSERT(n >= 0 && n < CAP, "bound: stream contents shorter than 24 characters");
    for (long i = 0; i < CAP; i++) { if (i >= n) break; put(s, p[i]); }
}
static void put_cstr(StreamModel * s, const char * p) {
    for (int i = 0; i < CAP; i++) { if (p[i] == 0) return; put(s, p[i]); }
    VASSERT(false, "bound: C strings written to a stream are shorter than 24 characters");
}
static void put_unsigned(StreamModel * s, unsigned long v) {
    VASSERT(v <= 9999, "bound: numerals written to a stream are below 10000");
    VASSUME(v <= 9999);
    uint16_t w = (uint16_t)v;
    char d3 = (char)('0' + w / 1000), d2 = (char)('0' + (w / 100) % 10), d1 = (char)('0' + (w / 10) % 10), d0 = (char)('0' + w % 10);
    if (w >= 1000) put(s, d3);
    if (w >= 100) put(s, d2);
    if (w >= 10) put(s, d1);
    put(s, d0);
}
static void put_signed(StreamModel * s, long v) {
    if (v < 0) { put(s, '-'); put_unsigned(s, (unsigned long)(-(v + 1)) + 1); } else put_unsigned(s, (unsigned long)v);
}
// the std::string returned by str(): the contents fit libstdc++'s 15-character local buffer, the object is filled in directly
// (libstdc++ layout: pointer to the local buffer, length, NUL-terminated characters)
static void sso_make(std::string * ret, StreamModel * s) {
    VASSERT(s->len <= 15, "bound: stream contents fit the SSO buffer of the returned std::string");
    ret->_M_dataplus._M_p = ret->_M_local_buf;
    for (int i = 0; i < 15; i++) ret->_M_local_buf[i] = i < s->len ? s->buf[i] : (char)0;
    ret->_M_local_buf[15] = 0;
    ret->_M_string_length = s->len <= 15 ? (size_t)s->len : 15;
}
extern "C" {
// constructors / destructors of std::stringstream and std::ostringstream (default open mode, empty contents)
void stub_ss_ctor(std::stringstream * self) { stream_new(static_cast<std::ostream *>(self)); }
void stub_ss_dtor(std::stringstream * self) { stream_of(static_cast<std::ostream *>(self))->os = nullptr; }
void stub_oss_ctor(std::ostringstream * self) { stream_new(static_cast<std::ostream *>(self)); }
void stub_oss_dtor(std::ostringstream * self) { stream_of(static_cast<std::ostream *>(self))->os = nullptr; }
// str(): a std::string with the buffer's contents (sso_make)
void stub_ss_str(std::string * ret, std::stringstream const * self) { sso_make(ret, stream_of(static_cast<std::ostream const *>(self))); }
void stub_oss_str(std::string * ret, std::ostringstream const * self) { sso_make(ret, stream_of(static_cast<std::ostream const *>(self))); }
// inserters
std::ostream * stub_os_cstr(std::ostream * os, const char * p) { put_cstr(stream_of(os), p); return os; }
std::ostream * stub_os_char(std::ostream * os, char c) { put(stream_of(os), c); return os; }
std::ostream * stub_os_string(std::ostream * os, std::string const * str) { put_text(stream_of(os), str->data(), (long)str->size()); return os; }
std::ostream * stub_os_insert(std::ostream * os, const char * p, long n) { put_text(stream_of(os), p, n); return os; }
std::ostream * stub_os_int(std::ostream * os, int v) { put_signed(stream_of(os), v); return os; }
std::ostream * stub_os_uint(std::ostream * os, unsigned v) { put_unsigned(stream_of(os), v); return os; }
std::ostream * stub_os_long(std::ostream * os, long v) { put_signed(stream_of(os), v); return os; }
std::ostream * stub_os_ulong(std::ostream * os, unsigned long v) { put_unsigned(stream_of(os), v); return os; }
}

// ---- the term table: ONE node, a numeric constant whose symbol name is `name`
#define MAXNAME 8
static char name[MAXNAME];
static Pterm * the_term;
static const uint32_t TERM = 5, SYM = 9;
static bool foreign_ref;
extern "C" Pterm * stub_pterm(void *, PTRef r) { if (r.x != TERM) foreign_ref = true; return the_term; }
extern "C" bool stub_isNumConst(void *, PTRef r) { if (r.x != TERM) foreign_ref = true; return true; }
extern "C" const char * stub_getName(void *, SymRef s) { if (s.x != SYM) foreign_ref = true; return name; }
extern "C" void stub_strconv_ctor(strConvException * e, const char *) { e->reason = nullptr; }

alignas(ArithLogic) static unsigned char rawLogic[sizeof(ArithLogic)];

// ---- reference reader: the four SMT-LIB shapes of a numeric constant, numerals are 0 | [1-9][0-9]*
static bool is_dig(char c) { return c >= '0' && c <= '9'; }
// numeral at t[*p..): value in *v, position advanced; false if there is none / it has a leading zero / more than 3 digits
static bool read_numeral(const char * t, int n, int * p, uint16_t * v) {
    int i = *p; uint16_t acc = 0; int nd = 0;
    for (int k = 0; k < 4; k++) { if (i < n && is_dig(t[i])) { acc = (uint16_t)(acc * 10 + (t[i] - '0')); i++; nd++; } }
    if (nd == 0 || nd > 3) return false;
    if (nd > 1 && t[*p] == '0') return false;
    *p = i; *v = acc;
    return true;
}
static bool read_lit(const char * t, int n, int * p, const char * lit) {
    int i = *p;
    for (int k = 0; lit[k] != 0; k++) { if (!(i < n) || t[i] != lit[k]) return false; i++; }
    *p = i;
    return true;
}
// [-]N in SMT-LIB form:  N | (- N)
static bool read_signed(const char * t, int n, int * p, bool * neg, uint16_t * v) {
    int i = *p;
    if (read_lit(t, n, &i, "(- ")) {
        if (!read_numeral(t, n, &i, v) || !read_lit(t, n, &i, ")")) return false;
        *neg = true; *p = i;
        return true;
    }
    *neg = false;
    return read_numeral(t, n, p, v);
}
static bool read_constant(const char * t, int n, bool * neg, uint16_t * num, uint16_t * den, bool * frac) {
    int i = 0;
    if (read_lit(t, n, &i, "(/ ")) {
        *frac = true;
        if (!read_signed(t, n, &i, neg, num)) return false;
        if (!read_lit(t, n, &i, " ")) return false;
        bool dneg = false;                        // a reader also accepts a negated numeral as divisor: (/ N (- D)) denotes -N/D
        if (!read_signed(t, n, &i, &dneg, den) || *den == 0) return false;
        if (dneg) *neg = !*neg;
        if (!read_lit(t, n, &i, ")")) return false;
        return i == n;
    }
    *frac = false; *den = 1;
    if (!read_signed(t, n, &i, neg, num)) return false;
    return i == n;
}

#ifndef MAXNUM
#define MAXNUM 12
#endif
#ifndef MAXDEN
#define MAXDEN 6
#endif
#define OUTMAX 15

static bool seen_negfrac, seen_negint, seen_posfrac, seen_int, seen_two_digit;
extern "C" void pc_reset();        // print_const_rt.c: gives the GMP model's value slots back (one constant at a time)

// prints the constant n/d (lowest terms) and reads the text back
static void check_one(int8_t n, uint8_t d) {
    uint8_t a = (uint8_t)(n < 0 ? -n : n);
    // the symbol name as ArithLogic::mkConst stores it: FastRational::get_str / gmp "%Qd":  [-]N  or  [-]N/D
    int p = 0;
    if (n < 0) name[p++] = '-';
    if (a >= 10) name[p++] = (char)('0' + a / 10);
    name[p++] = (char)('0' + a % 10);
    if (d != 1) { name[p++] = '/'; name[p++] = (char)('0' + d); }
    name[p] = 0;
    pc_reset();
    the_term = static_cast<Pterm *>(malloc(sizeof(Pterm)));
    the_term->header.type = 0; the_term->header.has_extra = 0; the_term->header.reloced = 0; the_term->header.noscoping = 0; the_term->header.size = 0;
    the_term->id.x = 0; the_term->sym = SymRef{SYM};
    ArithLogic const & logic = *reinterpret_cast<ArithLogic const *>(rawLogic);

    bool threw = false;
    char o[OUTMAX + 1]; int olen = 0;
    try {
        std::string out = logic.ArithLogic::termToSMT2StringImpl(PTRef{TERM}, false);     // qualified: no vtable in the raw object
        olen = (int)out.size();
        VASSERT(olen <= OUTMAX, "the printed constant is at most 15 characters long");
        for (int i = 0; i < OUTMAX; i++) o[i] = i < olen ? out.data()[i] : 0;
    } catch (...) { threw = true; }
    VASSERT(!threw, "printing a numeric constant raises no exception");
    if (threw || olen > OUTMAX) return;
    VASSERT(!foreign_ref && !stream_lost, "only the given term and its symbol are looked up");

    bool rneg = false, frac = false; uint16_t rn = 0, rd = 1;
    bool ok = read_constant(o, olen, &rneg, &rn, &rd, &frac);
    VASSERT(ok, "the printed numeric constant is an SMT-LIB constant term: S or (/ S S) with S a numeral N or (- N), divisor not 0");
    if (!ok) return;
    // same rational: magnitude by cross-multiplication (all values < 1000), then the sign
    VASSERT((uint32_t)rn * d == (uint32_t)a * rd, "the printed numeric constant reads back with the magnitude of the constant's value");
    VASSERT(rn == 0 ? !rneg : rneg == (n < 0), "the printed numeric constant reads back with the sign of the constant's value");
    if (n < 0 && d != 1) seen_negfrac = true;
    if (n < 0 && d == 1) seen_negint = true;
    if (n > 0 && d != 1) seen_posfrac = true;
    if (n >= 0 && d == 1) seen_int = true;
    if (a >= 10 && d != 1) seen_two_digit = true;
}
static void witnesses() {
    if (seen_negfrac) { VWITNESS("negative-fraction"); }
    if (seen_negint) { VWITNESS("negative-integer"); }
    if (seen_posfrac) { VWITNESS("positive-fraction"); }
    if (seen_int) { VWITNESS("integer"); }
    if (seen_two_digit) { VWITNESS("two-digit-numerator"); }
}

// one symbolic constant n/d
extern "C" void h_print_const() {
    int8_t n = (int8_t)nondet_u8(); uint8_t d = nondet_u8();
    VASSUME(n >= -MAXNUM && n <= MAXNUM && d >= 1 && d <= MAXDEN);
    uint8_t a = (uint8_t)(n < 0 ? -n : n);
    for (uint8_t g = 2; g <= MAXDEN; g++) VASSUME(!(a % g == 0 && d % g == 0));     // lowest terms (0 only as 0/1)
    check_one(n, d);
    witnesses();
}

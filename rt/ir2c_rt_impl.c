/* Definitions for ir2c_rt.h: appended (by #include) at the end of every generated file so that the
 * ABI entry points get the prototypes the IR declared. Part of the trusted base. */
#ifndef __CPROVER__
int ir2c_assert_failed;
int ir2c_assume_failed;
/* replay: inputs come from the file named by IR2C_INPUTS (one decimal value per line) */
static FILE *ir2c_inf;
static uint64_t ir2c_next_input(void) {
  unsigned long long v = 0;
  if (!ir2c_inf) { const char *p = getenv("IR2C_INPUTS"); if (p) ir2c_inf = fopen(p, "r"); }
  if (ir2c_inf && fscanf(ir2c_inf, "%llu", &v) == 1) return v;
  return 0;
}
unsigned __int128 ir2c_next_input128(void) {
  char buf[64]; unsigned __int128 v = 0;
  if (!ir2c_inf) { const char *p = getenv("IR2C_INPUTS"); if (p) ir2c_inf = fopen(p, "r"); }
  if (ir2c_inf && fscanf(ir2c_inf, "%60s", buf) == 1) { for (char *c = buf; *c >= '0' && *c <= '9'; c++) v = v * 10 + (unsigned)(*c - '0'); }
  return v;
}
uint8_t nondet_u8(void) { return (uint8_t)ir2c_next_input(); }
uint16_t nondet_u16(void) { return (uint16_t)ir2c_next_input(); }
uint32_t nondet_u32(void) { return (uint32_t)ir2c_next_input(); }
uint64_t nondet_u64(void) { return (uint64_t)ir2c_next_input(); }
#endif

uint8_t ir2c_in_u8; uint16_t ir2c_in_u16; uint32_t ir2c_in_u32; uint64_t ir2c_in_u64;
uint8_t *_ZTVN10__cxxabiv117__class_type_infoE[8];
uint8_t *_ZTVN10__cxxabiv120__si_class_type_infoE[8];
uint8_t *_ZTVN10__cxxabiv121__vmi_class_type_infoE[8];
uint8_t *_ZTVN10__cxxabiv119__pointer_type_infoE[8];
uint8_t *_ZTVN10__cxxabiv123__fundamental_type_infoE[8];

__thread void *ir2c_exc_obj;
__thread int ir2c_exc_flag;
/* stack of caught exceptions (begin_catch .. end_catch), for rethrow */
__thread void *ir2c_caught[4];
__thread int ir2c_ncaught;

struct ir2c_exc_header { void *ti; void *dtor; };

void *ir2c_exc_typeinfo(void *obj) { return ((struct ir2c_exc_header *)((char *)obj - sizeof(struct ir2c_exc_header)))->ti; }

int ir2c_exc_match(void *obj, void *catch_ti) {
  struct ir2c_typeinfo *t = (struct ir2c_typeinfo *)ir2c_exc_typeinfo(obj);
  for (int depth = 0; depth < 6; depth++) {
    if ((void *)t == catch_ti) return 1;
    if (t->vptr == (void *)&ir2c_si_class_vt) { t = (struct ir2c_typeinfo *)t->base; continue; }
    __CPROVER_assert(t->vptr != (void *)&ir2c_vmi_class_vt, "ir2c: multiple-inheritance typeinfo in catch matching not modelled");
    return 0;
  }
  __CPROVER_assert(0, "ir2c: typeinfo chain too deep");
  return 0;
}

uint8_t *__cxa_allocate_exception(uint64_t sz) {
  char *p = (char *)malloc(sz + sizeof(struct ir2c_exc_header));
  __CPROVER_assume(p != 0);
  return (uint8_t *)(p + sizeof(struct ir2c_exc_header));
}
void __cxa_free_exception(uint8_t *obj) { (void)obj; }
void __cxa_throw(uint8_t *obj, uint8_t *ti, uint8_t *dtor) {
  struct ir2c_exc_header *h = (struct ir2c_exc_header *)((char *)obj - sizeof(struct ir2c_exc_header));
  h->ti = ti; h->dtor = dtor;
  ir2c_exc_obj = obj; ir2c_exc_flag = 1;
}
uint8_t *__cxa_begin_catch(uint8_t *obj) {
  __CPROVER_assert(ir2c_ncaught < 4, "ir2c: caught-exception stack overflow");
  ir2c_caught[ir2c_ncaught++] = obj;
  return obj;
}
void __cxa_end_catch(void) {
  __CPROVER_assert(ir2c_ncaught > 0, "ir2c: end_catch without begin_catch");
  ir2c_ncaught--;
}
void __cxa_rethrow(void) {
  __CPROVER_assert(ir2c_ncaught > 0, "ir2c: rethrow without caught exception");
  ir2c_exc_obj = ir2c_caught[ir2c_ncaught - 1]; ir2c_exc_flag = 1;
}
void _ZSt9terminatev(void) { __CPROVER_assert(0, "std::terminate called"); __CPROVER_assume(0); }
uint32_t __cxa_guard_acquire(uint64_t *g) { if (*(uint8_t *)g) return 0; return 1; }
void __cxa_guard_release(uint64_t *g) { *(uint8_t *)g = 1; }
void __cxa_guard_abort(uint64_t *g) { (void)g; }
void __cxa_pure_virtual(void) { __CPROVER_assert(0, "pure virtual call"); __CPROVER_assume(0); }

/* operator new / delete: allocation failure is outside every property (stated in DESIGN 1.3) */
uint8_t *_Znwm(uint64_t n) { uint8_t *p = (uint8_t *)malloc(n ? n : 1); __CPROVER_assume(p != 0); return p; }
uint8_t *_Znam(uint64_t n) { uint8_t *p = (uint8_t *)malloc(n ? n : 1); __CPROVER_assume(p != 0); return p; }
void _ZdlPv(uint8_t *p) { free(p); }
void _ZdaPv(uint8_t *p) { free(p); }
void _ZdlPvm(uint8_t *p, uint64_t n) { (void)n; free(p); }
/* destructors registered at exit are outside every harness */
#ifdef IR2C_NEED___cxa_thread_atexit
uint32_t __cxa_thread_atexit(void (*f)(uint8_t *), uint8_t *a, uint8_t *b) { (void)f; (void)a; (void)b; return 0; }
#endif
#ifdef IR2C_NEED___cxa_atexit
uint32_t __cxa_atexit(void (*f)(uint8_t *), uint8_t *a, uint8_t *b) { (void)f; (void)a; (void)b; return 0; }
#endif

/* Native (real GMP) counterparts of the C-side harness helpers of rt/fr_oracle.c, used only by the
 * counterexample replay build. Layout of opensmt::FastRational: { u8 state; i32 num; u32 den; mpq_ptr }. */
#include <gmp.h>
#include <stdint.h>
#include <stdlib.h>
struct fr_native { uint8_t state; int32_t num; uint32_t den; mpq_ptr mpq; };
mpq_ptr vfr_pool_alloc(void *pool) { (void)pool; mpq_ptr q = (mpq_ptr)malloc(sizeof(__mpq_struct)); mpq_init(q); return q; }
void vfr_pool_release(void *pool, mpq_ptr q) { (void)pool; (void)q; }
uint8_t vfr_state(struct fr_native *x) { return x->state; }
void vfr_make_int(struct fr_native *x, uint64_t v) {
  int64_t n = (int64_t)v;
  x->mpq = 0;
  if (n >= INT32_MIN && n <= INT32_MAX) { x->state = 1; x->num = (int32_t)n; x->den = 1; return; }
  mpq_ptr q = vfr_pool_alloc(0);
  mpz_set_si(mpq_numref(q), n); mpz_set_ui(mpq_denref(q), 1);
  x->mpq = q; x->state = 6; x->num = 0; x->den = 1;
}

/* GMP as exact bounded integers (trusted base, see DESIGN 1.3).
 * An mpz_t keeps its value in a shadow table indexed by an id stored in _mp_alloc; _mp_size carries the
 * sign (gmp.h's mpz_sgn/mpq_sgn macros read it directly). Every operation is exact or asserts
 * "outside GMP-model range"; harnesses bound their operands so that this never fires on valid runs.
 * Included at the end of a generated file: uses the generated struct tags. */
#ifndef GMP_MODEL_N
#define GMP_MODEL_N 14
#endif
#ifdef IR2C_SCALE
typedef IR2C_SBV(IR2C_SCALE * 4 + 1) gz_t;        /* holds any 4W-bit magnitude */
typedef IR2C_SBV(IR2C_SCALE * 8 + 2) gz2_t;      /* products of two gz_t */
typedef IR2C_UBV(IR2C_SCALE * 4 + 1) ugz_t;
#define GZ_MAX ((gz2_t)(((gz2_t)1 << (IR2C_SCALE * 4)) - 1))
#define GZ_W32 IR2C_SCALE
#define GZ_W64 (IR2C_SCALE * 2)
#elif defined(GMP_MODEL_BITS)
/* full-width code on operands that the harness bounds to a few bits: a narrow exact model keeps the oracle cheap;
 * every value is still range-checked ("outside GMP-model range") */
typedef IR2C_SBV(GMP_MODEL_BITS) gz_t;
typedef IR2C_SBV(2 * GMP_MODEL_BITS + 2) gz2_t;
typedef IR2C_UBV(GMP_MODEL_BITS) ugz_t;
#define GZ_MAX ((gz2_t)(((gz2_t)1 << (GMP_MODEL_BITS - 1)) - 1))
#define GZ_W32 32
#define GZ_W64 64
#define GZ_NARROW 1
#else
typedef __int128 gz_t;
typedef __int128 gz2_t;            /* no wider native type: products are range-checked before multiplying */
typedef unsigned __int128 ugz_t;
#define GZ_MAX ((((__int128)1) << 126) - 1)
#define GZ_W32 32
#define GZ_W64 64
#endif
typedef struct S_struct_mpz_struct mpz_m;
typedef struct S_struct_mpq_struct mpq_m;

static gz_t gmp_val[GMP_MODEL_N];
static int gmp_n = 1;

static int gz_id(const mpz_m *z) {
  int id = (int)z->f0;
  __CPROVER_assert(id >= 1 && id < gmp_n, "gmp model: mpz used before init");
  __CPROVER_assume(id >= 1 && id < gmp_n);
  return id;
}
static gz_t gz_get(const mpz_m *z) { return gmp_val[gz_id(z)]; }
static void gz_put(mpz_m *z, gz2_t v) {
  __CPROVER_assert(v <= GZ_MAX && v >= -GZ_MAX, "outside GMP-model range");
  __CPROVER_assume(v <= GZ_MAX && v >= -GZ_MAX);
  gmp_val[gz_id(z)] = (gz_t)v;
  z->f1 = (uint32_t)(v < 0 ? -1 : (v > 0 ? 1 : 0));
}
#if !defined(IR2C_SCALE) && !defined(GZ_NARROW)
static int gz_mul_fits(gz_t a, gz_t b) {
  /* |a|,|b| < 2^63 guarantees |a*b| < 2^126 */
  gz_t lim = ((gz_t)1) << 63;
  return a < lim && a > -lim && b < lim && b > -lim;
}
#define GZ_MUL(a, b) (__CPROVER_assert(gz_mul_fits(a, b), "outside GMP-model range (product)"), (gz2_t)(a) * (gz2_t)(b))
#else
#define GZ_MUL(a, b) ((gz2_t)(a) * (gz2_t)(b))
#endif

void __gmpz_init(mpz_m *z) {
  __CPROVER_assert(gmp_n < GMP_MODEL_N, "gmp model: too many mpz objects");
  __CPROVER_assume(gmp_n < GMP_MODEL_N);
  z->f0 = (uint32_t)gmp_n; gmp_val[gmp_n] = 0; gmp_n++; z->f1 = 0; z->f2 = 0;
}
#ifdef GMP_MODEL_LIFO_CLEAR
/* opt-in (c_defines): clearing the most recently initialised object gives its slot back, so that the slot counter stays
 * a constant across branches that create and destroy temporaries (mpz_class expression temporaries die in LIFO order) */
void __gmpz_clear(mpz_m *z) { if ((int)z->f0 == gmp_n - 1 && gmp_n > 1) { gmp_n--; z->f0 = 0; } }
#else
void __gmpz_clear(mpz_m *z) { (void)z; }
#endif
void __gmpq_init(mpq_m *q) { __gmpz_init(&q->f0); __gmpz_init(&q->f1); gz_put(&q->f1, 1); }
void __gmpq_clear(mpq_m *q) { (void)q; }
void __gmpz_set(mpz_m *r, mpz_m *a) { gz_put(r, gz_get(a)); }
void __gmpz_init_set(mpz_m *r, mpz_m *a) { __gmpz_init(r); gz_put(r, gz_get(a)); }
static gz2_t gz_sx64(uint64_t v) {
#ifdef IR2C_SCALE
  return (gz2_t)(IR2C_SBV(GZ_W64))(IR2C_UBV(GZ_W64))v;
#elif defined(GZ_NARROW)
  __int128 w_ = (int64_t)v;
  __CPROVER_assert(w_ <= (__int128)GZ_MAX && w_ >= -(__int128)GZ_MAX, "outside GMP-model range (narrow model)");
  __CPROVER_assume(w_ <= (__int128)GZ_MAX && w_ >= -(__int128)GZ_MAX);
  return (gz2_t)w_;
#else
  return (gz2_t)(int64_t)v;
#endif
}
static gz2_t gz_zx64(uint64_t v) {
#ifdef IR2C_SCALE
  return (gz2_t)(IR2C_UBV(GZ_W64))v;
#elif defined(GZ_NARROW)
  unsigned __int128 u_ = v;
  __CPROVER_assert(u_ <= (unsigned __int128)GZ_MAX, "outside GMP-model range (narrow model)");
  __CPROVER_assume(u_ <= (unsigned __int128)GZ_MAX);
  return (gz2_t)u_;
#else
  return (gz2_t)(unsigned __int128)v;
#endif
}
void __gmpz_set_si(mpz_m *r, uint64_t v) { gz_put(r, gz_sx64(v)); }
void __gmpz_set_ui(mpz_m *r, uint64_t v) { gz_put(r, gz_zx64(v)); }
void __gmpz_init_set_si(mpz_m *r, uint64_t v) { __gmpz_init(r); gz_put(r, gz_sx64(v)); }
void __gmpz_init_set_ui(mpz_m *r, uint64_t v) { __gmpz_init(r); gz_put(r, gz_zx64(v)); }
void __gmpq_set_ui(mpq_m *q, uint64_t n, uint64_t d) { gz_put(&q->f0, gz_zx64(n)); gz_put(&q->f1, gz_zx64(d)); }
void __gmpq_set_si(mpq_m *q, uint64_t n, uint64_t d) { gz_put(&q->f0, gz_sx64(n)); gz_put(&q->f1, gz_zx64(d)); }
void __gmpq_set(mpq_m *r, mpq_m *a) { gz_put(&r->f0, gz_get(&a->f0)); gz_put(&r->f1, gz_get(&a->f1)); }
void __gmpq_neg(mpq_m *r, mpq_m *a) { gz_t n = gz_get(&a->f0), d = gz_get(&a->f1); gz_put(&r->f0, -(gz2_t)n); gz_put(&r->f1, d); }
void __gmpz_neg(mpz_m *r, mpz_m *a) { gz_put(r, -(gz2_t)gz_get(a)); }
void __gmpz_abs(mpz_m *r, mpz_m *a) { gz_t v = gz_get(a); gz_put(r, v < 0 ? -(gz2_t)v : (gz2_t)v); }

#define GZ_POW(w) (((gz2_t)1) << (w))
#ifdef GZ_NARROW   /* every model value has fewer than 31 bits: it fits every machine type of its sign */
uint32_t __gmpz_fits_sint_p(mpz_m *z) { (void)gz_get(z); return 1; }
uint32_t __gmpz_fits_uint_p(mpz_m *z) { return gz_get(z) >= 0 ? 1 : 0; }
uint32_t __gmpz_fits_slong_p(mpz_m *z) { (void)gz_get(z); return 1; }
uint32_t __gmpz_fits_ulong_p(mpz_m *z) { return gz_get(z) >= 0 ? 1 : 0; }
#else
uint32_t __gmpz_fits_sint_p(mpz_m *z) { gz_t v = gz_get(z); return (v >= -GZ_POW(GZ_W32 - 1) && v < GZ_POW(GZ_W32 - 1)) ? 1 : 0; }
uint32_t __gmpz_fits_uint_p(mpz_m *z) { gz_t v = gz_get(z); return (v >= 0 && v < GZ_POW(GZ_W32)) ? 1 : 0; }
uint32_t __gmpz_fits_slong_p(mpz_m *z) { gz_t v = gz_get(z); return (v >= -GZ_POW(GZ_W64 - 1) && v < GZ_POW(GZ_W64 - 1)) ? 1 : 0; }
uint32_t __gmpz_fits_ulong_p(mpz_m *z) { gz_t v = gz_get(z); return (v >= 0 && v < GZ_POW(GZ_W64)) ? 1 : 0; }
#endif
/* mpz_get_si / mpz_get_ui: low bits with the sign of the value (GMP semantics) */
uint64_t __gmpz_get_ui(mpz_m *z) {
  gz_t v = gz_get(z); ugz_t a = (ugz_t)(v < 0 ? -v : v);
#ifdef IR2C_SCALE
  return (uint64_t)(IR2C_UBV(GZ_W64))a;
#else
  return (uint64_t)a;
#endif
}
uint64_t __gmpz_get_si(mpz_m *z) {
  gz_t v = gz_get(z); ugz_t a = (ugz_t)(v < 0 ? -v : v);
#ifdef IR2C_SCALE
  /* GMP: size>0: zl & LONG_MAX ; size<0: -1 - ((zl-1) & LONG_MAX) */
  IR2C_UBV(GZ_W64) m = (IR2C_UBV(GZ_W64))(GZ_POW(GZ_W64 - 1) - 1);
  IR2C_UBV(GZ_W64) lo = (IR2C_UBV(GZ_W64))a;
  if (v > 0) lo = lo & m; else if (v < 0) lo = (IR2C_UBV(GZ_W64))(0 - 1 - ((lo - 1) & m));
  return (uint64_t)lo;
#else
  uint64_t lo = (uint64_t)a;
  if (v > 0) return lo & 0x7fffffffffffffffULL;
  if (v < 0) return (uint64_t)0 - 1 - ((lo - 1) & 0x7fffffffffffffffULL);
  return 0;
#endif
}

/* exact gcd by specification: g>0 divides both, cofactors coprime (Bezout witness).  */
#ifdef __CPROVER__
gz_t nondet_gz(void);
#else
static gz_t nondet_gz(void) { return (gz_t)ir2c_next_input128(); }
#endif
static gz_t ir2c_in_gz;   /* every nondet of the model passes through this cell so that traces list it */
#define GZ_NONDET() (ir2c_in_gz = nondet_gz())
static gz_t gz_gcd(gz_t a, gz_t b) {
  if (a < 0) a = -a;
  if (b < 0) b = -b;
  if (a == 0) return b;
  if (b == 0) return a;
  if (a == 1 || b == 1) return 1;
  gz_t g = GZ_NONDET(), x = GZ_NONDET(), y = GZ_NONDET();
  __CPROVER_assume(g >= 1 && g <= a && g <= b);
  gz_t ca = a / g, cb = b / g;
  __CPROVER_assume(ca * g == a && cb * g == b);
  __CPROVER_assume(x >= -cb && x <= cb && y >= -ca && y <= ca);
  __CPROVER_assume((gz2_t)x * (gz2_t)ca + (gz2_t)y * (gz2_t)cb == 1);
  return g;
}
static void gq_put_canon(mpq_m *r, gz2_t n, gz2_t d) {
  __CPROVER_assert(d != 0, "gmp model: zero denominator");
  __CPROVER_assume(d != 0);
  __CPROVER_assert(n <= GZ_MAX && n >= -GZ_MAX && d <= GZ_MAX && d >= -GZ_MAX, "outside GMP-model range");
  __CPROVER_assume(n <= GZ_MAX && n >= -GZ_MAX && d <= GZ_MAX && d >= -GZ_MAX);
  if (d < 0) { n = -n; d = -d; }
  gz_t g = gz_gcd((gz_t)n, (gz_t)d);
  gz_put(&r->f0, (gz_t)n / g); gz_put(&r->f1, (gz_t)d / g);
}
void __gmpq_canonicalize(mpq_m *q) { gq_put_canon(q, gz_get(&q->f0), gz_get(&q->f1)); }
#ifdef GMP_OPAQUE_ARITH
/* Opaque mode: an mpq operation is RECORDED (kind, exact operand values) and yields an arbitrary canonical rational.
 * The oracle then checks that the real code called the right operation on the right operands and handled the
 * result correctly, without re-verifying this model's arithmetic against itself (which no back end here finishes). */
#ifndef GMP_OPAQUE_BITS
#define GMP_OPAQUE_BITS 10
#endif
static int gq_nops, gq_kind;
static gz_t gq_an, gq_ad, gq_bn, gq_bd, gq_rn, gq_rd;
static int gq_coprime_assumed(gz_t a, gz_t b) {
  if (a < 0) a = -a;
  if (a == 0) return b == 1;
  if (a == 1 || b == 1) return 1;
  gz_t x = GZ_NONDET(), y = GZ_NONDET();
  __CPROVER_assume(x >= -b && x <= b && y >= -a && y <= a);
  return (gz2_t)x * a + (gz2_t)y * b == 1;
}
static void gq_opaque(int kind, mpq_m *r, mpq_m *a, mpq_m *b) {
  gq_kind = kind; gq_nops++;
  gq_an = gz_get(&a->f0); gq_ad = gz_get(&a->f1);
  if (b) { gq_bn = gz_get(&b->f0); gq_bd = gz_get(&b->f1); } else { gq_bn = 0; gq_bd = 1; }
  gz_t rn = GZ_NONDET(), rd = GZ_NONDET();
  __CPROVER_assume(rd >= 1 && rd < ((gz_t)1 << GMP_OPAQUE_BITS) && rn > -((gz_t)1 << GMP_OPAQUE_BITS) && rn < ((gz_t)1 << GMP_OPAQUE_BITS));
  __CPROVER_assume(gq_coprime_assumed(rn, rd));
  gq_rn = rn; gq_rd = rd;
  gz_put(&r->f0, rn); gz_put(&r->f1, rd);
}
void __gmpq_add(mpq_m *r, mpq_m *a, mpq_m *b) { gq_opaque(0, r, a, b); }
void __gmpq_sub(mpq_m *r, mpq_m *a, mpq_m *b) { gq_opaque(1, r, a, b); }
void __gmpq_mul(mpq_m *r, mpq_m *a, mpq_m *b) { gq_opaque(2, r, a, b); }
void __gmpq_div(mpq_m *r, mpq_m *a, mpq_m *b) {
  __CPROVER_assert(gz_get(&b->f0) != 0, "gmp: mpq_div by zero");
  gq_opaque(3, r, a, b);
}
#else
void __gmpq_add(mpq_m *r, mpq_m *a, mpq_m *b) {
  gz_t an = gz_get(&a->f0), ad = gz_get(&a->f1), bn = gz_get(&b->f0), bd = gz_get(&b->f1);
  gq_put_canon(r, GZ_MUL(an, bd) + GZ_MUL(bn, ad), GZ_MUL(ad, bd));
}
void __gmpq_sub(mpq_m *r, mpq_m *a, mpq_m *b) {
  gz_t an = gz_get(&a->f0), ad = gz_get(&a->f1), bn = gz_get(&b->f0), bd = gz_get(&b->f1);
  gq_put_canon(r, GZ_MUL(an, bd) - GZ_MUL(bn, ad), GZ_MUL(ad, bd));
}
void __gmpq_mul(mpq_m *r, mpq_m *a, mpq_m *b) {
  gz_t an = gz_get(&a->f0), ad = gz_get(&a->f1), bn = gz_get(&b->f0), bd = gz_get(&b->f1);
  gq_put_canon(r, GZ_MUL(an, bn), GZ_MUL(ad, bd));
}
void __gmpq_div(mpq_m *r, mpq_m *a, mpq_m *b) {
  gz_t an = gz_get(&a->f0), ad = gz_get(&a->f1), bn = gz_get(&b->f0), bd = gz_get(&b->f1);
  __CPROVER_assert(bn != 0, "gmp: mpq_div by zero");
  __CPROVER_assume(bn != 0);
  gq_put_canon(r, GZ_MUL(an, bd), GZ_MUL(ad, bn));
}
#endif
void __gmpq_inv(mpq_m *r, mpq_m *a) {
  gz_t an = gz_get(&a->f0), ad = gz_get(&a->f1);
  __CPROVER_assert(an != 0, "gmp: mpq_inv of zero");
  __CPROVER_assume(an != 0);
  if (an < 0) { gz_put(&r->f0, -(gz2_t)ad); gz_put(&r->f1, -(gz2_t)an); } else { gz_put(&r->f0, ad); gz_put(&r->f1, an); }
}
uint32_t __gmpq_cmp(mpq_m *a, mpq_m *b) {
  gz_t an = gz_get(&a->f0), ad = gz_get(&a->f1), bn = gz_get(&b->f0), bd = gz_get(&b->f1);
  gz2_t l = GZ_MUL(an, bd), r = GZ_MUL(bn, ad);
  return (uint32_t)(l < r ? -1 : (l > r ? 1 : 0));
}
uint32_t __gmpq_equal(mpq_m *a, mpq_m *b) {
  return (gz_get(&a->f0) == gz_get(&b->f0) && gz_get(&a->f1) == gz_get(&b->f1)) ? 1 : 0;
}
uint32_t __gmpz_cmp(mpz_m *a, mpz_m *b) { gz_t x = gz_get(a), y = gz_get(b); return (uint32_t)(x < y ? -1 : (x > y ? 1 : 0)); }
uint32_t __gmpz_cmp_si(mpz_m *a, uint64_t v) { gz_t x = gz_get(a); gz2_t y = gz_sx64(v); return (uint32_t)(x < y ? -1 : (x > y ? 1 : 0)); }
uint32_t __gmpz_cmp_ui(mpz_m *a, uint64_t v) { gz_t x = gz_get(a); gz2_t y = gz_zx64(v); return (uint32_t)(x < y ? -1 : (x > y ? 1 : 0)); }
/* bit operations (ipartitions_t): GMP defines them on the infinite two's complement representation, which is what the
 * signed gz_t carries (sign-extended); bit indices must stay below GZ_BITS */
#ifdef IR2C_SCALE
#define GZ_BITS (IR2C_SCALE * 4 - 1)
#else
#define GZ_BITS 120
#endif
/* size / magnitude queries and power-of-two scaling */
uint64_t __gmpz_sizeinbase(mpz_m *z, uint32_t base) {
  __CPROVER_assert(base == 2, "gmp model: mpz_sizeinbase is modelled for base 2 only");
  gz_t v = gz_get(z); if (v < 0) v = -v;
  /* loop-free: position of the highest set bit by conditional halving (no unwinding bound needed); GMP: the result for 0 is 1 */
  uint64_t n = 0; gz_t t = v;
#define GZ_SIZE_STEP(k) if ((k) <= GZ_BITS && (t >> ((k) <= GZ_BITS ? (k) : 0)) != 0) { n += (k); t = t >> ((k) <= GZ_BITS ? (k) : 0); }
  GZ_SIZE_STEP(64) GZ_SIZE_STEP(32) GZ_SIZE_STEP(16) GZ_SIZE_STEP(8) GZ_SIZE_STEP(4) GZ_SIZE_STEP(2) GZ_SIZE_STEP(1)
  return n + 1;
}
uint32_t __gmpz_cmpabs(mpz_m *a, mpz_m *b) { gz_t x = gz_get(a), y = gz_get(b); if (x < 0) x = -x; if (y < 0) y = -y; return (uint32_t)(x < y ? -1 : (x > y ? 1 : 0)); }
uint32_t __gmpz_cmpabs_ui(mpz_m *a, uint64_t v) { gz_t x = gz_get(a); if (x < 0) x = -x; gz2_t y = gz_zx64(v); return (uint32_t)(x < y ? -1 : (x > y ? 1 : 0)); }
void __gmpq_get_num(mpz_m *r, mpq_m *q) { gz_put(r, gz_get(&q->f0)); }
void __gmpq_get_den(mpz_m *r, mpq_m *q) { gz_put(r, gz_get(&q->f1)); }
void __gmpq_set_num(mpq_m *q, mpz_m *z) { gz_put(&q->f0, gz_get(z)); }
void __gmpq_set_den(mpq_m *q, mpz_m *z) { gz_put(&q->f1, gz_get(z)); }
void __gmpz_and(mpz_m *r, mpz_m *a, mpz_m *b) { gz_put(r, (gz2_t)(gz_t)(gz_get(a) & gz_get(b))); }
void __gmpz_ior(mpz_m *r, mpz_m *a, mpz_m *b) { gz_put(r, (gz2_t)(gz_t)(gz_get(a) | gz_get(b))); }
void __gmpz_xor(mpz_m *r, mpz_m *a, mpz_m *b) { gz_put(r, (gz2_t)(gz_t)(gz_get(a) ^ gz_get(b))); }
void __gmpz_com(mpz_m *r, mpz_m *a) { gz_put(r, -(gz2_t)gz_get(a) - 1); }
uint32_t __gmpz_tstbit(mpz_m *a, uint64_t bit) {
  gz_t x = gz_get(a);
  if (bit >= GZ_BITS) return x < 0 ? 1 : 0;
  return (uint32_t)((x >> bit) & 1);
}
void __gmpz_setbit(mpz_m *r, uint64_t bit) {
  __CPROVER_assert(bit < GZ_BITS, "outside GMP-model range (bit index)");
  __CPROVER_assume(bit < GZ_BITS);
  gz_put(r, (gz2_t)(gz_t)(gz_get(r) | (gz_t)((gz_t)1 << bit)));
}
void __gmpz_clrbit(mpz_m *r, uint64_t bit) {
  __CPROVER_assert(bit < GZ_BITS, "outside GMP-model range (bit index)");
  __CPROVER_assume(bit < GZ_BITS);
  gz_put(r, (gz2_t)(gz_t)(gz_get(r) & ~(gz_t)((gz_t)1 << bit)));
}
void __gmpz_gcd(mpz_m *r, mpz_m *a, mpz_m *b) { gz_put(r, gz_gcd(gz_get(a), gz_get(b))); }
void __gmpz_lcm(mpz_m *r, mpz_m *a, mpz_m *b) {
  gz_t x = gz_get(a), y = gz_get(b);
  if (x == 0 || y == 0) { gz_put(r, 0); return; }
  if (x < 0) x = -x;
  if (y < 0) y = -y;
  gz_t g = gz_gcd(x, y);
  gz_put(r, GZ_MUL(x / g, y));
}
void __gmpz_fdiv_q(mpz_m *r, mpz_m *n, mpz_m *d) {
  gz_t a = gz_get(n), b = gz_get(d);
  __CPROVER_assert(b != 0, "gmp: division by zero");
  __CPROVER_assume(b != 0);
  gz_t q = a / b;
  if (a % b != 0 && ((a < 0) != (b < 0))) q = q - 1;
  gz_put(r, q);
}
void __gmpz_cdiv_q(mpz_m *r, mpz_m *n, mpz_m *d) {
  gz_t a = gz_get(n), b = gz_get(d);
  __CPROVER_assert(b != 0, "gmp: division by zero");
  __CPROVER_assume(b != 0);
  gz_t q = a / b;
  if (a % b != 0 && ((a < 0) == (b < 0))) q = q + 1;
  gz_put(r, q);
}
void __gmpz_tdiv_q(mpz_m *r, mpz_m *n, mpz_m *d) {
  gz_t a = gz_get(n), b = gz_get(d);
  __CPROVER_assert(b != 0, "gmp: division by zero");
  __CPROVER_assume(b != 0);
  gz_put(r, a / b);
}
void __gmpz_divexact(mpz_m *r, mpz_m *n, mpz_m *d) {
  gz_t a = gz_get(n), b = gz_get(d);
  __CPROVER_assert(b != 0, "gmp: division by zero");
  __CPROVER_assume(b != 0);
  /* GMP: undefined result unless d divides n; the model returns the truncated quotient */
  gz_put(r, a / b);
}
/* further mpz/mpq entry points a change of the code under test may plausibly start to use (same exact bounded-integer model) */
void __gmpz_add(mpz_m *r, mpz_m *a, mpz_m *b) { gz_put(r, (gz2_t)gz_get(a) + (gz2_t)gz_get(b)); }
void __gmpz_sub(mpz_m *r, mpz_m *a, mpz_m *b) { gz_put(r, (gz2_t)gz_get(a) - (gz2_t)gz_get(b)); }
void __gmpz_mul(mpz_m *r, mpz_m *a, mpz_m *b) { gz_t x = gz_get(a), y = gz_get(b); gz_put(r, GZ_MUL(x, y)); }
void __gmpz_add_ui(mpz_m *r, mpz_m *a, uint64_t v) { gz_put(r, (gz2_t)gz_get(a) + gz_zx64(v)); }
void __gmpz_sub_ui(mpz_m *r, mpz_m *a, uint64_t v) { gz_put(r, (gz2_t)gz_get(a) - gz_zx64(v)); }
void __gmpz_ui_sub(mpz_m *r, uint64_t v, mpz_m *a) { gz_put(r, gz_zx64(v) - (gz2_t)gz_get(a)); }
void __gmpz_mul_si(mpz_m *r, mpz_m *a, uint64_t v) { gz_t x = gz_get(a), y = (gz_t)gz_sx64(v); gz_put(r, GZ_MUL(x, y)); }
void __gmpz_mul_ui(mpz_m *r, mpz_m *a, uint64_t v) { gz_t x = gz_get(a), y = (gz_t)gz_zx64(v); gz_put(r, GZ_MUL(x, y)); }
void __gmpz_swap(mpz_m *a, mpz_m *b) { gz_t x = gz_get(a), y = gz_get(b); gz_put(a, y); gz_put(b, x); }
static gz_t gz_rem(gz_t a, gz_t b, int mode) {   /* mode 0: trunc, 1: floor, 2: ceil */
  __CPROVER_assert(b != 0, "gmp: division by zero");
  __CPROVER_assume(b != 0);
  gz_t q = a / b;
  if (mode == 1 && a % b != 0 && ((a < 0) != (b < 0))) q = q - 1;
  if (mode == 2 && a % b != 0 && ((a < 0) == (b < 0))) q = q + 1;
  return (gz_t)((gz2_t)a - (gz2_t)q * (gz2_t)b);
}
void __gmpz_tdiv_r(mpz_m *r, mpz_m *n, mpz_m *d) { gz_put(r, gz_rem(gz_get(n), gz_get(d), 0)); }
void __gmpz_fdiv_r(mpz_m *r, mpz_m *n, mpz_m *d) { gz_put(r, gz_rem(gz_get(n), gz_get(d), 1)); }
void __gmpz_cdiv_r(mpz_m *r, mpz_m *n, mpz_m *d) { gz_put(r, gz_rem(gz_get(n), gz_get(d), 2)); }
void __gmpz_mod(mpz_m *r, mpz_m *n, mpz_m *d) { gz_t b = gz_get(d); gz_put(r, gz_rem(gz_get(n), b < 0 ? -b : b, 1)); }
void __gmpz_tdiv_qr(mpz_m *q, mpz_m *r, mpz_m *n, mpz_m *d) { gz_t a = gz_get(n), b = gz_get(d); gz_t m = gz_rem(a, b, 0); gz_put(q, (a - m) / b); gz_put(r, m); }
void __gmpz_fdiv_qr(mpz_m *q, mpz_m *r, mpz_m *n, mpz_m *d) { gz_t a = gz_get(n), b = gz_get(d); gz_t m = gz_rem(a, b, 1); gz_put(q, (a - m) / b); gz_put(r, m); }
void __gmpz_cdiv_qr(mpz_m *q, mpz_m *r, mpz_m *n, mpz_m *d) { gz_t a = gz_get(n), b = gz_get(d); gz_t m = gz_rem(a, b, 2); gz_put(q, (a - m) / b); gz_put(r, m); }
void __gmpq_abs(mpq_m *r, mpq_m *a) { gz_t n = gz_get(&a->f0), d = gz_get(&a->f1); gz_put(&r->f0, n < 0 ? -(gz2_t)n : (gz2_t)n); gz_put(&r->f1, d); }
void __gmpq_set_z(mpq_m *q, mpz_m *z) { gz_put(&q->f0, gz_get(z)); gz_put(&q->f1, 1); }
void __gmpq_swap(mpq_m *a, mpq_m *b) { gz_t an = gz_get(&a->f0), ad = gz_get(&a->f1), bn = gz_get(&b->f0), bd = gz_get(&b->f1); gz_put(&a->f0, bn); gz_put(&a->f1, bd); gz_put(&b->f0, an); gz_put(&b->f1, ad); }
/* mpq_get_d: nearest-toward-zero conversion of n/d; only integral values are modelled exactly */
double __gmpq_get_d(mpq_m *q) {
  gz_t n = gz_get(&q->f0), d = gz_get(&q->f1);
  __CPROVER_assert(d == 1, "gmp model: mpq_get_d only modelled for integers");
#ifdef IR2C_SCALE
  return (double)(int64_t)n;
#else
#ifdef __CPROVER__
  __CPROVER_rounding_mode = 3; /* toward zero, as GMP truncates */
  double r = (double)n;
  __CPROVER_rounding_mode = 0;
  return r;
#else
  return (double)(long long)n;   /* executable twin: values beyond 2^53 are not replayed through this path */
#endif
#endif
}

/* ---- harness API (extern "C" in harness/include/vgmp.h) */
void vgmp_set_si(mpz_m *z, uint64_t v) { gz_put(z, gz_sx64(v)); }
void vgmp_set_i128(mpz_m *z, uint64_t hi, uint64_t lo) {
#ifdef IR2C_SCALE
  gz_put(z, (gz2_t)(((gz2_t)gz_sx64(hi) << GZ_W64) | gz_zx64(lo)));
#else
  gz_put(z, (gz2_t)(((unsigned __int128)hi << 64) | lo));
#endif
}
uint8_t vgmp_is(mpz_m *z, uint64_t hi, uint64_t lo) {
#ifdef IR2C_SCALE
  return gz_get(z) == (gz_t)(((gz2_t)gz_sx64(hi) << GZ_W64) | gz_zx64(lo));
#else
  return gz_get(z) == (__int128)(((unsigned __int128)hi << 64) | lo);
#endif
}
/* value as (signed) 64-bit (scaled: 2W-bit) integer; asserts that it fits */
uint64_t vgmp_get_si(mpz_m *z) {
  gz_t v = gz_get(z);
  __CPROVER_assert(v >= -GZ_POW(GZ_W64 - 1) && v < GZ_POW(GZ_W64 - 1), "vgmp_get_si: value does not fit lword");
#ifdef IR2C_SCALE
  return (uint64_t)(IR2C_UBV(GZ_W64))(IR2C_SBV(GZ_W64))v;
#else
  return (uint64_t)(int64_t)v;
#endif
}
uint8_t vgmp_fits_si(mpz_m *z) { gz_t v = gz_get(z); return v >= -GZ_POW(GZ_W64 - 1) && v < GZ_POW(GZ_W64 - 1); }

/* Models of libstdc++ / libc entry points that are declared but not defined in the IR (trusted base).
 * Each model is compiled only when the generated file references it (IR2C_NEED_<name>), because it
 * uses the struct tags that ir2c generated for that module. */
#ifdef IR2C_NEED__ZNSt9exceptionD2Ev
void _ZNSt9exceptionD2Ev(struct S_class_std_exception *e) { (void)e; }
#endif
#ifdef IR2C_NEED___errno_location
static uint32_t ir2c_errno;
uint32_t *__errno_location(void) { return &ir2c_errno; }
#endif

/* Models of libstdc++ / libc entry points that are declared but not defined in the IR (trusted base).
 * Each model is compiled only when the generated file references it (IR2C_NEED_<name>), because it
 * uses the struct tags that ir2c generated for that module. */
#ifdef IR2C_NEED__ZNSt9exceptionD2Ev
void _ZNSt9exceptionD2Ev(struct S_class_std_exception *e) { (void)e; }
#endif
#ifdef IR2C_NEED___errno_location
static uint32_t ir2c_errno;
uint32_t *__errno_location(void) { return &ir2c_errno; }
#endif
/* std::__throw_* helpers: throw a std exception object (what() text not modelled) */
static void ir2c_throw_std(void *ti) {
  uint8_t *e = __cxa_allocate_exception(16);
  __cxa_throw(e, (uint8_t *)ti, 0);
}
#ifdef IR2C_NEED__ZSt17__throw_bad_allocv
struct ir2c_typeinfo ir2c_ti_bad_alloc = { (void *)&ir2c_class_vt, "St9bad_alloc", 0 };
void _ZSt17__throw_bad_allocv(void) { ir2c_throw_std(&ir2c_ti_bad_alloc); }
#endif
#ifdef IR2C_NEED__ZSt28__throw_bad_array_new_lengthv
struct ir2c_typeinfo ir2c_ti_bad_array_new_length = { (void *)&ir2c_class_vt, "St20bad_array_new_length", 0 };
void _ZSt28__throw_bad_array_new_lengthv(void) { ir2c_throw_std(&ir2c_ti_bad_array_new_length); }
#endif
#ifdef IR2C_NEED__ZSt20__throw_length_errorPKc
struct ir2c_typeinfo ir2c_ti_length_error = { (void *)&ir2c_class_vt, "St12length_error", 0 };
void _ZSt20__throw_length_errorPKc(uint8_t *msg) { (void)msg; ir2c_throw_std(&ir2c_ti_length_error); }
#endif
#ifdef IR2C_NEED__ZSt24__throw_out_of_range_fmtPKcz
struct ir2c_typeinfo ir2c_ti_out_of_range = { (void *)&ir2c_class_vt, "St12out_of_range", 0 };
void _ZSt24__throw_out_of_range_fmtPKcz(uint8_t *msg, ...) { (void)msg; ir2c_throw_std(&ir2c_ti_out_of_range); }
#endif
#ifdef IR2C_NEED__ZSt19__throw_logic_errorPKc
struct ir2c_typeinfo ir2c_ti_logic_error = { (void *)&ir2c_class_vt, "St11logic_error", 0 };
void _ZSt19__throw_logic_errorPKc(uint8_t *msg) { (void)msg; ir2c_throw_std(&ir2c_ti_logic_error); }
#endif
/* std exception classes: constructors/destructors are no-ops (the message text is not modelled; what() is outside the model) */
#ifdef IR2C_NEED__ZNSt13runtime_errorC1EPKc
void _ZNSt13runtime_errorC1EPKc(struct S_class_std_runtime_error *e, uint8_t *msg) { (void)e; (void)msg; }
#endif
#ifdef IR2C_NEED__ZNSt13runtime_errorC1ERKNSt7__cxx1112basic_stringIcSt11char_traitsIcESaIcEEE
void _ZNSt13runtime_errorC1ERKNSt7__cxx1112basic_stringIcSt11char_traitsIcESaIcEEE(struct S_class_std_runtime_error *e, struct S_class_std_cxx11_basic_string *msg) { (void)e; (void)msg; }
#endif
#ifdef IR2C_NEED__ZNSt13runtime_errorC2EPKc
void _ZNSt13runtime_errorC2EPKc(struct S_class_std_runtime_error *e, uint8_t *msg) { (void)e; (void)msg; }
#endif
#ifdef IR2C_NEED__ZNSt13runtime_errorC2ERKNSt7__cxx1112basic_stringIcSt11char_traitsIcESaIcEEE
void _ZNSt13runtime_errorC2ERKNSt7__cxx1112basic_stringIcSt11char_traitsIcESaIcEEE(struct S_class_std_runtime_error *e, struct S_class_std_cxx11_basic_string *msg) { (void)e; (void)msg; }
#endif
#ifdef IR2C_NEED__ZNSt13runtime_errorD1Ev
void _ZNSt13runtime_errorD1Ev(struct S_class_std_runtime_error *e) { (void)e; }
#endif
#ifdef IR2C_NEED__ZNSt13runtime_errorD2Ev
void _ZNSt13runtime_errorD2Ev(struct S_class_std_runtime_error *e) { (void)e; }
#endif
#ifdef IR2C_NEED__ZNKSt13runtime_error4whatEv
uint8_t *_ZNKSt13runtime_error4whatEv(struct S_class_std_runtime_error *e) { (void)e; return (uint8_t *)"std::runtime_error"; }
#endif
#ifdef IR2C_NEED__ZNSt11logic_errorC1EPKc
void _ZNSt11logic_errorC1EPKc(struct S_class_std_logic_error *e, uint8_t *msg) { (void)e; (void)msg; }
#endif
#ifdef IR2C_NEED__ZNSt11logic_errorC1ERKNSt7__cxx1112basic_stringIcSt11char_traitsIcESaIcEEE
void _ZNSt11logic_errorC1ERKNSt7__cxx1112basic_stringIcSt11char_traitsIcESaIcEEE(struct S_class_std_logic_error *e, struct S_class_std_cxx11_basic_string *msg) { (void)e; (void)msg; }
#endif
#ifdef IR2C_NEED__ZNSt11logic_errorC2EPKc
void _ZNSt11logic_errorC2EPKc(struct S_class_std_logic_error *e, uint8_t *msg) { (void)e; (void)msg; }
#endif
#ifdef IR2C_NEED__ZNSt11logic_errorC2ERKNSt7__cxx1112basic_stringIcSt11char_traitsIcESaIcEEE
void _ZNSt11logic_errorC2ERKNSt7__cxx1112basic_stringIcSt11char_traitsIcESaIcEEE(struct S_class_std_logic_error *e, struct S_class_std_cxx11_basic_string *msg) { (void)e; (void)msg; }
#endif
#ifdef IR2C_NEED__ZNSt11logic_errorD1Ev
void _ZNSt11logic_errorD1Ev(struct S_class_std_logic_error *e) { (void)e; }
#endif
#ifdef IR2C_NEED__ZNSt11logic_errorD2Ev
void _ZNSt11logic_errorD2Ev(struct S_class_std_logic_error *e) { (void)e; }
#endif
#ifdef IR2C_NEED__ZNSt14overflow_errorC1EPKc
void _ZNSt14overflow_errorC1EPKc(struct S_class_std_overflow_error *e, uint8_t *msg) { (void)e; (void)msg; }
#endif
#ifdef IR2C_NEED__ZNSt14overflow_errorC1ERKNSt7__cxx1112basic_stringIcSt11char_traitsIcESaIcEEE
void _ZNSt14overflow_errorC1ERKNSt7__cxx1112basic_stringIcSt11char_traitsIcESaIcEEE(struct S_class_std_overflow_error *e, struct S_class_std_cxx11_basic_string *msg) { (void)e; (void)msg; }
#endif
#ifdef IR2C_NEED__ZNSt14overflow_errorC2EPKc
void _ZNSt14overflow_errorC2EPKc(struct S_class_std_overflow_error *e, uint8_t *msg) { (void)e; (void)msg; }
#endif
#ifdef IR2C_NEED__ZNSt14overflow_errorC2ERKNSt7__cxx1112basic_stringIcSt11char_traitsIcESaIcEEE
void _ZNSt14overflow_errorC2ERKNSt7__cxx1112basic_stringIcSt11char_traitsIcESaIcEEE(struct S_class_std_overflow_error *e, struct S_class_std_cxx11_basic_string *msg) { (void)e; (void)msg; }
#endif
#ifdef IR2C_NEED__ZNSt14overflow_errorD1Ev
void _ZNSt14overflow_errorD1Ev(struct S_class_std_overflow_error *e) { (void)e; }
#endif
#ifdef IR2C_NEED__ZNSt14overflow_errorD2Ev
void _ZNSt14overflow_errorD2Ev(struct S_class_std_overflow_error *e) { (void)e; }
#endif
#ifdef IR2C_NEED__ZNSt15underflow_errorC1EPKc
void _ZNSt15underflow_errorC1EPKc(struct S_class_std_underflow_error *e, uint8_t *msg) { (void)e; (void)msg; }
#endif
#ifdef IR2C_NEED__ZNSt15underflow_errorC1ERKNSt7__cxx1112basic_stringIcSt11char_traitsIcESaIcEEE
void _ZNSt15underflow_errorC1ERKNSt7__cxx1112basic_stringIcSt11char_traitsIcESaIcEEE(struct S_class_std_underflow_error *e, struct S_class_std_cxx11_basic_string *msg) { (void)e; (void)msg; }
#endif
#ifdef IR2C_NEED__ZNSt15underflow_errorC2EPKc
void _ZNSt15underflow_errorC2EPKc(struct S_class_std_underflow_error *e, uint8_t *msg) { (void)e; (void)msg; }
#endif
#ifdef IR2C_NEED__ZNSt15underflow_errorC2ERKNSt7__cxx1112basic_stringIcSt11char_traitsIcESaIcEEE
void _ZNSt15underflow_errorC2ERKNSt7__cxx1112basic_stringIcSt11char_traitsIcESaIcEEE(struct S_class_std_underflow_error *e, struct S_class_std_cxx11_basic_string *msg) { (void)e; (void)msg; }
#endif
#ifdef IR2C_NEED__ZNSt15underflow_errorD1Ev
void _ZNSt15underflow_errorD1Ev(struct S_class_std_underflow_error *e) { (void)e; }
#endif
#ifdef IR2C_NEED__ZNSt15underflow_errorD2Ev
void _ZNSt15underflow_errorD2Ev(struct S_class_std_underflow_error *e) { (void)e; }
#endif
#ifdef IR2C_NEED__ZNSt12out_of_rangeC1EPKc
void _ZNSt12out_of_rangeC1EPKc(struct S_class_std_out_of_range *e, uint8_t *msg) { (void)e; (void)msg; }
#endif
#ifdef IR2C_NEED__ZNSt12out_of_rangeC1ERKNSt7__cxx1112basic_stringIcSt11char_traitsIcESaIcEEE
void _ZNSt12out_of_rangeC1ERKNSt7__cxx1112basic_stringIcSt11char_traitsIcESaIcEEE(struct S_class_std_out_of_range *e, struct S_class_std_cxx11_basic_string *msg) { (void)e; (void)msg; }
#endif
#ifdef IR2C_NEED__ZNSt12out_of_rangeC2EPKc
void _ZNSt12out_of_rangeC2EPKc(struct S_class_std_out_of_range *e, uint8_t *msg) { (void)e; (void)msg; }
#endif
#ifdef IR2C_NEED__ZNSt12out_of_rangeC2ERKNSt7__cxx1112basic_stringIcSt11char_traitsIcESaIcEEE
void _ZNSt12out_of_rangeC2ERKNSt7__cxx1112basic_stringIcSt11char_traitsIcESaIcEEE(struct S_class_std_out_of_range *e, struct S_class_std_cxx11_basic_string *msg) { (void)e; (void)msg; }
#endif
#ifdef IR2C_NEED__ZNSt12out_of_rangeD1Ev
void _ZNSt12out_of_rangeD1Ev(struct S_class_std_out_of_range *e) { (void)e; }
#endif
#ifdef IR2C_NEED__ZNSt12out_of_rangeD2Ev
void _ZNSt12out_of_rangeD2Ev(struct S_class_std_out_of_range *e) { (void)e; }
#endif
#ifdef IR2C_NEED__ZNSt16invalid_argumentC1EPKc
void _ZNSt16invalid_argumentC1EPKc(struct S_class_std_invalid_argument *e, uint8_t *msg) { (void)e; (void)msg; }
#endif
#ifdef IR2C_NEED__ZNSt16invalid_argumentC1ERKNSt7__cxx1112basic_stringIcSt11char_traitsIcESaIcEEE
void _ZNSt16invalid_argumentC1ERKNSt7__cxx1112basic_stringIcSt11char_traitsIcESaIcEEE(struct S_class_std_invalid_argument *e, struct S_class_std_cxx11_basic_string *msg) { (void)e; (void)msg; }
#endif
#ifdef IR2C_NEED__ZNSt16invalid_argumentC2EPKc
void _ZNSt16invalid_argumentC2EPKc(struct S_class_std_invalid_argument *e, uint8_t *msg) { (void)e; (void)msg; }
#endif
#ifdef IR2C_NEED__ZNSt16invalid_argumentC2ERKNSt7__cxx1112basic_stringIcSt11char_traitsIcESaIcEEE
void _ZNSt16invalid_argumentC2ERKNSt7__cxx1112basic_stringIcSt11char_traitsIcESaIcEEE(struct S_class_std_invalid_argument *e, struct S_class_std_cxx11_basic_string *msg) { (void)e; (void)msg; }
#endif
#ifdef IR2C_NEED__ZNSt16invalid_argumentD1Ev
void _ZNSt16invalid_argumentD1Ev(struct S_class_std_invalid_argument *e) { (void)e; }
#endif
#ifdef IR2C_NEED__ZNSt16invalid_argumentD2Ev
void _ZNSt16invalid_argumentD2Ev(struct S_class_std_invalid_argument *e) { (void)e; }
#endif
#ifdef IR2C_NEED__ZNSt12length_errorC1EPKc
void _ZNSt12length_errorC1EPKc(struct S_class_std_length_error *e, uint8_t *msg) { (void)e; (void)msg; }
#endif
#ifdef IR2C_NEED__ZNSt12length_errorC1ERKNSt7__cxx1112basic_stringIcSt11char_traitsIcESaIcEEE
void _ZNSt12length_errorC1ERKNSt7__cxx1112basic_stringIcSt11char_traitsIcESaIcEEE(struct S_class_std_length_error *e, struct S_class_std_cxx11_basic_string *msg) { (void)e; (void)msg; }
#endif
#ifdef IR2C_NEED__ZNSt12length_errorC2EPKc
void _ZNSt12length_errorC2EPKc(struct S_class_std_length_error *e, uint8_t *msg) { (void)e; (void)msg; }
#endif
#ifdef IR2C_NEED__ZNSt12length_errorC2ERKNSt7__cxx1112basic_stringIcSt11char_traitsIcESaIcEEE
void _ZNSt12length_errorC2ERKNSt7__cxx1112basic_stringIcSt11char_traitsIcESaIcEEE(struct S_class_std_length_error *e, struct S_class_std_cxx11_basic_string *msg) { (void)e; (void)msg; }
#endif
#ifdef IR2C_NEED__ZNSt12length_errorD1Ev
void _ZNSt12length_errorD1Ev(struct S_class_std_length_error *e) { (void)e; }
#endif
#ifdef IR2C_NEED__ZNSt12length_errorD2Ev
void _ZNSt12length_errorD2Ev(struct S_class_std_length_error *e) { (void)e; }
#endif
#ifdef IR2C_NEED__ZNSt12domain_errorC1EPKc
void _ZNSt12domain_errorC1EPKc(struct S_class_std_domain_error *e, uint8_t *msg) { (void)e; (void)msg; }
#endif
#ifdef IR2C_NEED__ZNSt12domain_errorC1ERKNSt7__cxx1112basic_stringIcSt11char_traitsIcESaIcEEE
void _ZNSt12domain_errorC1ERKNSt7__cxx1112basic_stringIcSt11char_traitsIcESaIcEEE(struct S_class_std_domain_error *e, struct S_class_std_cxx11_basic_string *msg) { (void)e; (void)msg; }
#endif
#ifdef IR2C_NEED__ZNSt12domain_errorC2EPKc
void _ZNSt12domain_errorC2EPKc(struct S_class_std_domain_error *e, uint8_t *msg) { (void)e; (void)msg; }
#endif
#ifdef IR2C_NEED__ZNSt12domain_errorC2ERKNSt7__cxx1112basic_stringIcSt11char_traitsIcESaIcEEE
void _ZNSt12domain_errorC2ERKNSt7__cxx1112basic_stringIcSt11char_traitsIcESaIcEEE(struct S_class_std_domain_error *e, struct S_class_std_cxx11_basic_string *msg) { (void)e; (void)msg; }
#endif
#ifdef IR2C_NEED__ZNSt12domain_errorD1Ev
void _ZNSt12domain_errorD1Ev(struct S_class_std_domain_error *e) { (void)e; }
#endif
#ifdef IR2C_NEED__ZNSt12domain_errorD2Ev
void _ZNSt12domain_errorD2Ev(struct S_class_std_domain_error *e) { (void)e; }
#endif
#ifdef IR2C_NEED__ZNSt11range_errorC1EPKc
void _ZNSt11range_errorC1EPKc(struct S_class_std_range_error *e, uint8_t *msg) { (void)e; (void)msg; }
#endif
#ifdef IR2C_NEED__ZNSt11range_errorC1ERKNSt7__cxx1112basic_stringIcSt11char_traitsIcESaIcEEE
void _ZNSt11range_errorC1ERKNSt7__cxx1112basic_stringIcSt11char_traitsIcESaIcEEE(struct S_class_std_range_error *e, struct S_class_std_cxx11_basic_string *msg) { (void)e; (void)msg; }
#endif
#ifdef IR2C_NEED__ZNSt11range_errorC2EPKc
void _ZNSt11range_errorC2EPKc(struct S_class_std_range_error *e, uint8_t *msg) { (void)e; (void)msg; }
#endif
#ifdef IR2C_NEED__ZNSt11range_errorC2ERKNSt7__cxx1112basic_stringIcSt11char_traitsIcESaIcEEE
void _ZNSt11range_errorC2ERKNSt7__cxx1112basic_stringIcSt11char_traitsIcESaIcEEE(struct S_class_std_range_error *e, struct S_class_std_cxx11_basic_string *msg) { (void)e; (void)msg; }
#endif
#ifdef IR2C_NEED__ZNSt11range_errorD1Ev
void _ZNSt11range_errorD1Ev(struct S_class_std_range_error *e) { (void)e; }
#endif
#ifdef IR2C_NEED__ZNSt11range_errorD2Ev
void _ZNSt11range_errorD2Ev(struct S_class_std_range_error *e) { (void)e; }
#endif
/* ---- containers: out-of-line pieces of std::unordered_map / std::string (models written against IR2C_ARGS_/IR2C_RET_) */
#ifdef IR2C_NEED__ZSt20__throw_out_of_rangePKc
#ifndef IR2C_NEED__ZSt24__throw_out_of_range_fmtPKcz
struct ir2c_typeinfo ir2c_ti_out_of_range = { (void *)&ir2c_class_vt, "St12out_of_range", 0 };
#endif
void _ZSt20__throw_out_of_rangePKc(uint8_t *msg) { (void)msg; ir2c_throw_std(&ir2c_ti_out_of_range); }
#endif
/* std::_Hash_bytes: a fixed polynomial over the first <= 8 bytes and the length (injective on strings of <= 7 bytes;
 * only determinism matters for correctness of the containers) */
#ifdef IR2C_NEED__ZSt11_Hash_bytesPKvmm
uint64_t _ZSt11_Hash_bytesPKvmm(uint8_t *p, uint64_t len, uint64_t seed) {
  uint64_t h = len; (void)seed;
  for (uint64_t i = 0; i < 8; i++) { if (i >= len) break; h = h * (uint64_t)257 + (uint64_t)p[i]; }
  return h;
}
#endif
/* hash table growth policy: never rehash (the table keeps its initial single bucket; all elements chain there).
 * Sound for functional behaviour: libstdc++ accepts any bucket count, only performance depends on it. */
#ifdef IR2C_NEED__ZNKSt8__detail20_Prime_rehash_policy14_M_need_rehashEmmm
IR2C_RET__ZNKSt8__detail20_Prime_rehash_policy14_M_need_rehashEmmm _ZNKSt8__detail20_Prime_rehash_policy14_M_need_rehashEmmm(IR2C_ARGS__ZNKSt8__detail20_Prime_rehash_policy14_M_need_rehashEmmm) {
  IR2C_RET__ZNKSt8__detail20_Prime_rehash_policy14_M_need_rehashEmmm r;
  (void)a0; (void)a1; (void)a2; (void)a3;
  r.f0 = 0; r.f1 = 0;
  return r;
}
#endif
/* std::allocator<char>: stateless */
#ifdef IR2C_NEED__ZNSaIcEC2Ev
void _ZNSaIcEC2Ev(IR2C_ARGS__ZNSaIcEC2Ev) { (void)a0; }
#endif
#ifdef IR2C_NEED__ZNSaIcEC1Ev
void _ZNSaIcEC1Ev(IR2C_ARGS__ZNSaIcEC1Ev) { (void)a0; }
#endif
#ifdef IR2C_NEED__ZNSaIcED2Ev
void _ZNSaIcED2Ev(IR2C_ARGS__ZNSaIcED2Ev) { (void)a0; }
#endif
#ifdef IR2C_NEED__ZNSaIcED1Ev
void _ZNSaIcED1Ev(IR2C_ARGS__ZNSaIcED1Ev) { (void)a0; }
#endif
#ifdef IR2C_NEED__ZNSaIcEC2ERKS_
void _ZNSaIcEC2ERKS_(IR2C_ARGS__ZNSaIcEC2ERKS_) { (void)a0; (void)a1; }
#endif
#ifdef IR2C_NEED__ZNSaIcEC1ERKS_
void _ZNSaIcEC1ERKS_(IR2C_ARGS__ZNSaIcEC1ERKS_) { (void)a0; (void)a1; }
#endif

/* std::_Rb_tree_increment (in-order successor; libstdc++ tree.cc): iteration over std::set / std::map.
 * Node layout as declared by the IR: f0 colour, f1 parent, f2 left, f3 right; header.parent = root, header.right = rightmost. */
#ifdef IR2C_NEED__ZSt18_Rb_tree_incrementPKSt18_Rb_tree_node_base
IR2C_RET__ZSt18_Rb_tree_incrementPKSt18_Rb_tree_node_base _ZSt18_Rb_tree_incrementPKSt18_Rb_tree_node_base(IR2C_ARGS__ZSt18_Rb_tree_incrementPKSt18_Rb_tree_node_base) {
  IR2C_RET__ZSt18_Rb_tree_incrementPKSt18_Rb_tree_node_base x = a0;
  IR2C_RET__ZSt18_Rb_tree_incrementPKSt18_Rb_tree_node_base y;
  if (x->f3 != 0) { x = x->f3; while (x->f2 != 0) x = x->f2; }
  else { y = x->f1; while (x == y->f3) { x = y; y = y->f1; } if (x->f3 != y) x = y; }
  return x;
}
#endif
#ifdef IR2C_NEED__ZSt18_Rb_tree_incrementPSt18_Rb_tree_node_base
IR2C_RET__ZSt18_Rb_tree_incrementPSt18_Rb_tree_node_base _ZSt18_Rb_tree_incrementPSt18_Rb_tree_node_base(IR2C_ARGS__ZSt18_Rb_tree_incrementPSt18_Rb_tree_node_base) {
  IR2C_RET__ZSt18_Rb_tree_incrementPSt18_Rb_tree_node_base x = a0;
  IR2C_RET__ZSt18_Rb_tree_incrementPSt18_Rb_tree_node_base y;
  if (x->f3 != 0) { x = x->f3; while (x->f2 != 0) x = x->f2; }
  else { y = x->f1; while (x == y->f3) { x = y; y = y->f1; } if (x->f3 != y) x = y; }
  return x;
}
#endif

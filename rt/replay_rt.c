/* Native replay runtime: linked with a clang-compiled copy of the model-checked IR module.
 * nondet_* return the counterexample's input values in call order; assertions report, assumptions flag. */
#include <stdio.h>
#include <stdlib.h>
#include <stdint.h>

static FILE *inf;
static int n_assert_failed, n_assume_failed;
static unsigned long long next_input(void) {
  unsigned long long v = 0;
  if (!inf) { const char *p = getenv("IR2C_INPUTS"); if (p) inf = fopen(p, "r"); }
  if (inf && fscanf(inf, "%llu", &v) == 1) return v;
  return 0;
}
uint8_t nondet_u8(void) { return (uint8_t)next_input(); }
uint16_t nondet_u16(void) { return (uint16_t)next_input(); }
uint32_t nondet_u32(void) { return (uint32_t)next_input(); }
uint64_t nondet_u64(void) { return (uint64_t)next_input(); }
void __CPROVER_assert(_Bool c, const char *msg) {
  if (!c && !n_assume_failed) { n_assert_failed++; printf("REPLAY-ASSERT-FAILED: %s\n", msg); fflush(stdout); }
}
void __CPROVER_assume(_Bool c) {
  if (!c && !n_assume_failed) { n_assume_failed++; printf("REPLAY-ASSUME-FAILED\n"); fflush(stdout); exit(3); }
}
int replay_finish(void) { return n_assert_failed ? 1 : 0; }

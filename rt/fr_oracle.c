/* Exact-arithmetic oracle and symbolic-state builder for opensmt::FastRational (C side of the C15/C27
 * harnesses). Works on the object layout that the IR declares: { i8 state, i32 num, i32 den, mpq* }.
 * Wide arithmetic lives here (C, never width-scaled) so that the oracle is exact in scaled mode too.
 * Requires gmp_model.c to be included before this file. */
typedef struct S_class_opensmt_FastRational fr_m;

#ifdef IR2C_SCALE
#define FR_W IR2C_SCALE
#else
#define FR_W 32
#endif
#define FR_WMASK ((((uint64_t)1) << FR_W) - 1)
#ifndef FR_MPQ_BITS            /* magnitude bound of operands held in mpq form: |num| < 2^FR_MPQ_BITS, den < 2^FR_MPQ_BITS */
#define FR_MPQ_BITS (FR_W + 2)
#endif

typedef struct { gz2_t n, d; } fr_val_t;
#define FR_SLOTS 4
static fr_val_t fr_slot[FR_SLOTS];

static gz2_t fr_word_num(const fr_m *x) {   /* signed reading of the W-bit num field */
  uint64_t v = (uint64_t)x->f1 & FR_WMASK;
  if (v >> (FR_W - 1)) return (gz2_t)v - ((gz2_t)1 << FR_W);
  return (gz2_t)v;
}
static gz2_t fr_word_den(const fr_m *x) { return (gz2_t)((uint64_t)x->f2 & FR_WMASK); }
static int fr_fits_word(gz2_t n, gz2_t d) {
  return n >= -((gz2_t)1 << (FR_W - 1)) && n < ((gz2_t)1 << (FR_W - 1)) && d >= 0 && d < ((gz2_t)1 << FR_W);
}
static int gz2_coprime(gz2_t a, gz2_t b) {   /* a,b >= 0, not both 0; decided by a nondet Bezout witness */
  if (a == 0) return b == 1;
  if (b == 0) return a == 1;
  if (a == 1 || b == 1) return 1;
  gz_t x = GZ_NONDET(), y = GZ_NONDET();
  __CPROVER_assume(x >= -(gz_t)b && x <= (gz_t)b && y >= -(gz_t)a && y <= (gz_t)a);
  return (gz2_t)x * a + (gz2_t)y * b == 1;
}
/* "not coprime" witnessed by a common divisor: used to REFUTE canonicity (a nondet divisor > 1 dividing both) */
static int gz2_common_divisor_exists(gz2_t a, gz2_t b) {
  gz_t g = GZ_NONDET();
  if (a < 0) a = -a;
  if (g < 2 || (gz2_t)g > b) return 0;
  return (a % g == 0) && (b % g == 0);
}

/* values that are canonical by assumption (operand snapshots, opaque GMP results): no divisor refutation needed */
static int fr_slot_used[FR_SLOTS];
static int fr_known_canonical(gz2_t n, gz2_t d) {
  for (int i = 0; i < FR_SLOTS; i++) if (fr_slot_used[i] && fr_slot[i].n == n && fr_slot[i].d == d) return 1;
#ifdef GMP_OPAQUE_ARITH
  if (gq_nops > 0 && n == gq_rn && d == gq_rd) return 1;
#endif
  return 0;
}
/* value of a FastRational according to its state byte; asserts the representation invariant */
uint8_t vfr_wellformed(fr_m *x) {
  uint8_t st = x->f0;
  if (!(st == 1 || st == 3 || st == 6 || st == 7)) return 0;
  if (st & 1) {
    gz2_t n = fr_word_num(x), d = fr_word_den(x);
    if (d == 0) return 0;
    if (!fr_known_canonical(n, d) && gz2_common_divisor_exists(n, d)) return 0;
  }
  if (st & 4) {
    if (x->f3 == 0) return 0;
    gz_t n = gz_get(&x->f3->f0), d = gz_get(&x->f3->f1);
    if (d <= 0) return 0;
    if (!fr_known_canonical(n, d) && gz2_common_divisor_exists(n, d)) return 0;
    if (st & 1) { if (n != fr_word_num(x) || d != fr_word_den(x)) return 0; }
    else if (fr_fits_word(n, d)) return 0;      /* equal values must have equal representation */
  }
  if ((st & 2) && x->f3 == 0) return 0;
  return 1;
}
static fr_val_t fr_value(fr_m *x) {
  fr_val_t v;
  if (x->f0 & 1) { v.n = fr_word_num(x); v.d = fr_word_den(x); }
  else { v.n = gz_get(&x->f3->f0); v.d = gz_get(&x->f3->f1); }
  return v;
}
void vfr_snapshot(uint8_t slot, fr_m *x) { fr_slot[slot % FR_SLOTS] = fr_value(x); fr_slot_used[slot % FR_SLOTS] = 1; }
uint8_t vfr_same_as(uint8_t slot, fr_m *x) {
  fr_val_t v = fr_value(x), s = fr_slot[slot % FR_SLOTS];
  return v.n == s.n && v.d == s.d;
}
/* r == slot_a (op) slot_b exactly; op: 0 +, 1 -, 2 *, 3 / */
uint8_t vfr_is_result(fr_m *r, uint8_t op, uint8_t sa, uint8_t sb) {
  fr_val_t a = fr_slot[sa % FR_SLOTS], b = fr_slot[sb % FR_SLOTS], v = fr_value(r);
#ifdef GMP_OPAQUE_ARITH
  if (gq_nops == 0) {
    /* no GMP operation: only the trivial identities may be answered without one */
    if (op == 0) return (b.n == 0 && v.n == a.n && v.d == a.d) || (a.n == 0 && v.n == b.n && v.d == b.d);
    if (op == 1) return (b.n == 0 && v.n == a.n && v.d == a.d);
    if (op == 2) return ((a.n == 0 || b.n == 0) && v.n == 0 && v.d == 1) || (a.n == 1 && a.d == 1 && v.n == b.n && v.d == b.d) || (b.n == 1 && b.d == 1 && v.n == a.n && v.d == a.d);
    return (b.n == 1 && b.d == 1 && v.n == a.n && v.d == a.d) || (a.n == 0 && v.n == 0 && v.d == 1);
  }
  /* exactly one GMP operation of the right kind on exactly the two operand values, and its result is the answer */
  return gq_nops == 1 && gq_kind == op && gq_an == a.n && gq_ad == a.d && gq_bn == b.n && gq_bd == b.d && v.n == gq_rn && v.d == gq_rd;
#endif
  gz2_t n, d;
  if (op == 0) { n = a.n * b.d + b.n * a.d; d = a.d * b.d; }
  else if (op == 1) { n = a.n * b.d - b.n * a.d; d = a.d * b.d; }
  else if (op == 2) { n = a.n * b.n; d = a.d * b.d; }
  else { n = a.n * b.d; d = a.d * b.n; }
  if (d == 0 || v.d <= 0) return 0;
  return v.n * d == n * v.d;          /* cross-multiplication: same rational */
}
/* r == value n/d given as small integers */
uint8_t vfr_is_frac(fr_m *r, uint64_t n_lo, uint64_t d_lo) {
  fr_val_t v = fr_value(r);
  return v.n * gz_zx64(d_lo) == gz_sx64(n_lo) * v.d;
}
/* sign / compare oracles on snapshots */
uint8_t vfr_cmp(uint8_t sa, uint8_t sb) {      /* 0: equal, 1: a > b, 2: a < b */
  fr_val_t a = fr_slot[sa % FR_SLOTS], b = fr_slot[sb % FR_SLOTS];
  gz2_t l = a.n * b.d, r = b.n * a.d;
  return l < r ? 2 : (l > r ? 1 : 0);
}
uint8_t vfr_slot_is_integer(uint8_t s) { return fr_slot[s % FR_SLOTS].d == 1; }
uint8_t vfr_slot_is_zero(uint8_t s) { return fr_slot[s % FR_SLOTS].n == 0; }
uint8_t vfr_slot_is_neg(uint8_t s) { return fr_slot[s % FR_SLOTS].n < 0; }
/* floor / ceil of slot: r integer with r*d <= n < (r+1)*d  resp. (r-1)*d < n <= r*d */
uint8_t vfr_is_floor(fr_m *r, uint8_t s) {
  fr_val_t a = fr_slot[s % FR_SLOTS], v = fr_value(r);
  return v.d == 1 && v.n * a.d <= a.n && a.n < (v.n + 1) * a.d;
}
uint8_t vfr_is_ceil(fr_m *r, uint8_t s) {
  fr_val_t a = fr_slot[s % FR_SLOTS], v = fr_value(r);
  return v.d == 1 && (v.n - 1) * a.d < a.n && a.n <= v.n * a.d;
}
/* integer helpers: both slots integers */
uint8_t vfr_is_fdiv(fr_m *r, uint8_t sn, uint8_t sd) {   /* floor(n/d) */
  fr_val_t n = fr_slot[sn % FR_SLOTS], d = fr_slot[sd % FR_SLOTS], v = fr_value(r);
  if (v.d != 1 || d.n == 0) return 0;
  gz2_t rem = n.n - v.n * d.n;
  return d.n > 0 ? (rem >= 0 && rem < d.n) : (rem <= 0 && rem > d.n);
}
uint8_t vfr_is_mod_sign_of_d(fr_m *r, uint8_t sn, uint8_t sd) {  /* r = n - floor(n/d)*d */
  fr_val_t n = fr_slot[sn % FR_SLOTS], d = fr_slot[sd % FR_SLOTS], v = fr_value(r);
  if (v.d != 1 || d.n == 0) return 0;
  gz2_t diff = n.n - v.n;       /* must be a multiple of d, and r between 0 and d */
  if (diff % d.n != 0) return 0;
  return d.n > 0 ? (v.n >= 0 && v.n < d.n) : (v.n <= 0 && v.n > d.n);
}
uint8_t vfr_is_gcd(fr_m *r, uint8_t sa, uint8_t sb) {
  fr_val_t a = fr_slot[sa % FR_SLOTS], b = fr_slot[sb % FR_SLOTS], v = fr_value(r);
  gz2_t x = a.n < 0 ? -a.n : a.n, y = b.n < 0 ? -b.n : b.n;
  if (v.d != 1 || v.n < 0) return 0;
  if (x == 0 && y == 0) return v.n == 0;
  if (v.n == 0) return 0;
  if (x % v.n != 0 || y % v.n != 0) return 0;
  return !gz2_common_divisor_exists(x / v.n, y / v.n);   /* asserted: refuted by a nondet common divisor */
}
uint8_t vfr_is_lcm(fr_m *r, uint8_t sa, uint8_t sb) {
  fr_val_t a = fr_slot[sa % FR_SLOTS], b = fr_slot[sb % FR_SLOTS], v = fr_value(r);
  gz2_t x = a.n < 0 ? -a.n : a.n, y = b.n < 0 ? -b.n : b.n;
  if (v.d != 1 || v.n < 0) return 0;
  if (x == 0 || y == 0) return v.n == 0;
  if (v.n == 0 || v.n % x != 0 || v.n % y != 0) return 0;
  return !gz2_common_divisor_exists(v.n / x, v.n / y);
}

/* ---- symbolic well-formed FastRational in any of its valid states.
 * kinds: bit0 allow word form, bit1 allow mpq form (value outside word range), bit2 allow both-valid */
void vfr_make(fr_m *x, uint8_t kinds) {
  uint8_t k = nondet_u8();
  ir2c_in_u8 = k;
  __CPROVER_assume(k < 4);
  /* 0: WORD_VALID, 1: WORD_PLUS_MPQ_INITIALIZED, 2: MPQ_ALLOCATED_AND_VALID, 3: WORD_AND_MPQ */
  __CPROVER_assume(((k == 0 || k == 1) && (kinds & 1)) || (k == 2 && (kinds & 2)) || (k == 3 && (kinds & 4)));
  uint32_t num = nondet_u32(); ir2c_in_u32 = num;
  uint32_t den = nondet_u32(); ir2c_in_u32 = den;
  uint64_t bn = nondet_u64(); ir2c_in_u64 = bn;
  uint64_t bd = nondet_u64(); ir2c_in_u64 = bd;
  x->f3 = 0;
  if (k != 0) {
    mpq_m *q = (mpq_m *)malloc(sizeof(mpq_m));
    __CPROVER_assume(q != 0);
    __gmpq_init(q);
    x->f3 = q;
  }
  if (k == 0 || k == 1 || k == 3) {
    num &= FR_WMASK; den &= FR_WMASK;
    x->f1 = num; x->f2 = den;
    gz2_t n = fr_word_num(x), d = fr_word_den(x);
    __CPROVER_assume(d >= 1);
    __CPROVER_assume(gz2_coprime(n < 0 ? -n : n, d));
    x->f0 = (k == 0) ? 1 : (k == 1 ? 3 : 7);
    if (k == 3) { gz_put(&x->f3->f0, n); gz_put(&x->f3->f1, d); }
    if (k == 1) {   /* allocated but invalid mpq part: arbitrary contents */
      gz_t jn = GZ_NONDET(), jd = GZ_NONDET();
      __CPROVER_assume(jn > -((gz_t)1 << FR_MPQ_BITS) && jn < ((gz_t)1 << FR_MPQ_BITS) && jd >= 1 && jd < ((gz_t)1 << FR_MPQ_BITS));
      gz_put(&x->f3->f0, jn); gz_put(&x->f3->f1, jd);
    }
  } else {
    gz2_t n = gz_sx64(bn), d = gz_zx64(bd);
    __CPROVER_assume(n > -((gz2_t)1 << FR_MPQ_BITS) && n < ((gz2_t)1 << FR_MPQ_BITS));
    __CPROVER_assume(d >= 1 && d < ((gz2_t)1 << FR_MPQ_BITS));
    __CPROVER_assume(!fr_fits_word(n, d));
    __CPROVER_assume(gz2_coprime(n < 0 ? -n : n, d));
    x->f1 = (ir2c_in_u32 = nondet_u32()) & FR_WMASK; x->f2 = (ir2c_in_u32 = nondet_u32()) & FR_WMASK;    /* stale word part */
    x->f0 = 6;
    gz_put(&x->f3->f0, n); gz_put(&x->f3->f1, d);
  }
}
uint8_t vfr_state(fr_m *x) { return x->f0; }
/* replacement for FastRational::mpqPool::alloc/release (the pool itself is the subject of C24 only) */
mpq_m *vfr_pool_alloc(struct S_class_opensmt_FastRational_mpqPool *pool) { (void)pool; mpq_m *q = (mpq_m *)malloc(sizeof(mpq_m)); __CPROVER_assume(q != 0); __gmpq_init(q); return q; }
void vfr_pool_release(struct S_class_opensmt_FastRational_mpqPool *pool, mpq_m *q) { (void)pool; (void)q; }
/* canonical FastRational holding the (scaled: 2W-bit, else 64-bit) signed integer x: word form iff it fits */
void vfr_make_int(fr_m *x, uint64_t v) {
  gz2_t n = gz_sx64(v);
  x->f3 = 0;
  if (fr_fits_word(n, 1)) { x->f0 = 1; x->f1 = (uint32_t)(v & FR_WMASK); x->f2 = 1; return; }
  mpq_m *q = (mpq_m *)malloc(sizeof(mpq_m));
  __CPROVER_assume(q != 0);
  __gmpq_init(q);
  gz_put(&q->f0, n); gz_put(&q->f1, 1);
  x->f3 = q; x->f0 = 6; x->f1 = 0; x->f2 = 1;
}
/* ---- oracles for unary / integer operations (snapshots in slots) */
uint8_t vfr_is_neg_of(fr_m *r, uint8_t s) { fr_val_t a = fr_slot[s % FR_SLOTS], v = fr_value(r); return v.n == -a.n && v.d == a.d; }
uint8_t vfr_is_inverse_of(fr_m *r, uint8_t s) {
  fr_val_t a = fr_slot[s % FR_SLOTS], v = fr_value(r);
  return a.n > 0 ? (v.n == a.d && v.d == a.n) : (v.n == -a.d && v.d == -a.n);
}
uint8_t vfr_is_num_of(fr_m *r, uint8_t s) { fr_val_t a = fr_slot[s % FR_SLOTS], v = fr_value(r); return v.n == a.n && v.d == 1; }
uint8_t vfr_is_den_of(fr_m *r, uint8_t s) { fr_val_t a = fr_slot[s % FR_SLOTS], v = fr_value(r); return v.n == a.d && v.d == 1; }
uint8_t vfr_slot_sign(uint8_t s) { fr_val_t a = fr_slot[s % FR_SLOTS]; return a.n < 0 ? 2 : (a.n > 0 ? 1 : 0); }   /* 2 = negative */
uint8_t vfr_slots_equal(uint8_t sa, uint8_t sb) { return fr_slot[sa % FR_SLOTS].n == fr_slot[sb % FR_SLOTS].n && fr_slot[sa % FR_SLOTS].d == fr_slot[sb % FR_SLOTS].d; }
uint8_t vfr_slot_divides(uint8_t sd, uint8_t sn) { fr_val_t d = fr_slot[sd % FR_SLOTS], n = fr_slot[sn % FR_SLOTS]; return d.n != 0 && n.n % d.n == 0; }
uint8_t vfr_is_exact_quotient(fr_m *r, uint8_t sn, uint8_t sd) { fr_val_t n = fr_slot[sn % FR_SLOTS], d = fr_slot[sd % FR_SLOTS], v = fr_value(r); return v.d == 1 && v.n * d.n == n.n; }
/* r equals the canonical form of n/d given as raw word fields (constructor FastRational(word, uword)) */
uint8_t vfr_is_canonical_of_raw(fr_m *r, uint32_t n, uint32_t d) {
  fr_m t; t.f1 = n & FR_WMASK; t.f2 = d & FR_WMASK;
  gz2_t rn = fr_word_num(&t), rd = fr_word_den(&t); fr_val_t v = fr_value(r);
  return v.d > 0 && v.n * rd == rn * v.d;
}
/* symbolic well-formed INTEGER (den == 1) in any representation */
void vfr_make_integer(fr_m *x, uint8_t kinds) {
  vfr_make(x, kinds);
  fr_val_t v = fr_value(x);
  __CPROVER_assume(v.d == 1);
}
uint8_t vfr_is_uint(fr_m *r, uint32_t v) { fr_val_t x = fr_value(r); return x.d == 1 && x.n == (gz2_t)((uint64_t)v & FR_WMASK); }
/* integer bound tightening: for EVERY integer v:  (v < c  resp. v <= c)  <=>  v <= ub   and its negation  <=>  v >= lb */
uint8_t vfr_int_bounds_ok(uint8_t strict, uint8_t sc, uint8_t sub, uint8_t slb) {
  fr_val_t c = fr_slot[sc % FR_SLOTS], ub = fr_slot[sub % FR_SLOTS], lb = fr_slot[slb % FR_SLOTS];
  if (ub.d != 1 || lb.d != 1) return 0;
  gz_t v = GZ_NONDET();
  if (v < -((gz_t)1 << (FR_W + 1)) || v > ((gz_t)1 << (FR_W + 1))) return 1;
  int holds = strict ? ((gz2_t)v * c.d < c.n) : ((gz2_t)v * c.d <= c.n);
  return (holds == ((gz2_t)v <= ub.n)) && ((!holds) == ((gz2_t)v >= lb.n));
}
/* SMT-LIB (Euclidean) integer division: n = d*q + r, 0 <= r < |d| */
uint8_t vfr_is_euclid_div(fr_m *q, uint8_t sn, uint8_t sd) {
  fr_val_t n = fr_slot[sn % FR_SLOTS], d = fr_slot[sd % FR_SLOTS], v = fr_value(q);
  if (v.d != 1 || d.n == 0) return 0;
  gz2_t r = n.n - d.n * v.n, ad = d.n < 0 ? -d.n : d.n;
  return r >= 0 && r < ad;
}
uint8_t vfr_is_euclid_mod(fr_m *m, uint8_t sn, uint8_t sd) {
  fr_val_t n = fr_slot[sn % FR_SLOTS], d = fr_slot[sd % FR_SLOTS], v = fr_value(m);
  if (v.d != 1 || d.n == 0) return 0;
  gz2_t ad = d.n < 0 ? -d.n : d.n;
  return v.n >= 0 && v.n < ad && (n.n - v.n) % d.n == 0;
}

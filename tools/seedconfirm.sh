#!/bin/bash
# usage: seedconfirm.sh <seed_dir> <worktree>   -- re-confirms a seeded change: builds, all tests pass, demo fails with it and passes without
sd=$1; wt=$2; log=$sd/confirm.log; : > $log
run_demo() {  # prints PASS or FAIL
  local ok=1
  if [ -f $sd/demo.cc ]; then
    g++ -std=c++20 -O1 -DNDEBUG -w -I$wt/src -I$wt/_build/src $sd/demo.cc -o $sd/demo_bin $wt/_build/lib/libopensmt.so -lgmpxx -lgmp -Wl,-rpath,$wt/_build/lib >> $log 2>&1 || { echo BUILDFAIL; return; }
    $sd/demo_bin >> $log 2>&1 || ok=0
  fi
  for s in $sd/demo*.smt2; do
    [ -f "$s" ] || continue
    b=$(basename $s .smt2); exp=$sd/expected${b#demo}.out; [ -f $exp ] || exp=$sd/expected_output${b#demo}.txt
    [ -f $exp ] || exp=$sd/$b.expected.out
    [ -f $exp ] || continue
    timeout 120 $wt/_build/opensmt $s > $sd/out_$b.txt 2>&1
    diff -q $sd/out_$b.txt $exp >> $log 2>&1 || ok=0
  done
  if [ -f $sd/compare.sh ] && [ -f $sd/demo.smt2 ]; then
    OSMT=$wt/_build/opensmt bash $sd/compare.sh $sd/demo.smt2 >> $log 2>&1 || ok=0
  fi
  if [ -f $sd/run_demo.sh ]; then
    [ -f $sd/build_demo.sh ] && bash $sd/build_demo.sh >> $log 2>&1
    bash $sd/run_demo.sh $wt/_build/opensmt >> $log 2>&1 || ok=0
  fi
  [ $ok = 1 ] && echo PASS || echo FAIL
}
cd $wt && git checkout -q -- . && cmake --build _build -j8 >> $log 2>&1
base=$(run_demo)
git apply $sd/patch.diff || { echo "$sd: PATCH-DOES-NOT-APPLY"; exit 1; }
cmake --build _build -j8 >> $log 2>&1 || { echo "$sd: DOES-NOT-COMPILE"; git checkout -q -- .; exit 1; }
tests=$(ctest --test-dir _build -j6 --timeout 900 2>&1 | grep -E "tests passed|tests failed" | head -1)
mut=$(run_demo)
git checkout -q -- . && cmake --build _build -j8 >> $log 2>&1
echo "$sd: unmodified-demo=$base  with-change: tests=[$tests] demo=$mut"

#!/usr/bin/env python3
"""rewrites the seeded-change table of DESIGN.md (between the SEEDED-TABLE markers) from seeded/*/meta.json"""
import subprocess, re
t = subprocess.run(['python3', '/verif/tools/seeded_table.py'], capture_output=True, text=True).stdout
p = '/verif/DESIGN.md'; s = open(p).read()
s = re.sub(r'<!-- SEEDED-TABLE-BEGIN -->.*<!-- SEEDED-TABLE-END -->', lambda m: '<!-- SEEDED-TABLE-BEGIN -->\n' + t + '<!-- SEEDED-TABLE-END -->', s, flags=re.S)
open(p, 'w').write(s)
